(** C12 — theorems: a subshell leaves every non-shared field of its parent as it was (the only
    things that flow back are the status and, for shared fields, everything); the full isolation
    statement fails exactly for the mutators of process-global state. The obligations on the
    regenerated table [shell_clone_table] are re-checked against the source on every run. *)
From Coq Require Import String.
From BV Require Import Base.Prelude Base.Codec Subshell.Kinds gen.ShellFields Subshell.Model Subshell.Entry.

(** ** induction principle for the nested mutator type *)
Section MutInd.
  Variable P : mut -> Prop.
  Hypothesis Hf : forall f v, P (MField f v).
  Hypothesis Hu : forall z, P (MUmask z).
  Hypothesis Hl : forall z, P (MUlimit z).
  Hypothesis Hx : forall n, P (MExit n).
  Hypothesis Hs : forall c body, Forall P body -> P (MSub c body).
  Fixpoint mut_ind' (m : mut) : P m :=
    match m with
    | MField f v => Hf f v
    | MUmask z => Hu z
    | MUlimit z => Hl z
    | MExit n => Hx n
    | MSub c body => Hs c body ((fix go (l : list mut) : Forall P l :=
                                   match l with
                                   | [] => Forall_nil _
                                   | x :: r => Forall_cons _ (mut_ind' x) (go r)
                                   end) body)
    end.
End MutInd.

Lemma run_sub_eq c body w :
  run_mut (MSub c body) w =
  let '(w', fl') := run_list body (clone_shell (fst w), snd w) in
  ((cset status_field [lit "?"] (merge_back shell_clone_table (fst w) (fst w')), snd w'),
   match c, fl' with _, _ => Go end).
Proof. reflexivity. Qed.

(** ** finite-map facts *)
Lemma cget_cset_same f v s : cget f (cset f v s) = v.
Proof.
  induction s as [|[g w] s IH]; cbn; [rewrite String.eqb_refl; reflexivity|].
  destruct (String.eqb f g) eqn:E; cbn; rewrite E; [reflexivity | exact IH].
Qed.

Lemma cget_cset_other f g v s : f <> g -> cget f (cset g v s) = cget f s.
Proof.
  intros Hne. induction s as [|[h w] s IH]; cbn.
  - destruct (String.eqb f g) eqn:E; [apply String.eqb_eq in E; contradiction | reflexivity].
  - destruct (String.eqb g h) eqn:E; cbn.
    + apply String.eqb_eq in E. subst h.
      destruct (String.eqb f g) eqn:E2; [apply String.eqb_eq in E2; contradiction | reflexivity].
    + destruct (String.eqb f h); [reflexivity | exact IH].
Qed.

(** [merge_back] writes only shared fields *)
Lemma merge_back_other f tbl p ch :
  ~ In f (shared_fields tbl) -> cget f (merge_back tbl p ch) = cget f p.
Proof.
  induction tbl as [|[g k] tbl IH]; intros H; cbn; [reflexivity|].
  unfold shared_fields in *. cbn in H.
  destruct k; cbn in *; try (apply IH; exact H).
  rewrite cget_cset_other; [apply IH; tauto | intros ->; tauto].
Qed.

(** ** obligations on the regenerated table *)
(** every field of `struct Shell` is produced by `Clone for Shell` (same names, same order) *)
Lemma clone_table_complete : map fst shell_struct_fields = map fst shell_clone_table.
Proof. vm_compute. reflexivity. Qed.

(** no field aliases the parent's data, except the known one *)
Lemma shared_fields_known : shared_fields shell_clone_table = known_shared.
Proof. vm_compute. reflexivity. Qed.

(** every field whose content the mutator grammar changes is a field of the struct, and is
    deep-copied by clone *)
Fixpoint kind_of (f : string) (tbl : list (string * clone_kind)) : option clone_kind :=
  match tbl with
  | [] => None
  | (g, k) :: tbl' => if String.eqb f g then Some k else kind_of f tbl'
  end.

Lemma observed_fields_cloned :
  forallb (fun f => match kind_of f shell_clone_table with Some CkClone => true | _ => false end) observed = true.
Proof. vm_compute. reflexivity. Qed.

(** ** the subshell theorem *)
Theorem subshell_preserves_cloned : forall c body w f,
  ~ In f known_shared -> flows_back f = false ->
  cget f (fst (fst (run_mut (MSub c body) w))) = cget f (fst w).
Proof.
  intros c body w f Hk Hs. rewrite run_sub_eq.
  destruct (run_list body (clone_shell (fst w), snd w)) as [w' fl]. cbn [fst].
  rewrite cget_cset_other.
  - apply merge_back_other. rewrite shared_fields_known. exact Hk.
  - unfold flows_back in Hs. intros ->. rewrite String.eqb_refl in Hs. discriminate.
Qed.

(** the child starts from the parent's state *)
Lemma cget_clone_with f s : forall tbl,
  cget f (clone_with tbl s) = match kind_of f tbl with Some k => clone_content k (cget f s) | None => [] end.
Proof.
  induction tbl as [|[g k] tbl IH]; cbn; [reflexivity|].
  destruct (String.eqb f g) eqn:E; [apply String.eqb_eq in E; subst; reflexivity | exact IH].
Qed.

Theorem clone_starts_equal : forall f s,
  In f observed -> cget f (clone_shell s) = cget f s.
Proof.
  intros f s Hin. unfold clone_shell. rewrite cget_clone_with.
  pose proof observed_fields_cloned as H. rewrite forallb_forall in H. specialize (H f Hin).
  destruct (kind_of f shell_clone_table) as [[]|]; try discriminate. reflexivity.
Qed.

(** ** process-global state *)
Lemma run_pg : forall m w, touches_pg m = false -> snd (fst (run_mut m w)) = snd w.
Proof.
  intros m. induction m using mut_ind'; intros w T; try discriminate; try reflexivity.
  rewrite run_sub_eq. cbn [touches_pg] in T.
  assert (Hl : forall l w0, Forall (fun m => forall w, touches_pg m = false -> snd (fst (run_mut m w)) = snd w) l ->
               (fix any (l : list mut) : bool := match l with [] => false | x :: r => touches_pg x || any r end) l = false ->
               snd (fst (run_list l w0)) = snd w0).
  { clear. induction l as [|m l IH]; intros w0 HF HT; [reflexivity|].
    inversion HF as [|? ? Hm Hr]; subst. apply orb_false_iff in HT. destruct HT as [T1 T2].
    cbn [run_list]. specialize (Hm w0 T1). destruct (run_mut m w0) as [w1 fl]. cbn [fst] in Hm.
    destruct fl; [|exact Hm]. rewrite (IH w1 Hr T2). exact Hm. }
  specialize (Hl body (clone_shell (fst w), snd w) H T).
  destruct (run_list body _) as [w' fl]. cbn [fst snd] in *. exact Hl.
Qed.

(** mutator classification: a mutator changes process-global state only if it is (or contains)
    `umask` or `ulimit`; those two do change it *)
Theorem mutator_classification :
  (forall m w, touches_pg m = false -> snd (fst (run_mut m w)) = snd w) /\
  (forall z w, pg_umask (snd (fst (run_mut (MUmask z) w))) = z) /\
  (forall z w, pg_nofile (snd (fst (run_mut (MUlimit z) w))) = z) /\
  (forall f v w, snd (fst (run_mut (MField f v) w)) = snd w).
Proof. split; [exact run_pg|]. repeat split. Qed.

(** everything the parent can observe is as before, unless the body touches process-global
    state or a known shared field *)
Theorem isolation_outside_known : forall c body w,
  touches_pg (MSub c body) = false ->
  snd (fst (run_mut (MSub c body) w)) = snd w /\
  forall f, ~ In f known_shared -> flows_back f = false ->
            cget f (fst (fst (run_mut (MSub c body) w))) = cget f (fst w).
Proof.
  intros c body w T. split; [apply run_pg; exact T|].
  intros f Hk Hs. apply subshell_preserves_cloned; assumption.
Qed.

(** the full statement is false on the code as it is: `(umask 077); umask` *)
Theorem isolation_refuted :
  exists c body w, snd (fst (run_mut (MSub c body) w)) <> snd w.
Proof.
  exists CParen, [MUmask 63], (init_state, mkPg 18 1024 []). vm_compute. discriminate.
Qed.

Theorem isolation_ulimit_refuted :
  exists c body w, pg_nofile (snd (fst (run_mut (MSub c body) w))) <> pg_nofile (snd w).
Proof.
  exists CCmdSubst, [MUlimit 64], (init_state, mkPg 18 1024 []). vm_compute. discriminate.
Qed.

(** `exit` inside a subshell ends the subshell only *)
Theorem exit_contained : forall c body w, snd (run_mut (MSub c body) w) = Go.
Proof. intros c body w. rewrite run_sub_eq. destruct (run_list body _) as [w' fl]. reflexivity. Qed.

(** a field that a subshell can write through (the shape of KF-C12-keybindings) *)
Theorem shared_field_leaks :
  exists f v, In f known_shared /\
    cget f (fst (fst (run_mut (MSub CParen [MField f v]) (init_state, mkPg 18 1024 [])))) = v /\
    v <> cget f init_state.
Proof. exists "key_bindings"%string, [lit "rebound"]. vm_compute. repeat split; try tauto. discriminate. Qed.

(** non-vacuity *)
Lemma ex_nonvacuous :
  touches_pg (MSub CPipeFirst [MField "env"%string [lit "x"]; MSub CParen [MExit 3]; MField "traps"%string []]) = false /\
  ~ In "env"%string known_shared /\ flows_back "env"%string = false /\ In "env"%string observed.
Proof. repeat split; try reflexivity; cbn; intuition discriminate. Qed.
