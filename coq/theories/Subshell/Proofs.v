(** C12 — theorems: a subshell leaves every non-shared field of its parent as it was (the only
    things that flow back are the status and, for shared fields, everything); the full isolation
    statement fails exactly for the mutators of process-global state. The obligations on the
    regenerated table [shell_clone_table] are re-checked against the source on every run. *)
From Coq Require Import String.
From BV Require Import Base.Prelude Base.Codec Subshell.Kinds gen.ShellFields Subshell.Model Subshell.Entry.

(** ** induction principle for the nested mutator type *)
Section MutInd.
  Variable P : mut -> Prop.
  Hypothesis Hf : forall f v, P (MField f v).
  Hypothesis Hu : forall z, P (MUmask z).
  Hypothesis Hl : forall z, P (MUlimit z).
  Hypothesis Hx : forall n, P (MExit n).
  Hypothesis Hr : forall n, P (MReturn n).
  Hypothesis Hc : forall body, Forall P body -> P (MCall body).
  Hypothesis Hb : forall how body, Forall P body -> P (MBg how body).
  Hypothesis Hs : forall c body, Forall P body -> P (MSub c body).
  Fixpoint mut_ind' (m : mut) : P m :=
    let go := fix go (l : list mut) : Forall P l :=
                match l with
                | [] => Forall_nil _
                | x :: r => Forall_cons _ (mut_ind' x) (go r)
                end in
    match m with
    | MField f v => Hf f v
    | MUmask z => Hu z
    | MUlimit z => Hl z
    | MExit n => Hx n
    | MReturn n => Hr n
    | MCall body => Hc body (go body)
    | MBg how body => Hb how body (go body)
    | MSub c body => Hs c body (go body)
    end.
End MutInd.

Lemma run_sub_eq o c body w :
  is_subshell o c = true ->
  run_mut o (MSub c body) w =
  let '(w', _) := run_list o body (clone_shell (fst w), snd w) in
  ((cset status_field [lit "?"] (merge_back shell_clone_table (fst w) (fst w')), snd w'), Go).
Proof. intros H. cbn [run_mut]. rewrite H. reflexivity. Qed.

(** the last stage under `lastpipe` (no job control) is a brace group in the current shell *)
Lemma run_lastpipe_eq o c body w :
  is_subshell o c = false ->
  run_mut o (MSub c body) w =
  let '(w', fl) := run_list o body w in ((cset status_field [lit "?"] (fst w'), snd w'), fl).
Proof. intros H. cbn [run_mut]. rewrite H. reflexivity. Qed.

(** ** finite-map facts *)
Lemma cget_cset_same f v s : cget f (cset f v s) = v.
Proof.
  induction s as [|[g w] s IH]; cbn; [rewrite String.eqb_refl; reflexivity|].
  destruct (String.eqb f g) eqn:E; cbn; rewrite E; [reflexivity | exact IH].
Qed.

Lemma cget_cset_other f g v s : f <> g -> cget f (cset g v s) = cget f s.
Proof.
  intros Hne. induction s as [|[h w] s IH]; cbn.
  - destruct (String.eqb f g) eqn:E; [apply String.eqb_eq in E; contradiction | reflexivity].
  - destruct (String.eqb g h) eqn:E; cbn.
    + apply String.eqb_eq in E. subst h.
      destruct (String.eqb f g) eqn:E2; [apply String.eqb_eq in E2; contradiction | reflexivity].
    + destruct (String.eqb f h); [reflexivity | exact IH].
Qed.

(** [merge_back] writes only shared fields *)
Lemma merge_back_other f tbl p ch :
  ~ In f (shared_fields tbl) -> cget f (merge_back tbl p ch) = cget f p.
Proof.
  induction tbl as [|[g k] tbl IH]; intros H; cbn; [reflexivity|].
  unfold shared_fields in *. cbn in H.
  destruct k; cbn in *; try (apply IH; exact H).
  rewrite cget_cset_other; [apply IH; tauto | intros ->; tauto].
Qed.

(** ** obligations on the regenerated table *)
(** every field of `struct Shell` is produced by `Clone for Shell` (same names, same order) *)
Lemma clone_table_complete : map fst shell_struct_fields = map fst shell_clone_table.
Proof. vm_compute. reflexivity. Qed.

(** no field aliases the parent's data, except the known one *)
Lemma shared_fields_known : shared_fields shell_clone_table = known_shared.
Proof. vm_compute. reflexivity. Qed.

(** every field whose content the mutator grammar changes is a field of the struct, and is
    deep-copied by clone *)
Fixpoint kind_of (f : string) (tbl : list (string * clone_kind)) : option clone_kind :=
  match tbl with
  | [] => None
  | (g, k) :: tbl' => if String.eqb f g then Some k else kind_of f tbl'
  end.

Lemma observed_fields_cloned :
  forallb (fun f => match kind_of f shell_clone_table with Some CkClone => true | _ => false end) observed = true.
Proof. vm_compute. reflexivity. Qed.

(** ** the subshell theorem *)
Theorem subshell_preserves_cloned : forall o c body w f,
  is_subshell o c = true -> ~ In f known_shared -> flows_back f = false ->
  cget f (fst (fst (run_mut o (MSub c body) w))) = cget f (fst w).
Proof.
  intros o c body w f Hsub Hk Hs. rewrite run_sub_eq by exact Hsub.
  destruct (run_list o body (clone_shell (fst w), snd w)) as [w' fl]. cbn [fst].
  rewrite cget_cset_other.
  - apply merge_back_other. rewrite shared_fields_known. exact Hk.
  - unfold flows_back in Hs. intros ->. rewrite String.eqb_refl in Hs. discriminate.
Qed.

(** the child starts from the parent's state *)
Lemma cget_clone_with f s : forall tbl,
  cget f (clone_with tbl s) = match kind_of f tbl with Some k => clone_content k (cget f s) | None => [] end.
Proof.
  induction tbl as [|[g k] tbl IH]; cbn; [reflexivity|].
  destruct (String.eqb f g) eqn:E; [apply String.eqb_eq in E; subst; reflexivity | exact IH].
Qed.

Theorem clone_starts_equal : forall f s,
  In f observed -> cget f (clone_shell s) = cget f s.
Proof.
  intros f s Hin. unfold clone_shell. rewrite cget_clone_with.
  pose proof observed_fields_cloned as H. rewrite forallb_forall in H. specialize (H f Hin).
  destruct (kind_of f shell_clone_table) as [[]|]; try discriminate. reflexivity.
Qed.

(** ** process-global state *)
Lemma run_seq_pg o : forall l w0,
  Forall (fun m => forall w, touches_pg m = false -> snd (fst (run_mut o m w)) = snd w) l ->
  existsb touches_pg l = false -> snd (fst (run_list o l w0)) = snd w0.
Proof.
  induction l as [|m l IH]; intros w0 HF HT; [reflexivity|].
  inversion HF as [|? ? Hm Hr]; subst. cbn [existsb] in HT. apply orb_false_iff in HT. destruct HT as [T1 T2].
  unfold run_list in *. cbn [run_seq]. specialize (Hm w0 T1). destruct (run_mut o m w0) as [w1 fl]. cbn [fst] in Hm.
  destruct fl; try exact Hm. rewrite (IH w1 Hr T2). exact Hm.
Qed.

Lemma run_pg o : forall m w, touches_pg m = false -> snd (fst (run_mut o m w)) = snd w.
Proof.
  intros m. induction m using mut_ind'; intros w T; try discriminate; try reflexivity.
  - cbn [touches_pg] in T. pose proof (run_seq_pg o body w H T) as Hl.
    cbn [run_mut]. fold (run_list o body w). destruct (run_list o body w) as [w' fl]. exact Hl.
  - cbn [touches_pg] in T. pose proof (run_seq_pg o body (clone_shell (fst w), snd w) H T) as Hl.
    cbn [run_mut]. fold (run_list o body (clone_shell (fst w), snd w)).
    destruct (run_list o body _) as [w' fl]. exact Hl.
  - cbn [touches_pg] in T. destruct (is_subshell o c) eqn:E.
    + rewrite run_sub_eq by exact E.
      pose proof (run_seq_pg o body (clone_shell (fst w), snd w) H T) as Hl.
      destruct (run_list o body _) as [w' fl]. exact Hl.
    + rewrite run_lastpipe_eq by exact E.
      pose proof (run_seq_pg o body w H T) as Hl.
      destruct (run_list o body w) as [w' fl]. exact Hl.
Qed.

(** mutator classification: a mutator changes process-global state only if it is (or contains)
    `umask` or `ulimit`; those two do change it *)
Theorem mutator_classification :
  (forall o m w, touches_pg m = false -> snd (fst (run_mut o m w)) = snd w) /\
  (forall o z w, pg_umask (snd (fst (run_mut o (MUmask z) w))) = z) /\
  (forall o z w, pg_nofile (snd (fst (run_mut o (MUlimit z) w))) = z) /\
  (forall o f v w, snd (fst (run_mut o (MField f v) w)) = snd w).
Proof. split; [exact run_pg|]. repeat split. Qed.

(** everything the parent can observe is as before, unless the body touches process-global
    state or a known shared field *)
Theorem isolation_outside_known : forall o c body w,
  is_subshell o c = true -> touches_pg (MSub c body) = false ->
  snd (fst (run_mut o (MSub c body) w)) = snd w /\
  forall f, ~ In f known_shared -> flows_back f = false ->
            cget f (fst (fst (run_mut o (MSub c body) w))) = cget f (fst w).
Proof.
  intros o c body w Hsub T. split; [apply run_pg; exact T|].
  intros f Hk Hs. apply subshell_preserves_cloned; assumption.
Qed.

Definition o_none : popts := mkOpts false false false.

(** the full statement is false on the code as it is: `(umask 077); umask` *)
Theorem isolation_refuted :
  exists o c body w, is_subshell o c = true /\ snd (fst (run_mut o (MSub c body) w)) <> snd w.
Proof.
  exists o_none, CParen, [MUmask 63], (init_state, mkPg 18 1024 []). split; [reflexivity|]. vm_compute. discriminate.
Qed.

Theorem isolation_ulimit_refuted :
  exists o c body w, is_subshell o c = true /\
    pg_nofile (snd (fst (run_mut o (MSub c body) w))) <> pg_nofile (snd w).
Proof.
  exists o_none, CCmdSubst, [MUlimit 64], (init_state, mkPg 18 1024 []). split; [reflexivity|]. vm_compute. discriminate.
Qed.

(** `exit`, `return` (any control flow) inside a subshell end the subshell only *)
Theorem exit_contained : forall o c body w, is_subshell o c = true -> snd (run_mut o (MSub c body) w) = Go.
Proof.
  intros o c body w H. rewrite run_sub_eq by exact H. destruct (run_list o body _) as [w' fl]. reflexivity.
Qed.

(** ** background jobs and their collection *)
Lemma run_bg_eq o how body w :
  run_mut o (MBg how body) w =
  let '(w', fl) := run_list o body (clone_shell (fst w), snd w) in
  ((cset status_field [lit "?"] (merge_back shell_clone_table (fst w) (fst w')), snd w'),
   match how, fl with CollFg, Exited => Exited | _, _ => Go end).
Proof. reflexivity. Qed.

(** whatever the job does and however it is collected, the parent's cloned state is as before *)
Theorem bg_preserves_cloned : forall o how body w f,
  ~ In f known_shared -> flows_back f = false ->
  cget f (fst (fst (run_mut o (MBg how body) w))) = cget f (fst w).
Proof.
  intros o how body w f Hk Hs. rewrite run_bg_eq.
  destruct (run_list o body (clone_shell (fst w), snd w)) as [w' fl]. cbn [fst].
  rewrite cget_cset_other.
  - apply merge_back_other. rewrite shared_fields_known. exact Hk.
  - unfold flows_back in Hs. intros ->. rewrite String.eqb_refl in Hs. discriminate.
Qed.

(** a job that ends with exit / return / break never ends the parent, for every way of collecting
    it except `fg` *)
Theorem bg_collect_contained_outside_known : forall o how body w,
  how <> CollFg -> snd (run_mut o (MBg how body) w) = Go.
Proof.
  intros o how body w H. rewrite run_bg_eq. destruct (run_list o body _) as [w' fl]. cbn [snd].
  destruct how, fl; try reflexivity; contradiction.
Qed.

Theorem bg_fg_refuted : exists o body w, snd (run_mut o (MBg CollFg body) w) = Exited.
Proof. exists o_none, [MExit 3], (init_state, mkPg 18 1024 []). reflexivity. Qed.

(** a function call absorbs `return`; it never hands `Returned` to its caller *)
Theorem call_absorbs_return : forall o body w, snd (run_mut o (MCall body) w) <> Returned.
Proof.
  intros o body w. cbn [run_mut]. destruct (run_seq (run_mut o) body w) as [w' fl]. destruct fl; discriminate.
Qed.

(** which pipeline stages are subshells, as a function of the options (mirrors interp.rs):
    a non-final stage always; every context other than the last stage always; the last stage
    unless `lastpipe` is on and job control is off; with job control everything *)
Theorem stage_classification :
  (forall o, is_subshell o CPipeFirst = true /\ is_subshell o CPipeMid = true) /\
  (forall o c, c <> CPipeLast -> is_subshell o c = true) /\
  (forall o c, o_jobctl o = true -> is_subshell o c = true) /\
  (forall o c, o_lastpipe o = false -> is_subshell o c = true) /\
  (forall o, is_subshell o CPipeLast = false <-> (o_lastpipe o = true /\ o_jobctl o = false)).
Proof.
  repeat split.
  - intros o c H. destruct c; try reflexivity. contradiction.
  - intros o c H. destruct c; try reflexivity. unfold is_subshell, runs_last_stage_in_current. rewrite H.
    rewrite andb_false_r. reflexivity.
  - intros o c H. destruct c; try reflexivity. unfold is_subshell, runs_last_stage_in_current. rewrite H. reflexivity.
  - unfold is_subshell, runs_last_stage_in_current in H. destruct (o_lastpipe o); [reflexivity | discriminate].
  - unfold is_subshell, runs_last_stage_in_current in H. destruct (o_lastpipe o), (o_jobctl o); try discriminate; reflexivity.
  - intros [H1 H2]. unfold is_subshell, runs_last_stage_in_current. rewrite H1, H2. reflexivity.
Qed.

(** under `lastpipe` without job control the last stage is *not* isolated: it is the body run
    as a brace group in the current shell (so its effects and its exit/return are the parent's) *)
Theorem lastpipe_last_stage_is_current : forall o body w,
  o_lastpipe o = true -> o_jobctl o = false ->
  run_mut o (MSub CPipeLast body) w =
  let '(w', fl) := run_list o body w in ((cset status_field [lit "?"] (fst w'), snd w'), fl).
Proof.
  intros o body w H1 H2. apply run_lastpipe_eq. unfold is_subshell, runs_last_stage_in_current. rewrite H1, H2. reflexivity.
Qed.

(** a field that a subshell can write through (the shape of KF-C12-keybindings) *)
Theorem shared_field_leaks :
  exists f v, In f known_shared /\
    cget f (fst (fst (run_mut o_none (MSub CParen [MField f v]) (init_state, mkPg 18 1024 [])))) = v /\
    v <> cget f init_state.
Proof. exists "key_bindings"%string, [lit "rebound"]. vm_compute. repeat split; try tauto. discriminate. Qed.

(** non-vacuity *)
Lemma ex_nonvacuous :
  touches_pg (MSub CPipeFirst [MField "env"%string [lit "x"]; MSub CParen [MExit 3]; MCall [MReturn 2]; MField "traps"%string []]) = false /\
  is_subshell (mkOpts true true true) CPipeLast = true /\ is_subshell (mkOpts true false true) CPipeLast = false /\
  ~ In "env"%string known_shared /\ flows_back "env"%string = false /\ In "env"%string observed.
Proof. repeat split; try reflexivity; cbn; intuition discriminate. Qed.
