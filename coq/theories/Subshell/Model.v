(** C12 — subshell isolation. Subshells in brush are not forked: `( )`, `$( )`, backquotes,
    pipeline stages, `&`, `<( )`, `>( )` and coprocess bodies run on `shell.clone()` inside the
    same process (interp.rs: CompoundCommand::Subshell, spawn_pipeline_processes,
    execute_async list, setup_process_substitution, CoprocessCommand; commands.rs:
    invoke_command_in_subshell_and_get_output). Isolation therefore holds exactly for the state
    that [impl Clone for Shell] copies.

    The shell state is the product of
      - the *cloned part*: one abstract content per field of `struct Shell`; how a clone gets
        each field is read from the REGENERATED table [gen/ShellFields.shell_clone_table];
      - the *process-global part*: umask, RLIMIT_NOFILE (soft), the real working directory —
        kernel state of the one process all "subshells" share. *)
From Coq Require Import String.
From BV Require Import Base.Prelude Base.Codec Subshell.Kinds gen.ShellFields.

Definition content := list str.
Definition cstate := list (string * content).     (* field name -> abstract content *)

Fixpoint cget (f : string) (s : cstate) : content :=
  match s with
  | [] => []
  | (g, v) :: s' => if String.eqb f g then v else cget f s'
  end.
Fixpoint cset (f : string) (v : content) (s : cstate) : cstate :=
  match s with
  | [] => [(f, v)]
  | (g, w) :: s' => if String.eqb f g then (g, v) :: s' else (g, w) :: cset f v s'
  end.

Record pglobal := mkPg { pg_umask : Z; pg_nofile : Z; pg_cwd : str }.

Definition world := (cstate * pglobal)%type.

(** ** clone, driven by the regenerated table *)
Definition clone_content (k : clone_kind) (v : content) : content :=
  match k with
  | CkClone | CkCopy | CkShared => v
  | CkFresh => []
  | CkIncrement => lit "+1" :: v
  | CkCloneAdjust => v
  end.

Fixpoint clone_with (tbl : list (string * clone_kind)) (s : cstate) : cstate :=
  match tbl with
  | [] => []
  | (f, k) :: tbl' => (f, clone_content k (cget f s)) :: clone_with tbl' s
  end.

Definition clone_shell (s : cstate) : cstate := clone_with shell_clone_table s.

(** when the subshell is done, whatever it did to a *shared* field is visible in the parent *)
Fixpoint merge_back (tbl : list (string * clone_kind)) (parent child : cstate) : cstate :=
  match tbl with
  | [] => parent
  | (f, CkShared) :: tbl' => cset f (cget f child) (merge_back tbl' parent child)
  | _ :: tbl' => merge_back tbl' parent child
  end.

(** ** mutators *)
Inductive ctx := CParen | CCmdSubst | CBackquote | CPipeFirst | CPipeMid | CPipeLast | CBackground
               | CProcSubstIn | CProcSubstOut | CCoproc.

(** ** options that decide where a pipeline stage runs *)
Record popts := mkOpts {
  o_lastpipe : bool;    (* shopt -s lastpipe  (run_last_pipeline_cmd_in_current_shell) *)
  o_jobctl : bool;      (* set -m             (enable_job_control) *)
  o_pipefail : bool     (* set -o pipefail    (only the status depends on it) *)
}.

(** interp.rs, [spawn_pipeline_processes] and [Pipeline::execute]: the last stage of a
    multi-command pipeline runs in the shell executing the pipeline iff `lastpipe` is on and
    job control is off; every other stage always runs in a copy. *)
Definition runs_last_stage_in_current (o : popts) : bool := o_lastpipe o && negb (o_jobctl o).

(** is the context a subshell (a clone) under these options? *)
Definition is_subshell (o : popts) (c : ctx) : bool :=
  match c with
  | CPipeLast => negb (runs_last_stage_in_current o)
  | _ => true
  end.

(** how a background job is collected afterwards *)
Inductive collect := CollNone | CollWait | CollWaitSpec | CollWaitPid | CollJobs | CollFg.

Inductive mut :=
| MField (f : string) (v : content)     (* any builtin/assignment whose effect lives in field f; an assignment-only
                                           pipeline stage is [MSub CPipe* [MField env _]] *)
| MUmask (z : Z)
| MUlimit (z : Z)                       (* ulimit -n z *)
| MExit (n : Z)
| MReturn (n : Z)
| MCall (body : list mut)               (* a function call in the current shell *)
| MBg (how : collect) (body : list mut) (* `{ body; } &` / `f &` / `while …; done &`, then the collection step *)
| MSub (c : ctx) (body : list mut).

Inductive flow := Go | Exited | Returned.

(** the status field legitimately changes *)
Definition status_field : string := "last_exit_status".

Definition run_seq (step : mut -> world -> world * flow) : list mut -> world -> world * flow :=
  fix run (l : list mut) (w : world) : world * flow :=
    match l with
    | [] => (w, Go)
    | m :: l' => let '(w1, fl) := step m w in
                 match fl with Go => run l' w1 | _ => (w1, fl) end
    end.

Fixpoint run_mut (o : popts) (m : mut) (w : world) {struct m} : world * flow :=
  match m with
  | MField f v => ((cset f v (fst w), snd w), Go)
  | MUmask z => ((fst w, mkPg z (pg_nofile (snd w)) (pg_cwd (snd w))), Go)
  | MUlimit z => ((fst w, mkPg (pg_umask (snd w)) z (pg_cwd (snd w))), Go)
  | MExit n => (w, Exited)
  | MReturn n => (w, Returned)
  | MCall body =>
      let '(w', fl) := run_seq (run_mut o) body w in
      (w', match fl with Returned => Go | f => f end)
  | MBg how body =>
      (* the job is an in-process task on a clone; `wait`, `wait %n`, `wait $!`, `jobs` discard the
         task's ExecutionResult (wait.rs); `fg` (fg.rs) returns it whole, control flow included *)
      let child : world := (clone_shell (fst w), snd w) in
      let '(w', fl) := run_seq (run_mut o) body child in
      ((cset status_field [lit "?"] (merge_back shell_clone_table (fst w) (fst w')), snd w'),
       match how, fl with CollFg, Exited => Exited | _, _ => Go end)
  | MSub c body =>
      if is_subshell o c then
        let child : world := (clone_shell (fst w), snd w) in
        let '(w', _) := run_seq (run_mut o) body child in
        (* only the exit status (and output) flow back into the cloned part; the process-global
           part is the same kernel object; exit/return/break end the copy, not the parent *)
        ((cset status_field [lit "?"] (merge_back shell_clone_table (fst w) (fst w')), snd w'), Go)
      else
        (* the last stage under lastpipe: a brace group in the current shell *)
        let '(w', fl) := run_seq (run_mut o) body w in
        ((cset status_field [lit "?"] (fst w'), snd w'), fl)
  end.

Definition run_list (o : popts) : list mut -> world -> world * flow := run_seq (run_mut o).

(** ** which mutators leave the process-global part alone *)
Fixpoint touches_pg (m : mut) : bool :=
  match m with
  | MUmask _ | MUlimit _ => true
  | MSub _ body | MCall body | MBg _ body => existsb touches_pg body
  | _ => false
  end.

(** the fields a subshell may legitimately change in its parent *)
Definition flows_back (f : string) : bool := String.eqb f status_field.

(** fields known to be shared today (finding KF-C12-keybindings) *)
Definition known_shared : list string := ["key_bindings"%string].

Definition shared_fields (tbl : list (string * clone_kind)) : list string :=
  map fst (filter (fun fk => clone_kind_eqb (snd fk) CkShared) tbl).
