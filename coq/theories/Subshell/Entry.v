(** C12 correspondence entry: which observable sections of the parent's state differ after
    running the body in the given context, and the final umask / RLIMIT_NOFILE. *)
From Coq Require Import String.
From BV Require Import Base.Prelude Base.Codec Subshell.Kinds gen.ShellFields Subshell.Model.

Definition tok_is (t : str) (s : string) : bool := str_eqb t (lit s).

Fixpoint string_of_str (s : str) : string :=
  match s with
  | [] => EmptyString
  | c :: r => String (Ascii.ascii_of_N c) (string_of_str r)
  end.

Definition dec_ctx (t : str) : ctx :=
  if tok_is t "paren" then CParen else if tok_is t "cmdsubst" then CCmdSubst
  else if tok_is t "backquote" then CBackquote else if tok_is t "pipefirst" then CPipeFirst
  else if tok_is t "pipelast" then CPipeLast else if tok_is t "pipemid" then CPipeMid else if tok_is t "background" then CBackground
  else if tok_is t "procin" then CProcSubstIn else if tok_is t "procout" then CProcSubstOut
  else CCoproc.

(** mut := "F" field value | "U" z | "L" z | "X" n | "R" n | "C" n mut* | "S" ctx n mut* *)
Fixpoint dec_mut (fuel : nat) (a : list str) : mut * list str :=
  match fuel with
  | O => (MExit 0, [])
  | S fuel =>
      match a with
      | t :: r =>
          if tok_is t "F" then
            match r with f :: v :: r' => (MField (string_of_str f) [v], r') | _ => (MExit 0, []) end
          else if tok_is t "U" then match r with z :: r' => (MUmask (dec_Z z), r') | [] => (MExit 0, []) end
          else if tok_is t "L" then match r with z :: r' => (MUlimit (dec_Z z), r') | [] => (MExit 0, []) end
          else if tok_is t "X" then match r with z :: r' => (MExit (dec_Z z), r') | [] => (MExit 0, []) end
          else if tok_is t "R" then match r with z :: r' => (MReturn (dec_Z z), r') | [] => (MExit 0, []) end
          else if tok_is t "B" then
            match r with
            | h :: n :: r' =>
                let '(body, r'') :=
                  (fix go (k : nat) (a : list str) : list mut * list str :=
                     match k with
                     | O => ([], a)
                     | S k' => let '(x, a') := dec_mut fuel a in
                               let '(xs, a'') := go k' a' in (x :: xs, a'')
                     end) (dec_nat n) r' in
                (MBg (if tok_is h "fg" then CollFg else if tok_is h "none" then CollNone else if tok_is h "jobs" then CollJobs
                      else if tok_is h "pid" then CollWaitPid else if tok_is h "spec" then CollWaitSpec else CollWait) body, r'')
            | _ => (MExit 0, [])
            end
          else if tok_is t "C" then
            match r with
            | n :: r' =>
                let '(body, r'') :=
                  (fix go (k : nat) (a : list str) : list mut * list str :=
                     match k with
                     | O => ([], a)
                     | S k' => let '(x, a') := dec_mut fuel a in
                               let '(xs, a'') := go k' a' in (x :: xs, a'')
                     end) (dec_nat n) r' in
                (MCall body, r'')
            | _ => (MExit 0, [])
            end
          else if tok_is t "S" then
            match r with
            | c :: n :: r' =>
                let '(body, r'') :=
                  (fix go (k : nat) (a : list str) : list mut * list str :=
                     match k with
                     | O => ([], a)
                     | S k' => let '(x, a') := dec_mut fuel a in
                               let '(xs, a'') := go k' a' in (x :: xs, a'')
                     end) (dec_nat n) r' in
                (MSub (dec_ctx c) body, r'')
            | _ => (MExit 0, [])
            end
          else (MExit 0, [])
      | [] => (MExit 0, [])
      end
  end.

Fixpoint dec_muts (fuel : nat) (a : list str) : list mut :=
  match fuel with
  | O => []
  | S fuel' => match a with
               | [] => []
               | _ => let '(m, r) := dec_mut (length a) a in m :: dec_muts fuel' r
               end
  end.

(** the sections of the textual dump and the field each one shows *)
Definition observed : list string :=
  ["env"; "funcs"; "options"; "aliases"; "traps"; "working_dir"; "directory_stack"; "args"; "open_files"]%string.

Definition init_state : cstate := map (fun fk => (fst fk, [lit "init"])) shell_clone_table.

Fixpoint content_eqb (a b : content) : bool :=
  match a, b with
  | [], [] => true
  | x :: a', y :: b' => str_eqb x y && content_eqb a' b'
  | _, _ => false
  end.

Fixpoint has_char (c : N) (s : str) : bool :=
  match s with [] => false | x :: r => N.eqb x c || has_char c r end.

(** option letters: l = lastpipe, m = set -m, p = pipefail *)
Definition dec_opts (s : str) : popts := mkOpts (has_char 108 s) (has_char 109 s) (has_char 112 s).

(** args: umask0 nofile0 opts mut* *)
Definition entry_c12 (a : list str) : list str :=
  match a with
  | u0 :: n0 :: os :: r =>
      let w0 : world := (init_state, mkPg (dec_Z u0) (dec_Z n0) []) in
      let '(w1, fl) := run_list (dec_opts os) (dec_muts (length r) r) w0 in
      match fl with
      | Exited => [lit "exited"]
      | _ =>
      map (fun f => enc_bool (negb (content_eqb (cget f (fst w1)) (cget f (fst w0))))) observed
      ++ [show_Z (pg_umask (snd w1)); show_Z (pg_nofile (snd w1))]
      end
  | _ => []
  end.
