(** C02 — [well_scoped]: the syntactic class of programs on which brush and bash agree, and the
    decidable classes of the known divergences outside it.

    A [break n]/[continue n] is in scope when 1 <= n <= the number of loops enclosing it *inside
    the same function body / subshell / pipeline stage*, and a [continue] must not target a
    loop from inside that loop's own condition (bash re-evaluates the condition, or, for
    `until continue`, happens to agree; brush leaves the loop). *)
From BV Require Import Base.Prelude Shell.Syntax.
Close Scope Z_scope.
Open Scope nat_scope.

(** what encloses a command, innermost first *)
Inductive frame :=
| FCond           (* the condition of a while/until loop *)
| FLoop.          (* a loop body *)

Inductive reason :=
| RStray          (* break/continue count larger than the number of enclosing loops (possibly 0) *)
| RZero           (* break 0 / continue 0 *)
| RContCond       (* continue that targets a while/until loop from within its condition *)
| RMalformed      (* not derivable from the grammar: empty list / pipeline *)
| RPipe.          (* multi-stage pipeline: tested against the model and bash, not covered by the theorem *)

Definition scope_leaf (ctx : list frame) (l : leaf) : list reason :=
  match l with
  | LBreak O | LContinue O => [RZero]
  | LBreak (S k) => if Nat.ltb k (length ctx) then [] else [RStray]
  | LContinue (S k) =>
      match nth_error ctx k with
      | None => [RStray]
      | Some FCond => [RContCond]
      | Some FLoop => []
      end
  | _ => []
  end.

Section Lists.
  Variable scope_cmd : list frame -> cmd -> list reason.
  Definition scope_pipeline (ctx : list frame) (p : pipeline) : list reason :=
    match snd p with
    | [] => [RMalformed]
    | [c] => scope_cmd ctx c
    | cs => RPipe :: flat_map (scope_cmd []) cs
    end.
  Definition scope_andor (ctx : list frame) (a : andor) : list reason :=
    scope_pipeline ctx (fst a) ++ flat_map (fun x => scope_pipeline ctx (snd x)) (snd a).
  Definition scope_clist (ctx : list frame) (l : clist) : list reason :=
    match l with [] => [RMalformed] | _ => flat_map (scope_andor ctx) l end.
End Lists.

Fixpoint scope_cmd (ctx : list frame) (c : cmd) {struct c} : list reason :=
  match c with
  | Leaf l => scope_leaf ctx l
  | Tick _ _ => []
  | Brace b => scope_clist scope_cmd ctx b
  | Subshell b => scope_clist scope_cmd [] b
  | If c t elses =>
      scope_clist scope_cmd ctx c ++ scope_clist scope_cmd ctx t ++
      flat_map (fun e => match fst e with Some ec => scope_clist scope_cmd ctx ec | None => [] end
                         ++ scope_clist scope_cmd ctx (snd e)) elses
  | Loop u c b =>
      scope_clist scope_cmd (FCond :: ctx) c ++ scope_clist scope_cmd (FLoop :: ctx) b
  | For _ _ b => scope_clist scope_cmd (FLoop :: ctx) b
  | Case arms => flat_map (fun a => match snd a with Some b => scope_clist scope_cmd ctx b | None => [] end) arms
  | FunDef _ body => scope_cmd [] body
  end.

Definition scope_program (p : program) : list reason := flat_map (scope_clist scope_cmd []) p.
Definition well_scoped (p : program) : Prop := scope_program p = [].
