(** C02 — [well_scoped]: the syntactic class of programs on which brush and bash agree, and the
    decidable classes of the known divergences outside it.

    A [break n]/[continue n] is in scope when 1 <= n <= the number of loops enclosing it *inside
    the same function body / subshell / pipeline stage*, and a [continue] must not target a
    loop from inside that loop's own condition (bash re-evaluates the condition, or, for
    `until continue`, happens to agree; brush leaves the loop). *)
From BV Require Import Base.Prelude Shell.Syntax.
Close Scope Z_scope.
Open Scope nat_scope.

(** what encloses a command, innermost first *)
Inductive frame :=
| FCond           (* the condition of a while/until loop *)
| FLoop.          (* a loop body *)

Inductive reason :=
| RStray          (* break/continue count larger than the number of enclosing loops (possibly 0) *)
| RZero           (* break 0 / continue 0 *)
| RContCond       (* continue that targets a while/until loop from within its condition *)
| RMalformed      (* not derivable from the grammar: empty list / pipeline *)
| RPipe.          (* multi-stage pipeline: tested against the model and bash, not covered by the theorem *)

Definition scope_leaf (ctx : list frame) (l : leaf) : list reason :=
  match l with
  | LBreak O | LContinue O => [RZero]
  (* counts beyond 127 do not fit brush's [i8] argument: also counted as out of range *)
  | LBreak (S k) => if Nat.ltb k (length ctx) && Nat.ltb k 127 then [] else [RStray]
  | LContinue (S k) =>
      if negb (Nat.ltb k 127) then [RStray] else
      match nth_error ctx k with
      | None => [RStray]
      | Some FCond => [RContCond]
      | Some FLoop => []
      end
  | _ => []
  end.

Section Lists.
  Variable scope_cmd : list frame -> cmd -> list reason.
  Definition scope_pipeline (ctx : list frame) (p : pipeline) : list reason :=
    match snd p with
    | [] => [RMalformed]
    | [c] => scope_cmd ctx c
    | cs => RPipe :: flat_map (scope_cmd []) cs
    end.
  Definition scope_andor (ctx : list frame) (a : andor) : list reason :=
    scope_pipeline ctx (fst a) ++ flat_map (fun x => scope_pipeline ctx (snd x)) (snd a).
  Definition scope_clist (ctx : list frame) (l : clist) : list reason :=
    match l with [] => [RMalformed] | _ => flat_map (scope_andor ctx) l end.
End Lists.

Fixpoint scope_cmd (ctx : list frame) (c : cmd) {struct c} : list reason :=
  match c with
  | Leaf l => scope_leaf ctx l
  | Tick _ _ => []
  | Brace b => scope_clist scope_cmd ctx b
  | Subshell b => scope_clist scope_cmd [] b
  | If c t elses =>
      scope_clist scope_cmd ctx c ++ scope_clist scope_cmd ctx t ++
      flat_map (fun e => match fst e with Some ec => scope_clist scope_cmd ctx ec | None => [] end
                         ++ scope_clist scope_cmd ctx (snd e)) elses
  | Loop u c b =>
      scope_clist scope_cmd (FCond :: ctx) c ++ scope_clist scope_cmd (FLoop :: ctx) b
  | For _ _ b => scope_clist scope_cmd (FLoop :: ctx) b
  | Case arms => flat_map (fun a => match snd a with Some b => scope_clist scope_cmd ctx b | None => [] end) arms
  | FunDef _ body => scope_cmd [] body
  | Redir _ c => match c with Leaf _ | FunDef _ _ | Redir _ _ => [RMalformed] | _ => scope_cmd ctx c end
  end.

Definition scope_program (p : program) : list reason := flat_map (scope_clist scope_cmd []) p.
Definition well_scoped (p : program) : Prop := scope_program p = [].

(** ** A class that lives in brush's *parser*, not in the interpreter (finding KF-C02-esac-rparen):
    a [case] command anywhere inside a [( ... )] subshell.  brush-parser rejects such a subshell when
    its last list item contains the case command and is not terminated by [;] or a newline.
    This predicate is not part of [well_scoped] (the semantics is unaffected); the driver uses it to
    attribute a syntax error of brush on such a program to that finding. *)
Section Any.
  Variable any_cmd : cmd -> bool.
  Definition any_pipeline (p : pipeline) : bool := existsb any_cmd (snd p).
  Definition any_andor (a : andor) : bool := any_pipeline (fst a) || existsb (fun x => any_pipeline (snd x)) (snd a).
  Definition any_clist (l : clist) : bool := existsb any_andor l.
End Any.

(** [f] holds of some command inside [c] (including [c]) *)
Fixpoint sub_any (f : cmd -> bool) (c : cmd) {struct c} : bool :=
  f c ||
  match c with
  | Leaf _ | Tick _ _ => false
  | Brace b | Subshell b | For _ _ b => any_clist (sub_any f) b
  | If c t elses =>
      any_clist (sub_any f) c || any_clist (sub_any f) t ||
      existsb (fun e => match fst e with Some ec => any_clist (sub_any f) ec | None => false end
                        || any_clist (sub_any f) (snd e)) elses
  | Loop _ c b => any_clist (sub_any f) c || any_clist (sub_any f) b
  | Case arms => existsb (fun a => match snd a with Some b => any_clist (sub_any f) b | None => false end) arms
  | FunDef _ body | Redir _ body => sub_any f body
  end.

Definition is_case (c : cmd) : bool := match c with Case _ => true | _ => false end.
Definition case_in_subshell (c : cmd) : bool :=
  match c with Subshell b => any_clist (sub_any is_case) b | _ => false end.
Definition parser_hazard (p : program) : bool := existsb (any_clist (sub_any case_in_subshell)) p.

(** ** A shape the interpreter *model* does not cover: a shell function called from a stage of a
    multi-stage pipeline (not inside a nested subshell) whose body lets a break/continue escape.
    brush then raises its "not yet implemented" error inside the stage's task and the error
    propagates out of [Pipeline::execute] as an [Err] (aborting the enclosing lists up to the
    program level), which the model has no outcome for.  This can only happen in programs of the
    known class [RStray]; for those the driver compares brush with the specification only. *)
Fixpoint has_call (c : cmd) {struct c} : bool :=
  match c with
  | Leaf (LCall _) => true
  | Leaf _ | Tick _ _ | Subshell _ | FunDef _ _ => false
  | Brace b | For _ _ b => any_clist has_call b
  | If c t elses =>
      any_clist has_call c || any_clist has_call t ||
      existsb (fun e => match fst e with Some ec => any_clist has_call ec | None => false end
                        || any_clist has_call (snd e)) elses
  | Loop _ c b => any_clist has_call c || any_clist has_call b
  | Case arms => existsb (fun a => match snd a with Some b => any_clist has_call b | None => false end) arms
  | Redir _ c => has_call c
  end.
Definition pl_stage_call (p : pipeline) : bool :=
  match snd p with [_] => false | cs => existsb has_call cs end.
Definition cl_stage_call (l : clist) : bool :=
  existsb (fun a : andor => pl_stage_call (fst a) || existsb (fun x => pl_stage_call (snd x)) (snd a)) l.
Definition cmd_stage_call (c : cmd) : bool :=
  match c with
  | Brace b | Subshell b | For _ _ b => cl_stage_call b
  | If c t elses =>
      cl_stage_call c || cl_stage_call t ||
      existsb (fun e => match fst e with Some ec => cl_stage_call ec | None => false end || cl_stage_call (snd e)) elses
  | Loop _ c b => cl_stage_call c || cl_stage_call b
  | Case arms => existsb (fun a => match snd a with Some b => cl_stage_call b | None => false end) arms
  | _ => false
  end.
(* ([Redir k c]: [sub_any] descends into [c], where [cmd_stage_call c] is evaluated) *)
Definition stage_call_hazard (p : program) : bool :=
  existsb cl_stage_call p || existsb (any_clist (sub_any cmd_stage_call)) p.
