(** C02/C03 correspondence entry: <fuel> <program tokens...>  ->  result fields. *)
From Coq Require Import String.
From BV Require Import Base.Prelude Base.Codec Shell.Syntax Shell.ModelExec Shell.SpecExec Shell.Scope Shell.Codec.
Close Scope Z_scope.
Open Scope nat_scope.

Definition show_nat (n : nat) : str := show_Z (Z.of_nat n).
Definition show_event (e : event) : str :=
  match e with
  | EMark k => lit "m" ++ show_nat k ++ [NL]
  | EProbe n => lit "?=" ++ show_nat n ++ [NL]
  end.
Definition show_out (o : list event) : str := flat_map show_event (rev o).
Definition show_flow (f : flow) : str :=
  match f with
  | Normal => lit "N"
  | BreakLoop k => lit "B" ++ show_nat k
  | ContinueLoop k => lit "C" ++ show_nat k
  | ReturnFn => lit "R"
  | ExitShell => lit "X"
  end.

(** model fields: ok <status> <flow> <$?> <stdout> <ghost letters>   |   fuel *)
Definition show_model (o : outcome result) : list str :=
  match o with
  | Out r w => [lit "ok"; show_nat (fst r); show_flow (snd r); show_nat (last (sh w)); show_out (out w);
                flat_map (fun g => match g with GCond => lit "C" end) (ghost w)]
  | OutOfFuel _ => [lit "fuel"]
  end.

Definition entry_cf_model (a : list str) : list str :=
  match a with
  | fuel :: toks =>
      match dec_program toks with
      | Some p => show_model (run_model (dec_nat fuel) p)
      | None => [lit "?decode"]
      end
  | [] => [lit "?args"]
  end.

(** spec fields: norm|ret|exit <$?> <stdout>   |   fuel *)
Definition show_spec (o : sres) : list str :=
  match o with
  | SNorm s => [lit "norm"; show_nat (slast s); show_out (b_out s)]
  | SRet s => [lit "ret"; show_nat (slast s); show_out (b_out s)]
  | SExit s => [lit "exit"; show_nat (slast s); show_out (b_out s)]
  | SFuel => [lit "fuel"]
  end.

(** scope classes: S stray count, Z zero count, W continue in a loop condition, M malformed *)
Definition show_reasons (l : list reason) : str :=
  flat_map (fun r => match r with RStray => lit "S" | RZero => lit "Z" | RContCond => lit "W" | RMalformed => lit "M" | RPipe => lit "P" end) l.

Definition entry_cf (a : list str) : list str :=
  match a with
  | fuel :: toks =>
      match dec_program toks with
      | Some p => show_model (run_model (dec_nat fuel) p) ++ [lit "|"] ++ show_spec (run_spec (dec_nat fuel) p)
                  ++ [lit "|"; show_reasons (scope_program p); (if parser_hazard p then lit "K" else []) ++ (if stage_call_hazard p then lit "U" else [])]
      | None => [lit "?decode"]
      end
  | [] => [lit "?args"]
  end.
