(** C02/C03 — executable model of brush's interpreter for the control-flow fragment.

    Mirrors brush-core/src/interp.rs ([Execute] impls for Program, CompoundList, AndOrList,
    Pipeline, CompoundCommand, ForClause, CaseClause, IfClause, WhileOrUntil, ArithmeticCommand,
    ArithmeticFor, FunctionDefinition), results.rs ([ExecutionControlFlow],
    [try_decrement_loop_levels]), commands.rs [invoke_shell_function], shell.rs
    [apply_errexit_if_enabled] and the builtins break/continue/return/exit/set:
    every function returns an [ExecutionResult] = (exit code, next control flow); [$?] is written
    exactly where the Rust calls [set_last_exit_status]; the [suppress_errexit] boolean is
    threaded exactly as [ExecutionParameters.suppress_errexit]. *)
From BV Require Import Base.Prelude Shell.Syntax gen.C02ExitCodes.
Close Scope Z_scope.
Open Scope nat_scope.

Inductive flow := Normal | BreakLoop (levels : nat) | ContinueLoop (levels : nat) | ReturnFn | ExitShell.
Definition result : Type := (status * flow)%type.

Record opts := mkOpts { errexit : bool; nounset : bool; pipefail : bool }.
Inductive event := EMark (k : nat) | EProbe (n : status).

(** The part of [Shell] that the fragment can observe; cloned by subshells and pipeline stages. *)
Record shell := mkShell {
  last : status;                  (* last_exit_status, i.e. $? *)
  opt : opts;
  funs : list (nat * cmd);        (* function table (newest first) *)
  ctrs : list (nat * nat);        (* counters of the [Tick] leaves *)
  fdepth : nat                    (* number of function frames on the call stack *)
}.

(** [out] is the captured stdout (newest first); [quiet] says that stdout currently is the pipe
    of a non-final pipeline stage (nothing reads it in this fragment, so the output is dropped).
    [ghost] records that the run went through the one remaining place where brush lets a status
    escape that bash confines (it does not influence the run; see Simulation.v):
    [GCond]: a while/until condition ended with a break/continue and an exit code that stops the
             loop; the loop then reports the condition's code instead of the last body's.
    (Three further marks existed while the code had the defects repaired by the `fix:` commits
    "errexit must not fire on a brace group / if / loop / case that failed quietly",
    "`! exit n` / `! return n` must not invert the status of the exit/return itself" and
    "break/continue/return/exit in a pipeline stage must not escape into the parent shell";
    the model now follows the repaired [Pipeline::execute].) *)
Inductive gk := GCond.
Record world := mkWorld { sh : shell; out : list event; quiet : bool; ghost : list gk }.

(** [OutOfFuel] remembers the ghost marks collected up to the point where the fuel ran out *)
Inductive outcome (A : Type) := Out (a : A) (w : world) | OutOfFuel (g : list gk).
Arguments Out {A}. Arguments OutOfFuel {A}.

Definition bind {A B} (o : outcome A) (k : A -> world -> outcome B) : outcome B :=
  match o with Out a w => k a w | OutOfFuel g => OutOfFuel g end.

(** ** state primitives *)
Definition upd_sh (f : shell -> shell) (w : world) : world :=
  mkWorld (f (sh w)) (out w) (quiet w) (ghost w).
Definition sh_set_last (n : status) (s : shell) : shell := mkShell n (opt s) (funs s) (ctrs s) (fdepth s).
Definition set_last (n : status) (w : world) : world := upd_sh (sh_set_last n) w.
Definition emit (e : event) (w : world) : world :=
  mkWorld (sh w) (if quiet w then out w else e :: out w) (quiet w) (ghost w).
Definition mute (w : world) : world := mkWorld (sh w) (out w) true (ghost w).
Definition mark (k : gk) (b : bool) (w : world) : world :=
  mkWorld (sh w) (out w) (quiet w) (if b then k :: ghost w else ghost w).
(** back in the parent after a subshell / pipeline stage: the parent's shell state, the child's output *)
Definition restore (parent child : world) : world :=
  mkWorld (sh parent) (out child) (quiet parent) (ghost child).

Definition set_opt (o : sopt) (b : bool) (s : shell) : shell :=
  let p := opt s in
  let p' := match o with
            | OErrexit => mkOpts b (nounset p) (pipefail p)
            | ONounset => mkOpts (errexit p) b (pipefail p)
            | OPipefail => mkOpts (errexit p) (nounset p) b
            end in
  mkShell (last s) p' (funs s) (ctrs s) (fdepth s).

Fixpoint lookup {A} (k : nat) (l : list (nat * A)) : option A :=
  match l with [] => None | (k', v) :: r => if Nat.eqb k k' then Some v else lookup k r end.
Definition ctr (v : nat) (s : shell) : nat := match lookup v (ctrs s) with Some n => n | None => 0 end.
Definition bump (v : nat) (s : shell) : shell :=
  mkShell (last s) (opt s) (funs s) ((v, S (ctr v s)) :: ctrs s) (fdepth s).
Definition define (f : nat) (body : cmd) (s : shell) : shell :=
  mkShell (last s) (opt s) ((f, body) :: funs s) (ctrs s) (fdepth s).
Definition enter_fn (s : shell) : shell := mkShell (last s) (opt s) (funs s) (ctrs s) (S (fdepth s)).
Definition leave_fn (s : shell) : shell := mkShell (last s) (opt s) (funs s) (ctrs s) (pred (fdepth s)).

(** ** results.rs *)
Definition is_success (r : result) : bool := Nat.eqb (fst r) 0.
Definition is_normal (r : result) : bool := match snd r with Normal => true | _ => false end.
Definition is_break (r : result) : bool := match snd r with BreakLoop _ => true | _ => false end.
Definition is_continue (r : result) : bool := match snd r with ContinueLoop _ => true | _ => false end.
Definition is_return_or_exit (r : result) : bool :=
  match snd r with ReturnFn | ExitShell => true | _ => false end.

(** [ExecutionControlFlow::try_decrement_loop_levels] *)
Definition dec (f : flow) : flow :=
  match f with
  | BreakLoop 0 | ContinueLoop 0 => Normal
  | BreakLoop (S k) => BreakLoop k
  | ContinueLoop (S k) => ContinueLoop k
  | f => f
  end.
Definition dec_result (r : result) : result := (fst r, dec (snd r)).

Definition success : result := (to_u8 Success, Normal).
Definition u8 (n : nat) : status := Nat.modulo n 256.
(** return_.rs / exit.rs: [(code & 0xFF) as u8] *)
Definition low_byte (z : Z) : status := Z.to_nat (Z.land z 255).

(** [Shell::apply_errexit_if_enabled] *)
Definition apply_errexit (s : shell) (r : result) : result :=
  if errexit (opt s) && negb (is_success r) && is_normal r then (fst r, ExitShell) else r.

Section Exec.
  (** the interpreter one fuel unit below: commands, and the next iteration of a while/until loop *)
  Variable rec : cmd -> bool -> world -> outcome result.
  Variable recw : bool -> clist -> clist -> bool -> result -> world -> outcome result.

  (** builtins (break_.rs, continue_.rs, return_.rs, exit.rs, set.rs, echo, true, false) and
      function invocation (commands.rs [invoke_shell_function]) *)
  Definition exec_leaf (l : leaf) (sup : bool) (w : world) : outcome result :=
    match l with
    | LMark k => Out success (emit (EMark k) w)
    | LStatus ok => Out (if ok then success else (to_u8 GeneralError, Normal)) w
    | LProbe => Out success (emit (EProbe (last (sh w))) w)
    (* break_.rs / continue_.rs: [which_loop: i8]; a count beyond 127 is rejected by the argument parser (status 2) *)
    | LBreak n => Out (if Nat.ltb 127 n then (to_u8 InvalidUsage, Normal) else
                       match n with O => (to_u8 InvalidUsage, Normal) | S k => (to_u8 Success, BreakLoop k) end) w
    | LContinue n => Out (if Nat.ltb 127 n then (to_u8 InvalidUsage, Normal) else
                          match n with O => (to_u8 InvalidUsage, Normal) | S k => (to_u8 Success, ContinueLoop k) end) w
    | LReturn a =>
        let code := match a with Some n => low_byte n | None => last (sh w) end in
        Out (match fdepth (sh w) with O => (to_u8 InvalidUsage, Normal) | S _ => (code, ReturnFn) end) w
    | LExit a =>
        let code := match a with Some n => low_byte n | None => last (sh w) end in
        Out (code, ExitShell) w
    | LSet o b => Out success (upd_sh (set_opt o b) w)
    | LAssign s =>
        (* assignment-only simple command (interp.rs, "No command to run"): the status is the one left by
           the last command substitution iff the expansion called [set_last_exit_status] at all
           ([last_exit_status_change_count] moved), else 0 *)
        let '(changes, w1) := match s with Some n => (1, set_last (u8 n) w) | None => (0, w) end in
        let w2 := if Nat.eqb changes 0 then set_last 0 w1 else w1 in
        Out (last (sh w2), Normal) w2
    | LCall f =>
        match lookup f (funs (sh w)) with
        | None => Out (to_u8 err_command_not_found, Normal) w
        | Some body =>
            bind (rec body sup (upd_sh enter_fn w)) (fun r w1 =>
              let w2 := upd_sh leave_fn w1 in
              match snd r with
              | BreakLoop _ | ContinueLoop _ => Out (to_u8 err_unimplemented, Normal) w2
              | ReturnFn => Out (fst r, Normal) w2
              | _ => Out r w2
              end)
        end
    end.

  (** stages of a multi-stage pipeline: each runs in a clone of the parent shell; the stdout of
      every stage but the last is a pipe *)
  Fixpoint run_stages (cs : list cmd) (sup : bool) (w : world) : outcome (list result) :=
    match cs with
    | [] => Out [] w
    | c :: cs' =>
        let is_last := match cs' with [] => true | _ => false end in
        bind (rec c sup (if is_last then w else mute w)) (fun r w1 =>
          bind (run_stages cs' sup (restore w w1)) (fun rs w2 => Out (r :: rs) w2))
    end.

  (** [wait_for_pipeline_processes_and_update_status]: the last stage's result; under pipefail its
      exit code is replaced by the rightmost non-zero one *)
  Definition rightmost_failure (rs : list result) : option status :=
    fold_left (fun acc r => if is_success r then acc else Some (fst r)) rs None.
  Definition pipe_result (pf : bool) (rs : list result) : result :=
    let r := List.last rs success in
    match (if pf then rightmost_failure rs else None) with
    | Some c => (c, snd r)
    | None => r
    end.

  (** compound commands after which bash itself never applies errexit *)
  Fixpoint quiet_compound (c : cmd) : bool :=
    match c with
    | Brace _ | If _ _ _ | Loop _ _ _ | For _ _ _ | Case _ => true
    | Redir _ c => quiet_compound c      (* [is_lone_quiet_compound_command] ignores the redirect list *)
    | _ => false
    end.

  (** [impl Execute for ast::Pipeline].
      - every stage of a multi-command pipeline runs in its own copy of the shell, so only the exit
        code of the last stage comes back ([lastpipe] is off in this fragment);
      - [!] inverts the code unless the result is a return/exit on its way out;
      - errexit is applied unless suppressed, negated, or the pipeline is a lone brace group / if /
        loop / case ([is_lone_quiet_compound_command]). *)
  Definition exec_pipeline (p : pipeline) (sup : bool) (w : world) : outcome result :=
    let '(bang, stages) := p in
    let sup' := sup || bang in
    let multi := match stages with [_] => false | _ => true end in
    let lone_quiet := match stages with [c] => quiet_compound c | _ => false end in
    bind (match stages with
          | [c] => bind (rec c sup' w) (fun r w1 => Out [r] w1)
          | _ => run_stages stages sup' w
          end) (fun rs w1 =>
      let r := pipe_result (pipefail (opt (sh w1))) rs in
      let r0 : result := if multi then (fst r, Normal) else r in
      let code := if bang && negb (is_return_or_exit r0) then (if is_success r0 then 1 else 0) else fst r0 in
      let w4 := set_last code w1 in
      let r1 := (code, snd r0) in
      Out (if negb sup' && negb lone_quiet then apply_errexit (sh w4) r1 else r1) w4).

  (** [impl Execute for ast::AndOrList] *)
  Fixpoint andor_rest (rest : list (bool * pipeline)) (sup : bool) (res : result) (w : world)
    : outcome result :=
    match rest with
    | [] => Out res w
    | (is_and, p) :: rest' =>
        if negb (is_normal res) then Out res w
        else if Bool.eqb is_and (is_success res) then
          let is_last := match rest' with [] => true | _ => false end in
          bind (exec_pipeline p (if is_last then sup else true) w) (fun r w1 => andor_rest rest' sup r w1)
        else andor_rest rest' sup res w
    end.
  Definition exec_andor (a : andor) (sup : bool) (w : world) : outcome result :=
    let '(first, rest) := a in
    let has_operators := match rest with [] => false | _ => true end in
    bind (exec_pipeline first (if has_operators then true else sup) w) (fun r w1 => andor_rest rest sup r w1).

  (** [impl Execute for ast::CompoundList] *)
  Fixpoint clist_items (l : clist) (sup : bool) (res : result) (w : world) : outcome result :=
    match l with
    | [] => Out res w
    | a :: l' =>
        bind (exec_andor a sup w) (fun r w1 =>
          let w2 := set_last (fst r) w1 in
          if negb (is_normal r) then Out r w2 else clist_items l' sup r w2)
    end.
  Definition exec_clist (l : clist) (sup : bool) (w : world) : outcome result := clist_items l sup success w.

  (** loop body handling shared by for / arithmetic for (and while, below) *)
  Fixpoint for_iter (n : nat) (b : clist) (sup : bool) (res : result) (w : world) : outcome result :=
    match n with
    | O => Out res w
    | S n' =>
        bind (exec_clist b sup w) (fun r w1 =>
          if is_return_or_exit r then Out r w1
          else
            let isb := is_break r in
            let r' := dec_result r in
            if isb || is_continue r' then Out r' w1 else for_iter n' b sup r' w1)
    end.

  (** [impl Execute for ast::CaseClauseCommand] *)
  Fixpoint case_iter (arms : list (bool * post * option clist)) (force : bool) (sup : bool)
                     (res : result) (w : world) : outcome result :=
    match arms with
    | [] => Out res w
    | (m, pa, body) :: rest =>
        if force || m then
          bind (match body with Some b => exec_clist b sup w | None => Out success w end) (fun r w1 =>
            if negb (is_normal r) then Out r w1
            else match pa with
                 | PExit => Out r w1
                 | PFall => case_iter rest true sup r w1
                 | PNext => case_iter rest false sup r w1
                 end)
        else case_iter rest false sup res w
    end.

  (** [impl Execute for ast::IfClauseCommand]: the elif/else clauses *)
  Fixpoint elses_iter (elses : list (option clist * clist)) (sup : bool) (w : world) : outcome result :=
    match elses with
    | [] => Out success (set_last (fst success) w)
    | (Some ec, body) :: rest =>
        bind (exec_clist ec true w) (fun r w1 =>
          if negb (is_normal r) then Out r w1
          else if is_success r then exec_clist body sup w1
          else elses_iter rest sup w1)
    | (None, body) :: _ => exec_clist body sup w
    end.

  Definition finish (r : result) (w : world) : outcome result := Out r (set_last (fst r) w).

  (** [impl Execute for ast::Command] / [CompoundCommand] *)
  Definition exec_cmd (c : cmd) (sup : bool) (w : world) : outcome result :=
    match c with
    | Leaf l => exec_leaf l sup w
    | Tick v lim =>
        let r : result := if Nat.ltb (ctr v (sh w)) lim then success else (to_u8 GeneralError, Normal) in
        finish r (upd_sh (bump v) w)
    | Brace b => exec_clist b sup w
    | Subshell b => bind (exec_clist b sup w) (fun r w1 => Out (fst r, Normal) (restore w w1))
    | If c t elses =>
        bind (exec_clist c true w) (fun rc w1 =>
          if negb (is_normal rc) then Out rc w1
          else if is_success rc then exec_clist t sup w1
          else elses_iter elses sup w1)
    | Loop u c b => recw u c b sup success w
    | For _ n b => bind (for_iter n b sup success w) finish
    | Case arms => bind (case_iter arms false sup success w) finish
    | FunDef f body => finish success (upd_sh (define f body) w)
    | Redir _ c => rec c sup w     (* [Command::Compound(c, Some(redirects))]: set the redirects up, run [c] *)
    end.

  (** one iteration of [impl Execute for (WhileOrUntil, &WhileOrUntilClauseCommand)] *)
  Definition while_step (u : bool) (c b : clist) (sup : bool) (res : result) (w : world) : outcome result :=
    bind (exec_clist c true w) (fun rc w1 =>
      let w2 := set_last (fst rc) w1 in
      if negb (is_normal rc) then
        finish (dec_result rc)
               (mark GCond ((is_break rc || is_continue rc) && Bool.eqb (is_success rc) u
                            && negb (Nat.eqb (fst res) (fst rc))) w2)
      else if Bool.eqb (is_success rc) u then finish res w2
      else
        bind (exec_clist b sup w2) (fun r w3 =>
          if is_return_or_exit r then finish r w3
          else
            let isb := is_break r in
            let r' := dec_result r in
            if isb || is_continue r' then finish r' w3 else recw u c b sup r' w3)).

  (** [impl Execute for ast::Program] *)
  Fixpoint program_items (cs : program) (res : result) (w : world) : outcome result :=
    match cs with
    | [] => Out res w
    | c :: cs' =>
        bind (exec_clist c false w) (fun r w1 =>
          let w2 := set_last (fst r) w1 in
          if negb (is_normal r) then Out r w2 else program_items cs' r w2)
    end.
End Exec.

Fixpoint exec (fuel : nat) (c : cmd) (sup : bool) (w : world) {struct fuel} : outcome result :=
  match fuel with
  | O => OutOfFuel (ghost w)
  | S f => exec_cmd (exec f) (while_loop f) c sup w
  end
with while_loop (fuel : nat) (u : bool) (c b : clist) (sup : bool) (res : result) (w : world)
  {struct fuel} : outcome result :=
  match fuel with
  | O => OutOfFuel (ghost w)
  | S f => while_step (exec f) (while_loop f) u c b sup res w
  end.

Definition init_shell : shell := mkShell 0 (mkOpts false false false) [] [] 0.
Definition init_world : world := mkWorld init_shell [] false [].

Definition run_model (fuel : nat) (p : program) : outcome result :=
  program_items (exec fuel) p success init_world.
