(** C02 — the ghost marks of the model only grow (they never influence the run). *)
From BV Require Import Base.Prelude Shell.Syntax Shell.ModelExec.
Close Scope Z_scope.
Open Scope nat_scope.

Definition ext (g g' : list gk) : Prop := exists d, g' = d ++ g.
Lemma ext_refl g : ext g g. Proof. exists []; reflexivity. Qed.
Lemma ext_cons g g' k : ext g g' -> ext g (k :: g').
Proof. intros [d ->]. exists (k :: d). reflexivity. Qed.
Lemma ext_nil g : ext g [] -> g = [].
Proof. intros [d H]. symmetry in H. apply app_eq_nil in H. tauto. Qed.

Definition mono {A} (w : world) (o : outcome A) : Prop :=
  forall g0, ext g0 (ghost w) ->
  match o with Out _ w' => ext g0 (ghost w') | OutOfFuel g => ext g0 g end.

Lemma mono_bind {A B} w (o : outcome A) (k : A -> world -> outcome B) :
  mono w o -> (forall a w1, mono w1 (k a w1)) -> mono w (bind o k).
Proof.
  intros Ho Hk g0 Hg. specialize (Ho g0 Hg). destruct o as [a w1|g]; cbn; [|exact Ho].
  apply Hk. exact Ho.
Qed.

Lemma mono_out {A} w (a : A) w' : ext (ghost w) (ghost w') -> mono w (Out a w').
Proof. intros [d Hd] g0 [d0 Hg]. cbn. rewrite Hd, Hg. exists (d ++ d0). apply app_assoc. Qed.

Lemma mono_same {A} w (a : A) w' : ghost w' = ghost w -> mono w (Out a w').
Proof. intros H. apply mono_out. rewrite H. apply ext_refl. Qed.

Lemma mono_shift {A} w w0 (o : outcome A) : ghost w0 = ghost w -> mono w0 o -> mono w o.
Proof. intros H Ho g0 Hg. apply Ho. rewrite H. exact Hg. Qed.

Ltac msimp := cbn [ghost set_last upd_sh emit mute mark restore finish].

Section Mono.
  Variable rec : cmd -> bool -> world -> outcome result.
  Variable recw : bool -> clist -> clist -> bool -> result -> world -> outcome result.
  Hypothesis Hrec : forall c sup w, mono w (rec c sup w).
  Hypothesis Hrecw : forall u c b sup res w, mono w (recw u c b sup res w).

  Lemma mono_leaf l sup w : mono w (exec_leaf rec l sup w).
  Proof.
    destruct l as [k|b| |n|n|a|a|o b|f|a]; cbn [exec_leaf]; try (destruct a; apply mono_same; reflexivity);
      try (apply mono_same; reflexivity).
    destruct (lookup f (funs (sh w))); [|apply mono_same; reflexivity].
    apply mono_bind.
    - eapply mono_shift; [|apply Hrec]. reflexivity.
    - intros r w1. destruct (snd r); apply mono_same; reflexivity.
  Qed.

  Lemma mono_stages cs sup : forall w, mono w (run_stages rec cs sup w).
  Proof.
    induction cs as [|c cs IH]; intros w; cbn [run_stages]; [apply mono_same; reflexivity|].
    apply mono_bind.
    - destruct cs; [apply Hrec|]. eapply mono_shift; [|apply Hrec]. reflexivity.
    - intros r w1. apply mono_bind.
      + eapply mono_shift; [|apply IH]. reflexivity.
      + intros rs w2. apply mono_same; reflexivity.
  Qed.

  Lemma mono_pipeline p sup w : mono w (exec_pipeline rec p sup w).
  Proof.
    destruct p as [bang stages]. unfold exec_pipeline.
    apply mono_bind.
    - destruct stages as [|c [|c' cs]]; try apply mono_stages.
      apply mono_bind; [apply Hrec|]. intros; apply mono_same; reflexivity.
    - intros rs w1. apply mono_same; reflexivity.
  Qed.

  Lemma mono_andor_rest rest sup : forall res w, mono w (andor_rest rec rest sup res w).
  Proof.
    induction rest as [|[is_and p] rest IH]; intros res w; cbn [andor_rest]; [apply mono_same; reflexivity|].
    destruct (negb (is_normal res)); [apply mono_same; reflexivity|].
    destruct (Bool.eqb is_and (is_success res)); [|apply IH].
    apply mono_bind; [apply mono_pipeline|]. intros; apply IH.
  Qed.

  Lemma mono_andor a sup w : mono w (exec_andor rec a sup w).
  Proof.
    destruct a as [first rest]. unfold exec_andor.
    apply mono_bind; [apply mono_pipeline|]. intros; apply mono_andor_rest.
  Qed.

  Lemma mono_clist_items l sup : forall res w, mono w (clist_items rec l sup res w).
  Proof.
    induction l as [|a l IH]; intros res w; cbn [clist_items]; [apply mono_same; reflexivity|].
    apply mono_bind; [apply mono_andor|]. intros r w1.
    destruct (negb (is_normal r)); [apply mono_same; reflexivity|].
    eapply mono_shift; [|apply IH]. reflexivity.
  Qed.
  Lemma mono_clist l sup w : mono w (exec_clist rec l sup w).
  Proof. apply mono_clist_items. Qed.

  Lemma mono_for n b sup : forall res w, mono w (for_iter rec n b sup res w).
  Proof.
    induction n as [|n IH]; intros res w; cbn [for_iter]; [apply mono_same; reflexivity|].
    apply mono_bind; [apply mono_clist|]. intros r w1.
    destruct (is_return_or_exit r); [apply mono_same; reflexivity|].
    destruct (is_break r || is_continue (dec_result r)); [apply mono_same; reflexivity|apply IH].
  Qed.

  Lemma mono_case arms sup : forall force res w, mono w (case_iter rec arms force sup res w).
  Proof.
    induction arms as [|[[m pa] body] arms IH]; intros force res w; cbn [case_iter]; [apply mono_same; reflexivity|].
    destruct (force || m); [|apply IH].
    apply mono_bind.
    - destruct body; [apply mono_clist|apply mono_same; reflexivity].
    - intros r w1. destruct (negb (is_normal r)); [apply mono_same; reflexivity|].
      destruct pa; [apply mono_same; reflexivity|apply IH|apply IH].
  Qed.

  Lemma mono_elses elses sup : forall w, mono w (elses_iter rec elses sup w).
  Proof.
    induction elses as [|[[ec|] body] elses IH]; intros w; cbn [elses_iter].
    - apply mono_same; reflexivity.
    - apply mono_bind; [apply mono_clist|]. intros r w1.
      destruct (negb (is_normal r)); [apply mono_same; reflexivity|].
      destruct (is_success r); [apply mono_clist|apply IH].
    - apply mono_clist.
  Qed.

  Lemma mono_finish r w : mono w (finish r w).
  Proof. apply mono_same; reflexivity. Qed.

  Lemma mono_cmd c sup w : mono w (exec_cmd rec recw c sup w).
  Proof.
    destruct c; cbn [exec_cmd].
    - apply mono_leaf.
    - apply mono_same; reflexivity.
    - apply mono_clist.
    - apply mono_bind; [apply mono_clist|]. intros; apply mono_same; reflexivity.
    - apply mono_bind; [apply mono_clist|]. intros r w1.
      destruct (negb (is_normal r)); [apply mono_same; reflexivity|].
      destruct (is_success r); [apply mono_clist|apply mono_elses].
    - apply Hrecw.
    - apply mono_bind; [apply mono_for|]. intros; apply mono_finish.
    - apply mono_bind; [apply mono_case|]. intros; apply mono_finish.
    - apply mono_same; reflexivity.
    - apply Hrec.
  Qed.

  Lemma mono_while_step u c b sup res w : mono w (while_step rec recw u c b sup res w).
  Proof.
    unfold while_step. apply mono_bind; [apply mono_clist|]. intros rc w1.
    destruct (negb (is_normal rc)).
    - apply mono_out. msimp.
      match goal with |- context [if ?b then _ :: _ else _] => destruct b end;
        repeat apply ext_cons; apply ext_refl.
    - destruct (Bool.eqb (is_success rc) u); [apply mono_same; reflexivity|].
      eapply mono_shift; [|apply mono_bind; [apply mono_clist|]]; [reflexivity|].
      intros r w3. destruct (is_return_or_exit r); [apply mono_finish|].
      destruct (is_break r || is_continue (dec_result r)); [apply mono_finish|apply Hrecw].
  Qed.

  Lemma mono_program cs : forall res w, mono w (program_items rec cs res w).
  Proof.
    induction cs as [|c cs IH]; intros res w; cbn [program_items]; [apply mono_same; reflexivity|].
    apply mono_bind; [apply mono_clist|]. intros r w1.
    destruct (negb (is_normal r)); [apply mono_same; reflexivity|].
    eapply mono_shift; [|apply IH]. reflexivity.
  Qed.
End Mono.

Lemma mono_exec fuel : (forall c sup w, mono w (exec fuel c sup w)) /\
                       (forall u c b sup res w, mono w (while_loop fuel u c b sup res w)).
Proof.
  induction fuel as [|f [IH1 IH2]]; split; intros; cbn [exec while_loop].
  - intros g0 Hg. exact Hg.
  - intros g0 Hg. exact Hg.
  - apply mono_cmd; assumption.
  - apply mono_while_step; assumption.
Qed.

(** if the run ends without ghost marks, there were none at any earlier point *)
Lemma mono_nil {A} w (o : outcome A) : mono w o ->
  match o with Out _ w' => ghost w' = [] -> ghost w = [] | OutOfFuel g => g = [] -> ghost w = [] end.
Proof.
  intros H. specialize (H (ghost w) (ext_refl _)).
  destruct o; intros E; rewrite E in H; apply ext_nil in H; exact H.
Qed.
