(** C03 — nounset: which expansions of an unset parameter are fatal under [set -u].
    [model_rejects] mirrors brush-core/src/expansion.rs: every [ParameterExpr] arm expands its
    parameter through [expand_parameter] (unset is an error) or [expand_parameter_allowing_unset];
    [expand_parameter_without_indirect] calls [undefined_expansion] for an unset named / positional
    parameter and for a missing array element, never for [name[@]] / [$@] / [$*].
    [bash_rejects] is bash 5.2's behaviour (re-validated against /usr/bin/bash by the driver). *)
From BV Require Import Base.Prelude.
Close Scope Z_scope.
Open Scope nat_scope.

Inductive form :=
| FPlain | FDefault | FDefaultColon | FAssign | FAlt | FAltColon | FLength
| FRemSufS | FRemSufL | FRemPreS | FRemPreL | FSubstring
| FUpper1 | FUpperAll | FLower1 | FLowerAll | FReplace | FTransformQ | FTransformU
(* arithmetic contexts that read a variable by name (arithmetic.rs [get_var_value]) *)
| FArithExp        (* $(( n + 1 )) *)
| FArithCmd        (* (( n + 1 )) *)
| FLet             (* let "n + 1" *)
| FSubscript       (* ${arr[n]} *)
| FSubstrOff       (* ${s:n} *)
| FSubstrLen       (* ${s:0:n} *)
| FArithFor        (* for (( i=n; i<1; i++ )) *)
| FAssignSub.      (* arr[n]=1 *)
Inductive kind :=
| KNamedUnset        (* ${nv}      nv unset *)
| KPositionalUnset   (* ${3}       fewer than 3 arguments *)
| KIndexUnsetVar     (* ${nv[0]}   nv unset *)
| KIndexUnsetElem    (* ${arr[5]}  arr=(a b) *)
| KAllUnsetVar       (* ${nv[@]}   nv unset *)
| KAllEmptyArr       (* ${arr[@]}  arr=() *)
| KSpecialAt | KSpecialStar    (* $@ / $* without arguments *)
(* declared but unset names: the variable exists in the environment, without a value *)
| KDeclared          (* declare dv *)
| KDeclaredInt       (* declare -i di *)
| KExported          (* export ev *)
| KLocal             (* local lv   (inside a function) *)
| KUnsetAfterSet     (* uv=1; unset uv *)
| KDeclaredArr.      (* declare -a da;  ${da} *)

Definition all_forms := [FPlain; FDefault; FDefaultColon; FAssign; FAlt; FAltColon; FLength; FRemSufS; FRemSufL;
  FRemPreS; FRemPreL; FSubstring; FUpper1; FUpperAll; FLower1; FLowerAll; FReplace; FTransformQ; FTransformU;
  FArithExp; FArithCmd; FLet; FSubscript; FSubstrOff; FSubstrLen; FArithFor; FAssignSub].
Definition all_kinds := [KNamedUnset; KPositionalUnset; KIndexUnsetVar; KIndexUnsetElem; KAllUnsetVar; KAllEmptyArr;
  KSpecialAt; KSpecialStar; KDeclared; KDeclaredInt; KExported; KLocal; KUnsetAfterSet; KDeclaredArr].

(** [${x=d}] on a positional / special parameter or on [x[@]] is a different error (cannot assign) *)
Definition arith_form (f : form) : bool :=
  match f with
  | FArithExp | FArithCmd | FLet | FSubscript | FSubstrOff | FSubstrLen | FArithFor | FAssignSub => true
  | _ => false
  end.
(** a plain name without a value: absent, or declared by declare/export/local/unset *)
Definition bare_name (k : kind) : bool :=
  match k with
  | KNamedUnset | KDeclared | KDeclaredInt | KExported | KLocal | KUnsetAfterSet | KDeclaredArr => true
  | _ => false
  end.
Definition applicable (f : form) (k : kind) : bool :=
  if arith_form f then bare_name k      (* an arithmetic expression names a variable *)
  else match f, k with
  | FAssign, (KPositionalUnset | KAllUnsetVar | KAllEmptyArr | KSpecialAt | KSpecialStar) => false
  | FAssign, KDeclaredInt => false       (* assigning the word d to an integer variable evaluates d *)
  | _, _ => true
  end.

(** the variable named by the parameter exists (matters for [${#name[..]}]) *)
Definition var_exists (k : kind) : bool := match k with KIndexUnsetElem | KAllEmptyArr => true | _ => false end.
Definition indexed (k : kind) : bool :=
  match k with KIndexUnsetVar | KIndexUnsetElem | KAllUnsetVar | KAllEmptyArr => true | _ => false end.

(** [allow_unset_vars] as chosen by the [ParameterExpr] arm *)
Definition allows (f : form) (k : kind) : bool :=
  match f with
  | FDefault | FDefaultColon | FAssign | FAlt | FAltColon => true
  | FLength => indexed k && var_exists k
  | FLet => true     (* let_.rs: an evaluation error makes `let` fail (status 1), it is not fatal *)
  | _ => false
  end.
(** [expand_parameter_without_indirect] reaches [undefined_expansion] *)
(** ... and arithmetic.rs [get_var_value]: a name whose variable is absent or [!value.is_set()] *)
Definition undefined (k : kind) : bool :=
  match k with KNamedUnset | KPositionalUnset | KIndexUnsetVar | KIndexUnsetElem => true | _ => bare_name k end.
Definition model_rejects (f : form) (k : kind) : bool := undefined k && negb (allows f k).

Definition bash_rejects (f : form) (k : kind) : bool :=
  match f with
  | FDefault | FDefaultColon | FAssign | FAlt | FAltColon => false
  | FLength => match k with KNamedUnset | KPositionalUnset | KIndexUnsetVar | KAllUnsetVar => true | _ => bare_name k end
  | _ => match k with KNamedUnset | KPositionalUnset | KIndexUnsetVar | KIndexUnsetElem => true | _ => bare_name k end
  end.

(** the one cell where they differ: [${#nv[@]}] with nv unset (bash: unbound variable; brush: 0) *)
Definition known_nounset_divergence (f : form) (k : kind) : bool :=
  match f, k with
  | FLength, KAllUnsetVar => true
  | FLet, _ => bare_name k          (* `let "n + 1"` with n unset: bash aborts, brush's let only fails *)
  | _, _ => false
  end.

Definition form_eqb (a b : form) : bool :=
  match a, b with
  | FPlain, FPlain | FDefault, FDefault | FDefaultColon, FDefaultColon | FAssign, FAssign | FAlt, FAlt
  | FAltColon, FAltColon | FLength, FLength | FRemSufS, FRemSufS | FRemSufL, FRemSufL | FRemPreS, FRemPreS
  | FRemPreL, FRemPreL | FSubstring, FSubstring | FUpper1, FUpper1 | FUpperAll, FUpperAll | FLower1, FLower1
  | FLowerAll, FLowerAll | FReplace, FReplace | FTransformQ, FTransformQ | FTransformU, FTransformU => true
  | _, _ => false
  end.

Lemma nounset_cells :
  forallb (fun f => forallb (fun k =>
    negb (applicable f k) || Bool.eqb (model_rejects f k) (bash_rejects f k) || known_nounset_divergence f k) all_kinds) all_forms = true.
Proof. vm_compute. reflexivity. Qed.

Theorem nounset_table f k : In f all_forms -> In k all_kinds -> applicable f k = true ->
  model_rejects f k = bash_rejects f k \/ known_nounset_divergence f k = true.
Proof.
  intros Hf Hk Ha. pose proof nounset_cells as T. rewrite forallb_forall in T. specialize (T f Hf).
  rewrite forallb_forall in T. specialize (T k Hk). rewrite Ha in T. cbn [negb orb] in T.
  apply orb_prop in T as [T|T]; [left|right; exact T].
  apply Bool.eqb_prop, T.
Qed.

(** the divergence is real and it is the only one *)
Lemma nounset_refuted : model_rejects FLength KAllUnsetVar <> bash_rejects FLength KAllUnsetVar.
Proof. discriminate. Qed.
