(** C02/C03 — the simulation theorem: on well-scoped programs, and as long as the run does not go
    through one of the recorded divergence points (ghost marks), brush's interpreter (ModelExec)
    and the bash-style specification (SpecExec) compute the same thing, for every fuel:
    [BreakLoop k] corresponds to [breaking = k+1], [ContinueLoop k] to [continuing = k+1],
    [ReturnFn]/[ExitShell] to the non-local exits, [$?] and the output agree, and the threaded
    [suppress_errexit] flag equals "some enclosing position is exempt". *)
From BV Require Import Base.Prelude Shell.Syntax Shell.ModelExec Shell.SpecExec Shell.Scope Shell.Ghost.
From BV Require Import gen.C02ExitCodes.
Close Scope Z_scope.
Open Scope nat_scope.

(** the bash-side state that corresponds to a model world and given counters *)
Definition emb (w : world) (b c l : nat) : bstate := mkB (sh w) (out w) (quiet w) b c l.

Definition funs_ok (s : shell) : Prop :=
  forall f body, lookup f (funs s) = Some body -> scope_cmd [] body = [].

(** a non-local exit of the shell: only [$?] and the output survive it *)
Definition exits (n : status) (w : world) (o : sres) : Prop :=
  exists s, o = SExit s /\ slast s = n /\ b_out s = out w.

(** what the specification must have returned when the model returned [r] in world [w];
    [l] is bash's loop_level ([>=] the number of enclosing loops known to [ctx]) *)
Definition expect (ctx : list frame) (l : nat) (r : result) (w : world) (o : sres) : Prop :=
  let w' := set_last (fst r) w in
  match snd r with
  | Normal => o = SNorm (emb w' 0 0 l)
  | BreakLoop k => o = SNorm (emb w' (S k) 0 l) /\ k < length ctx
  | ContinueLoop k => o = SNorm (emb w' 0 (S k) l) /\ nth_error ctx k = Some FLoop
  | ReturnFn => exists b c l', o = SRet (emb w' b c l')
  | ExitShell => exits (fst r) w o
  end.

(** pipeline level and above: additionally [$?] already holds the result's code *)
Definition expect_s (ctx : list frame) (l : nat) (r : result) (w : world) (o : sres) : Prop :=
  expect ctx l r w o /\ last (sh w) = fst r.

(** commands after which bash itself consults errexit: all but brace group, if, loops, case *)
Definition checks (c : cmd) : bool := negb (quiet_compound c).

(** command level: brush applies errexit one level up (in [Pipeline::execute]); bash applies it in
    the command itself if it is a simple command, [(( ))] or a subshell *)
Definition pending (stk : list pos) (r : result) (w : world) : bool :=
  is_normal r && errexit (opt (sh w)) && negb (is_success r) && negb (exempt stk).
Definition expect_c (c : cmd) (stk : list pos) (ctx : list frame) (l : nat) (r : result) (w : world) (o : sres) : Prop :=
  if checks c && pending stk r w then exits (fst r) w o else expect ctx l r w o.

Definition sim {A} (post : A -> world -> sres -> Prop) (m : outcome A) (o : sres) : Prop :=
  match m with
  | Out a w' => ghost w' = [] -> post a w' o /\ funs_ok (sh w')
  | OutOfFuel g => g = [] -> o = SFuel
  end.

Lemma sim_bind {A B} w (m1 : outcome A) (k : A -> world -> outcome B)
      (P : A -> world -> sres -> Prop) (o1 : sres) (Q : B -> world -> sres -> Prop) (o : sres) :
  sim P m1 o1 ->
  (forall a w1, mono w1 (k a w1)) ->
  (o1 = SFuel -> o = SFuel) ->
  (forall a w1, m1 = Out a w1 -> ghost w1 = [] -> P a w1 o1 -> funs_ok (sh w1) -> sim Q (k a w1) o) ->
  mono w m1 ->
  sim Q (bind m1 k) o.
Proof.
  intros H1 Hk Hf Hc _. destruct m1 as [a w1|g]; cbn [bind].
  - pose proof (mono_nil _ _ (Hk a w1)) as Hn.
    destruct (k a w1) as [b w2|g] eqn:E; cbn [sim] in *; intros Hg; specialize (Hn Hg);
      destruct (H1 Hn) as [HP Hfo]; specialize (Hc a w1 eq_refl Hn HP Hfo); rewrite E in Hc; cbn [sim] in Hc; auto.
  - cbn [sim] in *. auto.
Qed.

Lemma set_last_id n w : last (sh w) = n -> set_last n w = w.
Proof. destruct w as [[la op fu ct fd] ou qu gh]. cbn. intros ->. reflexivity. Qed.
Lemma set_last_set n m w : set_last n (set_last m w) = set_last n w.
Proof. reflexivity. Qed.
Lemma last_set_last n w : last (sh (set_last n w)) = n.
Proof. reflexivity. Qed.

Lemma exempt_cons p stk : exempt (p :: stk) = is_exempt_position p || exempt stk.
Proof. reflexivity. Qed.

Ltac inv H := inversion H; subst; clear H.

Lemma emb_last_id w b c l : emb (set_last (last (sh w)) w) b c l = emb w b c l.
Proof. rewrite set_last_id; reflexivity. Qed.

Lemma sbind_norm o : sbind o (fun s => SNorm s) = o.
Proof. destruct o; reflexivity. Qed.

Lemma bind_assoc {A B C} (m : outcome A) (k : A -> world -> outcome B) (f : B -> world -> outcome C) :
  bind (bind m k) f = bind m (fun a w => bind (k a w) f).
Proof. destruct m; reflexivity. Qed.

(** errexit after a command that bash checks: exactly the pending exit *)
Lemma check_ok c stk ctx lv n w :
  checks c = true ->
  expect_c c stk ctx lv (n, Normal) w (errexit_check stk (emb (set_last n w) 0 0 lv)).
Proof.
  intros Hc. unfold expect_c, pending, errexit_check, ok, slast, is_success. rewrite Hc. cbn.
  destruct (errexit (opt (sh w))); cbn; [|reflexivity].
  destruct (Nat.eqb n 0); cbn; [reflexivity|].
  destruct (exempt stk); cbn; [reflexivity|].
  eexists; split; [reflexivity|]. split; reflexivity.
Qed.

Lemma low_byte_wrap z : low_byte z = wrap_status z.
Proof. unfold low_byte, wrap_status. change 255%Z with (Z.ones 8). rewrite Z.land_ones by discriminate. reflexivity. Qed.

Lemma exempt_bang (bang : bool) (stk : list pos) : exempt (if bang then PBang :: stk else stk) = exempt stk || bang.
Proof. destruct bang; cbn; [rewrite orb_true_r|rewrite orb_false_r]; reflexivity. Qed.

Lemma pipe_result_single pf r : pipe_result pf [r] = r.
Proof. destruct r as [c f]. unfold pipe_result, rightmost_failure, is_success. cbn. destruct pf; [|reflexivity]. destruct (Nat.eqb c 0); reflexivity. Qed.

Lemma slast_emb w b c l : slast (emb w b c l) = last (sh w). Proof. reflexivity. Qed.
Lemma busy_emb0 w l : busy (emb w 0 0 l) = false. Proof. reflexivity. Qed.
Lemma busy_emb_b w k c l : busy (emb w (S k) c l) = true. Proof. reflexivity. Qed.
Lemma busy_emb_c w k l : busy (emb w 0 (S k) l) = true. Proof. reflexivity. Qed.

Section Sim.
  Variable rec : cmd -> bool -> world -> outcome result.
  Variable recw : bool -> clist -> clist -> bool -> result -> world -> outcome result.
  Variable srec : cmd -> list pos -> bstate -> sres.
  Variable srecw : bool -> clist -> clist -> list pos -> status -> bstate -> sres.
  Hypothesis Mrec : forall c sup w, mono w (rec c sup w).
  Hypothesis Mrecw : forall u c b sup res w, mono w (recw u c b sup res w).
  Hypothesis Hskip : forall c stk s, busy s = true -> srec c stk s = SNorm s.
  Hypothesis Hrec : forall c stk ctx l w, scope_cmd ctx c = [] -> funs_ok (sh w) -> length ctx <= l ->
    sim (expect_c c stk ctx l) (rec c (exempt stk) w) (srec c stk (emb w 0 0 l)).
  Hypothesis Hrecw : forall u c b stk ctx l res w,
    scope_clist scope_cmd (FCond :: ctx) c = [] -> scope_clist scope_cmd (FLoop :: ctx) b = [] ->
    funs_ok (sh w) -> length ctx <= l -> snd res = Normal ->
    sim (expect_s ctx l) (recw u c b (exempt stk) res w) (srecw u c b stk (fst res) (emb w 0 0 (S l))).

  (** *** a pending break/continue skips everything *)
  Lemma spipeline_skip p stk s : busy s = true -> spipeline srec p stk s = SNorm s.
  Proof. intros H. unfold spipeline. rewrite H. reflexivity. Qed.
  Lemma sandor_rest_skip rest stk s : busy s = true -> sandor_rest srec rest stk s = SNorm s.
  Proof.
    intros H. induction rest as [|[a p] rest IH]; cbn [sandor_rest]; [reflexivity|].
    destruct (Bool.eqb a (ok s)); [|exact IH]. rewrite spipeline_skip by exact H. exact IH.
  Qed.
  Lemma sandor_skip a stk s : busy s = true -> sandor srec a stk s = SNorm s.
  Proof. intros H. destruct a as [f r]. unfold sandor. rewrite spipeline_skip by exact H. apply sandor_rest_skip, H. Qed.
  Lemma slist_skip l stk s : busy s = true -> slist srec l stk s = SNorm s.
  Proof. intros H. induction l as [|a l IH]; cbn [slist]; [reflexivity|]. rewrite sandor_skip by exact H. exact IH. Qed.
  Lemma selses_skip elses stk s : busy s = true -> selses srec elses stk s = SNorm s.
  Proof.
    intros H. induction elses as [|[[ec|] body] elses IH]; cbn [selses].
    - unfold snull. rewrite H. reflexivity.
    - rewrite slist_skip by exact H. cbn [sbind fst snd]. destruct (ok s); [apply slist_skip, H|exact IH].
    - apply slist_skip, H.
  Qed.
  Lemma scase_skip arms stk s : busy s = true -> forall fall, scase srec arms fall None stk s = SNorm s.
  Proof.
    intros H. induction arms as [|[[m pa] body] arms IH]; intros fall; cbn [scase]; [reflexivity|].
    destruct (fall || m); [|apply IH].
    destruct body as [b|].
    - rewrite slist_skip by exact H. cbn [sbind fst snd]. destruct pa; [reflexivity|apply IH|apply IH].
    - rewrite H. destruct pa; [reflexivity|apply IH|apply IH].
  Qed.

  (** *** simple commands *)
  Lemma sim_leaf l stk ctx lv w :
    scope_leaf ctx l = [] -> funs_ok (sh w) -> length ctx <= lv ->
    sim (expect_c (Leaf l) stk ctx lv) (exec_leaf rec l (exempt stk) w) (sleaf srec l stk (emb w 0 0 lv)).
  Proof.
    intros Hs Hf Hl. destruct l as [k|b| |n|n|a|a|o b|f|a]; cbn [exec_leaf sleaf].
    - intros _. split; [|exact Hf]. apply (check_ok (Leaf (LMark k)) stk ctx lv 0 (emit (EMark k) w)). reflexivity.
    - intros _. split; [|exact Hf]. destruct b; [apply (check_ok (Leaf (LStatus true)) stk ctx lv 0 w)|apply (check_ok (Leaf (LStatus false)) stk ctx lv 1 w)]; reflexivity.
    - intros _. split; [|exact Hf]. apply (check_ok (Leaf LProbe) stk ctx lv 0 (emit (EProbe (last (sh w))) w)). reflexivity.
    - (* break *)
      destruct n as [|k]; [discriminate|]. cbn [scope_leaf] in Hs.
      destruct (Nat.ltb k (length ctx)) eqn:E; [|discriminate]. apply Nat.ltb_lt in E.
      destruct (Nat.ltb k 127) eqn:E7; [|discriminate]. apply Nat.ltb_lt in E7.
      replace (Nat.ltb 127 (S k)) with false by (symmetry; apply Nat.ltb_ge; lia).
      intros _. split; [|exact Hf].
      unfold expect_c, pending. cbn [is_normal snd andb]. rewrite andb_false_r. cbn [expect snd fst].
      destruct lv as [|lv']; [lia|]. unfold do_break. cbn [loop_level emb].
      replace (Nat.min (S k) (S lv')) with (S k) by lia. split; [|exact E].
      unfold errexit_check, ok, slast. cbn. rewrite andb_false_r. reflexivity.
    - (* continue *)
      destruct n as [|k]; [discriminate|]. cbn [scope_leaf] in Hs.
      destruct (Nat.ltb k 127) eqn:E7; [|discriminate]. apply Nat.ltb_lt in E7. cbn [negb] in Hs.
      replace (Nat.ltb 127 (S k)) with false by (symmetry; apply Nat.ltb_ge; lia).
      destruct (nth_error ctx k) as [[|]|] eqn:E; try discriminate.
      assert (Hk : k < length ctx) by (apply nth_error_Some; rewrite E; discriminate).
      intros _. split; [|exact Hf].
      unfold expect_c, pending. cbn [is_normal snd andb]. rewrite andb_false_r. cbn [expect snd fst].
      destruct lv as [|lv']; [lia|]. unfold do_break. cbn [loop_level emb].
      replace (Nat.min (S k) (S lv')) with (S k) by lia. split; [|exact E].
      unfold errexit_check, ok, slast. cbn. rewrite andb_false_r. reflexivity.
    - (* return *)
      intros _. split; [|exact Hf]. cbn [b_sh emb].
      destruct (fdepth (sh w)) eqn:E.
      + apply (check_ok (Leaf (LReturn a)) stk ctx lv 2 w). reflexivity.
      + unfold expect_c, pending. cbn [is_normal snd andb]. rewrite andb_false_r. cbn [expect snd fst].
        destruct a as [m|]; [rewrite low_byte_wrap; do 3 eexists; reflexivity|].
        exists 0, 0, lv. rewrite emb_last_id. reflexivity.
    - (* exit *)
      intros _. split; [|exact Hf].
      unfold expect_c, pending. cbn [is_normal snd andb]. rewrite andb_false_r. cbn [expect snd fst].
      destruct a as [n|]; [rewrite low_byte_wrap|]; eexists; (split; [reflexivity|]); split; reflexivity.
    - intros _. split; [|exact Hf]. apply (check_ok (Leaf (LSet o b)) stk ctx lv 0 (upd_sh (set_opt o b) w)). reflexivity.
    - (* call *)
      cbn [b_sh emb]. destruct (lookup f (funs (sh w))) as [body|] eqn:E.
      + eapply (sim_bind (upd_sh enter_fn w)) with (P := expect_c body (PBody :: stk) [] 0)
                          (o1 := srec body (PBody :: stk) (emb (upd_sh enter_fn w) 0 0 0)).
        * apply (Hrec body (PBody :: stk) [] 0 (upd_sh enter_fn w)); [exact (Hf _ _ E)|exact Hf|apply Nat.le_refl].
        * intros r w1. destruct (snd r); apply mono_same; reflexivity.
        * intros H. change (b_counters 0 0 0 (b_upd enter_fn (emb w 0 0 lv))) with (emb (upd_sh enter_fn w) 0 0 0). rewrite H. reflexivity.
        * intros r w1 _ Hg HP Hf1.
          change (b_counters 0 0 0 (b_upd enter_fn (emb w 0 0 lv))) with (emb (upd_sh enter_fn w) 0 0 0).
          destruct r as [code fl]. unfold expect_c in HP.
          assert (Hpend : forall n, pending (PBody :: stk) (n, Normal) w1 = pending stk (n, Normal) (upd_sh leave_fn w1)) by reflexivity.
          destruct (checks body && pending (PBody :: stk) (code, fl) w1) eqn:Ep.
          -- (* the body itself was a checked command that failed under errexit *)
             apply andb_prop in Ep as [_ Ep]. destruct fl; try discriminate Ep.
             destruct HP as (s & -> & Hl1 & Ho1). cbn [snd]. intros _. split; [|exact Hf1].
             unfold expect_c. change (checks (Leaf (LCall f))) with true. rewrite <- Hpend, Ep. cbn [andb fst].
             exists s. repeat split; assumption.
          -- cbn [expect snd fst] in HP. destruct fl; cbn [snd].
             ++ rewrite HP. intros _. split; [|exact Hf1].
                apply (check_ok (Leaf (LCall f)) stk ctx lv code (upd_sh leave_fn w1)). reflexivity.
             ++ destruct HP as [_ HP]. cbn in HP. lia.
             ++ destruct HP as [_ HP]. destruct levels; discriminate HP.
             ++ destruct HP as (b & c & l' & ->). intros _. split; [|exact Hf1].
                apply (check_ok (Leaf (LCall f)) stk ctx lv code (upd_sh leave_fn w1)). reflexivity.
             ++ destruct HP as (s & -> & Hl1 & Ho1). intros _. split; [|exact Hf1].
                unfold expect_c, pending. cbn [is_normal snd andb]. rewrite andb_false_r. cbn [expect snd fst].
                exists s. repeat split; assumption.
        * eapply mono_shift; [|apply Mrec]. reflexivity.
      + intros _. split; [|exact Hf]. apply (check_ok (Leaf (LCall f)) stk ctx lv 127 w). reflexivity.
    - (* assignment-only command *)
      destruct a as [n|]; cbn; intros _; (split; [|exact Hf]).
      + apply (check_ok (Leaf (LAssign (Some n))) stk ctx lv (u8 n) (set_last (u8 n) w)). reflexivity.
      + apply (check_ok (Leaf (LAssign None)) stk ctx lv 0 (set_last 0 w)). reflexivity.
  Qed.

  Lemma checks_quiet c : checks c = false -> quiet_compound c = true.
  Proof. unfold checks. destruct (quiet_compound c); [reflexivity|discriminate]. Qed.

  (** *** pipelines (single command) *)
  Lemma sim_pipeline1 bang c stk ctx lv w :
    scope_cmd ctx c = [] -> funs_ok (sh w) -> length ctx <= lv ->
    sim (expect_s ctx lv) (exec_pipeline rec (bang, [c]) (exempt stk) w)
        (spipeline srec (bang, [c]) stk (emb w 0 0 lv)).
  Proof.
    intros Hs Hf Hl. unfold exec_pipeline, spipeline. rewrite busy_emb0.
    rewrite <- exempt_bang. set (stk' := if bang then PBang :: stk else stk).
    rewrite bind_assoc.
    eapply (sim_bind w) with (P := expect_c c stk' ctx lv) (o1 := srec c stk' (emb w 0 0 lv)).
    - apply Hrec; assumption.
    - intros r w1. cbn [bind]. apply mono_same; reflexivity.
    - intros ->. reflexivity.
    - intros r w1 _ Hg HP Hf1. cbn [bind]. rewrite pipe_result_single.
      destruct r as [code fl]. cbn [sim]. intros _. split; [|exact Hf1].
      unfold expect_c in HP.
      destruct (checks c && pending stk' (code, fl) w1) eqn:Ep.
      + (* bash exits inside the command, brush right here *)
        apply andb_prop in Ep as [Ec Ep]. unfold pending in Ep.
        destruct fl; try discriminate Ep. cbn [is_normal snd andb] in Ep.
        apply andb_prop in Ep as [Ep Ex]. apply andb_prop in Ep as [Ee En].
        destruct HP as (s & -> & Hl1 & Ho1). cbn [sbind].
        assert (Hbang : bang = false).
        { subst stk'. destruct bang; [|reflexivity]. cbn in Ex. discriminate Ex. }
        subst stk'. subst bang.
        apply negb_true_iff in Ex. rewrite Ex.
        unfold checks in Ec. rewrite Ec. cbn [negb andb is_return_or_exit snd fst].
        unfold apply_errexit. cbn [sh set_last upd_sh sh_set_last opt]. rewrite Ee.
        unfold is_success in *. cbn [fst snd is_normal] in *. rewrite En. cbn [andb negb].
        split; [|reflexivity]. cbn [expect snd fst]. exists s. repeat split; assumption.
      + assert (Hq : pending stk' (code, fl) w1 = true -> quiet_compound c = true).
        { intros Hp. rewrite Hp, andb_true_r in Ep. apply checks_quiet, Ep. }
        cbn [expect snd fst] in HP.
        destruct fl; cbn [is_normal is_return_or_exit snd fst andb negb] in *.
        * (* Normal *)
          rewrite HP. cbn [sbind fst snd]. rewrite andb_true_r.
          set (code' := if bang then if is_success (code, Normal) then 1 else 0 else code).
          assert (Hinv : (if bang then b_set_last (if ok (emb (set_last code w1) 0 0 lv) then 1 else 0) (emb (set_last code w1) 0 0 lv)
                          else emb (set_last code w1) 0 0 lv) = emb (set_last code' w1) 0 0 lv).
          { subst code'. destruct bang; reflexivity. }
          rewrite Hinv.
          assert (Hnofire : (if negb (exempt stk') && negb (quiet_compound c)
                             then apply_errexit (sh (set_last code' w1)) (code', Normal) else (code', Normal)) = (code', Normal)).
          { destruct (negb (exempt stk')) eqn:Ex; [|reflexivity].
            destruct (quiet_compound c) eqn:Eq; [reflexivity|]. cbn [andb negb].
            unfold apply_errexit. cbn [sh set_last upd_sh sh_set_last opt is_normal snd]. unfold is_success. cbn [fst].
            destruct (errexit (opt (sh w1)) && negb (Nat.eqb code' 0) && true) eqn:Efire; [|reflexivity].
            exfalso.
            assert (Hbang : bang = false).
            { subst stk'. destruct bang; [|reflexivity]. cbn in Ex. discriminate Ex. }
            subst code' stk'. subst bang.
            rewrite andb_true_r in Efire. apply andb_prop in Efire as [Ee En].
            enough (Habs : false = true) by discriminate Habs. apply Hq.
            unfold pending, is_success. cbn [is_normal snd andb fst]. rewrite Ee, En, Ex. reflexivity. }
          rewrite Hnofire. split; [|reflexivity]. cbn [expect snd fst]. reflexivity.
        * (* Break *)
          destruct HP as [-> Hk]. cbn [sbind fst snd]. rewrite andb_true_r.
          set (code' := if bang then if is_success (code, BreakLoop levels) then 1 else 0 else code).
          assert (Hinv : (if bang then b_set_last (if ok (emb (set_last code w1) (S levels) 0 lv) then 1 else 0) (emb (set_last code w1) (S levels) 0 lv)
                          else emb (set_last code w1) (S levels) 0 lv) = emb (set_last code' w1) (S levels) 0 lv).
          { subst code'. destruct bang; reflexivity. }
          rewrite Hinv.
          unfold apply_errexit. cbn [is_normal snd]. rewrite !andb_false_r.
          destruct (negb (exempt stk') && negb (quiet_compound c));
            (split; [|reflexivity]); cbn [expect snd fst]; (split; [reflexivity|exact Hk]).
        * (* Continue *)
          destruct HP as [-> Hk]. cbn [sbind fst snd]. rewrite andb_true_r.
          set (code' := if bang then if is_success (code, ContinueLoop levels) then 1 else 0 else code).
          assert (Hinv : (if bang then b_set_last (if ok (emb (set_last code w1) 0 (S levels) lv) then 1 else 0) (emb (set_last code w1) 0 (S levels) lv)
                          else emb (set_last code w1) 0 (S levels) lv) = emb (set_last code' w1) 0 (S levels) lv).
          { subst code'. destruct bang; reflexivity. }
          rewrite Hinv.
          unfold apply_errexit. cbn [is_normal snd]. rewrite !andb_false_r.
          destruct (negb (exempt stk') && negb (quiet_compound c));
            (split; [|reflexivity]); cbn [expect snd fst]; (split; [reflexivity|exact Hk]).
        * (* Return: neither side inverts *)
          destruct HP as (b0 & c0 & l0 & ->). cbn [sbind fst snd]. rewrite andb_false_r.
          unfold apply_errexit. cbn [is_normal snd]. rewrite !andb_false_r.
          destruct (negb (exempt stk') && negb (quiet_compound c));
            (split; [|reflexivity]); cbn [expect snd fst]; do 3 eexists; reflexivity.
        * (* Exit *)
          destruct HP as (s & -> & Hl1 & Ho1). cbn [sbind fst snd]. rewrite andb_false_r.
          unfold apply_errexit. cbn [is_normal snd]. rewrite !andb_false_r.
          destruct (negb (exempt stk') && negb (quiet_compound c));
            (split; [|reflexivity]); cbn [expect snd fst]; exists s; repeat split; assumption.
    - apply Mrec.
  Qed.

  Lemma sim_pipeline p stk ctx lv w :
    scope_pipeline scope_cmd ctx p = [] -> funs_ok (sh w) -> length ctx <= lv ->
    sim (expect_s ctx lv) (exec_pipeline rec p (exempt stk) w) (spipeline srec p stk (emb w 0 0 lv)).
  Proof.
    destruct p as [bang [|c [|c' cs]]]; unfold scope_pipeline; cbn [snd]; try discriminate.
    apply sim_pipeline1.
  Qed.

  (** what the model does with a pipeline-level outcome that is not Normal: it stops; bash skips *)
  Lemma expect_s_stop ctx lv r w o1 (k : bstate -> sres) :
    expect_s ctx lv r w o1 -> is_normal r = false ->
    (forall s, busy s = true -> k s = SNorm s) ->
    expect_s ctx lv r w (sbind o1 k).
  Proof.
    intros [He Hs] Hn Hk. split; [|exact Hs]. destruct r as [code fl]. unfold expect in *. cbn [snd fst] in *.
    destruct fl; try discriminate Hn.
    - destruct He as [-> Hb]. cbn [sbind]. rewrite Hk by reflexivity. split; [reflexivity|exact Hb].
    - destruct He as [-> Hb]. cbn [sbind]. rewrite Hk by reflexivity. split; [reflexivity|exact Hb].
    - destruct He as (b & c & l' & ->). do 3 eexists; reflexivity.
    - destruct He as (s & -> & H1 & H2). exists s. repeat split; assumption.
  Qed.

  Lemma expect_s_normal ctx lv r w o1 :
    expect_s ctx lv r w o1 -> is_normal r = true -> o1 = SNorm (emb w 0 0 lv).
  Proof.
    intros [He Hs] Hn. destruct r as [code fl]. unfold expect in He. cbn [snd fst] in *.
    destruct fl; try discriminate Hn. rewrite He, set_last_id by exact Hs. reflexivity.
  Qed.

  (** *** and-or lists *)
  Lemma sim_andor_rest stk ctx lv rest : forall res w o1,
    flat_map (fun x => scope_pipeline scope_cmd ctx (snd x)) rest = [] ->
    expect_s ctx lv res w o1 -> funs_ok (sh w) -> length ctx <= lv ->
    sim (expect_s ctx lv) (andor_rest rec rest (exempt stk) res w) (sbind o1 (sandor_rest srec rest stk)).
  Proof.
    induction rest as [|[is_and p] rest IH]; intros res w o1 Hs He Hf Hl; cbn [andor_rest sandor_rest].
    - intros _. split; [|exact Hf]. change (fun s => SNorm s) with (fun s : bstate => SNorm s).
      rewrite sbind_norm. exact He.
    - cbn [flat_map snd] in Hs. apply app_eq_nil in Hs as [Hs1 Hs2].
      destruct (is_normal res) eqn:En; cbn [negb].
      + pose proof (expect_s_normal _ _ _ _ _ He En) as ->. cbn [sbind].
        assert (Hok : ok (emb w 0 0 lv) = is_success res).
        { destruct He as [_ Hsy]. unfold ok, slast, is_success. cbn. rewrite Hsy. reflexivity. }
        rewrite Hok. destruct (Bool.eqb is_and (is_success res)).
        * set (stk' := match rest with [] => stk | _ => PNonFinal :: stk end).
          replace (if match rest with [] => true | _ => false end then exempt stk else true) with (exempt stk')
            by (subst stk'; destruct rest; reflexivity).
          eapply (sim_bind w) with (P := expect_s ctx lv).
          -- apply sim_pipeline; assumption.
          -- intros r w1. apply mono_andor_rest; assumption.
          -- intros ->. reflexivity.
          -- intros r w1 _ Hg HP Hf1. apply IH; assumption.
          -- apply mono_pipeline; assumption.
        * apply (IH res w (SNorm (emb w 0 0 lv))); try assumption.
      + intros _. split; [|exact Hf]. apply expect_s_stop; [exact He|exact En|].
        intros s Hb. cbn [sandor_rest]. destruct (Bool.eqb is_and (ok s)).
        * rewrite spipeline_skip by exact Hb. apply sandor_rest_skip, Hb.
        * apply sandor_rest_skip, Hb.
  Qed.

  Lemma sim_andor a stk ctx lv w :
    scope_andor scope_cmd ctx a = [] -> funs_ok (sh w) -> length ctx <= lv ->
    sim (expect_s ctx lv) (exec_andor rec a (exempt stk) w) (sandor srec a stk (emb w 0 0 lv)).
  Proof.
    destruct a as [first rest]. unfold scope_andor, exec_andor, sandor. cbn [fst snd].
    intros Hs Hf Hl. apply app_eq_nil in Hs as [Hs1 Hs2].
    set (stk' := match rest with [] => stk | _ => PNonFinal :: stk end).
    replace (if match rest with [] => false | _ => true end then true else exempt stk) with (exempt stk')
      by (subst stk'; destruct rest; reflexivity).
    eapply (sim_bind w) with (P := expect_s ctx lv).
    - apply sim_pipeline; assumption.
    - intros r w1. apply mono_andor_rest; assumption.
    - intros ->. reflexivity.
    - intros r w1 _ Hg HP Hf1. apply sim_andor_rest; assumption.
    - apply mono_pipeline; assumption.
  Qed.

  (** *** compound lists *)
  Lemma sim_clist_cons stk ctx lv l : forall a res w,
    flat_map (scope_andor scope_cmd ctx) (a :: l) = [] -> funs_ok (sh w) -> length ctx <= lv ->
    sim (expect_s ctx lv) (clist_items rec (a :: l) (exempt stk) res w) (slist srec (a :: l) stk (emb w 0 0 lv)).
  Proof.
    induction l as [|a' l IH]; intros a res w Hs Hf Hl; cbn [flat_map] in Hs; apply app_eq_nil in Hs as [Hs1 Hs2];
      cbn [clist_items slist].
    - eapply (sim_bind w) with (P := expect_s ctx lv).
      + apply sim_andor; assumption.
      + intros r w1. destruct (negb (is_normal r)); apply mono_same; reflexivity.
      + intros ->. reflexivity.
      + intros r w1 _ Hg HP Hf1. rewrite (set_last_id (fst r) w1) by apply HP.
        destruct (is_normal r) eqn:En; cbn [negb]; intros _; (split; [|exact Hf1]).
        * rewrite (expect_s_normal _ _ _ _ _ HP En). cbn [sbind]. rewrite <- (expect_s_normal _ _ _ _ _ HP En). exact HP.
        * apply expect_s_stop; [exact HP|exact En|]. intros; reflexivity.
      + apply mono_andor; assumption.
    - eapply (sim_bind w) with (P := expect_s ctx lv).
      + apply sim_andor; assumption.
      + intros r w1. destruct (negb (is_normal r)); [apply mono_same; reflexivity|].
        apply (mono_shift w1 (set_last (fst r) w1)); [reflexivity|].
        exact (mono_clist_items rec Mrec (a' :: l) (exempt stk) r (set_last (fst r) w1)).
      + intros ->. reflexivity.
      + intros r w1 _ Hg HP Hf1. rewrite (set_last_id (fst r) w1) by apply HP.
        destruct (is_normal r) eqn:En; cbn [negb].
        * rewrite (expect_s_normal _ _ _ _ _ HP En). cbn [sbind].
          exact (IH a' r w1 Hs2 Hf1 Hl).
        * intros _. split; [|exact Hf1]. apply expect_s_stop; [exact HP|exact En|].
          intros s Hb. apply (slist_skip (a' :: l)), Hb.
      + apply mono_andor; assumption.
  Qed.

  Lemma sim_clist l stk ctx lv w :
    scope_clist scope_cmd ctx l = [] -> funs_ok (sh w) -> length ctx <= lv ->
    sim (expect_s ctx lv) (exec_clist rec l (exempt stk) w) (slist srec l stk (emb w 0 0 lv)).
  Proof.
    destruct l as [|a l]; [discriminate|]. unfold scope_clist, exec_clist. apply sim_clist_cons.
  Qed.

  (** *** after a loop body (shared by for and while/until) *)
  Definition spec_after_body (ks : status -> bstate -> sres) (s1 : bstate) : sres :=
    let '(leave, s2) := after_body s1 in
    if leave then SNorm (b_set_last (slast s2) (loop_leave s2)) else ks (slast s2) s2.

  Lemma body_step ctx lv r w1 o1 (KM : outcome result) (ks : status -> bstate -> sres) :
    expect_s (FLoop :: ctx) (S lv) r w1 o1 -> funs_ok (sh w1) ->
    (snd (dec_result r) = Normal -> sim (expect_s ctx lv) KM (ks (fst r) (emb w1 0 0 (S lv)))) ->
    sim (expect_s ctx lv)
        (if is_return_or_exit r then finish r w1
         else if is_break r || is_continue (dec_result r) then finish (dec_result r) w1 else KM)
        (sbind o1 (spec_after_body ks)).
  Proof.
    intros [He Hsy] Hf Hk. destruct r as [code fl]. unfold expect in He. cbn [fst snd] in *.
    assert (Hid : set_last code w1 = w1) by (apply set_last_id, Hsy).
    unfold is_return_or_exit, is_break, is_continue, dec_result. cbn [fst snd].
    destruct fl as [|k|k| |]; cbn [dec].
    - rewrite He, Hid. cbn [sbind orb]. unfold spec_after_body. cbn. rewrite slast_emb, Hsy. apply Hk. reflexivity.
    - destruct He as [-> Hb]. cbn [sbind]. unfold spec_after_body. cbn [after_body breaking emb].
      cbn [orb finish sim]. intros _. split; [|exact Hf]. unfold expect_s, expect.
      destruct k as [|k']; cbn [snd fst dec]; (split; [|reflexivity]).
      + reflexivity.
      + split; [reflexivity|]. cbn [length] in Hb. lia.
    - destruct He as [-> Hb]. cbn [sbind]. unfold spec_after_body. cbn [after_body breaking continuing emb].
      destruct k as [|k']; cbn [snd fst dec orb Nat.eqb negb].
      + change (sim (expect_s ctx lv) KM (ks code (emb (set_last code w1) 0 0 (S lv)))).
        rewrite Hid. apply Hk. reflexivity.
      + cbn [finish sim]. intros _. split; [|exact Hf]. unfold expect_s, expect. cbn [snd fst]. split; [|reflexivity].
        split; [reflexivity|]. exact Hb.
    - destruct He as (b & c & l' & ->). cbn [sbind finish sim]. intros _. split; [|exact Hf].
      split; [|reflexivity]. unfold expect. cbn [snd fst]. do 3 eexists. reflexivity.
    - destruct He as (s & -> & H1 & H2). cbn [sbind finish sim]. intros _. split; [|exact Hf].
      split; [|reflexivity]. unfold expect. cbn [snd fst]. exists s. repeat split; assumption.
  Qed.

  Lemma bind_if {A B} (c : bool) (x y : outcome A) (f : A -> world -> outcome B) :
    bind (if c then x else y) f = if c then bind x f else bind y f.
  Proof. destruct c; reflexivity. Qed.

  (** *** for loops *)
  Lemma sim_for stk ctx lv b n : forall res w,
    scope_clist scope_cmd (FLoop :: ctx) b = [] -> funs_ok (sh w) -> length ctx <= lv -> snd res = Normal ->
    sim (expect_s ctx lv) (bind (for_iter rec n b (exempt stk) res w) finish)
        (sfor srec n b stk (fst res) (emb w 0 0 (S lv))).
  Proof.
    induction n as [|n IH]; intros res w Hs Hf Hl Hn; cbn [for_iter sfor].
    - cbn [bind finish sim]. intros _. split; [|exact Hf]. split; [|reflexivity].
      destruct res as [code fl]. cbn [snd fst] in *. subst fl. unfold expect. cbn [snd fst]. reflexivity.
    - rewrite bind_assoc.
      eapply (sim_bind w) with (P := expect_s (FLoop :: ctx) (S lv)).
      + replace (exempt stk) with (exempt (PBody :: stk)) by reflexivity.
        apply sim_clist; [exact Hs|exact Hf|cbn [length]; lia].
      + intros r w1. rewrite !bind_if. destruct (is_return_or_exit r); [apply mono_same; reflexivity|].
        destruct (is_break r || is_continue (dec_result r)); [apply mono_same; reflexivity|].
        apply mono_bind; [apply mono_for; assumption|]. intros; apply mono_finish.
      + intros ->. reflexivity.
      + intros r w1 _ Hg HP Hf1. rewrite !bind_if.
        change (bind (Out r w1) finish) with (finish r w1).
        change (bind (Out (dec_result r) w1) finish) with (finish (dec_result r) w1).
        apply (body_step ctx lv r w1 _ _ (fun rv s2 => sfor srec n b stk rv s2)); [exact HP|exact Hf1|].
        intros Hd. apply (IH (dec_result r) w1); assumption.
      + apply mono_clist; assumption.
  Qed.

  (** *** case *)
  Lemma sim_case stk ctx lv arms : forall force res w rv,
    flat_map (fun a : bool * post * option clist => match snd a with Some b => scope_clist scope_cmd ctx b | None => [] end) arms = [] ->
    funs_ok (sh w) -> length ctx <= lv -> snd res = Normal ->
    match rv with Some v => fst res = v | None => fst res = last (sh w) end ->
    sim (expect_s ctx lv) (bind (case_iter rec arms force (exempt stk) res w) finish)
        (scase srec arms force rv stk (emb w 0 0 lv)).
  Proof.
    induction arms as [|[[m pa] body] arms IH]; intros force res w rv Hs Hf Hl Hn Hrv; cbn [case_iter scase].
    - cbn [bind finish sim]. intros _. split; [|exact Hf]. split; [|reflexivity].
      destruct res as [code fl]. cbn [snd fst] in *. subst fl. unfold expect. cbn [snd fst].
      destruct rv as [v|]; subst; [reflexivity|]. change (set_last (last (sh w)) (set_last (last (sh w)) w)) with (set_last (last (sh w)) w). rewrite emb_last_id. reflexivity.
    - cbn [flat_map snd] in Hs. apply app_eq_nil in Hs as [Hs1 Hs2].
      destruct (force || m); [|apply IH; assumption].
      destruct body as [b|].
      + rewrite bind_assoc. eapply (sim_bind w) with (P := expect_s ctx lv).
        * replace (exempt stk) with (exempt (PBody :: stk)) by reflexivity. apply sim_clist; assumption.
        * intros r w1. rewrite bind_if. destruct (negb (is_normal r)); [apply mono_same; reflexivity|].
          destruct pa; [apply mono_same; reflexivity| |]; (apply mono_bind; [apply mono_case; assumption|intros; apply mono_finish]).
        * intros ->. reflexivity.
        * intros r w1 _ Hg HP Hf1. rewrite bind_if.
          destruct (is_normal r) eqn:En; cbn [negb].
          -- rewrite (expect_s_normal _ _ _ _ _ HP En). cbn [sbind].
             destruct pa.
             ++ cbn [bind finish sim]. intros _. split; [|exact Hf1]. split; [|reflexivity].
                destruct HP as [HP Hsy]. destruct r as [code fl]. cbn [snd fst is_normal] in *.
                destruct fl; try discriminate En. unfold expect. cbn [snd fst].
                change (set_last code (set_last code w1)) with (set_last code w1). rewrite (set_last_id code w1) by exact Hsy. reflexivity.
             ++ apply IH; try assumption; [destruct r as [? []]; try discriminate En; reflexivity|]. symmetry; apply HP.
             ++ apply IH; try assumption; [destruct r as [? []]; try discriminate En; reflexivity|]. symmetry; apply HP.
          -- cbn [bind finish sim]. intros _. split; [|exact Hf1].
             assert (He : expect_s ctx lv r (set_last (fst r) w1)
                            (sbind (slist srec b (PBody :: stk) (emb w 0 0 lv))
                               (fun s1 => match pa with
                                          | PExit => SNorm s1
                                          | PFall => scase srec arms true None stk s1
                                          | PNext => scase srec arms false None stk s1
                                          end))).
             { rewrite (set_last_id (fst r) w1) by apply HP. apply expect_s_stop; [exact HP|exact En|].
               intros s Hb. destruct pa; [reflexivity| |]; apply scase_skip, Hb. }
             exact He.
        * apply mono_clist; assumption.
      + rewrite busy_emb0. cbn [bind negb is_normal success snd].
        destruct pa.
        * cbn [bind finish sim]. intros _. split; [|exact Hf]. split; reflexivity.
        * apply IH; try assumption; reflexivity.
        * apply IH; try assumption; reflexivity.
  Qed.

  (** *** elif / else *)
  Lemma sim_elses stk ctx lv elses : forall w,
    flat_map (fun e : option clist * clist => match fst e with Some ec => scope_clist scope_cmd ctx ec | None => [] end
                       ++ scope_clist scope_cmd ctx (snd e)) elses = [] ->
    funs_ok (sh w) -> length ctx <= lv ->
    sim (expect_s ctx lv) (elses_iter rec elses (exempt stk) w) (selses srec elses stk (emb w 0 0 lv)).
  Proof.
    induction elses as [|[[ec|] body] elses IH]; intros w Hs Hf Hl; cbn [elses_iter selses].
    - intros _. split; [|exact Hf]. split; reflexivity.
    - cbn [flat_map fst snd] in Hs. apply app_eq_nil in Hs as [Hs1 Hs3]. apply app_eq_nil in Hs1 as [Hs1 Hs2].
      eapply (sim_bind w) with (P := expect_s ctx lv).
      + replace true with (exempt (PCond :: stk)) by reflexivity. apply sim_clist; assumption.
      + intros r w1. destruct (negb (is_normal r)); [apply mono_same; reflexivity|].
        destruct (is_success r); [apply mono_clist|apply mono_elses]; assumption.
      + intros ->. reflexivity.
      + intros r w1 _ Hg HP Hf1. destruct (is_normal r) eqn:En; cbn [negb].
        * rewrite (expect_s_normal _ _ _ _ _ HP En). cbn [sbind].
          assert (Hok : ok (emb w1 0 0 lv) = is_success r).
          { destruct HP as [_ Hsy]. unfold ok, is_success. rewrite slast_emb, Hsy. reflexivity. }
          rewrite Hok. destruct (is_success r).
          -- replace (exempt stk) with (exempt (PBody :: stk)) by reflexivity. apply sim_clist; assumption.
          -- apply IH; assumption.
        * intros _. split; [|exact Hf1]. apply expect_s_stop; [exact HP|exact En|].
          intros s Hb. destruct (ok s); [apply slist_skip, Hb|apply selses_skip, Hb].
      + apply mono_clist; assumption.
    - cbn [flat_map fst snd app] in Hs. apply app_eq_nil in Hs as [Hs1 Hs3].
      replace (exempt stk) with (exempt (PBody :: stk)) by reflexivity. apply sim_clist; assumption.
  Qed.

  Lemma expect_s_c c stk ctx lv r w o : checks c = false -> expect_s ctx lv r w o -> expect_c c stk ctx lv r w o.
  Proof. intros Hc [He _]. unfold expect_c. rewrite Hc. exact He. Qed.

  Lemma sim_weaken {A} (P Q : A -> world -> sres -> Prop) m o :
    (forall a w, P a w o -> Q a w o) -> sim P m o -> sim Q m o.
  Proof. intros H Hs. destruct m; cbn [sim] in *; [|exact Hs]. intros Hg. destruct (Hs Hg). split; auto. Qed.

  (** *** commands *)
  Lemma sim_cmd c stk ctx lv w :
    scope_cmd ctx c = [] -> funs_ok (sh w) -> length ctx <= lv ->
    sim (expect_c c stk ctx lv) (exec_cmd rec recw c (exempt stk) w) (scmd srec srecw c stk (emb w 0 0 lv)).
  Proof.
    intros Hs Hf Hl. destruct c as [l|v lim|b|b|c t elses|u c b|ar n b|arms|f body|k c0]; cbn [exec_cmd scmd scope_cmd] in *.
    - apply sim_leaf; assumption.
    - intros _. split; [|exact Hf]. cbn [b_sh emb].
      destruct (Nat.ltb (ctr v (sh w)) lim).
      + apply (check_ok (Tick v lim) stk ctx lv 0 (upd_sh (bump v) w)). reflexivity.
      + apply (check_ok (Tick v lim) stk ctx lv 1 (upd_sh (bump v) w)). reflexivity.
    - eapply sim_weaken; [intros a w0; apply expect_s_c; reflexivity|].
      replace (exempt stk) with (exempt (PBody :: stk)) by reflexivity. apply sim_clist; assumption.
    - (* subshell *)
      replace (child false (emb w 0 0 lv)) with (emb w 0 0 0)
        by (unfold child, emb; cbn; rewrite orb_false_r; reflexivity).
      eapply (sim_bind w) with (P := expect_s [] 0).
      + replace (exempt stk) with (exempt (PBody :: stk)) by reflexivity. apply sim_clist; [exact Hs|exact Hf|apply Nat.le_refl].
      + intros r w1. apply mono_same; reflexivity.
      + intros ->. reflexivity.
      + intros r w1 _ Hg [HP Hsy] Hf1. intros _. split; [|exact Hf].
        destruct r as [code fl]. unfold expect in HP. cbn [fst snd] in *.
        assert (Hgoal : forall o1, reap (emb w 0 0 lv) o1 = SNorm (emb (set_last code (restore w w1)) 0 0 lv) ->
                  expect_c (Subshell b) stk ctx lv (code, Normal) (restore w w1) (sbind (reap (emb w 0 0 lv) o1) (errexit_check stk))).
        { intros o1 ->. cbn [sbind]. apply (check_ok (Subshell b) stk ctx lv code (restore w w1)). reflexivity. }
        destruct fl.
        * apply Hgoal. rewrite HP. reflexivity.
        * destruct HP as [_ HP]. cbn in HP. lia.
        * destruct HP as [_ HP]. destruct levels; discriminate HP.
        * destruct HP as (b0 & c0 & l0 & ->). apply Hgoal. reflexivity.
        * destruct HP as (s & -> & H1 & H2). apply Hgoal. cbn [reap]. rewrite H1, H2. reflexivity.
      + apply mono_clist; assumption.
    - (* if *)
      apply app_eq_nil in Hs as [Hs1 Hs2]. apply app_eq_nil in Hs2 as [Hs2 Hs3].
      eapply sim_weaken; [intros a w0; apply expect_s_c; reflexivity|].
      eapply (sim_bind w) with (P := expect_s ctx lv).
      + replace true with (exempt (PCond :: stk)) by reflexivity. apply sim_clist; assumption.
      + intros r w1. destruct (negb (is_normal r)); [apply mono_same; reflexivity|].
        destruct (is_success r); [apply mono_clist|apply mono_elses]; assumption.
      + intros ->. reflexivity.
      + intros r w1 _ Hg HP Hf1. destruct (is_normal r) eqn:En; cbn [negb].
        * rewrite (expect_s_normal _ _ _ _ _ HP En). cbn [sbind].
          assert (Hok : ok (emb w1 0 0 lv) = is_success r).
          { destruct HP as [_ Hsy]. unfold ok, is_success. rewrite slast_emb, Hsy. reflexivity. }
          rewrite Hok. destruct (is_success r).
          -- replace (exempt stk) with (exempt (PBody :: stk)) by reflexivity. apply sim_clist; assumption.
          -- apply sim_elses; assumption.
        * intros _. split; [|exact Hf1]. apply expect_s_stop; [exact HP|exact En|].
          intros s Hb. destruct (ok s); [apply slist_skip, Hb|apply selses_skip, Hb].
      + apply mono_clist; assumption.
    - (* while / until *)
      apply app_eq_nil in Hs as [Hs1 Hs2].
      eapply sim_weaken; [intros a w0; apply expect_s_c; reflexivity|].
      apply (Hrecw u c b stk ctx lv success w); try assumption. reflexivity.
    - (* for *)
      eapply sim_weaken; [intros a w0; apply expect_s_c; reflexivity|].
      apply (sim_for stk ctx lv b n success w); try assumption. reflexivity.
    - (* case *)
      eapply sim_weaken; [intros a w0; apply expect_s_c; reflexivity|].
      apply (sim_case stk ctx lv arms false success w (Some 0)); try assumption; reflexivity.
    - (* function definition *)
      intros _. split.
      + apply (check_ok (FunDef f body) stk ctx lv 0 (upd_sh (define f body) w)). reflexivity.
      + intros f' body'. cbn. destruct (Nat.eqb f' f); [intros E; inversion E; subst; exact Hs|apply Hf].
    - (* compound command with redirections: transparent on both sides, also for the errexit decision *)
      assert (Hs' : scope_cmd ctx c0 = []) by (destruct c0; try discriminate Hs; exact Hs).
      exact (Hrec c0 stk ctx lv w Hs' Hf Hl).
  Qed.

  (** *** one iteration of while / until *)
  Lemma sim_while_step u c b stk ctx lv res w :
    scope_clist scope_cmd (FCond :: ctx) c = [] -> scope_clist scope_cmd (FLoop :: ctx) b = [] ->
    funs_ok (sh w) -> length ctx <= lv -> snd res = Normal ->
    sim (expect_s ctx lv) (while_step rec recw u c b (exempt stk) res w)
        (swhile_step srec srecw u c b stk (fst res) (emb w 0 0 (S lv))).
  Proof.
    intros Hc Hb Hf Hl Hn. unfold while_step, swhile_step.
    eapply (sim_bind w) with (P := expect_s (FCond :: ctx) (S lv)).
    - replace true with (exempt (PCond :: stk)) by reflexivity. apply sim_clist; [exact Hc|exact Hf|cbn [length]; lia].
    - intros rc w1. destruct (negb (is_normal rc)).
      + apply mono_out. msimp. match goal with |- context [if ?x then _ :: _ else _] => destruct x end;
          repeat apply ext_cons; apply ext_refl.
      + destruct (Bool.eqb (is_success rc) u); [apply mono_same; reflexivity|].
        eapply mono_shift; [|apply mono_bind; [apply mono_clist; assumption|]]; [reflexivity|].
        intros r w3. destruct (is_return_or_exit r); [apply mono_finish|].
        destruct (is_break r || is_continue (dec_result r)); [apply mono_finish|apply Mrecw].
    - intros ->. reflexivity.
    - intros rc w1 _ Hg HP Hf1. rewrite (set_last_id (fst rc) w1) by apply HP.
      destruct (is_normal rc) eqn:En; cbn [negb].
      + (* the condition ended normally *)
        rewrite (expect_s_normal _ _ _ _ _ HP En). cbn [sbind].
        assert (Hok : ok (emb w1 0 0 (S lv)) = is_success rc).
        { destruct HP as [_ Hsy]. unfold ok, is_success. rewrite slast_emb, Hsy. reflexivity. }
        rewrite Hok. destruct (Bool.eqb (is_success rc) u).
        * cbn [finish sim]. intros _. split; [|exact Hf1]. split; [|reflexivity].
          destruct res as [code fl]. cbn [snd fst] in *. subst fl. unfold expect. cbn [snd fst]. reflexivity.
        * eapply (sim_bind w1) with (P := expect_s (FLoop :: ctx) (S lv)).
          -- replace (exempt stk) with (exempt (PBody :: stk)) by reflexivity.
             apply sim_clist; [exact Hb|exact Hf1|cbn [length]; lia].
          -- intros r w3. destruct (is_return_or_exit r); [apply mono_finish|].
             destruct (is_break r || is_continue (dec_result r)); [apply mono_finish|apply Mrecw].
          -- intros ->. reflexivity.
          -- intros r w3 _ Hg3 HP3 Hf3.
             apply (body_step ctx lv r w3 _ _ (fun rv s2 => srecw u c b stk rv s2)); [exact HP3|exact Hf3|].
             intros Hd. apply (Hrecw u c b stk ctx lv (dec_result r) w3); assumption.
          -- apply mono_clist; assumption.
      + (* break/continue/return/exit in the condition *)
        cbn [finish sim]. msimp. intros Hgh.
        assert (Hmk : ((is_break rc || is_continue rc) && Bool.eqb (is_success rc) u && negb (Nat.eqb (fst res) (fst rc))) = false).
        { destruct (_ && negb (Nat.eqb (fst res) (fst rc))); [discriminate Hgh|reflexivity]. }
        split; [|exact Hf1].
        destruct HP as [HP Hsy]. destruct rc as [code fl]. unfold expect in HP. cbn [fst snd] in *.
        unfold is_break, is_continue, is_success, dec_result in *. cbn [fst snd] in *.
        assert (Hid : set_last code w1 = w1) by (apply set_last_id, Hsy).
        destruct fl as [|k|k| |]; try discriminate En; cbn [dec orb andb] in *.
        * (* break *)
          destruct HP as [-> Hk]. cbn [sbind]. unfold ok. rewrite slast_emb. cbn [set_last upd_sh sh sh_set_last last].
          split; [|reflexivity]. unfold expect.
          destruct (Bool.eqb (Nat.eqb code 0) u).
          -- apply negb_false_iff, Nat.eqb_eq in Hmk. rewrite Hmk.
             destruct k as [|k']; cbn [snd fst dec]; [reflexivity|]. split; [reflexivity|]. cbn [length] in Hk. lia.
          -- rewrite slist_skip by reflexivity. cbn [sbind].
             destruct k as [|k']; cbn [snd fst dec]; [reflexivity|]. split; [reflexivity|]. cbn [length] in Hk. lia.
        * (* continue: it cannot target this loop from its own condition *)
          destruct HP as [-> Hk]. destruct k as [|k']; [discriminate Hk|]. cbn [nth_error] in Hk.
          cbn [sbind]. unfold ok. rewrite slast_emb. cbn [set_last upd_sh sh sh_set_last last].
          split; [|reflexivity]. unfold expect. cbn [snd fst dec].
          destruct (Bool.eqb (Nat.eqb code 0) u).
          -- apply negb_false_iff, Nat.eqb_eq in Hmk. rewrite Hmk. split; [reflexivity|exact Hk].
          -- rewrite slist_skip by reflexivity. cbn [sbind]. split; [reflexivity|exact Hk].
        * destruct HP as (b0 & c0 & l0 & ->). cbn [sbind]. split; [|reflexivity]. unfold expect. cbn [snd fst]. do 3 eexists. reflexivity.
        * destruct HP as (s & -> & H1 & H2). cbn [sbind]. split; [|reflexivity]. unfold expect. cbn [snd fst]. exists s. repeat split; assumption.
    - apply mono_clist; assumption.
  Qed.
End Sim.

Lemma sexec_skip fuel c stk s : busy s = true -> sexec fuel c stk s = SNorm s.
Proof. intros H. destruct fuel; cbn [sexec]; rewrite H; reflexivity. Qed.

(** ** the simulation theorem, for every fuel, every nesting depth, every position stack *)
Theorem sim_exec fuel :
  (forall c stk ctx l w, scope_cmd ctx c = [] -> funs_ok (sh w) -> length ctx <= l ->
     sim (expect_c c stk ctx l) (exec fuel c (exempt stk) w) (sexec fuel c stk (emb w 0 0 l))) /\
  (forall u c b stk ctx l res w,
     scope_clist scope_cmd (FCond :: ctx) c = [] -> scope_clist scope_cmd (FLoop :: ctx) b = [] ->
     funs_ok (sh w) -> length ctx <= l -> snd res = Normal ->
     sim (expect_s ctx l) (while_loop fuel u c b (exempt stk) res w)
         (swhile fuel u c b stk (fst res) (emb w 0 0 (S l)))).
Proof.
  induction fuel as [|f [IH1 IH2]]; split; intros.
  - cbn. intros _. reflexivity.
  - cbn. intros _. reflexivity.
  - cbn [exec sexec]. rewrite busy_emb0.
    apply sim_cmd; try assumption; try apply (mono_exec f); try apply sexec_skip.
  - cbn [while_loop swhile].
    apply sim_while_step; try assumption; try apply (mono_exec f); try apply sexec_skip.
Qed.

(** ** programs *)
Lemma sprogram_skip srec cs s : busy s = true -> sprogram srec cs s = SNorm s.
Proof.
  intros H. induction cs as [|c cs IH]; cbn [sprogram]; [reflexivity|].
  rewrite (slist_skip srec) by exact H. exact IH.
Qed.

Lemma sim_program fuel cs : forall c res w,
  flat_map (scope_clist scope_cmd []) (c :: cs) = [] -> funs_ok (sh w) ->
  sim (expect_s [] 0) (program_items (exec fuel) (c :: cs) res w) (sprogram (sexec fuel) (c :: cs) (emb w 0 0 0)).
Proof.
  pose proof (sim_exec fuel) as [H1 H2]. pose proof (mono_exec fuel) as [M1 M2].
  assert (Hclist : forall l w, scope_clist scope_cmd [] l = [] -> funs_ok (sh w) ->
            sim (expect_s [] 0) (exec_clist (exec fuel) l false w) (slist (sexec fuel) l [] (emb w 0 0 0))).
  { intros l w Hs Hf. change false with (exempt []).
    apply (sim_clist (exec fuel) (sexec fuel)); try assumption; try apply Nat.le_refl;
      try apply sexec_skip. }
  induction cs as [|c' cs IH]; intros c res w Hs Hf; cbn [flat_map] in Hs; apply app_eq_nil in Hs as [Hs1 Hs2];
    cbn [program_items sprogram].
  - eapply (sim_bind w) with (P := expect_s [] 0).
    + apply Hclist; assumption.
    + intros r w1. destruct (negb (is_normal r)); apply mono_same; reflexivity.
    + intros ->. reflexivity.
    + intros r w1 _ Hg HP Hf1. rewrite (set_last_id (fst r) w1) by apply HP.
      destruct (is_normal r) eqn:En; cbn [negb]; intros _; (split; [|exact Hf1]).
      * rewrite (expect_s_normal _ _ _ _ _ HP En). cbn [sbind]. rewrite <- (expect_s_normal _ _ _ _ _ HP En). exact HP.
      * apply expect_s_stop; [exact HP|exact En|]. intros; reflexivity.
    + apply mono_clist; assumption.
  - eapply (sim_bind w) with (P := expect_s [] 0).
    + apply Hclist; assumption.
    + intros r w1. destruct (negb (is_normal r)); [apply mono_same; reflexivity|].
      apply (mono_shift w1 (set_last (fst r) w1)); [reflexivity|].
      exact (mono_program (exec fuel) M1 (c' :: cs) r (set_last (fst r) w1)).
    + intros ->. reflexivity.
    + intros r w1 _ Hg HP Hf1. rewrite (set_last_id (fst r) w1) by apply HP.
      destruct (is_normal r) eqn:En; cbn [negb].
      * rewrite (expect_s_normal _ _ _ _ _ HP En). cbn [sbind]. exact (IH c' r w1 Hs2 Hf1).
      * intros _. split; [|exact Hf1]. apply expect_s_stop; [exact HP|exact En|].
        intros s Hb. apply (sprogram_skip (sexec fuel) (c' :: cs)); exact Hb.
    + apply mono_clist; assumption.
Qed.

(** ** what an observer sees: how the run ended, the final [$?], the output *)
Inductive ending := ENormal | EReturn | EExit | EStray.
Definition obs_model (o : outcome result) : option (ending * status * list event) :=
  match o with
  | Out r w =>
      Some (match snd r with Normal => ENormal | ReturnFn => EReturn | ExitShell => EExit | _ => EStray end,
            fst r, out w)
  | OutOfFuel _ => None
  end.
Definition obs_spec (o : sres) : option (ending * status * list event) :=
  match o with
  | SNorm s => Some (ENormal, slast s, b_out s)
  | SRet s => Some (EReturn, slast s, b_out s)
  | SExit s => Some (EExit, slast s, b_out s)
  | SFuel => None
  end.
Definition ghost_free (o : outcome result) : Prop :=
  match o with Out _ w => ghost w = [] | OutOfFuel g => g = [] end.

Theorem cf_simulation fuel p :
  well_scoped p -> sim (expect_s [] 0) (run_model fuel p) (run_spec fuel p).
Proof.
  unfold well_scoped, scope_program, run_model, run_spec. intros Hs.
  destruct p as [|c cs].
  - cbn. intros _. split; [split; reflexivity|]. intros f body E. discriminate E.
  - apply (sim_program fuel cs c success init_world Hs). intros f body E. discriminate E.
Qed.

Theorem cf_trace_eq fuel p :
  well_scoped p -> ghost_free (run_model fuel p) -> obs_model (run_model fuel p) = obs_spec (run_spec fuel p).
Proof.
  intros Hs Hg. pose proof (cf_simulation fuel p Hs) as H.
  destruct (run_model fuel p) as [r w|g]; cbn [sim ghost_free obs_model] in *.
  - destruct (H Hg) as [[He Hsy] _]. destruct r as [code fl]. unfold expect in He. cbn [fst snd] in *.
    destruct fl.
    + rewrite He. reflexivity.
    + destruct He as [_ He]. cbn in He. lia.
    + destruct He as [_ He]. destruct levels; discriminate He.
    + destruct He as (b & c & l & ->). reflexivity.
    + destruct He as (s & -> & H1 & H2). cbn. rewrite H1, H2. reflexivity.
  - rewrite (H Hg). reflexivity.
Qed.
