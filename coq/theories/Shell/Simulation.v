(** C02/C03 — the simulation theorem: on well-scoped programs, and as long as the run does not go
    through one of the recorded divergence points (ghost marks), brush's interpreter (ModelExec)
    and the bash-style specification (SpecExec) compute the same thing, for every fuel:
    [BreakLoop k] corresponds to [breaking = k+1], [ContinueLoop k] to [continuing = k+1],
    [ReturnFn]/[ExitShell] to the non-local exits, [$?] and the output agree, and the threaded
    [suppress_errexit] flag equals "some enclosing position is exempt". *)
From BV Require Import Base.Prelude Shell.Syntax Shell.ModelExec Shell.SpecExec Shell.Scope Shell.Ghost.
From BV Require Import gen.C02ExitCodes.
Close Scope Z_scope.
Open Scope nat_scope.

(** the bash-side state that corresponds to a model world and given counters *)
Definition emb (w : world) (b c l : nat) : bstate := mkB (sh w) (out w) (quiet w) b c l.

Definition funs_ok (s : shell) : Prop :=
  forall f body, lookup f (funs s) = Some body -> scope_cmd [] body = [].

(** a non-local exit of the shell: only [$?] and the output survive it *)
Definition exits (n : status) (w : world) (o : sres) : Prop :=
  exists s, o = SExit s /\ slast s = n /\ b_out s = out w.

(** what the specification must have returned when the model returned [r] in world [w];
    [l] is bash's loop_level ([>=] the number of enclosing loops known to [ctx]) *)
Definition expect (ctx : list frame) (l : nat) (r : result) (w : world) (o : sres) : Prop :=
  let w' := set_last (fst r) w in
  match snd r with
  | Normal => o = SNorm (emb w' 0 0 l)
  | BreakLoop k => o = SNorm (emb w' (S k) 0 l) /\ k < length ctx
  | ContinueLoop k => o = SNorm (emb w' 0 (S k) l) /\ nth_error ctx k = Some FLoop
  | ReturnFn => exists b c l', o = SRet (emb w' b c l')
  | ExitShell => exits (fst r) w o
  end.

(** pipeline level and above: additionally [$?] already holds the result's code *)
Definition expect_s (ctx : list frame) (l : nat) (r : result) (w : world) (o : sres) : Prop :=
  expect ctx l r w o /\ last (sh w) = fst r.

(** commands after which bash itself consults errexit: all but brace group, if, loops, case *)
Definition checks (c : cmd) : bool := negb (quiet_compound c).

(** command level: brush applies errexit one level up (in [Pipeline::execute]); bash applies it in
    the command itself if it is a simple command, [(( ))] or a subshell *)
Definition pending (stk : list pos) (r : result) (w : world) : bool :=
  is_normal r && errexit (opt (sh w)) && negb (is_success r) && negb (exempt stk).
Definition expect_c (c : cmd) (stk : list pos) (ctx : list frame) (l : nat) (r : result) (w : world) (o : sres) : Prop :=
  if checks c && pending stk r w then exits (fst r) w o else expect ctx l r w o.

Definition sim {A} (post : A -> world -> sres -> Prop) (m : outcome A) (o : sres) : Prop :=
  match m with
  | Out a w' => ghost w' = [] -> post a w' o /\ funs_ok (sh w')
  | OutOfFuel g => g = [] -> o = SFuel
  end.

Lemma sim_bind {A B} w (m1 : outcome A) (k : A -> world -> outcome B)
      (P : A -> world -> sres -> Prop) (o1 : sres) (Q : B -> world -> sres -> Prop) (o : sres) :
  sim P m1 o1 ->
  (forall a w1, mono w1 (k a w1)) ->
  (o1 = SFuel -> o = SFuel) ->
  (forall a w1, m1 = Out a w1 -> ghost w1 = [] -> P a w1 o1 -> funs_ok (sh w1) -> sim Q (k a w1) o) ->
  mono w m1 ->
  sim Q (bind m1 k) o.
Proof.
  intros H1 Hk Hf Hc _. destruct m1 as [a w1|g]; cbn [bind].
  - pose proof (mono_nil _ _ (Hk a w1)) as Hn.
    destruct (k a w1) as [b w2|g] eqn:E; cbn [sim] in *; intros Hg; specialize (Hn Hg);
      destruct (H1 Hn) as [HP Hfo]; specialize (Hc a w1 eq_refl Hn HP Hfo); rewrite E in Hc; cbn [sim] in Hc; auto.
  - cbn [sim] in *. auto.
Qed.

Lemma set_last_id n w : last (sh w) = n -> set_last n w = w.
Proof. destruct w as [[la op fu ct fd] ou qu gh]. cbn. intros ->. reflexivity. Qed.
Lemma set_last_set n m w : set_last n (set_last m w) = set_last n w.
Proof. reflexivity. Qed.
Lemma last_set_last n w : last (sh (set_last n w)) = n.
Proof. reflexivity. Qed.

Lemma exempt_cons p stk : exempt (p :: stk) = is_exempt_position p || exempt stk.
Proof. reflexivity. Qed.

Ltac inv H := inversion H; subst; clear H.

Lemma emb_last_id w b c l : emb (set_last (last (sh w)) w) b c l = emb w b c l.
Proof. rewrite set_last_id; reflexivity. Qed.

Lemma sbind_norm o : sbind o (fun s => SNorm s) = o.
Proof. destruct o; reflexivity. Qed.

Lemma bind_assoc {A B C} (m : outcome A) (k : A -> world -> outcome B) (f : B -> world -> outcome C) :
  bind (bind m k) f = bind m (fun a w => bind (k a w) f).
Proof. destruct m; reflexivity. Qed.

(** errexit after a command that bash checks: exactly the pending exit *)
Lemma check_ok c stk ctx lv n w :
  checks c = true ->
  expect_c c stk ctx lv (n, Normal) w (errexit_check stk (emb (set_last n w) 0 0 lv)).
Proof.
  intros Hc. unfold expect_c, pending, errexit_check, ok, slast, is_success. rewrite Hc. cbn.
  destruct (errexit (opt (sh w))); cbn; [|reflexivity].
  destruct (Nat.eqb n 0); cbn; [reflexivity|].
  destruct (exempt stk); cbn; [reflexivity|].
  eexists; split; [reflexivity|]. split; reflexivity.
Qed.

Lemma exempt_bang (bang : bool) (stk : list pos) : exempt (if bang then PBang :: stk else stk) = exempt stk || bang.
Proof. destruct bang; cbn; [rewrite orb_true_r|rewrite orb_false_r]; reflexivity. Qed.

Lemma pipe_result_single pf r : pipe_result pf [r] = r.
Proof. destruct r as [c f]. unfold pipe_result, rightmost_failure, is_success. cbn. destruct pf; [|reflexivity]. destruct (Nat.eqb c 0); reflexivity. Qed.

Lemma busy_emb0 w l : busy (emb w 0 0 l) = false. Proof. reflexivity. Qed.
Lemma busy_emb_b w k c l : busy (emb w (S k) c l) = true. Proof. reflexivity. Qed.
Lemma busy_emb_c w k l : busy (emb w 0 (S k) l) = true. Proof. reflexivity. Qed.

Section Sim.
  Variable rec : cmd -> bool -> world -> outcome result.
  Variable recw : bool -> clist -> clist -> bool -> result -> world -> outcome result.
  Variable srec : cmd -> list pos -> bstate -> sres.
  Variable srecw : bool -> clist -> clist -> list pos -> status -> bstate -> sres.
  Hypothesis Mrec : forall c sup w, mono w (rec c sup w).
  Hypothesis Mrecw : forall u c b sup res w, mono w (recw u c b sup res w).
  Hypothesis Hskip : forall c stk s, busy s = true -> srec c stk s = SNorm s.
  Hypothesis Hrec : forall c stk ctx l w, scope_cmd ctx c = [] -> funs_ok (sh w) -> length ctx <= l ->
    sim (expect_c c stk ctx l) (rec c (exempt stk) w) (srec c stk (emb w 0 0 l)).
  Hypothesis Hrecw : forall u c b stk ctx l res w,
    scope_clist scope_cmd (FCond :: ctx) c = [] -> scope_clist scope_cmd (FLoop :: ctx) b = [] ->
    funs_ok (sh w) -> length ctx <= l -> snd res = Normal ->
    sim (expect_s ctx l) (recw u c b (exempt stk) res w) (srecw u c b stk (fst res) (emb w 0 0 (S l))).

  (** *** a pending break/continue skips everything *)
  Lemma spipeline_skip p stk s : busy s = true -> spipeline srec p stk s = SNorm s.
  Proof. intros H. unfold spipeline. rewrite H. reflexivity. Qed.
  Lemma sandor_rest_skip rest stk s : busy s = true -> sandor_rest srec rest stk s = SNorm s.
  Proof.
    intros H. induction rest as [|[a p] rest IH]; cbn [sandor_rest]; [reflexivity|].
    destruct (Bool.eqb a (ok s)); [|exact IH]. rewrite spipeline_skip by exact H. exact IH.
  Qed.
  Lemma sandor_skip a stk s : busy s = true -> sandor srec a stk s = SNorm s.
  Proof. intros H. destruct a as [f r]. unfold sandor. rewrite spipeline_skip by exact H. apply sandor_rest_skip, H. Qed.
  Lemma slist_skip l stk s : busy s = true -> slist srec l stk s = SNorm s.
  Proof. intros H. induction l as [|a l IH]; cbn [slist]; [reflexivity|]. rewrite sandor_skip by exact H. exact IH. Qed.
  Lemma selses_skip elses stk s : busy s = true -> selses srec elses stk s = SNorm s.
  Proof.
    intros H. induction elses as [|[[ec|] body] elses IH]; cbn [selses].
    - unfold snull. rewrite H. reflexivity.
    - rewrite slist_skip by exact H. cbn [sbind fst snd]. destruct (ok s); [apply slist_skip, H|exact IH].
    - apply slist_skip, H.
  Qed.
  Lemma scase_skip arms stk s : busy s = true -> forall fall, scase srec arms fall None stk s = SNorm s.
  Proof.
    intros H. induction arms as [|[[m pa] body] arms IH]; intros fall; cbn [scase]; [reflexivity|].
    destruct (fall || m); [|apply IH].
    destruct body as [b|].
    - rewrite slist_skip by exact H. cbn [sbind fst snd]. destruct pa; [reflexivity|apply IH|apply IH].
    - rewrite H. destruct pa; [reflexivity|apply IH|apply IH].
  Qed.

  (** *** simple commands *)
  Lemma sim_leaf l stk ctx lv w :
    scope_leaf ctx l = [] -> funs_ok (sh w) -> length ctx <= lv ->
    sim (expect_c (Leaf l) stk ctx lv) (exec_leaf rec l (exempt stk) w) (sleaf srec l stk (emb w 0 0 lv)).
  Proof.
    intros Hs Hf Hl. destruct l as [k|b| |n|n|a|a|o b|f]; cbn [exec_leaf sleaf].
    - intros _. split; [|exact Hf]. apply (check_ok (Leaf (LMark k)) stk ctx lv 0 (emit (EMark k) w)). reflexivity.
    - intros _. split; [|exact Hf]. destruct b; [apply (check_ok (Leaf (LStatus true)) stk ctx lv 0 w)|apply (check_ok (Leaf (LStatus false)) stk ctx lv 1 w)]; reflexivity.
    - intros _. split; [|exact Hf]. apply (check_ok (Leaf LProbe) stk ctx lv 0 (emit (EProbe (last (sh w))) w)). reflexivity.
    - (* break *)
      destruct n as [|k]; [discriminate|]. cbn [scope_leaf] in Hs.
      destruct (Nat.ltb k (length ctx)) eqn:E; [|discriminate]. apply Nat.ltb_lt in E.
      intros _. split; [|exact Hf].
      unfold expect_c, pending. cbn [is_normal snd andb]. rewrite andb_false_r. cbn [expect snd fst].
      destruct lv as [|lv']; [lia|]. unfold do_break. cbn [loop_level emb].
      replace (Nat.min (S k) (S lv')) with (S k) by lia. split; [|exact E].
      unfold errexit_check, ok, slast. cbn. rewrite andb_false_r. reflexivity.
    - (* continue *)
      destruct n as [|k]; [discriminate|]. cbn [scope_leaf] in Hs.
      destruct (nth_error ctx k) as [[|]|] eqn:E; try discriminate.
      assert (Hk : k < length ctx) by (apply nth_error_Some; rewrite E; discriminate).
      intros _. split; [|exact Hf].
      unfold expect_c, pending. cbn [is_normal snd andb]. rewrite andb_false_r. cbn [expect snd fst].
      destruct lv as [|lv']; [lia|]. unfold do_break. cbn [loop_level emb].
      replace (Nat.min (S k) (S lv')) with (S k) by lia. split; [|exact E].
      unfold errexit_check, ok, slast. cbn. rewrite andb_false_r. reflexivity.
    - (* return *)
      intros _. split; [|exact Hf]. cbn [b_sh emb].
      destruct (fdepth (sh w)) eqn:E.
      + apply (check_ok (Leaf (LReturn a)) stk ctx lv 2 w). reflexivity.
      + unfold expect_c, pending. cbn [is_normal snd andb]. rewrite andb_false_r. cbn [expect snd fst].
        destruct a as [m|]; [do 3 eexists; reflexivity|].
        exists 0, 0, lv. rewrite emb_last_id. reflexivity.
    - (* exit *)
      intros _. split; [|exact Hf].
      unfold expect_c, pending. cbn [is_normal snd andb]. rewrite andb_false_r. cbn [expect snd fst].
      destruct a as [n|]; eexists; (split; [reflexivity|]); split; reflexivity.
    - intros _. split; [|exact Hf]. apply (check_ok (Leaf (LSet o b)) stk ctx lv 0 (upd_sh (set_opt o b) w)). reflexivity.
    - (* call *)
      cbn [b_sh emb]. destruct (lookup f (funs (sh w))) as [body|] eqn:E.
      + eapply (sim_bind (upd_sh enter_fn w)) with (P := expect_c body (PBody :: stk) [] 0)
                          (o1 := srec body (PBody :: stk) (emb (upd_sh enter_fn w) 0 0 0)).
        * apply (Hrec body (PBody :: stk) [] 0 (upd_sh enter_fn w)); [exact (Hf _ _ E)|exact Hf|apply Nat.le_refl].
        * intros r w1. destruct (snd r); apply mono_same; reflexivity.
        * intros H. change (b_counters 0 0 0 (b_upd enter_fn (emb w 0 0 lv))) with (emb (upd_sh enter_fn w) 0 0 0). rewrite H. reflexivity.
        * intros r w1 _ Hg HP Hf1.
          change (b_counters 0 0 0 (b_upd enter_fn (emb w 0 0 lv))) with (emb (upd_sh enter_fn w) 0 0 0).
          destruct r as [code fl]. unfold expect_c in HP.
          assert (Hpend : forall n, pending (PBody :: stk) (n, Normal) w1 = pending stk (n, Normal) (upd_sh leave_fn w1)) by reflexivity.
          destruct (checks body && pending (PBody :: stk) (code, fl) w1) eqn:Ep.
          -- (* the body itself was a checked command that failed under errexit *)
             apply andb_prop in Ep as [_ Ep]. destruct fl; try discriminate Ep.
             destruct HP as (s & -> & Hl1 & Ho1). cbn [snd]. intros _. split; [|exact Hf1].
             unfold expect_c. change (checks (Leaf (LCall f))) with true. rewrite <- Hpend, Ep. cbn [andb fst].
             exists s. repeat split; assumption.
          -- cbn [expect snd fst] in HP. destruct fl; cbn [snd].
             ++ rewrite HP. intros _. split; [|exact Hf1].
                apply (check_ok (Leaf (LCall f)) stk ctx lv code (upd_sh leave_fn w1)). reflexivity.
             ++ destruct HP as [_ HP]. cbn in HP. lia.
             ++ destruct HP as [_ HP]. destruct levels; discriminate HP.
             ++ destruct HP as (b & c & l' & ->). intros _. split; [|exact Hf1].
                apply (check_ok (Leaf (LCall f)) stk ctx lv code (upd_sh leave_fn w1)). reflexivity.
             ++ destruct HP as (s & -> & Hl1 & Ho1). intros _. split; [|exact Hf1].
                unfold expect_c, pending. cbn [is_normal snd andb]. rewrite andb_false_r. cbn [expect snd fst].
                exists s. repeat split; assumption.
        * eapply mono_shift; [|apply Mrec]. reflexivity.
      + intros _. split; [|exact Hf]. apply (check_ok (Leaf (LCall f)) stk ctx lv 127 w). reflexivity.
  Qed.

  Lemma checks_quiet c : checks c = false -> quiet_compound c = true.
  Proof. unfold checks. destruct (quiet_compound c); [reflexivity|discriminate]. Qed.

  (** *** pipelines (single command) *)
  Lemma sim_pipeline1 bang c stk ctx lv w :
    scope_cmd ctx c = [] -> funs_ok (sh w) -> length ctx <= lv ->
    sim (expect_s ctx lv) (exec_pipeline rec (bang, [c]) (exempt stk) w)
        (spipeline srec (bang, [c]) stk (emb w 0 0 lv)).
  Proof.
    intros Hs Hf Hl. unfold exec_pipeline, spipeline. rewrite busy_emb0.
    rewrite <- exempt_bang. set (stk' := if bang then PBang :: stk else stk).
    rewrite bind_assoc.
    eapply (sim_bind w) with (P := expect_c c stk' ctx lv) (o1 := srec c stk' (emb w 0 0 lv)).
    - apply Hrec; assumption.
    - intros r w1. cbn [bind]. apply mono_out. msimp.
      repeat match goal with |- context [if ?b then _ :: _ else _] => destruct b end;
        repeat apply ext_cons; apply ext_refl.
    - intros ->. reflexivity.
    - intros r w1 _ Hg HP Hf1. cbn [bind]. rewrite pipe_result_single.
      destruct r as [code fl]. cbn [sim]. msimp. cbn [andb negb fst snd].
      intros Hgh.
      (* no ghost mark was added *)
      assert (Hb : (bang && is_return_or_exit (code, fl)) = false).
      { destruct (bang && is_return_or_exit (code, fl)); [|reflexivity].
        destruct (_ && quiet_compound c) in Hgh; discriminate Hgh. }
      rewrite Hb in Hgh |- *.
      set (code' := if bang then if is_success (code, fl) then 1 else 0 else code) in *.
      set (w4 := set_last code' _) in *.
      assert (Hemb : forall b0 c0 l0 n, emb (set_last n w4) b0 c0 l0 = emb (set_last n w1) b0 c0 l0) by reflexivity.
      assert (Hfw : funs_ok (sh (mark GCompound
                 (negb (is_normal (if negb (exempt stk') then apply_errexit (sh w4) (code', fl) else (code', fl))) &&
                  is_normal (code', fl) && quiet_compound c) w4))) by exact Hf1.
      split; [|exact Hfw]. clear Hfw.
      unfold expect_c in HP.
      destruct (checks c && pending stk' (code, fl) w1) eqn:Ep.
      + (* bash exits inside the command, brush right here *)
        apply andb_prop in Ep as [Ec Ep]. unfold pending in Ep.
        destruct fl; try discriminate Ep. cbn [is_normal snd andb] in Ep.
        apply andb_prop in Ep as [Ep Ex]. apply andb_prop in Ep as [Ee En].
        destruct HP as (s & -> & Hl1 & Ho1). cbn [sbind fst snd].
        assert (Hbang : bang = false).
        { subst stk'. destruct bang; [|reflexivity]. cbn in Ex. discriminate Ex. }
        subst code' w4 stk'. subst bang. clear Hb.
        apply negb_true_iff in Ex. rewrite Ex. cbn [negb].
        unfold apply_errexit. cbn [sh set_last upd_sh mark sh_set_last opt]. rewrite Ee.
        unfold is_success in *. cbn [fst snd is_normal] in *. rewrite En. cbn [andb negb].
        split; [|reflexivity]. cbn [expect snd fst]. exists s. repeat split; assumption.
      + assert (Hq : pending stk' (code, fl) w1 = true -> quiet_compound c = true).
        { intros Hp. rewrite Hp, andb_true_r in Ep. apply checks_quiet, Ep. }
        cbn [expect snd fst] in HP.
        destruct fl; cbn [is_normal snd fst andb negb] in *.
        * (* Normal *)
          rewrite HP. cbn [sbind fst snd].
          assert (Hinv : (if bang then b_set_last (if ok (emb (set_last code w1) 0 0 lv) then 1 else 0) (emb (set_last code w1) 0 0 lv)
                          else emb (set_last code w1) 0 0 lv) = emb (set_last code' w1) 0 0 lv).
          { subst code'. destruct bang; reflexivity. }
          rewrite Hinv.
          destruct (negb (exempt stk')) eqn:Ex.
          -- unfold apply_errexit. change (errexit (opt (sh w4))) with (errexit (opt (sh w1))).
             unfold is_success. cbn [is_normal snd fst].
             destruct (errexit (opt (sh w1)) && negb (Nat.eqb code' 0) && true) eqn:Efire.
             ++ (* brush fires: then the command is a quiet compound and the ghost is marked *)
                exfalso. cbn [is_normal snd negb andb] in Hgh.
                assert (Hbang : bang = false).
                { subst stk'. destruct bang; [|reflexivity]. cbn in Ex. discriminate Ex. }
                subst code' w4 stk'. subst bang.
                rewrite andb_true_r in Efire. apply andb_prop in Efire as [Ee En].
                unfold apply_errexit in Hgh.
                cbn [sh set_last upd_sh mark sh_set_last opt is_normal fst snd] in Hgh.
                unfold is_success in Hgh. cbn [fst] in Hgh.
                rewrite Ee, En in Hgh. cbn [andb negb is_normal snd] in Hgh.
                rewrite Hq in Hgh; [discriminate Hgh|].
                unfold pending, is_success. cbn [is_normal snd andb fst]. rewrite Ee, En, Ex. reflexivity.
             ++ cbn [is_normal snd negb andb]. split; [|reflexivity]. cbn [expect snd fst]. rewrite Hemb. reflexivity.
          -- cbn [is_normal snd negb andb]. split; [|reflexivity]. cbn [expect snd fst]. rewrite Hemb. reflexivity.
        * (* Break *)
          destruct HP as [-> Hk]. cbn [sbind fst snd].
          assert (Hinv : (if bang then b_set_last (if ok (emb (set_last code w1) (S levels) 0 lv) then 1 else 0) (emb (set_last code w1) (S levels) 0 lv)
                          else emb (set_last code w1) (S levels) 0 lv) = emb (set_last code' w1) (S levels) 0 lv).
          { subst code'. destruct bang; reflexivity. }
          rewrite Hinv.
          unfold apply_errexit. cbn [is_normal snd]. rewrite !andb_false_r.
          destruct (negb (exempt stk')); cbn [is_normal snd negb andb];
            (split; [|reflexivity]); cbn [expect snd fst]; rewrite Hemb; (split; [reflexivity|exact Hk]).
        * (* Continue *)
          destruct HP as [-> Hk]. cbn [sbind fst snd].
          assert (Hinv : (if bang then b_set_last (if ok (emb (set_last code w1) 0 (S levels) lv) then 1 else 0) (emb (set_last code w1) 0 (S levels) lv)
                          else emb (set_last code w1) 0 (S levels) lv) = emb (set_last code' w1) 0 (S levels) lv).
          { subst code'. destruct bang; reflexivity. }
          rewrite Hinv.
          unfold apply_errexit. cbn [is_normal snd]. rewrite !andb_false_r.
          destruct (negb (exempt stk')); cbn [is_normal snd negb andb];
            (split; [|reflexivity]); cbn [expect snd fst]; rewrite Hemb; (split; [reflexivity|exact Hk]).
        * (* Return *)
          destruct HP as (b0 & c0 & l0 & ->). cbn [sbind fst snd].
          cbn [is_return_or_exit snd] in Hb. rewrite andb_true_r in Hb. subst code' w4. subst bang.
          unfold apply_errexit. cbn [is_normal snd]. rewrite !andb_false_r.
          destruct (negb (exempt stk')); cbn [is_normal snd negb andb];
            (split; [|reflexivity]); cbn [expect snd fst]; do 3 eexists; reflexivity.
        * (* Exit *)
          destruct HP as (s & -> & Hl1 & Ho1). cbn [sbind fst snd].
          cbn [is_return_or_exit snd] in Hb. rewrite andb_true_r in Hb. subst code' w4. subst bang.
          unfold apply_errexit. cbn [is_normal snd]. rewrite !andb_false_r.
          destruct (negb (exempt stk')); cbn [is_normal snd negb andb];
            (split; [|reflexivity]); cbn [expect snd fst]; exists s; repeat split; assumption.
    - apply Mrec.
  Qed.
End Sim.
