(** C02 — the exit-code enum of results.rs (regenerated table) round-trips through u8. *)
From Coq Require Import List Arith Lia.
From BV Require Import gen.C02ExitCodes.
Import ListNotations.

Lemma roundtrip_table : forallb (fun b => Nat.eqb (to_u8 (of_u8 b)) b) u8_values = true.
Proof. vm_compute. reflexivity. Qed.

Theorem exitcode_roundtrip b : b < 256 -> to_u8 (of_u8 b) = b.
Proof.
  intros H. pose proof roundtrip_table as T. rewrite forallb_forall in T.
  apply Nat.eqb_eq, T. unfold u8_values. apply in_seq. lia.
Qed.

(** the named codes the interpreter model relies on *)
Lemma named_codes :
  to_u8 Success = 0 /\ to_u8 GeneralError = 1 /\ to_u8 InvalidUsage = 2 /\
  to_u8 err_unimplemented = 99 /\ to_u8 err_command_not_found = 127.
Proof. repeat split; reflexivity. Qed.
