(** C02/C03 — the control-flow fragment of the shell language.

    The shape follows brush-parser's AST one to one:
      Program          = list of complete commands (each a CompoundList)
      CompoundList     = non-empty list of AndOrList          ([clist])
      AndOrList        = first pipeline + list of (&&/|| , pipeline)   ([andor])
      Pipeline         = optional [!] + non-empty list of commands     ([pipeline])
      Command          = simple command (a scripted [leaf]) | compound command | function definition
    Leaves are *scripted*: their output and status are fixed by the leaf itself (or by a
    counter for [Tick]), so the executed trace and every intermediate [$?] are observable. *)
From BV Require Import Base.Prelude.

Inductive sopt := OErrexit | ONounset | OPipefail.

Inductive leaf :=
| LMark (k : nat)                 (* echo mK                       -> status 0 *)
| LStatus (ok : bool)             (* true / false *)
| LProbe                          (* echo "?=$?"                   -> status 0 *)
| LBreak (n : nat)                (* break n   (n = 1 rendered as plain `break`) *)
| LContinue (n : nat)             (* continue n *)
| LReturn (n : option Z)          (* return [n]    (any i32: return 300, return -- -2) *)
| LExit (n : option Z)            (* exit [n]      (any integer: exit 256, exit -2) *)
| LSet (o : sopt) (on : bool)     (* set -e / set +e / set -u / set -o pipefail ... *)
| LCall (f : nat)                 (* fF   (call of shell function number F) *)
| LAssign (s : option nat).       (* v=1  /  v=$(exit n) : assignment-only command, optionally with one
                                     command substitution of scripted status *)

(** what follows a case item: [;;]  [;&]  [;;&] *)
Inductive post := PExit | PFall | PNext.

Definition pipeline_ (C : Type) : Type := (bool * list C)%type.                 (* bang, stages *)
Definition andor_ (C : Type) : Type := (pipeline_ C * list (bool * pipeline_ C))%type. (* first, (is_and, p)* *)
Definition clist_ (C : Type) : Type := list (andor_ C).

(** a redirection attached to a compound command; all of these succeed and leave stdout alone:
    [< /dev/null]   [2>/dev/null]   [2>&1]   [<<<x] *)
Inductive rkind := RIn | RErrNull | RErrOut | RHere.

Inductive cmd :=
| Leaf (l : leaf)
| Tick (v lim : nat)                                  (* (( cV++ < lim )) : ArithmeticCommand *)
| Brace (b : clist_ cmd)
| Subshell (b : clist_ cmd)
| If (c t : clist_ cmd) (elses : list (option (clist_ cmd) * clist_ cmd))
| Loop (is_until : bool) (c b : clist_ cmd)
| For (arith : bool) (n : nat) (b : clist_ cmd)      (* for v in 1..n  /  for ((i=0;i<n;i++)) *)
| Case (arms : list (bool * post * option (clist_ cmd)))   (* pattern matches?, terminator, body *)
| FunDef (f : nat) (body : cmd)
| Redir (k : rkind) (c : cmd).                        (* compound command with a redirect list *)

Definition pipeline := pipeline_ cmd.
Definition andor := andor_ cmd.
Definition clist := clist_ cmd.
Definition program := list clist.

(** Exit codes are u8 values; the named ones come from the regenerated table. *)
Definition status := nat.
