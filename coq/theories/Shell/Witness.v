(** C02/C03 — concrete programs: the known divergences between brush (model) and bash (spec),
    each outside [well_scoped] or leaving a ghost mark, and a non-trivial program inside the
    theorem's hypotheses. *)
From BV Require Import Base.Prelude Shell.Syntax Shell.ModelExec Shell.SpecExec Shell.Scope Shell.Simulation.
Close Scope Z_scope.
Open Scope nat_scope.

Definition one (c : cmd) : andor := ((false, [c]), []).
Definition neg (c : cmd) : andor := ((true, [c]), []).
Definition mark k := one (Leaf (LMark k)).
Definition probe := one (Leaf LProbe).
Definition tt := Leaf (LStatus true).
Definition ff := Leaf (LStatus false).
Definition st (n : nat) : cmd := Subshell [one (Leaf (LExit (Some (Z.of_nat n))))].

Definition differs (fuel : nat) (p : program) : Prop :=
  obs_model (run_model fuel p) <> obs_spec (run_spec fuel p).
Definition ghost_of (o : outcome result) : list gk := match o with Out _ w => ghost w | OutOfFuel g => g end.

(** break; echo m1                      brush: aborts the list; bash: message, goes on *)
Definition w_stray : program := [[one (Leaf (LBreak 1)); mark 1]].
(** for v in 1 2; do for w in 1; do echo m1; break 5; done; echo m2; done; echo m3 *)
Definition w_overcount : program :=
  [[one (For false 2 [one (For false 1 [mark 1; one (Leaf (LBreak 5))]); mark 2]); mark 3]].
(** for v in 1 2; do echo m1; break 0; echo m2; done      brush: status 2, goes on; bash: leaves the loops *)
Definition w_zero : program := [[one (For false 2 [mark 1; one (Leaf (LBreak 0)); mark 2])]].
(** while continue; do true; done; echo m1      brush: the loop ends; bash: spins *)
Definition w_cont_cond : program := [[one (Loop false [one (Leaf (LContinue 1))] [one tt]); mark 1]].
(** f0() { break; }; for v in 1 2; do f0; echo "?=$?"; done     brush: "not yet implemented", 99 *)
Definition w_fn_break : program :=
  [[one (FunDef 0 (Brace [one (Leaf (LBreak 1))])); one (For false 2 [one (Leaf (LCall 0)); probe])]].
(** true | exit 3; echo m1              (repaired) brush used to exit the parent shell *)
Definition w_stage_leak : program := [[((false, [tt; Leaf (LExit (Some 3%Z))]), []); mark 1]].
(** ( ! exit 3 ); echo "?=$?"           (repaired) brush used to print 0; bash: 3 *)
Definition w_bang_exit : program := [[one (Subshell [neg (Leaf (LExit (Some 3%Z)))]); probe]].
(** for v in 1; do while ! break; do echo m1; done; echo "?=$?"; done      brush: 1; bash: 0 *)
Definition w_cond_status : program :=
  [[one (For false 1 [one (Loop false [neg (Leaf (LBreak 1))] [mark 1]); probe])]].
(** set -e; { false && true; }; echo m1     (repaired) brush used to exit 1; bash: goes on (C03) *)
Definition w_compound : program :=
  [[one (Leaf (LSet OErrexit true)); one (Brace [((false, [ff]), [(true, (false, [tt]))])]); mark 1]].

Lemma stray_refuted : differs 20 w_stray /\ scope_program w_stray = [RStray].
Proof. split; [vm_compute; discriminate|reflexivity]. Qed.
Lemma overcount_refuted : differs 20 w_overcount /\ scope_program w_overcount = [RStray].
Proof. split; [vm_compute; discriminate|reflexivity]. Qed.
Lemma zero_refuted : differs 20 w_zero /\ scope_program w_zero = [RZero].
Proof. split; [vm_compute; discriminate|reflexivity]. Qed.
Lemma cont_cond_refuted : differs 20 w_cont_cond /\ scope_program w_cont_cond = [RContCond].
Proof. split; [vm_compute; discriminate|reflexivity]. Qed.
Lemma fn_break_refuted : differs 20 w_fn_break /\ scope_program w_fn_break = [RStray].
Proof. split; [vm_compute; discriminate|reflexivity]. Qed.
(** regressions: on the repaired [Pipeline::execute] the former witnesses agree with the spec *)
Definition agrees (fuel : nat) (p : program) : Prop :=
  obs_model (run_model fuel p) = obs_spec (run_spec fuel p) /\ ghost_of (run_model fuel p) = [].
Lemma stage_leak_repaired : agrees 20 w_stage_leak /\ obs_model (run_model 20 w_stage_leak) = Some (ENormal, 0, [EMark 1]).
Proof. split; [split|]; vm_compute; reflexivity. Qed.
Lemma bang_exit_repaired : agrees 20 w_bang_exit /\ obs_model (run_model 20 w_bang_exit) = Some (ENormal, 0, [EProbe 3]).
Proof. split; [split|]; vm_compute; reflexivity. Qed.
Lemma cond_status_refuted : differs 20 w_cond_status /\ ghost_of (run_model 20 w_cond_status) = [GCond].
Proof. split; [vm_compute; discriminate|reflexivity]. Qed.
Lemma compound_repaired : agrees 20 w_compound /\ obs_model (run_model 20 w_compound) = Some (ENormal, 0, [EMark 1]).
Proof. split; [split|]; vm_compute; reflexivity. Qed.

(** a program inside the hypotheses of the theorem that exercises loops with break/continue at
    two levels, a counter-driven while, if/elif, case fallthrough, a function with return, a
    subshell with exit, and-or lists, [!], and errexit in exempt and non-exempt positions:

    f0() { echo m1; return 3; echo m2; }
    for v in 1 2 3; do
      while (( c0++ < 2 )); do echo m3; continue; echo m4; done
      if f0; then echo m5; elif ( exit 4 ); then echo m6; else echo "?=$?"; fi
      case x in x) echo m7 ;& y) ! true ;;& x) break 1 ;; esac
      echo m8
    done
    echo "?=$?"; set -e; false || echo m9; ! false; if false; then :; fi; ( exit 7 ); echo m10 *)
Definition ex_prog : program :=
  [[one (FunDef 0 (Brace [mark 1; one (Leaf (LReturn (Some 3%Z))); mark 2]))];
   [one (For false 3
      [one (Loop false [one (Tick 0 2)] [mark 3; one (Leaf (LContinue 1)); mark 4]);
       one (If [one (Leaf (LCall 0))] [mark 5] [(Some [one (st 4)], [mark 6]); (None, [probe])]);
       one (Case [(true, PFall, Some [mark 7]); (false, PNext, Some [neg tt]); (true, PExit, Some [one (Leaf (LBreak 1))])]);
       mark 8])];
   [probe; one (Leaf (LSet OErrexit true)); ((false, [ff]), [(false, (false, [Leaf (LMark 9)]))]); neg ff;
    one (If [one ff] [one tt] []); one (st 7); mark 10]].

Lemma ex_prog_ok :
  well_scoped ex_prog /\ ghost_free (run_model 40 ex_prog) /\
  obs_model (run_model 40 ex_prog) =
    Some (EExit, 7, rev [EMark 3; EMark 3; EMark 1; EProbe 4; EMark 7; EProbe 0; EMark 9]).
Proof. split; [reflexivity|]. split; vm_compute; reflexivity. Qed.

(** C03, extended fragment: a brace group that carries a redirection and fails quietly does not end
    the shell; an assignment whose command substitution fails does, although [$?] was already 1:

    set -e; { false && true; } 2>/dev/null; echo m1; false || v=$(false); echo m2 *)
Definition ex_redir_assign : program :=
  [[one (Leaf (LSet OErrexit true));
    one (Redir RErrNull (Brace [((false, [ff]), [(true, (false, [tt]))])])); mark 1;
    ((false, [ff]), [(false, (false, [Leaf (LAssign (Some 1))]))]); mark 2]].
Lemma ex_redir_assign_ok :
  well_scoped ex_redir_assign /\ ghost_free (run_model 20 ex_redir_assign) /\
  obs_model (run_model 20 ex_redir_assign) = Some (EExit, 1, [EMark 1]) /\
  obs_spec (run_spec 20 ex_redir_assign) = Some (EExit, 1, [EMark 1]).
Proof.
  split; [reflexivity|]. split; [vm_compute; reflexivity|]. split; vm_compute; reflexivity.
Qed.
