(** Wire format of programs of the control-flow fragment: a prefix encoding, one token per field.

    cmd     ::= m K | t | f | p | b N | c N | r N | R | x N | X | s O B | l F | k V L
              | { clist | ( clist | i clist clist NELSES else* | w U clist clist | o A N clist
              | a NARMS arm* | d F cmd | v N | V | > K cmd
    else    ::= 1 clist clist | 0 clist
    arm     ::= M P 1 clist | M P 0            (M: pattern matches; P: 0 ;;  1 ;&  2 ;;& )
    clist   ::= N andor* ;  andor ::= pipeline N (ISAND pipeline)* ;  pipeline ::= BANG N cmd*
    program ::= N clist*                                                                      *)
From Coq Require Import String.
From BV Require Import Base.Prelude Base.Codec Shell.Syntax.
Close Scope Z_scope.
Open Scope nat_scope.

Definition tok := list str.
Definition dres (A : Type) : Type := option (A * tok).

Definition dbind {A B} (o : dres A) (k : A -> tok -> dres B) : dres B :=
  match o with Some (a, r) => k a r | None => None end.

Fixpoint dec_many {A} (d : tok -> dres A) (n : nat) (ts : tok) : dres (list A) :=
  match n with
  | O => Some ([], ts)
  | S n' => dbind (d ts) (fun a r => dbind (dec_many d n' r) (fun l r' => Some (a :: l, r')))
  end.

Definition dec_num (ts : tok) : dres nat := match ts with n :: r => Some (dec_nat n, r) | [] => None end.
Definition dec_flag (ts : tok) : dres bool := match ts with n :: r => Some (dec_bool n, r) | [] => None end.

Definition is_tok (s : string) (t : str) : bool := str_eqb t (lit s).

Section Dec.
  Variable dcmd : tok -> dres cmd.

  Definition dec_pipeline (ts : tok) : dres pipeline :=
    dbind (dec_flag ts) (fun b r => dbind (dec_num r) (fun n r1 =>
      dbind (dec_many dcmd n r1) (fun cs r2 => Some ((b, cs), r2)))).
  Definition dec_andor (ts : tok) : dres andor :=
    dbind (dec_pipeline ts) (fun p r => dbind (dec_num r) (fun n r1 =>
      dbind (dec_many (fun t => dbind (dec_flag t) (fun a t1 => dbind (dec_pipeline t1) (fun q t2 => Some ((a, q), t2)))) n r1)
        (fun rest r2 => Some ((p, rest), r2)))).
  Definition dec_clist (ts : tok) : dres clist :=
    dbind (dec_num ts) (fun n r => dec_many dec_andor n r).

  Definition dec_else (ts : tok) : dres (option clist * clist) :=
    dbind (dec_flag ts) (fun has r =>
      if has then dbind (dec_clist r) (fun c r1 => dbind (dec_clist r1) (fun b r2 => Some ((Some c, b), r2)))
      else dbind (dec_clist r) (fun b r1 => Some ((None, b), r1))).
  Definition dec_post (n : nat) : post := match n with 0 => PExit | 1 => PFall | _ => PNext end.
  Definition dec_arm (ts : tok) : dres (bool * post * option clist) :=
    dbind (dec_flag ts) (fun m r => dbind (dec_num r) (fun p r1 => dbind (dec_flag r1) (fun has r2 =>
      if has then dbind (dec_clist r2) (fun b r3 => Some ((m, dec_post p, Some b), r3))
      else Some ((m, dec_post p, None), r2)))).
  Definition dec_sopt (t : str) : sopt :=
    if is_tok "e" t then OErrexit else if is_tok "u" t then ONounset else OPipefail.

  Definition dec_cmd_step (ts : tok) : dres cmd :=
    match ts with
    | [] => None
    | t :: r =>
        if is_tok "m" t then dbind (dec_num r) (fun k r1 => Some (Leaf (LMark k), r1))
        else if is_tok "t" t then Some (Leaf (LStatus true), r)
        else if is_tok "f" t then Some (Leaf (LStatus false), r)
        else if is_tok "p" t then Some (Leaf LProbe, r)
        else if is_tok "b" t then dbind (dec_num r) (fun k r1 => Some (Leaf (LBreak k), r1))
        else if is_tok "c" t then dbind (dec_num r) (fun k r1 => Some (Leaf (LContinue k), r1))
        else if is_tok "r" t then match r with k :: r1 => Some (Leaf (LReturn (Some (dec_Z k))), r1) | [] => None end
        else if is_tok "R" t then Some (Leaf (LReturn None), r)
        else if is_tok "x" t then match r with k :: r1 => Some (Leaf (LExit (Some (dec_Z k))), r1) | [] => None end
        else if is_tok "X" t then Some (Leaf (LExit None), r)
        else if is_tok "s" t then
          match r with o :: r1 => dbind (dec_flag r1) (fun b r2 => Some (Leaf (LSet (dec_sopt o) b), r2)) | [] => None end
        else if is_tok "l" t then dbind (dec_num r) (fun k r1 => Some (Leaf (LCall k), r1))
        else if is_tok "k" t then dbind (dec_num r) (fun v r1 => dbind (dec_num r1) (fun l r2 => Some (Tick v l, r2)))
        else if is_tok "{" t then dbind (dec_clist r) (fun b r1 => Some (Brace b, r1))
        else if is_tok "(" t then dbind (dec_clist r) (fun b r1 => Some (Subshell b, r1))
        else if is_tok "i" t then
          dbind (dec_clist r) (fun c r1 => dbind (dec_clist r1) (fun th r2 => dbind (dec_num r2) (fun n r3 =>
            dbind (dec_many dec_else n r3) (fun es r4 => Some (If c th es, r4)))))
        else if is_tok "w" t then
          dbind (dec_flag r) (fun u r1 => dbind (dec_clist r1) (fun c r2 => dbind (dec_clist r2) (fun b r3 =>
            Some (Loop u c b, r3))))
        else if is_tok "o" t then
          dbind (dec_flag r) (fun a r1 => dbind (dec_num r1) (fun n r2 => dbind (dec_clist r2) (fun b r3 =>
            Some (For a n b, r3))))
        else if is_tok "a" t then
          dbind (dec_num r) (fun n r1 => dbind (dec_many dec_arm n r1) (fun arms r2 => Some (Case arms, r2)))
        else if is_tok "v" t then dbind (dec_num r) (fun k r1 => Some (Leaf (LAssign (Some k)), r1))
        else if is_tok "V" t then Some (Leaf (LAssign None), r)
        else if is_tok ">" t then
          dbind (dec_num r) (fun k r1 => dbind (dcmd r1) (fun c r2 =>
            Some (Redir (match k with 0 => RIn | 1 => RErrNull | 2 => RErrOut | _ => RHere end) c, r2)))
        else if is_tok "d" t then
          dbind (dec_num r) (fun f r1 => dbind (dcmd r1) (fun body r2 => Some (FunDef f body, r2)))
        else None
    end.
End Dec.

Fixpoint dec_cmd (fuel : nat) (ts : tok) : dres cmd :=
  match fuel with O => None | S f => dec_cmd_step (dec_cmd f) ts end.

Definition dec_program (ts : tok) : option program :=
  let fuel := S (length ts) in
  match dbind (dec_num ts) (fun n r => dec_many (dec_clist (dec_cmd fuel)) n r) with
  | Some (p, []) => Some p
  | _ => None
  end.
