(** C03 — statements about errexit / pipefail read off the model and the specification. *)
From BV Require Import Base.Prelude Shell.Syntax Shell.ModelExec Shell.SpecExec Shell.Scope Shell.Ghost Shell.Simulation.
Close Scope Z_scope.
Open Scope nat_scope.

(** the declarative spec exits because of errexit only outside every exempt position *)
Lemma spec_exit_not_exempt stk s s' :
  errexit_check stk s = SExit s' ->
  exempt stk = false /\ errexit (opt (b_sh s)) = true /\ slast s <> 0 /\ s' = s.
Proof.
  unfold errexit_check, ok. destruct (errexit (opt (b_sh s))); cbn; [|discriminate].
  destruct (Nat.eqb (slast s) 0) eqn:E; cbn; [discriminate|].
  destruct (exempt stk); cbn; [discriminate|]. intros H. inversion H. subst s'.
  apply Nat.eqb_neq in E. repeat split; auto.
Qed.

(** brush applies errexit only where the threaded flag is off; with the flag on a pipeline
    never turns a failure into an exit *)
Lemma model_no_exit_when_suppressed s r : apply_errexit s r = r \/ (errexit (opt s) = true /\ is_success r = false /\ is_normal r = true).
Proof.
  unfold apply_errexit. destruct (errexit (opt s)); cbn; [|left; reflexivity].
  destruct (is_success r); cbn; [left; reflexivity|]. destruct (is_normal r); [right; auto|left; reflexivity].
Qed.

(** pipefail: the fold of [wait_for_pipeline_processes_and_update_status] computes
    "the rightmost non-zero status, else the last one" *)
Lemma find_snoc {A} (p : A -> bool) l a :
  find p (l ++ [a]) = match find p l with Some x => Some x | None => if p a then Some a else None end.
Proof. induction l as [|x l IH]; cbn; [reflexivity|]. destruct (p x); [reflexivity|exact IH]. Qed.

Lemma rightmost_failure_spec rs : forall acc,
  fold_left (fun acc r => if is_success r then acc else Some (fst r)) rs acc =
  match find (fun n => negb (Nat.eqb n 0)) (rev (map fst rs)) with Some n => Some n | None => acc end.
Proof.
  induction rs as [|r rs IH]; intros acc; cbn [fold_left map rev]; [reflexivity|].
  rewrite IH, find_snoc. destruct (find (fun n => negb (Nat.eqb n 0)) (rev (map fst rs))); [reflexivity|].
  unfold is_success. destruct (Nat.eqb (fst r) 0); reflexivity.
Qed.

Lemma last_map_fst (rs : list result) : fst (List.last rs success) = List.last (map fst rs) 0.
Proof.
  induction rs as [|r rs IH]; [reflexivity|]. destruct rs as [|r' rs]; [reflexivity|]. exact IH.
Qed.

Theorem pipefail_status pf rs : fst (pipe_result pf rs) = pipe_status pf (map fst rs).
Proof.
  unfold pipe_result, pipe_status, rightmost_failure. destruct pf.
  - rewrite rightmost_failure_spec. destruct (find (fun n => negb (Nat.eqb n 0)) (rev (map fst rs))); [reflexivity|apply last_map_fst].
  - apply last_map_fst.
Qed.
