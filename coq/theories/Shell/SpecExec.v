(** C02/C03 — the specification: an interpreter for the same fragment in the style of bash's
    execute_cmd.c.

    * [break]/[continue] do not return anything special: they set the global counters
      [breaking]/[continuing] (clamped to [loop_level]); every command starts with
      "if (breaking || continuing) return last_command_exit_value" (so the rest of a list is
      *skipped*, not aborted); each loop decrements the counters after its body / test.
    * [return] and [exit] are non-local exits ([SRet]/[SExit], bash's longjmp), caught at the function
      call / subshell boundary; [loop_level] is reset at function, subshell and pipeline-stage entry.
    * the exit status lives only in the state ([last], bash's last_command_exit_value).
    * errexit (C03) is *declarative*: the interpreter carries the stack of syntactic positions from
      the root to the current command, and a failing simple command, [(( ))], subshell or
      multi-stage pipeline exits iff no position on the stack is exempt.  Brace groups, if, loops
      and case never exit by themselves.
    The statuses and [$?] rules follow execute_cmd.c (execute_if_command, execute_while_or_until,
    execute_for_command, execute_case_command, execute_connection, execute_function) and
    builtins/break.def, return.def, exit.def.  Validated against /usr/bin/bash by the driver. *)
From BV Require Import Base.Prelude Shell.Syntax Shell.ModelExec.
Close Scope Z_scope.
Open Scope nat_scope.

(** syntactic positions *)
Inductive pos :=
| PCond            (* test of if / elif / while / until *)
| PNonFinal        (* operand of an and-or list other than the last *)
| PBang            (* pipeline whose status is inverted with ! *)
| PStage           (* stage of a multi-stage pipeline *)
| PBody            (* then/else branch, loop body, case item, brace group, subshell, function body *).
Definition is_exempt_position (p : pos) : bool :=
  match p with PCond | PNonFinal | PBang => true | PStage | PBody => false end.
Definition exempt (stk : list pos) : bool := existsb is_exempt_position stk.

Record bstate := mkB {
  b_sh : shell; b_out : list event; b_quiet : bool;
  breaking : nat; continuing : nat; loop_level : nat
}.

Inductive sres := SNorm (s : bstate) | SRet (s : bstate) | SExit (s : bstate) | SFuel.

Definition sbind (o : sres) (k : bstate -> sres) : sres := match o with SNorm s => k s | o => o end.

Definition busy (s : bstate) : bool := negb (Nat.eqb (breaking s) 0) || negb (Nat.eqb (continuing s) 0).
Definition slast (s : bstate) : status := last (b_sh s).
Definition b_upd (f : shell -> shell) (s : bstate) : bstate :=
  mkB (f (b_sh s)) (b_out s) (b_quiet s) (breaking s) (continuing s) (loop_level s).
Definition b_set_last (n : status) (s : bstate) : bstate := b_upd (sh_set_last n) s.
Definition b_emit (e : event) (s : bstate) : bstate :=
  mkB (b_sh s) (if b_quiet s then b_out s else e :: b_out s) (b_quiet s) (breaking s) (continuing s) (loop_level s).
Definition b_counters (b c l : nat) (s : bstate) : bstate := mkB (b_sh s) (b_out s) (b_quiet s) b c l.
Definition ok (s : bstate) : bool := Nat.eqb (slast s) 0.
(** the exit status of [return n] / [exit n]: n modulo 256 (mathematical modulo: -2 gives 254) *)
Definition wrap_status (z : Z) : status := Z.to_nat (Z.modulo z 256).

(** a child process (subshell, pipeline stage): a copy of the state, no loops around it *)
Definition child (quiet : bool) (s : bstate) : bstate := mkB (b_sh s) (b_out s) (b_quiet s || quiet) 0 0 0.
(** back in the parent: its own state, the child's output, the child's exit status *)
Definition reap (parent : bstate) (r : sres) : sres :=
  match r with
  | SNorm c | SRet c | SExit c =>
      SNorm (mkB (sh_set_last (slast c) (b_sh parent)) (b_out c) (b_quiet parent)
                 (breaking parent) (continuing parent) (loop_level parent))
  | SFuel => SFuel
  end.

(** errexit: exit iff the option is set, the status is non-zero and no enclosing position is exempt *)
Definition errexit_check (stk : list pos) (s : bstate) : sres :=
  if errexit (opt (b_sh s)) && negb (ok s) && negb (exempt stk) then SExit s else SNorm s.

Section Spec.
  Variable rec : cmd -> list pos -> bstate -> sres.
  Variable recw : bool -> clist -> clist -> list pos -> status -> bstate -> sres.

  (** builtins/break.def (both break and continue: a count <= 0 is "loop count out of range",
      sets [breaking = loop_level] and fails) *)
  Definition do_break (is_break : bool) (n : nat) (s : bstate) : bstate :=
    match loop_level s with
    | O => b_set_last 0 s                             (* "only meaningful in a loop": status 0 *)
    | S _ =>
        match n with
        | O => b_set_last 1 (b_counters (loop_level s) (continuing s) (loop_level s) s)
        | _ =>
            let k := Nat.min n (loop_level s) in
            b_set_last 0 (if is_break then b_counters k (continuing s) (loop_level s) s
                          else b_counters (breaking s) k (loop_level s) s)
        end
    end.

  Definition sleaf (l : leaf) (stk : list pos) (s : bstate) : sres :=
    match l with
    | LMark k => errexit_check stk (b_set_last 0 (b_emit (EMark k) s))
    | LStatus b => errexit_check stk (b_set_last (if b then 0 else 1) s)
    | LProbe => errexit_check stk (b_set_last 0 (b_emit (EProbe (slast s)) s))
    | LBreak n => errexit_check stk (do_break true n s)
    | LContinue n => errexit_check stk (do_break false n s)
    | LReturn a =>
        match fdepth (b_sh s) with
        | O => errexit_check stk (b_set_last 2 s)        (* "can only `return' from a function" *)
        | S _ => SRet (match a with Some n => b_set_last (wrap_status n) s | None => s end)
        end
    | LExit a => SExit (match a with Some n => b_set_last (wrap_status n) s | None => s end)
    | LSet o b => errexit_check stk (b_set_last 0 (b_upd (set_opt o b) s))
    | LAssign a =>
        (* a command without command name: status of the last command substitution, else 0 *)
        errexit_check stk (b_set_last (match a with Some n => u8 n | None => 0 end) s)
    | LCall f =>
        match lookup f (funs (b_sh s)) with
        | None => errexit_check stk (b_set_last 127 s)   (* command not found *)
        | Some body =>
            (* execute_function: loop_level saved and zeroed, return caught here *)
            let s0 := b_counters 0 0 0 (b_upd enter_fn s) in
            let back s1 := b_counters (breaking s) (continuing s) (loop_level s) (b_upd leave_fn s1) in
            match rec body (PBody :: stk) s0 with
            | SNorm s1 | SRet s1 => errexit_check stk (back s1)
            | SExit s1 => SExit s1
            | SFuel => SFuel
            end
        end
    end.

  (** stages of a multi-stage pipeline, each in a child process; yields the statuses.
      A compound stage runs in a subshell proper (loop_level reset); a simple command is forked as
      it is and still sees the enclosing loops (only `break 0` can tell the difference). *)
  Fixpoint sstages (cs : list cmd) (stk : list pos) (parent : bstate) (acc : bstate) : sres * list status :=
    match cs with
    | [] => (SNorm acc, [])
    | c :: cs' =>
        let is_last := match cs' with [] => true | _ => false end in
        let lvl := match c with Leaf _ => loop_level parent | _ => 0 end in
        let c0 := mkB (b_sh parent) (b_out acc) (b_quiet parent || negb is_last) 0 0 lvl in
        match reap parent (rec c (PStage :: stk) c0) with
        | SNorm p1 => let '(o, sts) := sstages cs' stk parent p1 in (o, slast p1 :: sts)
        | o => (o, [])
        end
    end.

  (** the status of a pipeline: that of the last stage; under pipefail the rightmost non-zero one,
      if any *)
  Definition pipe_status (pf : bool) (sts : list status) : status :=
    match (if pf then find (fun n => negb (Nat.eqb n 0)) (rev sts) else None) with
    | Some n => n
    | None => List.last sts 0
    end.

  (** a pipeline: [!] inverts the status unless the command left by return/exit *)
  Definition spipeline (p : pipeline) (stk : list pos) (s : bstate) : sres :=
    if busy s then SNorm s else
    let '(bang, stages) := p in
    let stk' := if bang then PBang :: stk else stk in
    let invert s1 := if bang then b_set_last (if ok s1 then 1 else 0) s1 else s1 in
    match stages with
    | [c] => sbind (rec c stk' s) (fun s1 => SNorm (invert s1))
    | _ =>
        match sstages stages stk' s s with
        | (SNorm s1, sts) =>
            errexit_check stk' (invert (b_set_last (pipe_status (pipefail (opt (b_sh s))) sts) s1))
        | (o, _) => o
        end
    end.

  (** and-or lists: left-associative; every operand but the last is in an exempt position *)
  Fixpoint sandor_rest (rest : list (bool * pipeline)) (stk : list pos) (s : bstate) : sres :=
    match rest with
    | [] => SNorm s
    | (is_and, p) :: rest' =>
        if Bool.eqb is_and (ok s) then
          let stk' := match rest' with [] => stk | _ => PNonFinal :: stk end in
          sbind (spipeline p stk' s) (sandor_rest rest' stk)
        else sandor_rest rest' stk s
    end.
  Definition sandor (a : andor) (stk : list pos) (s : bstate) : sres :=
    let '(first, rest) := a in
    sbind (spipeline first (match rest with [] => stk | _ => PNonFinal :: stk end) s) (sandor_rest rest stk).

  Fixpoint slist (l : clist) (stk : list pos) (s : bstate) : sres :=
    match l with
    | [] => SNorm s
    | a :: l' => sbind (sandor a stk s) (slist l' stk)
    end.

  (** execute_command (NULL): success, unless a break/continue is pending *)
  Definition snull (s : bstate) : bstate := if busy s then s else b_set_last 0 s.

  (** after a loop body: execute_for_command / execute_while_or_until.
      [true] = leave the loop *)
  Definition after_body (s : bstate) : bool * bstate :=
    match breaking s with
    | S b => (true, b_counters b (continuing s) (loop_level s) s)
    | O => match continuing s with
           | S c => (negb (Nat.eqb c 0), b_counters 0 c (loop_level s) s)
           | O => (false, s)
           end
    end.
  Definition loop_enter (s : bstate) : bstate := b_counters (breaking s) (continuing s) (S (loop_level s)) s.
  Definition loop_leave (s : bstate) : bstate := b_counters (breaking s) (continuing s) (pred (loop_level s)) s.

  Fixpoint sfor (n : nat) (b : clist) (stk : list pos) (retval : status) (s : bstate) : sres :=
    match n with
    | O => SNorm (b_set_last retval (loop_leave s))
    | S n' =>
        sbind (slist b (PBody :: stk) s) (fun s1 =>
          let '(leave, s2) := after_body s1 in
          if leave then SNorm (b_set_last (slast s2) (loop_leave s2)) else sfor n' b stk (slast s2) s2)
    end.

  (** execute_case_command: [retval] starts as 0, becomes the status of each item run; an item
      without commands yields 0 without touching [$?] ([None] = "whatever [$?] is now") *)
  Fixpoint scase (arms : list (bool * post * option clist)) (fall : bool) (retval : option status)
                 (stk : list pos) (s : bstate) : sres :=
    match arms with
    | [] => SNorm (match retval with Some v => b_set_last v s | None => s end)
    | (m, pa, body) :: rest =>
        if fall || m then
          let after rv s1 :=
            match pa with
            | PExit => SNorm (match rv with Some v => b_set_last v s1 | None => s1 end)
            | PFall => scase rest true rv stk s1
            | PNext => scase rest false rv stk s1
            end in
          match body with
          | Some b => sbind (slist b (PBody :: stk) s) (after None)
          | None => after (if busy s then None else Some 0) s
          end
        else scase rest false retval stk s
    end.

  Fixpoint selses (elses : list (option clist * clist)) (stk : list pos) (s : bstate) : sres :=
    match elses with
    | [] => SNorm (snull s)
    | (Some ec, body) :: rest =>
        sbind (slist ec (PCond :: stk) s) (fun s1 =>
          if ok s1 then slist body (PBody :: stk) s1 else selses rest stk s1)
    | (None, body) :: _ => slist body (PBody :: stk) s
    end.

  Definition scmd (c : cmd) (stk : list pos) (s : bstate) : sres :=
    match c with
    | Leaf l => sleaf l stk s
    | Tick v lim =>
        let st := if Nat.ltb (ctr v (b_sh s)) lim then 0 else 1 in
        errexit_check stk (b_set_last st (b_upd (bump v) s))
    | Brace b => slist b (PBody :: stk) s
    | Subshell b => sbind (reap s (slist b (PBody :: stk) (child false s))) (errexit_check stk)
    | If c t elses =>
        sbind (slist c (PCond :: stk) s) (fun s1 =>
          if ok s1 then slist t (PBody :: stk) s1 else selses elses stk s1)
    | Loop u c b => recw u c b stk 0 (loop_enter s)
    | For _ n b => sfor n b stk 0 (loop_enter s)
    | Case arms => scase arms false (Some 0) stk s
    | FunDef f body => errexit_check stk (b_set_last 0 (b_upd (define f body) s))
    | Redir _ c => rec c stk s     (* the redirections succeed; the command decides about errexit as without them *)
    end.

  (** one iteration of execute_while_or_until *)
  Definition swhile_step (u : bool) (c b : clist) (stk : list pos) (body_status : status) (s : bstate) : sres :=
    sbind (slist c (PCond :: stk) s) (fun s1 =>
      if Bool.eqb (ok s1) u then
        (* the test says stop: pending counts lose one level *)
        let s2 := b_counters (pred (breaking s1)) (pred (continuing s1)) (loop_level s1) s1 in
        SNorm (b_set_last body_status (loop_leave s2))
      else
        sbind (slist b (PBody :: stk) s1) (fun s3 =>
          let '(leave, s4) := after_body s3 in
          if leave then SNorm (b_set_last (slast s4) (loop_leave s4)) else recw u c b stk (slast s4) s4)).

  Fixpoint sprogram (cs : program) (s : bstate) : sres :=
    match cs with
    | [] => SNorm s
    | c :: cs' => sbind (slist c [] s) (sprogram cs')
    end.
End Spec.

(** the busy test precedes the fuel test: a skipped command costs nothing *)
Fixpoint sexec (fuel : nat) (c : cmd) (stk : list pos) (s : bstate) {struct fuel} : sres :=
  if busy s then SNorm s else
  match fuel with
  | O => SFuel
  | S f => scmd (sexec f) (swhile f) c stk s
  end
with swhile (fuel : nat) (u : bool) (c b : clist) (stk : list pos) (body_status : status) (s : bstate)
  {struct fuel} : sres :=
  match fuel with
  | O => SFuel
  | S f => swhile_step (sexec f) (swhile f) u c b stk body_status s
  end.

Definition init_bstate : bstate := mkB init_shell [] false 0 0 0.
Definition run_spec (fuel : nat) (p : program) : sres := sprogram (sexec fuel) p init_bstate.
