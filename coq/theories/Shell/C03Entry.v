(** C03 entry for the nounset table: <form index> <kind index> -> model spec known *)
From Coq Require Import String.
From BV Require Import Base.Prelude Base.Codec Shell.C03Nounset.
Close Scope Z_scope.
Open Scope nat_scope.

Definition entry_c03_nounset (a : list str) : list str :=
  match a with
  | [fi; ki] =>
      match nth_error all_forms (dec_nat fi), nth_error all_kinds (dec_nat ki) with
      | Some f, Some k => [enc_bool (model_rejects f k); enc_bool (bash_rejects f k);
                           enc_bool (known_nounset_divergence f k); enc_bool (applicable f k)]
      | _, _ => [lit "?index"]
      end
  | _ => [lit "?args"]
  end.
