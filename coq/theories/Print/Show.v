(** C14 model: the AST printer of brush-parser/src/ast.rs ([Display] impls) on a sub-grammar,
    written as a function from the AST to print atoms (lexemes, blanks, newlines, with the
    nesting depth of [indenter::indented] wrappers), so that one definition gives both the
    printed text ([show] = [render] of the atoms) and the tokens the printer means to emit
    ([lexemes] = the lexemes among the atoms).

    Sub-grammar: simple commands (words, assignment words, file / dup / &> / here-string
    redirections), pipelines with time and !, and-or lists, compound lists with ; and &, brace
    group, subshell, for, while, until, if/elif/else, case, function definitions (nested),
    redirection lists behind compound commands and function bodies.  Outside it (tied by
    execution only): here-documents, process substitutions, (( )), for (( )), [[ ]], coproc.

    The printer options [pf] are regenerated from ast.rs (gen/C14TokTables.v): whether
    [Display for RedirectList] / [Pipeline] / [ForClauseCommand] separate their tokens. *)
From Coq Require Import String.
From BV Require Import Base.Prelude Base.Codec gen.C14TokTables Print.Tokenize.
Open Scope N_scope.

Record pflags := { f_redir_sep : bool; f_pipe_sep : bool; f_for_in_always : bool }.
Definition current_flags : pflags :=
  {| f_redir_sep := redir_list_sep; f_pipe_sep := pipe_sep; f_for_in_always := for_in_always |}.
Definition repaired_flags : pflags :=
  {| f_redir_sep := true; f_pipe_sep := true; f_for_in_always := false |}.

Inductive rkind := RRead | RWrite | RAppend | RReadWrite | RClobber | RDupIn | RDupOut.
Inductive redir :=
| RFile (fd : option str) (k : rkind) (target : str)      (* target word, fd number or dup word: printed alike *)
| ROutErr (w : str) (append : bool)
| RHereStr (fd : option str) (w : str).
Inductive item := IRedir (r : redir) | IWord (w : str).
Inductive postact := PBreak | PFall | PCont.

Inductive cmd :=
| CSimple (pre : list item) (name : option str) (suf : list item)
| CCompound (k : compound) (rs : option (list redir))
| CFunction (name : str) (k : compound) (rs : option (list redir))
with compound :=
| KBrace (l : clist)
| KSubshell (l : clist)
| KFor (v : str) (vals : option (list str)) (body : clist)
| KWhile (c b : clist)
| KUntil (c b : clist)
| KIf (c t : clist) (es : elses)
| KCase (w : str) (items : citems)
with pipeline := Pipe (timed : option bool) (bang : bool) (c : cmd) (r : cmds)
with cmds := CmdsNil | CmdsCons (c : cmd) (r : cmds)
with andor := AndOr (p : pipeline) (r : aorest)
with aorest := AoNil | AoCons (is_and : bool) (p : pipeline) (r : aorest)
with clist := CList (a : andor) (async : bool) (r : clrest)
with clrest := ClNil | ClCons (a : andor) (async : bool) (r : clrest)
with elses := ElNil | ElIf (c b : clist) (r : elses) | ElElse (b : clist) (r : elses)
with citems := CiNil
  | CiSome (pats : list str) (body : clist) (post : postact) (r : citems)
  | CiNone (pats : list str) (post : postact) (r : citems).

(** * Atoms *)

Definition KW (s : string) : atom := ATok 0 (LWord (lit s)).
Definition OP (s : string) : atom := ATok 0 (LOp (lit s)).
Definition Wd (w : str) : atom := ATok 0 (LWord w).
Definition SP : atom := ASp 0.

Definition bump1 (a : atom) : atom :=
  match a with ATok d x => ATok (S d) x | ASp d => ASp (S d) | ANl => ANl end.
(** [indenter::indented(f)] around a sub-printer *)
Definition bump (l : list atom) : list atom := map bump1 l.

(** items separated by single blanks *)
Fixpoint sep_by {A} (f : A -> list atom) (l : list A) : list atom :=
  match l with
  | [] => []
  | [x] => f x
  | x :: r => f x ++ SP :: sep_by f r
  end.

Definition kind_text (k : rkind) : str :=
  match k with
  | RRead => lit "<" | RWrite => lit ">" | RAppend => lit ">>" | RReadWrite => lit "<>"
  | RClobber => lit ">|" | RDupIn => lit "<&" | RDupOut => lit ">&"
  end.
Definition fd_atoms (fd : option str) : list atom :=
  match fd with Some n => [ATok 0 (LIoNum n)] | None => [] end.
Definition a_redir (r : redir) : list atom :=
  match r with
  | RFile fd k t => fd_atoms fd ++ [ATok 0 (LOp (kind_text k)); SP; Wd t]
  | ROutErr w app => [ATok 0 (LOp (if app then lit "&>>" else lit "&>")); SP; Wd w]
  | RHereStr fd w => fd_atoms fd ++ [OP "<<<"; SP; Wd w]
  end.
Definition a_item (i : item) : list atom :=
  match i with IRedir r => a_redir r | IWord w => [Wd w] end.

(** [Display for RedirectList]: the items one after the other, each behind a blank when the
    printer separates them *)
Definition a_redirs (pf : pflags) (rs : option (list redir)) : list atom :=
  match rs with
  | None => []
  | Some l => flat_map (fun r => (if f_redir_sep pf then [SP] else []) ++ a_redir r) l
  end.

(** [Display for SimpleCommand]: prefix items, name, suffix items; whatever is present is
    separated by single blanks *)
Definition simple_items (pre : list item) (name : option str) (suf : list item) : list item :=
  pre ++ match name with Some w => [IWord w] | None => [] end ++ suf.
Definition a_simple (pre : list item) (name : option str) (suf : list item) : list atom :=
  sep_by a_item (simple_items pre name suf).

Definition post_text (p : postact) : string :=
  match p with PBreak => ";;" | PFall => ";&" | PCont => ";;&" end.

Definition a_pats (pats : list str) : list atom :=
  (fix go (l : list str) : list atom :=
     match l with
     | [] => []
     | [x] => [Wd x]
     | x :: r => Wd x :: OP "|" :: go r
     end) pats.

Definition a_for_head (pf : pflags) (v : str) (vals : option (list str)) : list atom :=
  if f_for_in_always pf then
    [KW "for"; SP; Wd v; SP; KW "in"; SP] ++
    match vals with Some l => sep_by (fun w => [Wd w]) l | None => [] end
  else
    [KW "for"; SP; Wd v] ++
    match vals with Some l => SP :: KW "in" :: flat_map (fun w => [SP; Wd w]) l | None => [] end.

Definition is_clnil (r : clrest) : bool := match r with ClNil => true | _ => false end.
(** [Display for CompoundList]: the separator behind an item; the ; of the last item is left out *)
Definition a_sepop (async last : bool) : list atom :=
  if last then (if async then [OP "&"] else []) else [OP (if async then "&" else ";")%string].

Section Atoms.
Variable pf : pflags.

Fixpoint a_cmd (c : cmd) : list atom :=
  match c with
  | CSimple pre name suf => a_simple pre name suf
  | CCompound k rs => a_compound k ++ a_redirs pf rs
  | CFunction name k rs =>
      [Wd name; SP; OP "("; OP ")"; SP; ANl] ++ a_compound k ++ a_redirs pf rs
  end
with a_compound (k : compound) : list atom :=
  match k with
  | KBrace l => [KW "{"; SP; ANl] ++ bump (a_clist l) ++ [ANl; KW "}"]
  | KSubshell l => [OP "("; SP] ++ a_clist l ++ [SP; OP ")"]
  | KFor v vals body =>
      a_for_head pf v vals ++ [OP ";"; ANl] ++ [KW "do"; ANl] ++ bump (a_clist body) ++ [ANl; KW "done"]
  | KWhile c b =>
      [KW "while"; SP] ++ a_clist c ++ [OP ";"; SP] ++ [KW "do"; ANl] ++ bump (a_clist b) ++ [ANl; KW "done"]
  | KUntil c b =>
      [KW "until"; SP] ++ a_clist c ++ [OP ";"; SP] ++ [KW "do"; ANl] ++ bump (a_clist b) ++ [ANl; KW "done"]
  | KIf c t es =>
      [KW "if"; SP] ++ a_clist c ++ [OP ";"; SP; KW "then"; ANl] ++ bump (a_clist t) ++ a_elses es ++ [ANl; KW "fi"]
  | KCase w items =>
      [KW "case"; SP; Wd w; SP; KW "in"] ++ bump (a_citems items) ++ [ANl; KW "esac"]
  end
with a_pipeline (p : pipeline) : list atom :=
  match p with
  | Pipe timed bang c r =>
      match timed with
      | Some true => [KW "time"; SP; KW "-p"; SP]
      | Some false => [KW "time"; SP]
      | None => []
      end ++ (if bang then [KW "!"; SP] else []) ++ a_cmd c ++ a_cmds r
  end
with a_cmds (r : cmds) : list atom :=
  match r with
  | CmdsNil => []
  | CmdsCons c r' => [SP; OP "|"] ++ (if f_pipe_sep pf then [SP] else []) ++ a_cmd c ++ a_cmds r'
  end
with a_andor (a : andor) : list atom :=
  match a with AndOr p r => a_pipeline p ++ a_aorest r end
with a_aorest (r : aorest) : list atom :=
  match r with
  | AoNil => []
  | AoCons is_and p r' => [SP; OP (if is_and then "&&" else "||")%string; SP] ++ a_pipeline p ++ a_aorest r'
  end
with a_clist (l : clist) : list atom :=
  match l with
  | CList a async r => a_andor a ++ a_sepop async (is_clnil r) ++ a_clrest r
  end
with a_clrest (r : clrest) : list atom :=
  match r with
  | ClNil => []
  | ClCons a async r' => [ANl] ++ a_andor a ++ a_sepop async (is_clnil r') ++ a_clrest r'
  end
with a_elses (es : elses) : list atom :=
  match es with
  | ElNil => []
  | ElIf c b r => [ANl; KW "elif"; SP] ++ a_clist c ++ [OP ";"; SP; KW "then"; ANl] ++ bump (a_clist b) ++ a_elses r
  | ElElse b r => [ANl; KW "else"; ANl] ++ bump (a_clist b) ++ a_elses r
  end
with a_citems (is : citems) : list atom :=
  match is with
  | CiNil => []
  | CiSome pats body post r =>
      [ANl] ++ a_pats pats ++ [OP ")"; ANl] ++ bump (a_clist body) ++ [ANl; OP (post_text post)] ++ a_citems r
  | CiNone pats post r =>
      [ANl] ++ a_pats pats ++ [OP ")"; ANl] ++ [ANl; OP (post_text post)] ++ a_citems r
  end.

Definition show (c : cmd) : str := render true (a_cmd c).
Definition lexemes (c : cmd) : list lexeme := toks (a_cmd c).
End Atoms.
