(** C14 correspondence entries: decode a prefix-encoded AST of the sub-grammar, print it. *)
From Coq Require Import String.
From BV Require Import Base.Prelude Base.Codec gen.C14TokTables Print.Tokenize Print.Show.
Open Scope N_scope.

Definition tag (f : str) : N := match f with c :: _ => c | [] => 0 end.

Fixpoint take_n {A} (n : nat) (l : list A) : option (list A * list A) :=
  match n, l with
  | O, _ => Some ([], l)
  | S n', x :: l' => match take_n n' l' with Some (a, b) => Some (x :: a, b) | None => None end
  | S _, [] => None
  end.

Definition d_kind (c : N) : rkind :=
  if c =? 60 then RRead else if c =? 62 then RWrite else if c =? 65 then RAppend
  else if c =? 66 then RReadWrite else if c =? 67 then RClobber else if c =? 73 then RDupIn else RDupOut.

Definition d_fd (a : list str) : option (option str * list str) :=
  match a with
  | f :: r => if tag f =? 78 then Some (None, r)
              else match r with n :: r' => Some (Some n, r') | [] => None end
  | [] => None
  end.

(** redir: f fd kind target | e w app | h fd w *)
Definition d_redir (a : list str) : option (redir * list str) :=
  match a with
  | t :: r =>
    if tag t =? 102 then
      match d_fd r with
      | Some (fd, k :: w :: r') => Some (RFile fd (d_kind (tag k)) w, r')
      | _ => None
      end
    else if tag t =? 101 then
      match r with w :: ap :: r' => Some (ROutErr w (dec_bool ap), r') | _ => None end
    else if tag t =? 104 then
      match d_fd r with
      | Some (fd, w :: r') => Some (RHereStr fd w, r')
      | _ => None
      end
    else None
  | [] => None
  end.

Fixpoint d_many {A} (d : list str -> option (A * list str)) (n : nat) (a : list str) : option (list A * list str) :=
  match n with
  | O => Some ([], a)
  | S n' => match d a with
            | Some (x, r) => match d_many d n' r with Some (xs, r') => Some (x :: xs, r') | None => None end
            | None => None
            end
  end.

Definition d_item (a : list str) : option (item * list str) :=
  match a with
  | t :: r => if tag t =? 114 then match d_redir r with Some (x, r') => Some (IRedir x, r') | None => None end
              else match r with w :: r' => Some (IWord w, r') | [] => None end
  | [] => None
  end.

Definition d_counted {A} (d : list str -> option (A * list str)) (a : list str) : option (list A * list str) :=
  match a with n :: r => d_many d (dec_nat n) r | [] => None end.

Definition d_word (a : list str) : option (str * list str) :=
  match a with w :: r => Some (w, r) | [] => None end.

Definition d_redirs (a : list str) : option (option (list redir) * list str) :=
  match a with
  | t :: r => if tag t =? 48 then Some (None, r)
              else match d_counted d_redir r with Some (l, r') => Some (Some l, r') | None => None end
  | [] => None
  end.

Definition d_post (c : N) : postact := if c =? 98 then PBreak else if c =? 102 then PFall else PCont.

Notation "'olet' p <- e ; k" := (match e with Some p => k | None => None end)
  (at level 200, p pattern, e at level 100, k at level 200).

Fixpoint d_cmd (fuel : nat) (a : list str) : option (cmd * list str) :=
  match fuel with O => None | S fuel =>
  match a with
  | t :: r =>
    if tag t =? 83 then
      olet (pre, r1) <- d_counted d_item r;
      olet (hn, r2) <- d_word r1;
      olet (name, r3) <- (if tag hn =? 89 then olet (w, r') <- d_word r2; Some (Some w, r') else Some (None, r2));
      olet (suf, r4) <- d_counted d_item r3;
      Some (CSimple pre name suf, r4)
    else if tag t =? 67 then
      olet (k, r1) <- d_compound fuel r;
      olet (rs, r2) <- d_redirs r1;
      Some (CCompound k rs, r2)
    else if tag t =? 70 then
      olet (name, r0) <- d_word r;
      olet (k, r1) <- d_compound fuel r0;
      olet (rs, r2) <- d_redirs r1;
      Some (CFunction name k rs, r2)
    else None
  | [] => None
  end end
with d_compound (fuel : nat) (a : list str) : option (compound * list str) :=
  match fuel with O => None | S fuel =>
  match a with
  | t :: r =>
    if tag t =? 66 then olet (l, r1) <- d_clist fuel r; Some (KBrace l, r1)
    else if tag t =? 80 then olet (l, r1) <- d_clist fuel r; Some (KSubshell l, r1)
    else if tag t =? 79 then
      olet (v, r1) <- d_word r;
      olet (hv, r2) <- d_word r1;
      olet (vals, r3) <- (if tag hv =? 89 then olet (l, r') <- d_counted d_word r2; Some (Some l, r') else Some (None, r2));
      olet (b, r4) <- d_clist fuel r3;
      Some (KFor v vals b, r4)
    else if tag t =? 87 then
      olet (c, r1) <- d_clist fuel r; olet (b, r2) <- d_clist fuel r1; Some (KWhile c b, r2)
    else if tag t =? 85 then
      olet (c, r1) <- d_clist fuel r; olet (b, r2) <- d_clist fuel r1; Some (KUntil c b, r2)
    else if tag t =? 73 then
      olet (c, r1) <- d_clist fuel r; olet (th, r2) <- d_clist fuel r1; olet (es, r3) <- d_elses fuel r2;
      Some (KIf c th es, r3)
    else if tag t =? 75 then
      olet (w, r1) <- d_word r; olet (is, r2) <- d_citems fuel r1; Some (KCase w is, r2)
    else None
  | [] => None
  end end
with d_pipeline (fuel : nat) (a : list str) : option (pipeline * list str) :=
  match fuel with O => None | S fuel =>
  match a with
  | tm :: bg :: r =>
      olet (c, r1) <- d_cmd fuel r;
      olet (cs, r2) <- d_cmds fuel r1;
      Some (Pipe (if tag tm =? 48 then None else Some (tag tm =? 50)) (dec_bool bg) c cs, r2)
  | _ => None
  end end
with d_cmds (fuel : nat) (a : list str) : option (cmds * list str) :=
  match fuel with O => None | S fuel =>
  match a with
  | t :: r => if tag t =? 46 then Some (CmdsNil, r)
              else olet (c, r1) <- d_cmd fuel r; olet (cs, r2) <- d_cmds fuel r1; Some (CmdsCons c cs, r2)
  | [] => None
  end end
with d_andor (fuel : nat) (a : list str) : option (andor * list str) :=
  match fuel with O => None | S fuel =>
    olet (p, r1) <- d_pipeline fuel a; olet (ar, r2) <- d_aorest fuel r1; Some (AndOr p ar, r2)
  end
with d_aorest (fuel : nat) (a : list str) : option (aorest * list str) :=
  match fuel with O => None | S fuel =>
  match a with
  | t :: r => if tag t =? 46 then Some (AoNil, r)
              else olet (p, r1) <- d_pipeline fuel r; olet (ar, r2) <- d_aorest fuel r1;
                   Some (AoCons (tag t =? 38) p ar, r2)
  | [] => None
  end end
with d_clist (fuel : nat) (a : list str) : option (clist * list str) :=
  match fuel with O => None | S fuel =>
    olet (ao, r1) <- d_andor fuel a;
    match r1 with
    | asy :: r2 => olet (cr, r3) <- d_clrest fuel r2; Some (CList ao (dec_bool asy) cr, r3)
    | [] => None
    end
  end
with d_clrest (fuel : nat) (a : list str) : option (clrest * list str) :=
  match fuel with O => None | S fuel =>
  match a with
  | t :: r => if tag t =? 46 then Some (ClNil, r)
              else olet (ao, r1) <- d_andor fuel r;
                   match r1 with
                   | asy :: r2 => olet (cr, r3) <- d_clrest fuel r2; Some (ClCons ao (dec_bool asy) cr, r3)
                   | [] => None
                   end
  | [] => None
  end end
with d_elses (fuel : nat) (a : list str) : option (elses * list str) :=
  match fuel with O => None | S fuel =>
  match a with
  | t :: r => if tag t =? 46 then Some (ElNil, r)
              else if tag t =? 105 then
                olet (c, r1) <- d_clist fuel r; olet (b, r2) <- d_clist fuel r1; olet (es, r3) <- d_elses fuel r2;
                Some (ElIf c b es, r3)
              else olet (b, r1) <- d_clist fuel r; olet (es, r2) <- d_elses fuel r1; Some (ElElse b es, r2)
  | [] => None
  end end
with d_citems (fuel : nat) (a : list str) : option (citems * list str) :=
  match fuel with O => None | S fuel =>
  match a with
  | t :: r => if tag t =? 46 then Some (CiNil, r)
              else if tag t =? 115 then
                olet (ps, r1) <- d_counted d_word r; olet (b, r2) <- d_clist fuel r1;
                match r2 with
                | po :: r3 => olet (is, r4) <- d_citems fuel r3; Some (CiSome ps b (d_post (tag po)) is, r4)
                | [] => None
                end
              else
                olet (ps, r1) <- d_counted d_word r;
                match r1 with
                | po :: r3 => olet (is, r4) <- d_citems fuel r3; Some (CiNone ps (d_post (tag po)) is, r4)
                | [] => None
                end
  | [] => None
  end end.

Definition decode_cmd (a : list str) : option cmd :=
  match d_cmd (S (length a)) a with Some (c, []) => Some c | _ => None end.

Fixpoint show_lexemes (l : list lexeme) : list str :=
  match l with
  | [] => []
  | LWord w :: r => lit "w" :: w :: show_lexemes r
  | LOp o :: r => lit "o" :: o :: show_lexemes r
  | LIoNum n :: r => lit "n" :: n :: show_lexemes r
  end.

(** args: the encoded AST. result: the printed text under the regenerated printer flags *)
Definition entry_c14_show (a : list str) : list str :=
  match decode_cmd a with
  | Some c => [show current_flags c]
  | None => [lit "?decode"]
  end.

(** args: a text. result: its tokens by the tokenizer model *)
Definition entry_c14_tok (a : list str) : list str :=
  match a with
  | s :: _ => show_lexemes (tokenize s)
  | [] => []
  end.

Definition lexeme_eqb (x y : lexeme) : bool :=
  match x, y with
  | LWord a, LWord b | LOp a, LOp b | LIoNum a, LIoNum b => str_eqb a b
  | _, _ => false
  end.
Fixpoint lexemes_eqb (a b : list lexeme) : bool :=
  match a, b with
  | [], [] => true
  | x :: a', y :: b' => lexeme_eqb x y && lexemes_eqb a' b'
  | _, _ => false
  end.


(** * Parser model (flat function definitions): encode an AST back to the wire fields *)
From BV Require Import Print.Separation Print.ParseFlat.

Definition e_fd (fd : option str) : list str := match fd with None => [lit "N"] | Some n => [lit "Y"; n] end.
Definition e_kind (k : rkind) : str :=
  match k with RRead => lit "<" | RWrite => lit ">" | RAppend => lit "A" | RReadWrite => lit "B"
             | RClobber => lit "C" | RDupIn => lit "I" | RDupOut => lit "O" end.
Definition e_redir (r : redir) : list str :=
  match r with
  | RFile fd k t => lit "f" :: e_fd fd ++ [e_kind k; t]
  | ROutErr w ap => [lit "e"; w; enc_bool ap]
  | RHereStr fd w => lit "h" :: e_fd fd ++ [w]
  end.
Definition e_item (i : item) : list str := match i with IRedir r => lit "r" :: e_redir r | IWord w => [lit "w"; w] end.
Definition e_items (l : list item) : list str := enc_nat (length l) :: flat_map e_item l.
Definition e_redirs (rs : option (list redir)) : list str :=
  match rs with None => [lit "0"] | Some l => lit "R" :: enc_nat (length l) :: flat_map e_redir l end.
Definition e_words (l : list str) : list str := enc_nat (length l) :: l.
Definition e_post (p : postact) : str := match p with PBreak => lit "b" | PFall => lit "f" | PCont => lit "c" end.

Fixpoint e_cmd (c : cmd) : list str :=
  match c with
  | CSimple pre name suf =>
      lit "S" :: e_items pre ++ match name with Some w => [lit "Y"; w] | None => [lit "N"] end ++ e_items suf
  | CCompound k rs => lit "C" :: e_compound k ++ e_redirs rs
  | CFunction n k rs => lit "F" :: n :: e_compound k ++ e_redirs rs
  end
with e_compound (k : compound) : list str :=
  match k with
  | KBrace l => lit "B" :: e_clist l
  | KSubshell l => lit "P" :: e_clist l
  | KFor v vals b => lit "O" :: v :: match vals with Some l => lit "Y" :: e_words l | None => [lit "N"] end ++ e_clist b
  | KWhile c b => lit "W" :: e_clist c ++ e_clist b
  | KUntil c b => lit "U" :: e_clist c ++ e_clist b
  | KIf c t es => lit "I" :: e_clist c ++ e_clist t ++ e_elses es
  | KCase w is => lit "K" :: w :: e_citems is
  end
with e_pipeline (p : pipeline) : list str :=
  match p with
  | Pipe tm bg c r =>
      match tm with None => lit "0" | Some false => lit "1" | Some true => lit "2" end :: enc_bool bg :: e_cmd c ++ e_cmds r
  end
with e_cmds (r : cmds) : list str :=
  match r with CmdsNil => [lit "."] | CmdsCons c r' => lit "," :: e_cmd c ++ e_cmds r' end
with e_andor (a : andor) : list str := match a with AndOr p r => e_pipeline p ++ e_aorest r end
with e_aorest (r : aorest) : list str :=
  match r with AoNil => [lit "."] | AoCons a p r' => (if a then lit "&" else lit "|") :: e_pipeline p ++ e_aorest r' end
with e_clist (l : clist) : list str := match l with CList a s r => e_andor a ++ enc_bool s :: e_clrest r end
with e_clrest (r : clrest) : list str :=
  match r with ClNil => [lit "."] | ClCons a s r' => lit ";" :: e_andor a ++ enc_bool s :: e_clrest r' end
with e_elses (es : elses) : list str :=
  match es with
  | ElNil => [lit "."]
  | ElIf c b r => lit "i" :: e_clist c ++ e_clist b ++ e_elses r
  | ElElse b r => lit "e" :: e_clist b ++ e_elses r
  end
with e_citems (is : citems) : list str :=
  match is with
  | CiNil => [lit "."]
  | CiSome ps b po r => lit "s" :: e_words ps ++ e_clist b ++ e_post po :: e_citems r
  | CiNone ps po r => lit "n" :: e_words ps ++ e_post po :: e_citems r
  end.

(** args: the encoded AST. result: 1/0 for tokenize (show c) = lexemes c under the regenerated flags, 1/0 for
    "c is well-formed for these flags" (the hypothesis of show_separates_gen; 0 = inside the class Known
    when the flags are the unchanged printer's), then the lexemes *)
Definition entry_c14_sep (a : list str) : list str :=
  match decode_cmd a with
  | Some c => enc_bool (lexemes_eqb (tokenize (show current_flags c)) (lexemes current_flags c))
              :: enc_bool (ok_cmd current_flags false c)
              :: show_lexemes (lexemes current_flags c)
  | None => [lit "?decode"]
  end.

(** args: the encoded AST (of the real parser) then, last, the printed text.
    result: F <0|1> (is the AST a flat function definition, well-formed for the current flags) then the
    encoding of [parse (tokenize text)] or ?none *)
Definition entry_c14_parse (a : list str) : list str :=
  match rev a with
  | text :: rfields =>
      let flat := match decode_cmd (rev rfields) with
                  | Some c => flat_fun c && ok_cmd current_flags false c
                  | None => false
                  end in
      lit "F" :: enc_bool flat ::
      match parse (tokenize text) with Some c => e_cmd c | None => [lit "?none"] end
  | [] => [lit "?args"]
  end.
