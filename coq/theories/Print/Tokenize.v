(** C14: token-level model of brush-parser/src/tokenizer.rs on the plain alphabet
    (operator characters, blanks, newline, characters that are none of these and not quoting /
    expansion / comment / extglob starters), and the generic separation theorem:
    a sequence of print atoms whose neighbours are compatible tokenizes back to its lexemes.

    Mirrors [next_token_until]: an operator in progress grows while [is_operator] accepts the
    extension and is delimited otherwise; a character that can start an operator delimits a
    word; blanks delimit and are dropped; newline is the operator [\n].  A word of digits
    delimited by < or > is an io-number (peg.rs [io_number]: digits, directly followed by a
    redirection operator, contiguous locations). *)
From BV Require Import Base.Prelude gen.C14TokTables.
Open Scope N_scope.

Definition mem (c : char) (l : list N) : bool := existsb (N.eqb c) l.
Definition operators : list str := posix_operators ++ ext_operators.
Definition is_operator (s : str) : bool := existsb (str_eqb s) operators.
Definition can_start_op (c : char) : bool := mem c op_start_chars.
Definition is_blank (c : char) : bool := mem c blank_chars.
Definition redir_start (c : char) : bool := (c =? 60) || (c =? 62).
Definition is_nil {A} (l : list A) : bool := match l with [] => true | _ => false end.
Definition all_digits (w : str) : bool := forallb is_digit w && negb (is_nil w).

(** characters of the domain of this model that may appear inside words *)
Definition plain (c : char) : bool :=
  negb (can_start_op c || is_blank c || mem c quoting_chars || mem c extglob_start_chars
        || (c =? 36) || (c =? 96) || (c =? 35) || (c =? 0)).

(** what the model needs of a word character: it neither starts an operator nor is a blank *)
Definition wordchar (c : char) : bool := negb (can_start_op c || is_blank c).

Inductive lexeme := LWord (w : str) | LOp (o : str) | LIoNum (n : str).
Inductive tstate := SNone | SWord (w : str) | SOp (o : str).

Definition emit_word (w : str) (c : char) : lexeme :=
  if all_digits w && redir_start c then LIoNum w else LWord w.

(** a character arriving when no token is in progress *)
Definition start (c : char) : tstate :=
  if can_start_op c then SOp [c] else if is_blank c then SNone else SWord [c].

Definition step (st : tstate) (c : char) : list lexeme * tstate :=
  match st with
  | SOp o => if is_operator (o ++ [c]) then ([], SOp (o ++ [c])) else ([LOp o], start c)
  | SWord w => if can_start_op c then ([emit_word w c], SOp [c])
               else if is_blank c then ([LWord w], SNone)
               else ([], SWord (w ++ [c]))
  | SNone => ([], start c)
  end.

Definition flush (st : tstate) : list lexeme :=
  match st with SNone => [] | SWord w => [LWord w] | SOp o => [LOp o] end.

Fixpoint run (st : tstate) (s : str) : list lexeme * tstate :=
  match s with
  | [] => ([], st)
  | c :: r => let '(o1, st1) := step st c in let '(o2, st2) := run st1 r in (o1 ++ o2, st2)
  end.

Definition tk (st : tstate) (s : str) : list lexeme := let '(o, st') := run st s in o ++ flush st'.
Definition tokenize (s : str) : list lexeme := tk SNone s.

(** * Print atoms *)

Inductive atom := ATok (d : nat) (x : lexeme) | ASp (d : nat) | ANl.

Definition text (x : lexeme) : str := match x with LWord w => w | LOp o => o | LIoNum n => n end.
Definition spaces (n : nat) : str := repeat 32 n.
Definition ind (bol : bool) (d : nat) : str := if bol then spaces (display_indent * d) else [].

Fixpoint render (bol : bool) (l : list atom) : str :=
  match l with
  | [] => []
  | ATok d x :: r => ind bol d ++ text x ++ render false r
  | ASp d :: r => ind bol d ++ 32 :: render false r
  | ANl :: r => 10 :: render true r
  end.

Definition NLOP : lexeme := LOp [10].
Definition toks_of (a : atom) : list lexeme :=
  match a with ATok _ x => [x] | ASp _ => [] | ANl => [NLOP] end.
Definition toks (l : list atom) : list lexeme := flat_map toks_of l.
Definition pend (a : atom) : option lexeme :=
  match a with ATok _ x => Some x | ASp _ => None | ANl => Some NLOP end.

(** validity of a lexeme: words are non-empty and plain, io-numbers are digits, operators are
    operators of the table other than the here-document ones (outside the model) *)
Definition heredoc_op (o : str) : bool := str_eqb o [60; 60] || str_eqb o [60; 60; 45].
Definition lex_ok (x : lexeme) : bool :=
  match x with
  | LWord w => negb (is_nil w) && forallb wordchar w
  | LIoNum n => all_digits n
  | LOp o => is_operator o && negb (heredoc_op o)
  end.
Definition atom_ok (a : atom) : bool := match a with ATok _ x => lex_ok x | _ => true end.

Definition hd0 (s : str) : char := match s with c :: _ => c | [] => 0 end.

(** may [x] be written directly behind the pending lexeme [prev]? *)
Definition glue_ok (prev : option lexeme) (x : lexeme) : bool :=
  match prev with
  | None => true
  | Some (LWord w) => match x with LOp o => negb (all_digits w && redir_start (hd0 o)) | _ => false end
  | Some (LIoNum n) => match x with LOp o => redir_start (hd0 o) | _ => false end
  | Some (LOp p) => negb (is_operator (p ++ [hd0 (text x)]))
  end.
(** may a blank / newline [c] follow the pending lexeme? *)
Definition sep_ok (prev : option lexeme) (c : char) : bool :=
  match prev with
  | None => true
  | Some (LWord _) => true
  | Some (LIoNum _) => false
  | Some (LOp p) => negb (is_operator (p ++ [c]))
  end.
Definition junction_ok (prev : option lexeme) (a : atom) : bool :=
  match a with ATok _ x => glue_ok prev x | ASp _ => sep_ok prev 32 | ANl => sep_ok prev 10 end.

Fixpoint chain_ok (prev : option lexeme) (l : list atom) : bool :=
  match l with
  | [] => match prev with Some (LIoNum _) => false | _ => true end
  | a :: r => junction_ok prev a && chain_ok (pend a) r
  end.

(** * Facts about the regenerated tables (re-checked whenever the tables change) *)

Definition builds (o : str) : bool :=
  match run SNone o with ([], SOp o') => str_eqb o o' | _ => false end.
Lemma operators_build : forallb builds operators = true.
Proof. vm_compute. reflexivity. Qed.
Lemma operators_start : forallb (fun o => can_start_op (hd0 o) && negb (is_nil o)) operators = true.
Proof. vm_compute. reflexivity. Qed.
(** nothing extends the newline operator *)
Lemma nl_inert_table : forallb (fun o => negb (starts_with [10] o && negb (str_eqb o [10]))) operators = true.
Proof. vm_compute. reflexivity. Qed.
Lemma digits_plain : forallb wordchar [48;49;50;51;52;53;54;55;56;57] = true.
Proof. vm_compute. reflexivity. Qed.
Lemma blank32 : is_blank 32 = true /\ can_start_op 32 = false /\ can_start_op 10 = true.
Proof. vm_compute. repeat split; reflexivity. Qed.

(** * Generic lemmas *)

Lemma run_app st s1 s2 :
  run st (s1 ++ s2) = let '(o1, st1) := run st s1 in let '(o2, st2) := run st1 s2 in (o1 ++ o2, st2).
Proof.
  revert st. induction s1 as [|c r IH]; intros st.
  - cbn [app run]. destruct (run st s2). reflexivity.
  - cbn [app run]. destruct (step st c) as [o1 st1]. rewrite IH.
    destruct (run st1 r) as [o2 st2]. destruct (run st2 s2) as [o3 st3]. rewrite app_assoc. reflexivity.
Qed.

Lemma tk_app st s1 s2 : tk st (s1 ++ s2) = fst (run st s1) ++ tk (snd (run st s1)) s2.
Proof.
  unfold tk. rewrite run_app. destruct (run st s1) as [o1 st1]. cbn [fst snd].
  destruct (run st1 s2) as [o2 st2]. rewrite app_assoc. reflexivity.
Qed.

Lemma plain_not_special c : wordchar c = true -> can_start_op c = false /\ is_blank c = false.
Proof.
  unfold wordchar. intros H. apply negb_true_iff in H. apply orb_false_iff in H. exact H.
Qed.

Lemma plain_wordchar c : plain c = true -> wordchar c = true.
Proof.
  unfold plain, wordchar. intros H. apply negb_true_iff in H.
  do 6 (apply orb_false_iff in H; destruct H as [H _]).
  rewrite H. reflexivity.
Qed.

Lemma run_word_ext u w : forallb wordchar w = true -> run (SWord u) w = ([], SWord (u ++ w)).
Proof.
  revert u. induction w as [|c r IH]; intros u H.
  - rewrite app_nil_r. reflexivity.
  - cbn [forallb] in H. apply andb_true_iff in H. destruct H as [Hc Hr].
    destruct (plain_not_special c Hc) as [H1 H2].
    cbn [run step]. rewrite H1, H2, (IH _ Hr), <- app_assoc. reflexivity.
Qed.

Lemma run_word_none w : negb (is_nil w) = true -> forallb wordchar w = true -> run SNone w = ([], SWord w).
Proof.
  destruct w as [|c r]; [discriminate|]. intros _ H.
  cbn [forallb] in H. apply andb_true_iff in H. destruct H as [Hc Hr].
  destruct (plain_not_special c Hc) as [H1 H2].
  cbn [run step]. unfold start. rewrite H1, H2, (run_word_ext [c] r Hr). reflexivity.
Qed.

Lemma is_operator_In o : is_operator o = true -> In o operators.
Proof.
  unfold is_operator. intros H. apply existsb_exists in H. destruct H as [x [Hin Heq]].
  apply str_eqb_eq in Heq. subst. exact Hin.
Qed.

Lemma run_op_none o : is_operator o = true -> run SNone o = ([], SOp o).
Proof.
  intros H. apply is_operator_In in H.
  pose proof operators_build as Hall. rewrite forallb_forall in Hall. specialize (Hall o H).
  unfold builds in Hall. destruct (run SNone o) as [out st]. destruct out; [|discriminate].
  destruct st; try discriminate. apply str_eqb_eq in Hall. subst. reflexivity.
Qed.

Lemma op_shape o : is_operator o = true -> exists c r, o = c :: r /\ can_start_op c = true.
Proof.
  intros H. apply is_operator_In in H.
  pose proof operators_start as Hall. rewrite forallb_forall in Hall. specialize (Hall o H).
  apply andb_true_iff in Hall. destruct Hall as [H1 H2]. destruct o as [|c r]; [discriminate|].
  exists c, r. split; [reflexivity | exact H1].
Qed.

Lemma all_digits_plain n : all_digits n = true -> negb (is_nil n) = true /\ forallb wordchar n = true.
Proof.
  unfold all_digits. intros H. apply andb_true_iff in H. destruct H as [Hd Hn]. split; [exact Hn|].
  clear Hn. induction n as [|c r IH]; [reflexivity|].
  cbn [forallb] in *. apply andb_true_iff in Hd. destruct Hd as [Hc Hr]. rewrite (IH Hr), andb_true_r.
  unfold is_digit in Hc. apply andb_true_iff in Hc. destruct Hc as [H1 H2].
  apply N.leb_le in H1, H2.
  pose proof digits_plain as Hall. rewrite forallb_forall in Hall. apply Hall.
  assert (Hin : In (N.to_nat c) (seq 48 10)) by (apply in_seq; lia).
  apply (in_map N.of_nat) in Hin. rewrite N2Nat.id in Hin. exact Hin.
Qed.

Lemma lex_word_like x :
  lex_ok x = true -> match x with LOp _ => True | _ => negb (is_nil (text x)) = true /\ forallb wordchar (text x) = true end.
Proof.
  destruct x as [w|o|n]; cbn [lex_ok text]; intros H; [|exact I|].
  - apply andb_true_iff in H. exact H.
  - apply all_digits_plain. exact H.
Qed.

Definition st_of (prev : option lexeme) : tstate :=
  match prev with
  | None => SNone
  | Some (LWord w) => SWord w
  | Some (LIoNum n) => SWord n
  | Some (LOp o) => SOp o
  end.
Definition olist (prev : option lexeme) : list lexeme := match prev with Some p => [p] | None => [] end.

Definition prev_ok (prev : option lexeme) : bool := match prev with Some p => lex_ok p | None => true end.

(** running the text of a valid lexeme from the empty state leaves exactly it pending *)
Lemma run_text_none x : lex_ok x = true -> run SNone (text x) = ([], st_of (Some x)).
Proof.
  intros H. pose proof (lex_word_like x H) as Hw. destruct x as [w|o|n]; cbn [text st_of] in *.
  - destruct Hw. apply run_word_none; assumption.
  - cbn [lex_ok] in H. apply andb_true_iff in H. destruct H as [H _]. apply run_op_none. exact H.
  - destruct Hw. apply run_word_none; assumption.
Qed.

(** ... and from a pending lexeme it may be glued to, that lexeme is emitted first *)
Lemma run_text_glued p x :
  lex_ok p = true -> lex_ok x = true -> glue_ok (Some p) x = true ->
  run (st_of (Some p)) (text x) = ([p], st_of (Some x)).
Proof.
  intros Hp Hx Hg.
  assert (Hshape : exists c r, text x = c :: r /\ run SNone (text x) = ([], st_of (Some x))
                   /\ step SNone c = ([], start c)).
  { pose proof (run_text_none x Hx) as Hr. destruct (text x) as [|c r] eqn:Et.
    - exfalso. pose proof (lex_word_like x Hx) as Hw. destruct x as [w|o|n]; cbn [text] in Et; subst.
      + destruct Hw; discriminate.
      + cbn [lex_ok] in Hx. apply andb_true_iff in Hx. destruct Hx as [Hx _].
        destruct (op_shape _ Hx) as [c [r [E _]]]. discriminate.
      + destruct Hw; discriminate.
    - exists c, r. repeat split; [exact Hr]. }
  destruct Hshape as [c [r [Et [Hr Hs]]]]. rewrite Et in *.
  cbn [run] in Hr. rewrite Hs in Hr. destruct (run (start c) r) as [o2 st2] eqn:Er.
  cbn [app] in Hr. inversion Hr. subst o2.
  (* it suffices that the first step emits [p] and moves to [start c] *)
  assert (Hstep : step (st_of (Some p)) c = ([p], start c)).
  { destruct p as [w|q|n]; cbn [st_of glue_ok] in *.
    - (* word then operator *)
      destruct x as [w'|o|n']; try discriminate. cbn [text] in Et. subst o.
      cbn [lex_ok] in Hx. apply andb_true_iff in Hx. destruct Hx as [Hx _].
      destruct (op_shape _ Hx) as [c' [r' [E Hc]]]. inversion E; subst c' r'.
      cbn [step]. rewrite Hc. unfold start. rewrite Hc. unfold emit_word. cbn [hd0] in Hg.
      apply negb_true_iff in Hg. rewrite Hg. reflexivity.
    - (* operator then anything *)
      cbn [step]. rewrite Et in Hg. cbn [hd0] in Hg. apply negb_true_iff in Hg. rewrite Hg. reflexivity.
    - (* io-number then redirection operator *)
      destruct x as [w'|o|n']; try discriminate. cbn [text] in Et. subst o.
      cbn [lex_ok] in Hx. apply andb_true_iff in Hx. destruct Hx as [Hx _].
      destruct (op_shape _ Hx) as [c' [r' [E Hc]]]. inversion E; subst c' r'.
      cbn [step]. rewrite Hc. unfold start. rewrite Hc. unfold emit_word. cbn [hd0] in Hg.
      cbn [lex_ok] in Hp. rewrite Hp, Hg. reflexivity. }
  cbn [run]. rewrite Hstep, Er. rewrite H1. reflexivity.
Qed.

Lemma run_spaces_none n : run SNone (spaces n) = ([], SNone).
Proof.
  induction n as [|n IH]; [reflexivity|].
  cbn [spaces repeat run step]. unfold start. destruct blank32 as [Hb [Hs _]]. rewrite Hs, Hb.
  fold (spaces n). rewrite IH. reflexivity.
Qed.

Lemma step_sep_blank p : lex_ok p = true -> sep_ok (Some p) 32 = true -> step (st_of (Some p)) 32 = ([p], SNone).
Proof.
  destruct blank32 as [Hb [Hs _]].
  destruct p as [w|q|n]; cbn [st_of sep_ok step]; intros Hp H; try discriminate.
  - rewrite Hs, Hb. reflexivity.
  - apply negb_true_iff in H. rewrite H. unfold start. rewrite Hs, Hb. reflexivity.
Qed.

Lemma step_sep_nl p : lex_ok p = true -> sep_ok (Some p) 10 = true -> step (st_of (Some p)) 10 = ([p], SOp [10]).
Proof.
  destruct blank32 as [_ [_ Hn]].
  destruct p as [w|q|n]; cbn [st_of sep_ok step]; intros Hp H; try discriminate.
  - rewrite Hn. unfold emit_word, redir_start. cbn [N.eqb Pos.eqb orb]. rewrite andb_false_r. reflexivity.
  - apply negb_true_iff in H. rewrite H. unfold start. rewrite Hn. reflexivity.
Qed.

Lemma nl_inert c : is_operator [10; c] = false.
Proof.
  destruct (is_operator [10; c]) eqn:E; [|reflexivity]. exfalso.
  apply is_operator_In in E. pose proof nl_inert_table as Hall. rewrite forallb_forall in Hall.
  specialize (Hall _ E). cbn [starts_with] in Hall. cbn [N.eqb Pos.eqb andb str_eqb] in Hall.
  discriminate.
Qed.

(** blanks behind a pending lexeme: the first one delimits it, the rest are dropped *)
Lemma run_spaces_pending p n :
  lex_ok p = true -> sep_ok (Some p) 32 = true ->
  run (st_of (Some p)) (spaces (S n)) = ([p], SNone).
Proof.
  intros Hp Hs. cbn [spaces repeat run]. rewrite (step_sep_blank p Hp Hs). fold (spaces n).
  rewrite run_spaces_none. reflexivity.
Qed.

(** the pending lexeme after [ANl] tolerates anything behind it *)
Lemma nl_glue x : glue_ok (Some NLOP) x = true.
Proof. unfold glue_ok, NLOP. cbn [app]. rewrite nl_inert. reflexivity. Qed.
Lemma nl_sep c : sep_ok (Some NLOP) c = true.
Proof. unfold sep_ok, NLOP. cbn [app]. rewrite nl_inert. reflexivity. Qed.
Lemma nl_lex_ok : lex_ok NLOP = true.
Proof. vm_compute. reflexivity. Qed.

(** * The separation theorem *)

(** indentation (possibly empty) then the text of [x], behind a pending [prev] *)
Lemma run_ind_text prev bol d x :
  prev_ok prev = true -> lex_ok x = true -> glue_ok prev x = true ->
  (bol = true -> sep_ok prev 32 = true) ->
  run (st_of prev) (ind bol d ++ text x) = (olist prev, st_of (Some x)).
Proof.
  intros Hp Hx Hg Hb. unfold ind.
  destruct bol; [destruct (display_indent * d)%nat as [|k] eqn:Ek|].
  - cbn [spaces repeat app]. destruct prev as [p|]; cbn [olist].
    + apply run_text_glued; assumption.
    + apply run_text_none; assumption.
  - rewrite run_app. destruct prev as [p|]; cbn [olist].
    + rewrite (run_spaces_pending p k Hp (Hb eq_refl)). rewrite (run_text_none x Hx). reflexivity.
    + cbn [st_of]. rewrite run_spaces_none, (run_text_none x Hx). reflexivity.
  - cbn [app]. destruct prev as [p|]; cbn [olist].
    + apply run_text_glued; assumption.
    + apply run_text_none; assumption.
Qed.

Lemma run_ind_blank prev bol d :
  prev_ok prev = true -> sep_ok prev 32 = true ->
  run (st_of prev) (ind bol d ++ [32]) = (olist prev, SNone).
Proof.
  intros Hp Hs.
  assert (E : exists k, ind bol d ++ [32] = spaces (S k)).
  { unfold ind. destruct bol.
    - exists (display_indent * d)%nat. unfold spaces. induction (display_indent * d)%nat as [|k IH]; [reflexivity|].
      cbn [repeat app]. cbn [repeat] in IH. rewrite IH. reflexivity.
    - exists 0%nat. reflexivity. }
  destruct E as [k E]. rewrite E. destruct prev as [p|]; cbn [olist].
  - apply run_spaces_pending; assumption.
  - cbn [st_of]. apply run_spaces_none.
Qed.

Theorem tk_render l : forall prev bol,
  forallb atom_ok l = true -> prev_ok prev = true ->
  (bol = true -> sep_ok prev 32 = true) ->
  chain_ok prev l = true ->
  tk (st_of prev) (render bol l) = olist prev ++ toks l.
Proof.
  induction l as [|a r IH]; intros prev bol Hok Hp Hb Hc.
  - cbn [render toks flat_map]. rewrite app_nil_r. unfold tk. cbn [run app].
    destruct prev as [[w|o|n]|]; cbn [st_of flush olist chain_ok] in *; try reflexivity. discriminate.
  - cbn [forallb] in Hok. apply andb_true_iff in Hok. destruct Hok as [Ha Hr].
    cbn [chain_ok] in Hc. apply andb_true_iff in Hc. destruct Hc as [Hj Hc].
    destruct a as [d x|d|]; cbn [render toks flat_map toks_of pend junction_ok atom_ok] in *.
    + rewrite (app_assoc (ind bol d) (text x) (render false r)), tk_app, (run_ind_text prev bol d x Hp Ha Hj Hb). cbn [fst snd].
      rewrite (IH (Some x) false Hr Ha) by (discriminate || assumption).
      reflexivity.
    + replace (ind bol d ++ 32 :: render false r) with ((ind bol d ++ [32]) ++ render false r)
        by (rewrite <- app_assoc; reflexivity).
      rewrite tk_app, (run_ind_blank prev bol d Hp Hj). cbn [fst snd].
      change SNone with (st_of None).
      rewrite (IH None false Hr eq_refl) by (discriminate || assumption).
      reflexivity.
    + change (10 :: render true r) with ([10] ++ render true r). rewrite tk_app.
      assert (Hs : run (st_of prev) [10] = (olist prev, st_of (Some NLOP))).
      { destruct prev as [p|]; cbn [olist].
        - cbn [run]. rewrite (step_sep_nl p Hp Hj). reflexivity.
        - cbn [st_of run step]. unfold start. destruct blank32 as [_ [_ Hn]]. rewrite Hn. reflexivity. }
      rewrite Hs. cbn [fst snd].
      rewrite (IH (Some NLOP) true Hr nl_lex_ok (fun _ => nl_sep 32) Hc).
      reflexivity.
Qed.

(** [tokenize (render true l) = toks l] for every well-separated sequence of valid atoms *)
Corollary tokenize_render l :
  forallb atom_ok l = true -> chain_ok None l = true -> tokenize (render true l) = toks l.
Proof.
  intros Hok Hc. unfold tokenize. change SNone with (st_of None).
  rewrite (tk_render l None true Hok eq_refl (fun _ => eq_refl) Hc). reflexivity.
Qed.
