(** C14, parse round trip on a sub-grammar (partial): a recursive-descent parser over lexemes for
    *flat* function definitions - [name () { list }] whose list items are and-or lists of
    pipelines (with !) of simple commands (words and file / dup / &> / here-string redirections,
    redirections allowed before the command word) separated by ; & and newlines - and the theorem
    that parsing what the printer prints gives back the AST:

      parse (tokenize (show pf c)) = Some c

    for every such definition that is well-formed for the printer flags [pf].  Compound commands
    inside the body are outside this parser model (the real parser is exercised on them by
    execution, see props/c14.py). *)
From Coq Require Import String.
From BV Require Import Base.Prelude Base.Codec gen.C14TokTables Print.Tokenize Print.Show Print.Separation.
Open Scope N_scope.

Definition is_lit (s : str) (t : string) : bool := str_eqb s (lit t).
Definition is_nlop (o : str) : bool := str_eqb o [10].

Definition kind_of (o : str) : option rkind :=
  if is_lit o "<" then Some RRead else if is_lit o ">" then Some RWrite
  else if is_lit o ">>" then Some RAppend else if is_lit o "<>" then Some RReadWrite
  else if is_lit o ">|" then Some RClobber else if is_lit o "<&" then Some RDupIn
  else if is_lit o ">&" then Some RDupOut else None.

(** the redirection made of an optional fd, an operator and a target word *)
Definition mk_redir (fd : option str) (o t : str) : option redir :=
  match kind_of o with
  | Some k => Some (RFile fd k t)
  | None =>
      if is_lit o "<<<" then Some (RHereStr fd t)
      else match fd with
           | None => if is_lit o "&>" then Some (ROutErr t false)
                     else if is_lit o "&>>" then Some (ROutErr t true) else None
           | Some _ => None
           end
  end.

(** words and redirections, as long as there are any *)
Fixpoint p_items (l : list lexeme) : list item * list lexeme :=
  match l with
  | LWord w :: r => let '(is, r') := p_items r in (IWord w :: is, r')
  | LIoNum n :: LOp o :: LWord t :: r =>
      match mk_redir (Some n) o t with
      | Some rd => let '(is, r') := p_items r in (IRedir rd :: is, r')
      | None => ([], l)
      end
  | LOp o :: LWord t :: r =>
      match mk_redir None o t with
      | Some rd => let '(is, r') := p_items r in (IRedir rd :: is, r')
      | None => ([], l)
      end
  | _ => ([], l)
  end.

Fixpoint split_pre (is : list item) : list item * list item :=
  match is with
  | IRedir r :: t => let '(a, b) := split_pre t in (IRedir r :: a, b)
  | _ => ([], is)
  end.

Definition mk_simple (is : list item) : option cmd :=
  let '(pre, rest) := split_pre is in
  match rest with
  | [] => if is_nil pre then None else Some (CSimple pre None [])
  | IWord w :: suf => Some (CSimple pre (Some w) suf)
  | IRedir _ :: _ => None
  end.

Definition p_simple (l : list lexeme) : option (cmd * list lexeme) :=
  let '(is, r) := p_items l in
  match mk_simple is with Some c => Some (c, r) | None => None end.

Fixpoint p_cmds (fuel : nat) (l : list lexeme) : option (cmds * list lexeme) :=
  match fuel with O => None | S f =>
  match l with
  | LOp o :: r =>
      if is_lit o "|" then
        match p_simple r with
        | Some (c, r1) => match p_cmds f r1 with Some (cs, r2) => Some (CmdsCons c cs, r2) | None => None end
        | None => None
        end
      else Some (CmdsNil, l)
  | _ => Some (CmdsNil, l)
  end end.

Definition p_pipeline (fuel : nat) (l : list lexeme) : option (pipeline * list lexeme) :=
  let '(bang, l1) := match l with
                     | LWord w :: r => if is_lit w "!" then (true, r) else (false, l)
                     | _ => (false, l)
                     end in
  match p_simple l1 with
  | Some (c, r1) => match p_cmds fuel r1 with Some (cs, r2) => Some (Pipe None bang c cs, r2) | None => None end
  | None => None
  end.

Fixpoint p_aorest (fuel : nat) (l : list lexeme) : option (aorest * list lexeme) :=
  match fuel with O => None | S f =>
  match l with
  | LOp o :: r =>
      if is_lit o "&&" || is_lit o "||" then
        match p_pipeline f r with
        | Some (p, r1) => match p_aorest f r1 with Some (ar, r2) => Some (AoCons (is_lit o "&&") p ar, r2) | None => None end
        | None => None
        end
      else Some (AoNil, l)
  | _ => Some (AoNil, l)
  end end.

Definition p_andor (fuel : nat) (l : list lexeme) : option (andor * list lexeme) :=
  match p_pipeline fuel l with
  | Some (p, r1) => match p_aorest fuel r1 with Some (ar, r2) => Some (AndOr p ar, r2) | None => None end
  | None => None
  end.

Definition closes (l : list lexeme) : bool :=
  match l with LOp nl :: LWord cb :: _ => is_nlop nl && is_lit cb "}" | _ => false end.

(** after an and-or list: its separator and the rest of the list.  The list of a brace group ends
    before [newline }] *)
Fixpoint p_seprest (fuel : nat) (l : list lexeme) : option (bool * clrest * list lexeme) :=
  match fuel with O => None | S f =>
  let continue_ (async : bool) (r : list lexeme) :=
    match r with
    | LOp nl :: r' =>
        if is_nlop nl then
          match p_andor f r' with
          | Some (a, r1) =>
              match p_seprest f r1 with
              | Some (async', cr, r2) => Some (async, ClCons a async' cr, r2)
              | None => None
              end
          | None => None
          end
        else None
    | _ => None
    end in
  match l with
  | LOp o :: r =>
      if is_lit o ";" then continue_ false r
      else if is_lit o "&" then (if closes r then Some (true, ClNil, r) else continue_ true r)
      else Some (false, ClNil, l)
  | _ => Some (false, ClNil, l)
  end end.

Definition p_clist (fuel : nat) (l : list lexeme) : option (clist * list lexeme) :=
  match p_andor fuel l with
  | Some (a, r1) => match p_seprest fuel r1 with Some (async, cr, r2) => Some (CList a async cr, r2) | None => None end
  | None => None
  end.

(** name ( ) newline { newline list newline } *)
Definition p_function (l : list lexeme) : option cmd :=
  match l with
  | LWord name :: LOp o1 :: LOp o2 :: LOp n1 :: LWord ob :: LOp n2 :: r =>
      if is_lit o1 "(" && is_lit o2 ")" && is_nlop n1 && is_lit ob "{" && is_nlop n2 then
        match p_clist (S (length r)) r with
        | Some (cl, [LOp n3; LWord cb]) => if is_nlop n3 && is_lit cb "}" then Some (CFunction name (KBrace cl) None) else None
        | _ => None
        end
      else None
  | _ => None
  end.

Definition parse (l : list lexeme) : option cmd := p_function l.

(** * The flat sub-grammar *)

Definition is_redir_item (i : item) : bool := match i with IRedir _ => true | IWord _ => false end.
(** a command word: plain, and not a token the parsers treat specially in command position *)
Definition reserved_words : list string :=
  ["!"; "{"; "}"; "if"; "then"; "else"; "elif"; "fi"; "do"; "done"; "case"; "esac"; "while"; "until";
   "for"; "in"; "function"; "time"; "select"; "coproc"; "[["; "]]"]%string.
Definition cmd_word_ok (w : str) : bool :=
  word_ok w && negb (existsb (is_lit w) reserved_words) && negb (existsb (N.eqb 61) w).

Definition flat_simple (c : cmd) : bool :=
  match c with
  | CSimple pre (Some w) suf => forallb is_redir_item pre && cmd_word_ok w
  | CSimple pre None suf => forallb is_redir_item pre && negb (is_nil pre) && is_nil suf
  | _ => false
  end.
Fixpoint flat_cmds (r : cmds) : bool :=
  match r with CmdsNil => true | CmdsCons c r' => flat_simple c && flat_cmds r' end.
Definition flat_pipeline (p : pipeline) : bool :=
  match p with Pipe None _ c r => flat_simple c && flat_cmds r | _ => false end.
Fixpoint flat_aorest (r : aorest) : bool :=
  match r with AoNil => true | AoCons _ p r' => flat_pipeline p && flat_aorest r' end.
Definition flat_andor (a : andor) : bool := match a with AndOr p r => flat_pipeline p && flat_aorest r end.
Fixpoint flat_clrest (r : clrest) : bool :=
  match r with ClNil => true | ClCons a _ r' => flat_andor a && flat_clrest r' end.
Definition flat_clist (l : clist) : bool := match l with CList a _ r => flat_andor a && flat_clrest r end.
Definition flat_fun (c : cmd) : bool :=
  match c with CFunction _ (KBrace cl) None => flat_clist cl | _ => false end.

(** * Lexemes of the pieces *)

Lemma toks_app l1 l2 : toks (l1 ++ l2) = toks l1 ++ toks l2.
Proof. unfold toks. apply flat_map_app. Qed.

Definition item_toks (i : item) : list lexeme := toks (a_item i).

Lemma toks_sep_by items : toks (sep_by a_item items) = flat_map item_toks items.
Proof.
  induction items as [|i r IH]; [reflexivity|].
  destruct r as [|j r'].
  - cbn [sep_by flat_map]. rewrite app_nil_r. reflexivity.
  - rewrite sep_by_cons, toks_app. cbn [flat_map]. fold (item_toks i). f_equal.
    change (toks (SP :: sep_by a_item (j :: r'))) with (toks (sep_by a_item (j :: r'))). exact IH.
Qed.

(** what may follow a simple command: nothing, or an operator that is no redirection *)
Definition stop_op (o : str) : bool := match mk_redir None o [] with None => true | Some _ => false end.
Definition follow (rest : list lexeme) : Prop :=
  match rest with [] => True | LOp o :: _ => stop_op o = true | _ => False end.

Lemma mk_redir_none o t : stop_op o = true -> mk_redir None o t = None.
Proof.
  unfold stop_op, mk_redir. destruct (kind_of o); [discriminate|].
  destruct (is_lit o "<<<"); [discriminate|]. destruct (is_lit o "&>"); [discriminate|].
  destruct (is_lit o "&>>"); [discriminate | reflexivity].
Qed.

Lemma p_items_stop rest : follow rest -> p_items rest = ([], rest).
Proof.
  destruct rest as [|[w|o|n] r]; cbn [follow]; intros H; try contradiction; [reflexivity|].
  cbn [p_items]. destruct r as [|[t|o2|n2] r']; try reflexivity.
  rewrite (mk_redir_none o t H). reflexivity.
Qed.

Lemma mk_redir_file fd k t : mk_redir fd (kind_text k) t = Some (RFile fd k t).
Proof. destruct k; reflexivity. Qed.
Lemma mk_redir_here fd t : mk_redir fd (lit "<<<") t = Some (RHereStr fd t).
Proof. reflexivity. Qed.
Lemma mk_redir_amp app t : mk_redir None (amp_text app) t = Some (ROutErr t app).
Proof. destruct app; reflexivity. Qed.

Lemma p_items_item i l : item_ok i = true ->
  p_items (item_toks i ++ l) = let '(is, r) := p_items l in (i :: is, r).
Proof.
  intros Hok. destruct i as [[[n|] k t | w ap | [n|] w] | w]; unfold item_toks;
    cbn [a_item a_redir fd_atoms toks flat_map toks_of app]; unfold OP, SP, Wd;
    cbn [toks_of flat_map app p_items].
  - rewrite mk_redir_file. reflexivity.
  - rewrite mk_redir_file. reflexivity.
  - destruct ap; reflexivity.
  - rewrite mk_redir_here. reflexivity.
  - rewrite mk_redir_here. reflexivity.
  - reflexivity.
Qed.

Lemma p_items_lexemes items rest : forallb item_ok items = true -> follow rest ->
  p_items (flat_map item_toks items ++ rest) = (items, rest).
Proof.
  induction items as [|i r IH]; intros Hok Hf.
  - apply p_items_stop. exact Hf.
  - cbn [forallb] in Hok. apply andb_true_iff in Hok. destruct Hok as [Hi Hr].
    cbn [flat_map]. rewrite <- app_assoc, (p_items_item i _ Hi), (IH Hr Hf). reflexivity.
Qed.

Lemma split_pre_redirs pre rest : forallb is_redir_item pre = true ->
  (match rest with IRedir _ :: _ => False | _ => True end) ->
  split_pre (pre ++ rest) = (pre, rest).
Proof.
  induction pre as [|i r IH]; intros Hp Hr.
  - cbn [app]. destruct rest as [|[x|w] t]; [reflexivity | contradiction | reflexivity].
  - cbn [forallb] in Hp. apply andb_true_iff in Hp. destruct Hp as [Hi Hp].
    destruct i as [x|w]; [|discriminate]. cbn [app split_pre]. rewrite (IH Hp Hr). reflexivity.
Qed.

Section Flat.
Variable pf : pflags.

Lemma p_simple_lexemes c rest : flat_simple c = true -> ok_cmd pf false c = true -> follow rest ->
  p_simple (toks (a_cmd pf c) ++ rest) = Some (c, rest).
Proof.
  intros Hf Hok Hfo. destruct c as [pre name suf | |]; try discriminate.
  rewrite ok_simple in Hok. apply andb_true_iff in Hok. destruct Hok as [Hok _].
  apply andb_true_iff in Hok. destruct Hok as [_ Hits].
  rewrite a_csimple. unfold a_simple, p_simple. rewrite toks_sep_by, (p_items_lexemes _ rest Hits Hfo).
  unfold simple_items, mk_simple. cbn [flat_simple] in Hf. destruct name as [w|].
  - apply andb_true_iff in Hf. destruct Hf as [Hpre _].
    cbn [app]. rewrite (split_pre_redirs pre (IWord w :: suf) Hpre I). reflexivity.
  - apply andb_true_iff in Hf. destruct Hf as [Hf Hsuf]. apply andb_true_iff in Hf. destruct Hf as [Hpre Hne].
    destruct suf; [|discriminate]. cbn [app]. rewrite app_nil_r.
    rewrite <- (app_nil_r pre) at 1. rewrite (split_pre_redirs pre [] Hpre I).
    destruct pre; [discriminate | reflexivity].
Qed.

Lemma ok_cmd_weaken b c : flat_simple c = true -> ok_cmd pf b c = true -> ok_cmd pf false c = true.
Proof.
  destruct c as [pre name suf| |]; try discriminate. intros _. rewrite !ok_simple. intros H.
  apply andb_true_iff in H. destruct H as [H _]. rewrite H. reflexivity.
Qed.

Definition RBRACE : lexeme := LWord (lit "}").

(** the first lexeme of a flat simple command: a command word, or the start of a redirection *)
Definition first_ok (x : lexeme) : bool :=
  match x with
  | LWord w => cmd_word_ok w
  | LOp o => negb (stop_op o)
  | LIoNum _ => true
  end.

Lemma redir_first_ok r : first_ok (first_of_redir r) = true.
Proof. destruct r as [[n|] k t | w ap | [n|] w]; try reflexivity; [destruct k | destruct ap]; reflexivity. Qed.

Lemma redir_toks_first r : exists rest, toks (a_redir r) = first_of_redir r :: rest.
Proof. destruct r as [[n|] k t | w ap | [n|] w]; eexists; reflexivity. Qed.

Lemma simple_first c : flat_simple c = true -> exists x r, toks (a_cmd pf c) = x :: r /\ first_ok x = true.
Proof.
  destruct c as [pre name suf| |]; try discriminate. cbn [flat_simple]. intros H.
  rewrite a_csimple. unfold a_simple. rewrite toks_sep_by. unfold simple_items.
  destruct pre as [|[r|w0] pre'].
  - destruct name as [w|]; [|cbn [forallb is_nil negb andb] in H; discriminate].
    apply andb_true_iff in H. destruct H as [_ Hw]. cbn [app flat_map]. unfold item_toks at 1. cbn [a_item toks flat_map toks_of app Wd].
    eexists; eexists; split; [reflexivity | exact Hw].
  - cbn [app flat_map]. unfold item_toks at 1. cbn [a_item]. destruct (redir_toks_first r) as [rest E]. rewrite E. cbn [app].
    eexists; eexists; split; [reflexivity | apply redir_first_ok].
  - destruct name; cbn [forallb is_redir_item andb] in H; discriminate.
Qed.

Lemma first_ok_facts x : first_ok x = true ->
  (match x with LWord w => is_lit w "!" = false /\ is_lit w "}" = false | _ => True end) /\
  (match x with LOp o => is_lit o "|" = false /\ is_lit o "&&" = false /\ is_lit o "||" = false /\ is_nlop o = false
                         /\ is_lit o ";" = false /\ is_lit o "&" = false | _ => True end).
Proof.
  destruct x as [w|o|n]; cbn [first_ok]; intros H; split; try exact I.
  - unfold cmd_word_ok in H. apply andb_true_iff in H. destruct H as [H _]. apply andb_true_iff in H. destruct H as [_ H].
    apply negb_true_iff in H. unfold reserved_words in H. cbn [existsb] in H.
    repeat (apply orb_false_iff in H; destruct H as [? H]). split; assumption.
  - apply negb_true_iff in H.
    assert (Hk : forall s, stop_op (lit s) = true -> is_lit o s = false).
    { intros s Hs. destruct (is_lit o s) eqn:E; [|reflexivity]. apply str_eqb_eq in E. subst o. congruence. }
    assert (Hnl : is_nlop o = false).
    { destruct (is_nlop o) eqn:E; [|reflexivity]. apply str_eqb_eq in E. subst o. vm_compute in H. discriminate. }
    repeat split; try (apply Hk; vm_compute; reflexivity). exact Hnl.
Qed.

Lemma strip_bang_none (l : list lexeme) x tl : l = x :: tl -> first_ok x = true ->
  (match l with LWord w :: r => if is_lit w "!" then (true, r) else (false, l) | _ => (false, l) end) = (false, l).
Proof.
  intros -> H. destruct x as [w|o|n]; try reflexivity.
  destruct (first_ok_facts _ H) as [[Hb _] _]. rewrite Hb. reflexivity.
Qed.

Definition nobar (rest : list lexeme) : Prop := match rest with LOp o :: _ => is_lit o "|" = false | _ => True end.
Definition noandor (rest : list lexeme) : Prop :=
  match rest with LOp o :: _ => is_lit o "&&" = false /\ is_lit o "||" = false | _ => True end.

Lemma toks_cmdscons c r : toks (a_cmds pf (CmdsCons c r)) = LOp (lit "|") :: toks (a_cmd pf c) ++ toks (a_cmds pf r).
Proof. rewrite a_cmdscons, !toks_app. destruct (f_pipe_sep pf); reflexivity. Qed.

Lemma follow_cmds r rest : follow rest -> follow (toks (a_cmds pf r) ++ rest).
Proof. destruct r; [exact (fun H => H)|]. intros _. rewrite toks_cmdscons. reflexivity. Qed.

Lemma p_cmds_lexemes cs : forall rest fuel, flat_cmds cs = true -> ok_cmds pf cs = true -> follow rest -> nobar rest ->
  (length (toks (a_cmds pf cs) ++ rest) < fuel)%nat ->
  p_cmds fuel (toks (a_cmds pf cs) ++ rest) = Some (cs, rest).
Proof.
  induction cs as [|c r IH]; intros rest fuel Hf Hok Hfo Hnb Hlen.
  - change (toks (a_cmds pf CmdsNil)) with (@nil lexeme). cbn [app] in *.
    destruct fuel as [|f]; [lia|]. cbn [p_cmds].
    destruct rest as [|[w|o|n] t]; cbn [follow nobar] in *; try contradiction; [reflexivity|].
    rewrite Hnb. reflexivity.
  - cbn [flat_cmds] in Hf. apply andb_true_iff in Hf. destruct Hf as [Hfc Hfr].
    rewrite ok_cmdscons in Hok. apply andb_true_iff in Hok. destruct Hok as [Hoc Hor].
    rewrite toks_cmdscons in *. cbn [app] in *. rewrite <- app_assoc in *.
    destruct fuel as [|f]; [cbn [length] in Hlen; lia|]. cbn [p_cmds].
    change (is_lit (lit "|") "|") with true. cbn iota.
    rewrite (p_simple_lexemes c _ Hfc (ok_cmd_weaken _ c Hfc Hoc) (follow_cmds r rest Hfo)).
    rewrite (IH rest f Hfr Hor Hfo Hnb); [reflexivity|].
    cbn [length] in Hlen. rewrite app_length in Hlen. lia.
Qed.

Lemma p_pipeline_lexemes p rest fuel : flat_pipeline p = true -> ok_pipeline pf p = true -> follow rest -> nobar rest ->
  (length (toks (a_pipeline pf p) ++ rest) < fuel)%nat ->
  p_pipeline fuel (toks (a_pipeline pf p) ++ rest) = Some (p, rest).
Proof.
  destruct p as [[tm|] bang c r]; [discriminate|]. cbn [flat_pipeline]. intros Hf Hok Hfo Hnb Hlen.
  apply andb_true_iff in Hf. destruct Hf as [Hfc Hfr].
  rewrite ok_pipe in Hok. apply andb_true_iff in Hok. destruct Hok as [Hoc Hor].
  rewrite a_pipe in *. cbn [app] in *. rewrite !toks_app in *. rewrite <- !app_assoc in *.
  destruct (simple_first c Hfc) as [x [tl [Ex Hx]]].
  assert (Hcmds : forall fuel', (length (toks (a_cmd pf c) ++ toks (a_cmds pf r) ++ rest) < fuel')%nat ->
            match p_simple (toks (a_cmd pf c) ++ toks (a_cmds pf r) ++ rest) with
            | Some (c0, r1) => match p_cmds fuel' r1 with Some (cs, r2) => Some (Pipe None bang c0 cs, r2) | None => None end
            | None => None end = Some (Pipe None bang c r, rest)).
  { intros fuel' Hl. rewrite (p_simple_lexemes c _ Hfc Hoc (follow_cmds r rest Hfo)).
    rewrite (p_cmds_lexemes r rest fuel' Hfr Hor Hfo Hnb); [reflexivity|]. rewrite app_length in Hl. lia. }
  unfold p_pipeline. destruct bang.
  - cbn [toks flat_map toks_of app KW SP]. unfold KW, SP. cbn [toks flat_map toks_of app].
    change (is_lit (lit "!") "!") with true. cbn iota. apply Hcmds.
    unfold KW, SP in Hlen. cbn [toks flat_map toks_of app length] in Hlen. lia.
  - cbn [toks flat_map app]. cbn [toks flat_map app] in Hlen.
    rewrite (strip_bang_none (toks (a_cmd pf c) ++ toks (a_cmds pf r) ++ rest) x (tl ++ toks (a_cmds pf r) ++ rest));
      [apply Hcmds; exact Hlen | rewrite Ex; reflexivity | exact Hx].
Qed.

Lemma toks_aocons a p r : toks (a_aorest pf (AoCons a p r)) =
  LOp (lit (if a then "&&" else "||")) :: toks (a_pipeline pf p) ++ toks (a_aorest pf r).
Proof. rewrite a_aocons, !toks_app. destruct a; reflexivity. Qed.

Lemma aorest_follow r rest : follow rest -> nobar rest ->
  follow (toks (a_aorest pf r) ++ rest) /\ nobar (toks (a_aorest pf r) ++ rest).
Proof.
  intros H1 H2. destruct r as [|a p r']; [split; assumption|].
  rewrite toks_aocons. cbn [app follow nobar]. destruct a; split; reflexivity.
Qed.

Lemma p_aorest_lexemes ar : forall rest fuel, flat_aorest ar = true -> ok_aorest pf ar = true ->
  follow rest -> nobar rest -> noandor rest ->
  (length (toks (a_aorest pf ar) ++ rest) < fuel)%nat ->
  p_aorest fuel (toks (a_aorest pf ar) ++ rest) = Some (ar, rest).
Proof.
  induction ar as [|a p r IH]; intros rest fuel Hf Hok Hfo Hnb Hna Hlen.
  - change (toks (a_aorest pf AoNil)) with (@nil lexeme). cbn [app] in *.
    destruct fuel as [|f]; [lia|]. cbn [p_aorest].
    destruct rest as [|[w|o|n] t]; cbn [follow noandor] in *; try contradiction; [reflexivity|].
    destruct Hna as [H1 H2]. rewrite H1, H2. reflexivity.
  - cbn [flat_aorest] in Hf. apply andb_true_iff in Hf. destruct Hf as [Hfp Hfr].
    rewrite ok_aocons in Hok. apply andb_true_iff in Hok. destruct Hok as [Hop Hor].
    rewrite toks_aocons in *. cbn [app] in *. rewrite <- app_assoc in *.
    destruct fuel as [|f]; [cbn [length] in Hlen; lia|]. cbn [p_aorest].
    assert (Hop2 : is_lit (lit (if a then "&&" else "||")) "&&" || is_lit (lit (if a then "&&" else "||")) "||" = true)
      by (destruct a; reflexivity).
    rewrite Hop2. destruct (aorest_follow r rest Hfo Hnb) as [Hfo' Hnb'].
    cbn [length] in Hlen.
    rewrite (p_pipeline_lexemes p _ f Hfp Hop Hfo' Hnb') by lia.
    rewrite (IH rest f Hfr Hor Hfo Hnb Hna) by (rewrite app_length in Hlen; lia).
    destruct a; reflexivity.
Qed.

Lemma p_andor_lexemes a rest fuel : flat_andor a = true -> ok_andor pf a = true ->
  follow rest -> nobar rest -> noandor rest ->
  (length (toks (a_andor pf a) ++ rest) < fuel)%nat ->
  p_andor fuel (toks (a_andor pf a) ++ rest) = Some (a, rest).
Proof.
  destruct a as [p r]. cbn [flat_andor]. intros Hf Hok Hfo Hnb Hna Hlen.
  apply andb_true_iff in Hf. destruct Hf as [Hfp Hfr].
  rewrite ok_andor_eq in Hok. apply andb_true_iff in Hok. destruct Hok as [Hop Hor].
  rewrite a_andor_eq, toks_app in *. rewrite <- app_assoc in *.
  destruct (aorest_follow r rest Hfo Hnb) as [Hfo' Hnb'].
  unfold p_andor. rewrite (p_pipeline_lexemes p _ fuel Hfp Hop Hfo' Hnb' Hlen).
  rewrite (p_aorest_lexemes r rest fuel Hfr Hor Hfo Hnb Hna) by (rewrite app_length in Hlen; lia).
  reflexivity.
Qed.

(** the first lexeme of an and-or list is ! or the first lexeme of a flat simple command *)
Lemma andor_first a : flat_andor a = true -> exists x tl, toks (a_andor pf a) = x :: tl /\
  (x = LWord (lit "!") \/ first_ok x = true).
Proof.
  destruct a as [[[tm|] bang c r] ar]; [discriminate|]. cbn [flat_andor flat_pipeline]. intros H.
  apply andb_true_iff in H. destruct H as [H _]. apply andb_true_iff in H. destruct H as [Hc _].
  rewrite a_andor_eq, a_pipe, !toks_app. cbn [toks flat_map app].
  destruct bang.
  - unfold KW. cbn [toks flat_map toks_of app]. eexists; eexists; split; [reflexivity | left; reflexivity].
  - destruct (simple_first c Hc) as [x [tl [E Hx]]]. cbn [toks flat_map app]. rewrite E. cbn [app].
    eexists; eexists; split; [reflexivity | right; exact Hx].
Qed.

Definition END_ : list lexeme := [NLOP; RBRACE].

Lemma toks_sepop async last : toks (a_sepop async last) =
  if last then (if async then [LOp (lit "&")] else []) else [LOp (lit (if async then "&" else ";"))].
Proof. destruct async, last; reflexivity. Qed.

Lemma toks_clcons a s r : toks (a_clrest pf (ClCons a s r)) =
  NLOP :: toks (a_andor pf a) ++ toks (a_sepop s (is_clnil r)) ++ toks (a_clrest pf r).
Proof. rewrite a_clcons, !toks_app. reflexivity. Qed.

(** what follows an and-or list inside a brace group stops a pipeline and an and-or list *)
Lemma seprest_follow s r : let rest := (toks (a_sepop s (is_clnil r)) ++ toks (a_clrest pf r)) ++ END_ in
  follow rest /\ nobar rest /\ noandor rest.
Proof.
  rewrite toks_sepop. destruct r as [|a s' r']; cbn [is_clnil].
  - change (toks (a_clrest pf ClNil)) with (@nil lexeme). destruct s; cbn; repeat split; reflexivity.
  - destruct s; cbn [app]; cbn; repeat split; reflexivity.
Qed.

Lemma p_seprest_lexemes cr : forall async fuel, flat_clrest cr = true -> ok_clrest pf cr = true ->
  (length ((toks (a_sepop async (is_clnil cr)) ++ toks (a_clrest pf cr)) ++ END_) < fuel)%nat ->
  p_seprest fuel ((toks (a_sepop async (is_clnil cr)) ++ toks (a_clrest pf cr)) ++ END_) = Some (async, cr, END_).
Proof.
  induction cr as [|a s r IH]; intros async fuel Hf Hok Hlen.
  - change (toks (a_clrest pf ClNil)) with (@nil lexeme) in *. rewrite toks_sepop in *. cbn [is_clnil] in *.
    destruct fuel as [|f]; [lia|]. destruct async; reflexivity.
  - cbn [flat_clrest] in Hf. apply andb_true_iff in Hf. destruct Hf as [Hfa Hfr].
    rewrite ok_clcons in Hok. apply andb_true_iff in Hok. destruct Hok as [Hoa Hor].
    rewrite toks_sepop, toks_clcons in *. cbn [is_clnil] in *. cbn [app] in *.
    rewrite <- !app_assoc in *.
    destruct (seprest_follow s r) as [Hfo [Hnb Hna]]. cbn zeta in Hfo, Hnb, Hna. rewrite <- !app_assoc in Hfo, Hnb, Hna.
    destruct (andor_first a Hfa) as [x [tl [Ex Hx]]].
    destruct fuel as [|f]; [cbn [length] in Hlen; lia|]. cbn [length] in Hlen.
    assert (Hand : p_andor f (toks (a_andor pf a) ++ toks (a_sepop s (is_clnil r)) ++ toks (a_clrest pf r) ++ END_)
                   = Some (a, toks (a_sepop s (is_clnil r)) ++ toks (a_clrest pf r) ++ END_)).
    { apply p_andor_lexemes; try assumption. lia. }
    assert (Hrest : p_seprest f (toks (a_sepop s (is_clnil r)) ++ toks (a_clrest pf r) ++ END_) = Some (s, r, END_)).
    { rewrite app_assoc. apply IH; try assumption. rewrite <- app_assoc. rewrite !app_length in *. cbn [length] in *. lia. }
    destruct async; cbn [p_seprest].
    + change (is_lit (lit "&") ";") with false. change (is_lit (lit "&") "&") with true. cbn iota.
      assert (Hcl : closes (NLOP :: toks (a_andor pf a) ++ toks (a_sepop s (is_clnil r)) ++ toks (a_clrest pf r) ++ END_) = false).
      { rewrite Ex. unfold NLOP. cbn [app closes]. destruct x as [w|o|n]; [|reflexivity|reflexivity].
        destruct Hx as [Hx|Hx]; [inversion Hx; reflexivity|].
        destruct (first_ok_facts _ Hx) as [[_ Hb] _]. rewrite Hb. apply andb_false_r. }
      rewrite Hcl. change (is_nlop [10]) with true. unfold NLOP at 1. change (is_nlop [10]) with true. cbn iota.
      rewrite Hand, Hrest. reflexivity.
    + change (is_lit (lit ";") ";") with true. cbn iota. unfold NLOP at 1. change (is_nlop [10]) with true. cbn iota.
      rewrite Hand, Hrest. reflexivity.
Qed.

Lemma p_clist_lexemes cl fuel : flat_clist cl = true -> ok_clist pf cl = true ->
  (length (toks (a_clist pf cl) ++ END_) < fuel)%nat ->
  p_clist fuel (toks (a_clist pf cl) ++ END_) = Some (cl, END_).
Proof.
  destruct cl as [a s r]. cbn [flat_clist]. intros Hf Hok Hlen.
  apply andb_true_iff in Hf. destruct Hf as [Hfa Hfr].
  rewrite ok_clist_eq in Hok. apply andb_true_iff in Hok. destruct Hok as [Hoa Hor].
  rewrite a_clist_eq, !toks_app in *. rewrite <- !app_assoc in *.
  destruct (seprest_follow s r) as [Hfo [Hnb Hna]]. cbn zeta in Hfo, Hnb, Hna. rewrite <- !app_assoc in Hfo, Hnb, Hna.
  unfold p_clist. rewrite (p_andor_lexemes a _ fuel Hfa Hoa Hfo Hnb Hna Hlen).
  rewrite app_assoc. rewrite (p_seprest_lexemes r s fuel Hfr Hor); [reflexivity|].
  rewrite <- app_assoc. rewrite app_length in Hlen. lia.
Qed.

(** * The round trip *)

Lemma toks_function name cl : toks (a_cmd pf (CFunction name (KBrace cl) None)) =
  LWord name :: LOp (lit "(") :: LOp (lit ")") :: NLOP :: LWord (lit "{") :: NLOP :: toks (a_clist pf cl) ++ END_.
Proof.
  rewrite a_cfunction, a_kbrace. cbn [a_redirs]. rewrite app_nil_r. rewrite !toks_app, toks_bump. reflexivity.
Qed.

Theorem parse_lexemes c : flat_fun c = true -> ok_cmd pf false c = true -> parse (lexemes pf c) = Some c.
Proof.
  destruct c as [| |name k rs]; try discriminate. destruct k as [cl| | | | | |]; try discriminate.
  destruct rs; [discriminate|]. cbn [flat_fun]. intros Hf Hok.
  rewrite ok_cfunction in Hok. apply andb_true_iff in Hok. destruct Hok as [Hok _].
  apply andb_true_iff in Hok. destruct Hok as [_ Hk]. rewrite ok_kbrace in Hk.
  unfold lexemes, parse. rewrite toks_function. cbn [p_function].
  change (is_lit (lit "(") "(" && is_lit (lit ")") ")" && is_nlop [10] && is_lit (lit "{") "{" && is_nlop [10]) with true.
  unfold NLOP at 1 2. cbn iota.
  change (is_lit (lit "(") "(" && is_lit (lit ")") ")" && is_nlop [10] && is_lit (lit "{") "{" && is_nlop [10]) with true.
  cbn iota. rewrite (p_clist_lexemes cl _ Hf Hk) by lia. reflexivity.
Qed.

Theorem parse_show c : flat_fun c = true -> ok_cmd pf false c = true -> parse (tokenize (show pf c)) = Some c.
Proof. intros Hf Hok. rewrite (show_separates_gen pf c Hok). apply parse_lexemes; assumption. Qed.
End Flat.

(** The statement one would want for a parser model of the whole sub-grammar; proved above for flat
    function definitions only ([parse_show]); compound commands inside the body are outside [parse]. *)
Definition print_parse_print_stmt : Prop :=
  forall c, wf c = true -> parse (tokenize (show repaired_flags c)) = Some c.

(** non-vacuity: `f () { ! 2> e echo a >> o | cat && b& c }` (with a literal brace as an argument) *)
Definition ex_flat : cmd :=
  CFunction (lit "f") (KBrace (CList
    (AndOr (Pipe None true
              (CSimple [IRedir (RFile (Some (lit "2")) RWrite (lit "e"))] (Some (lit "echo"))
                       [IWord (lit "a"); IRedir (RFile None RAppend (lit "o"))])
              (CmdsCons (CSimple [] (Some (lit "cat")) []) CmdsNil))
           (AoCons true (Pipe None false (CSimple [] (Some (lit "b")) []) CmdsNil) AoNil))
    true
    (ClCons (AndOr (Pipe None false (CSimple [] (Some (lit "c")) [IWord (lit "}")]) CmdsNil) AoNil) false ClNil))) None.
Example parse_show_example :
  flat_fun ex_flat = true /\ ok_cmd old_flags false ex_flat = true /\
  parse (tokenize (show old_flags ex_flat)) = Some ex_flat.
Proof. vm_compute. repeat split; reflexivity. Qed.

(** the printer as it is now *)
Theorem parse_show_current c : flat_fun c = true -> wf c = true -> parse (tokenize (show current_flags c)) = Some c.
Proof. rewrite current_is_repaired. intros Hf Hw. apply parse_show; assumption. Qed.
