(** C14: the printer keeps its tokens apart.  For every command of the sub-grammar whose words are
    plain, [tokenize (show pf c) = lexemes pf c], provided the printer separates redirection lists
    and pipeline bars ([pf] = repaired flags), or - for the unchanged printer - the command is
    outside the decidable class [Known]. *)
From Coq Require Import String.
From BV Require Import Base.Prelude Base.Codec gen.C14TokTables Print.Tokenize Print.Show.
Open Scope N_scope.

(** * A chain that also checks the atoms and returns the pending lexeme at the end *)

Fixpoint chain (prev : option lexeme) (l : list atom) : option (option lexeme) :=
  match l with
  | [] => Some prev
  | a :: r => if atom_ok a && junction_ok prev a then chain (pend a) r else None
  end.

Definition not_ionum (p : option lexeme) : bool := match p with Some (LIoNum _) => false | _ => true end.

Lemma chain_sound l : forall prev y, chain prev l = Some y -> not_ionum y = true ->
  forallb atom_ok l = true /\ chain_ok prev l = true.
Proof.
  induction l as [|a r IH]; intros prev y H Hy.
  - cbn [chain] in H. inversion H. subst. split; [reflexivity|].
    cbn [chain_ok]. destruct y as [[w|o|n]|]; try reflexivity. discriminate.
  - cbn [chain] in H. destruct (atom_ok a && junction_ok prev a) eqn:E; [|discriminate].
    apply andb_true_iff in E. destruct E as [Ea Ej]. destruct (IH _ _ H Hy) as [H1 H2].
    cbn [forallb chain_ok]. rewrite Ea, Ej, H1, H2. split; reflexivity.
Qed.

Lemma chain_app l1 l2 : forall prev,
  chain prev (l1 ++ l2) = match chain prev l1 with Some p => chain p l2 | None => None end.
Proof.
  induction l1 as [|a r IH]; intros prev; [reflexivity|].
  cbn [app chain]. destruct (atom_ok a && junction_ok prev a); [apply IH | reflexivity].
Qed.

Lemma chain_bump l : forall prev, chain prev (bump l) = chain prev l.
Proof.
  induction l as [|a r IH]; intros prev; [reflexivity|].
  cbn [bump map chain]. fold (bump r).
  replace (atom_ok (bump1 a)) with (atom_ok a) by (destruct a; reflexivity).
  replace (junction_ok prev (bump1 a)) with (junction_ok prev a) by (destruct a; reflexivity).
  replace (pend (bump1 a)) with (pend a) by (destruct a; reflexivity).
  rewrite IH. reflexivity.
Qed.

Lemma toks_bump l : toks (bump l) = toks l.
Proof.
  induction l as [|a r IH]; [reflexivity|]. cbn [bump map toks flat_map]. fold (bump r). fold (toks (bump r)). fold (toks r).
  rewrite IH. destruct a; reflexivity.
Qed.

(** one-step lemmas *)
Lemma chain_tok prev d x l : lex_ok x = true -> glue_ok prev x = true ->
  chain prev (ATok d x :: l) = chain (Some x) l.
Proof. intros H1 H2. cbn [chain atom_ok junction_ok pend]. rewrite H1, H2. reflexivity. Qed.
Lemma chain_sp prev d l : sep_ok prev 32 = true -> chain prev (ASp d :: l) = chain None l.
Proof. intros H. cbn [chain atom_ok junction_ok pend]. rewrite H. reflexivity. Qed.
Lemma chain_nl prev l : sep_ok prev 10 = true -> chain prev (ANl :: l) = chain (Some NLOP) l.
Proof. intros H. cbn [chain atom_ok junction_ok pend]. rewrite H. reflexivity. Qed.

(** * Table facts *)

(** characters that extend an operator of the table into another operator *)
Definition ext_chars (o : str) : list N :=
  flat_map (fun p => if starts_with o p && Nat.eqb (length p) (S (length o)) then [last p 0] else []) operators.

Lemma ext_table : forallb (fun o => heredoc_op o || forallb can_start_op (ext_chars o)) operators = true.
Proof. vm_compute. reflexivity. Qed.

Lemma starts_with_app (o : str) (c : char) : starts_with o (o ++ [c]) = true.
Proof. induction o as [|x o IH]; [reflexivity|]. cbn [app starts_with]. rewrite N.eqb_refl, IH. reflexivity. Qed.

Lemma is_operator_ext (o : str) (c : char) : is_operator (o ++ [c]) = true -> In c (ext_chars o).
Proof.
  intros H. apply is_operator_In in H. unfold ext_chars. apply in_flat_map.
  exists (o ++ [c]). split; [exact H|].
  rewrite starts_with_app, app_length. cbn [length]. rewrite Nat.add_1_r, Nat.eqb_refl. cbn [andb].
  rewrite last_last. left. reflexivity.
Qed.

(** a word character never extends a non-here-document operator *)
Lemma op_wordchar (o : str) (c : char) : is_operator o = true -> heredoc_op o = false -> wordchar c = true ->
  is_operator (o ++ [c]) = false.
Proof.
  intros Ho Hh Hc. destruct (is_operator (o ++ [c])) eqn:E; [|reflexivity]. exfalso.
  apply is_operator_ext in E. apply is_operator_In in Ho.
  pose proof ext_table as Hall. rewrite forallb_forall in Hall. specialize (Hall o Ho).
  rewrite Hh in Hall. cbn [orb] in Hall. rewrite forallb_forall in Hall. specialize (Hall c E).
  destruct (plain_not_special c Hc) as [H1 _]. congruence.
Qed.

(** neither blank nor newline extends any operator *)
Lemma sep_table : forallb (fun o => negb (is_operator (o ++ [32])) && negb (is_operator (o ++ [10]))) operators = true.
Proof. vm_compute. reflexivity. Qed.

Lemma op_sep (o : str) (c : char) : is_operator o = true -> c = 32 \/ c = 10 -> is_operator (o ++ [c]) = false.
Proof.
  intros Ho Hc. apply is_operator_In in Ho.
  pose proof sep_table as Hall. rewrite forallb_forall in Hall. specialize (Hall o Ho).
  apply andb_true_iff in Hall. destruct Hall as [H1 H2]. apply negb_true_iff in H1, H2.
  destruct Hc; subst; assumption.
Qed.

(** every valid lexeme but an io-number may be followed by a blank or a newline *)
Lemma sep_after x (c : char) : lex_ok x = true -> (match x with LIoNum _ => False | _ => True end) ->
  c = 32 \/ c = 10 -> sep_ok (Some x) c = true.
Proof.
  intros Hx Hn Hc. destruct x as [w|o|n]; cbn [sep_ok]; [reflexivity| |contradiction].
  cbn [lex_ok] in Hx. apply andb_true_iff in Hx. destruct Hx as [Ho _].
  rewrite (op_sep o c Ho Hc). reflexivity.
Qed.

(** a word may be glued behind an operator (not a here-document one) *)
Lemma glue_op_word o x : lex_ok (LOp o) = true ->
  lex_ok x = true -> (match x with LOp _ => False | _ => True end) -> glue_ok (Some (LOp o)) x = true.
Proof.
  intros Ho Hx Hw. cbn [glue_ok]. cbn [lex_ok] in Ho. apply andb_true_iff in Ho. destruct Ho as [Ho Hh].
  apply negb_true_iff in Hh.
  pose proof (lex_word_like x Hx) as Hl. destruct x as [w|o'|n]; try contradiction; cbn [text] in *;
    destruct Hl as [Hne Hpl].
  - destruct w as [|c r]; [discriminate|]. cbn [hd0 forallb] in *. apply andb_true_iff in Hpl. destruct Hpl as [Hc _].
    rewrite (op_wordchar o c Ho Hh Hc). reflexivity.
  - destruct n as [|c r]; [discriminate|]. cbn [hd0 forallb] in *. apply andb_true_iff in Hpl. destruct Hpl as [Hc _].
    rewrite (op_wordchar o c Ho Hh Hc). reflexivity.
Qed.

(** an operator that is not a redirection may be glued behind a word *)
Lemma glue_word_op w o : redir_start (hd0 o) = false -> glue_ok (Some (LWord w)) (LOp o) = true.
Proof. intros H. cbn [glue_ok]. rewrite H, andb_false_r. reflexivity. Qed.

(** * Well-formed commands of the sub-grammar *)

Definition word_ok (w : str) : bool := negb (is_nil w) && forallb plain w.
Definition fd_ok (fd : option str) : bool := match fd with Some n => all_digits n | None => true end.
Definition redir_ok (r : redir) : bool :=
  match r with
  | RFile fd _ t => fd_ok fd && word_ok t
  | ROutErr w _ => word_ok w
  | RHereStr fd w => fd_ok fd && word_ok w
  end.
Definition item_ok (i : item) : bool := match i with IRedir r => redir_ok r | IWord w => word_ok w end.

Lemma word_ok_lex w : word_ok w = true -> lex_ok (LWord w) = true.
Proof.
  unfold word_ok. cbn [lex_ok]. intros H. apply andb_true_iff in H. destruct H as [H1 H2].
  rewrite H1. cbn [andb]. clear H1. induction w as [|c r IH]; [reflexivity|].
  cbn [forallb] in *. apply andb_true_iff in H2. destruct H2 as [Hc Hr].
  rewrite (plain_wordchar c Hc), (IH Hr). reflexivity.
Qed.

(** the first lexeme of a redirection / an item *)
Definition amp_text (app : bool) : str := if app then lit "&>>" else lit "&>".
Definition first_of_redir (r : redir) : lexeme :=
  match r with
  | RFile (Some n) _ _ => LIoNum n
  | RFile None k _ => LOp (kind_text k)
  | ROutErr _ app => LOp (amp_text app)
  | RHereStr (Some n) _ => LIoNum n
  | RHereStr None _ => LOp (lit "<<<")
  end.
Definition first_of_item (i : item) : lexeme :=
  match i with IRedir r => first_of_redir r | IWord w => LWord w end.

Definition chains (prev : option lexeme) (l : list atom) (y : lexeme) : Prop := chain prev l = Some (Some y).

Lemma chains_app prev l1 l2 y1 y2 : chains prev l1 y1 -> chains (Some y1) l2 y2 -> chains prev (l1 ++ l2) y2.
Proof. unfold chains. intros H1 H2. rewrite chain_app, H1. exact H2. Qed.

Lemma kinds_ok k : lex_ok (LOp (kind_text k)) = true /\ redir_start (hd0 (kind_text k)) = true.
Proof. destruct k; vm_compute; split; reflexivity. Qed.
Lemma amp_ok app : lex_ok (LOp (amp_text app)) = true.
Proof. destruct app; vm_compute; reflexivity. Qed.
Lemma herestr_ok : lex_ok (LOp (lit "<<<")) = true /\ redir_start (hd0 (lit "<<<")) = true.
Proof. vm_compute. split; reflexivity. Qed.

Lemma op_then_word prev o w :
  lex_ok (LOp o) = true -> glue_ok prev (LOp o) = true -> word_ok w = true ->
  chains prev [ATok 0 (LOp o); SP; Wd w] (LWord w).
Proof.
  intros Ho Hg Hw. unfold chains, SP, Wd.
  rewrite (chain_tok prev 0 (LOp o) _ Ho Hg).
  rewrite chain_sp by (apply sep_after; [exact Ho | exact I | left; reflexivity]).
  rewrite chain_tok by (first [apply word_ok_lex; exact Hw | reflexivity]).
  reflexivity.
Qed.

Lemma fd_op_then_word prev n o w :
  all_digits n = true -> lex_ok (LOp o) = true -> redir_start (hd0 o) = true ->
  glue_ok prev (LIoNum n) = true -> word_ok w = true ->
  chains prev [ATok 0 (LIoNum n); ATok 0 (LOp o); SP; Wd w] (LWord w).
Proof.
  intros Hn Ho Hr Hg Hw. unfold chains.
  rewrite (chain_tok prev 0 (LIoNum n) _ Hn Hg).
  apply (op_then_word (Some (LIoNum n)) o w Ho); [|exact Hw]. cbn [glue_ok]. exact Hr.
Qed.

Lemma chains_redir prev r :
  redir_ok r = true -> glue_ok prev (first_of_redir r) = true ->
  exists w, chains prev (a_redir r) (LWord w) /\ word_ok w = true.
Proof.
  intros Hok Hg. destruct r as [fd k t | w app | fd w]; cbn [redir_ok] in Hok.
  - apply andb_true_iff in Hok. destruct Hok as [Hfd Ht]. exists t. split; [|exact Ht].
    destruct (kinds_ok k) as [Hk Hr].
    destruct fd as [n|]; cbn [a_redir fd_atoms app first_of_redir fd_ok] in *.
    + apply fd_op_then_word; assumption.
    + apply op_then_word; assumption.
  - exists w. split; [|exact Hok]. cbn [a_redir first_of_redir] in *.
    apply op_then_word; [apply amp_ok | exact Hg | exact Hok].
  - apply andb_true_iff in Hok. destruct Hok as [Hfd Hw]. exists w. split; [|exact Hw].
    destruct herestr_ok as [Hk Hr].
    destruct fd as [n|]; cbn [a_redir fd_atoms app first_of_redir fd_ok] in *; unfold OP.
    + apply fd_op_then_word; assumption.
    + apply op_then_word; assumption.
Qed.

Lemma chains_item prev i :
  item_ok i = true -> glue_ok prev (first_of_item i) = true ->
  exists w, chains prev (a_item i) (LWord w) /\ word_ok w = true.
Proof.
  intros Hok Hg. destruct i as [r|w]; cbn [item_ok a_item first_of_item] in *.
  - apply chains_redir; assumption.
  - exists w. split; [|exact Hok]. unfold chains, Wd.
    rewrite chain_tok by (first [apply word_ok_lex; exact Hok | exact Hg]). reflexivity.
Qed.

Lemma sep_by_cons {A} (f : A -> list atom) x y r : sep_by f (x :: y :: r) = f x ++ SP :: sep_by f (y :: r).
Proof. reflexivity. Qed.

Lemma chains_items items : forall prev,
  items <> [] -> forallb item_ok items = true ->
  glue_ok prev (first_of_item (hd (IWord []) items)) = true ->
  exists w, chains prev (sep_by a_item items) (LWord w) /\ word_ok w = true.
Proof.
  induction items as [|i r IH]; intros prev Hne Hok Hg; [congruence|].
  cbn [forallb] in Hok. apply andb_true_iff in Hok. destruct Hok as [Hi Hr]. cbn [hd] in Hg.
  destruct (chains_item prev i Hi Hg) as [w [Hc Hw]].
  destruct r as [|j r'].
  - exists w. split; [exact Hc | exact Hw].
  - rewrite sep_by_cons.
    destruct (IH None ltac:(discriminate) Hr eq_refl) as [w' [Hc' Hw']].
    exists w'. split; [|exact Hw'].
    eapply chains_app; [exact Hc|]. unfold chains, SP. rewrite chain_sp by reflexivity. exact Hc'.
Qed.

(** * Ends and beginnings *)

(** how a command ends: a word, or the closing parenthesis of a subshell *)
Definition endtok (y : lexeme) : bool :=
  match y with LWord _ => lex_ok y | LOp o => str_eqb o (lit ")") | LIoNum _ => false end.
(** a list may also end with the & of its last item *)
Definition endtok_l (y : lexeme) : bool :=
  endtok y || match y with LOp o => str_eqb o (lit "&") | _ => false end.
(** how a compound command ends: } done fi esac or ) *)
Definition cend (y : lexeme) : bool :=
  match y with
  | LWord w => str_eqb w (lit "}") || str_eqb w (lit "done") || str_eqb w (lit "fi") || str_eqb w (lit "esac")
  | LOp o => str_eqb o (lit ")")
  | LIoNum _ => false
  end.

Lemma cend_cases y : cend y = true ->
  y = LWord (lit "}") \/ y = LWord (lit "done") \/ y = LWord (lit "fi") \/ y = LWord (lit "esac") \/ y = LOp (lit ")").
Proof.
  destruct y as [w|o|n]; cbn [cend]; intros H; try discriminate.
  - repeat (apply orb_true_iff in H; destruct H as [H|H]); apply str_eqb_eq in H; subst; tauto.
  - apply str_eqb_eq in H. subst. tauto.
Qed.

Lemma cend_endtok y : cend y = true -> endtok y = true.
Proof. intros H. destruct (cend_cases y H) as [E|[E|[E|[E|E]]]]; subst; vm_compute; reflexivity. Qed.

Lemma endtok_l_cases y : endtok_l y = true -> endtok y = true \/ y = LOp (lit "&").
Proof.
  unfold endtok_l. intros H. apply orb_true_iff in H. destruct H as [H|H]; [left; exact H|].
  destruct y as [w|o|n]; try discriminate. apply str_eqb_eq in H. subst. right. reflexivity.
Qed.

Lemma endtok_lex y : endtok y = true -> lex_ok y = true /\ (match y with LIoNum _ => False | _ => True end).
Proof.
  destruct y as [w|o|n]; cbn [endtok]; intros H; [split; [exact H | exact I]| |discriminate].
  apply str_eqb_eq in H. subst. split; [vm_compute; reflexivity | exact I].
Qed.

Lemma endtok_l_lex y : endtok_l y = true -> lex_ok y = true /\ (match y with LIoNum _ => False | _ => True end).
Proof.
  intros H. destruct (endtok_l_cases y H) as [E|E]; [apply endtok_lex; exact E|].
  subst. split; [vm_compute; reflexivity | exact I].
Qed.

Lemma endtok_sep y (c : char) : endtok_l y = true -> c = 32 \/ c = 10 -> sep_ok (Some y) c = true.
Proof. intros H Hc. destruct (endtok_l_lex y H). apply sep_after; assumption. Qed.

(** ; and & (and the two-character list operators) may be glued behind the end of a command *)
Lemma endtok_glue_op y o :
  endtok y = true -> lex_ok (LOp o) = true -> redir_start (hd0 o) = false ->
  is_operator (lit ")" ++ [hd0 o]) = false -> glue_ok (Some y) (LOp o) = true.
Proof.
  intros H Ho Hr Hp. destruct y as [w|p|n]; cbn [endtok] in H; try discriminate.
  - apply glue_word_op. exact Hr.
  - apply str_eqb_eq in H. subst p. cbn [glue_ok text]. rewrite Hp. reflexivity.
Qed.

Definition SEMI : lexeme := LOp (lit ";").
Definition AMP : lexeme := LOp (lit "&").
Lemma endtok_semi y : endtok y = true -> glue_ok (Some y) SEMI = true.
Proof. intros H. apply endtok_glue_op; [exact H | vm_compute; reflexivity ..]. Qed.
Lemma endtok_amp y : endtok y = true -> glue_ok (Some y) AMP = true.
Proof. intros H. apply endtok_glue_op; [exact H | vm_compute; reflexivity ..]. Qed.

(** what may stand before a command: nothing, a newline, or - when the printer glues the bar - | *)
Definition BAR : lexeme := LOp (lit "|").
Definition gprev (b : bool) (prev : option lexeme) : Prop :=
  prev = None \/ prev = Some NLOP \/ (b = true /\ prev = Some BAR).
Definition bar_safe (x : lexeme) : bool := negb (is_operator (lit "|" ++ [hd0 (text x)])).

Lemma gprev_glue b prev x : gprev b prev -> (b = true -> bar_safe x = true) -> glue_ok prev x = true.
Proof.
  intros [E|[E|[Eb E]]] Hs; subst; [reflexivity | apply nl_glue |].
  unfold BAR. cbn [glue_ok]. exact (Hs eq_refl).
Qed.
Lemma gprev_sep b prev (c : char) : gprev b prev -> c = 32 \/ c = 10 -> sep_ok prev c = true.
Proof.
  intros [E|[E|[Eb E]]] Hc; subst; [reflexivity | apply nl_sep |].
  apply sep_after; [vm_compute; reflexivity | exact I | exact Hc].
Qed.
Lemma gprev_none b : gprev b None. Proof. left. reflexivity. Qed.
Lemma gprev_nl b : gprev b (Some NLOP). Proof. right. left. reflexivity. Qed.

Lemma word_bar_safe w : lex_ok (LWord w) = true -> bar_safe (LWord w) = true.
Proof.
  intros H. unfold bar_safe. pose proof (lex_word_like _ H) as [Hne Hpl]. cbn [text] in *.
  destruct w as [|c r]; [discriminate|]. cbn [hd0 forallb] in *. apply andb_true_iff in Hpl. destruct Hpl as [Hc _].
  rewrite (op_wordchar (lit "|") c) by (first [exact Hc | vm_compute; reflexivity]). reflexivity.
Qed.
Lemma ionum_bar_safe n : all_digits n = true -> bar_safe (LIoNum n) = true.
Proof.
  intros H. unfold bar_safe. destruct (all_digits_plain n H) as [Hne Hpl]. cbn [text].
  destruct n as [|c r]; [discriminate|]. cbn [hd0 forallb] in *. apply andb_true_iff in Hpl. destruct Hpl as [Hc _].
  rewrite (op_wordchar (lit "|") c) by (first [exact Hc | vm_compute; reflexivity]). reflexivity.
Qed.

(** * The well-formedness predicate (depends on the printer flags) *)

Definition risky (rs : option (list redir)) : bool :=
  match rs with
  | None | Some [] => false
  | Some [r] => match first_of_redir r with LIoNum _ => true | _ => false end
  | Some _ => true
  end.
Definition redirs_ok (rs : option (list redir)) : bool :=
  match rs with None => true | Some l => forallb redir_ok l end.

Definition amp_first (its : list item) : bool :=
  match its with IRedir (ROutErr _ _) :: _ => true | _ => false end.

Section Ok.
Variable pf : pflags.

Definition rs_ok (rs : option (list redir)) : bool := redirs_ok rs && (f_redir_sep pf || negb (risky rs)).

Fixpoint last_sync_r (async : bool) (r : clrest) : bool :=
  match r with ClNil => negb async | ClCons _ async' r' => last_sync_r async' r' end.
Definition last_sync (l : clist) : bool := match l with CList _ async r => last_sync_r async r end.

(** [bar]: the command is printed directly behind a | *)
Fixpoint ok_cmd (bar : bool) (c : cmd) : bool :=
  match c with
  | CSimple pre name suf =>
      let its := simple_items pre name suf in
      negb (is_nil its) && forallb item_ok its && negb (bar && amp_first its)
  | CCompound k rs => ok_compound k && rs_ok rs
  | CFunction name k rs => word_ok name && ok_compound k && rs_ok rs
  end
with ok_compound (k : compound) : bool :=
  match k with
  | KBrace l => ok_clist l
  | KSubshell l => ok_clist l
  | KFor v vals body =>
      word_ok v && match vals with Some l => forallb word_ok l | None => true end && ok_clist body
  | KWhile c b => ok_clist c && last_sync c && ok_clist b
  | KUntil c b => ok_clist c && last_sync c && ok_clist b
  | KIf c t es => ok_clist c && last_sync c && ok_clist t && ok_elses es
  | KCase w items => word_ok w && ok_citems items
  end
with ok_pipeline (p : pipeline) : bool :=
  match p with Pipe _ _ c r => ok_cmd false c && ok_cmds r end
with ok_cmds (r : cmds) : bool :=
  match r with CmdsNil => true | CmdsCons c r' => ok_cmd (negb (f_pipe_sep pf)) c && ok_cmds r' end
with ok_andor (a : andor) : bool :=
  match a with AndOr p r => ok_pipeline p && ok_aorest r end
with ok_aorest (r : aorest) : bool :=
  match r with AoNil => true | AoCons _ p r' => ok_pipeline p && ok_aorest r' end
with ok_clist (l : clist) : bool :=
  match l with CList a _ r => ok_andor a && ok_clrest r end
with ok_clrest (r : clrest) : bool :=
  match r with ClNil => true | ClCons a _ r' => ok_andor a && ok_clrest r' end
with ok_elses (es : elses) : bool :=
  match es with
  | ElNil => true
  | ElIf c b r => ok_clist c && last_sync c && ok_clist b && ok_elses r
  | ElElse b r => ok_clist b && ok_elses r
  end
with ok_citems (is : citems) : bool :=
  match is with
  | CiNil => true
  | CiSome pats body _ r => negb (is_nil pats) && forallb word_ok pats && ok_clist body && ok_citems r
  | CiNone pats _ r => negb (is_nil pats) && forallb word_ok pats && ok_citems r
  end.
End Ok.

(** * The printer separates its tokens *)

Lemma chains_tok prev d x l y : lex_ok x = true -> glue_ok prev x = true -> chains (Some x) l y ->
  chains prev (ATok d x :: l) y.
Proof. unfold chains. intros H1 H2 H3. rewrite chain_tok by assumption. exact H3. Qed.
Lemma chains_sp prev d l y : sep_ok prev 32 = true -> chains None l y -> chains prev (ASp d :: l) y.
Proof. unfold chains. intros H1 H2. rewrite chain_sp by assumption. exact H2. Qed.
Lemma chains_nl prev l y : sep_ok prev 10 = true -> chains (Some NLOP) l y -> chains prev (ANl :: l) y.
Proof. unfold chains. intros H1 H2. rewrite chain_nl by assumption. exact H2. Qed.
Lemma chains_nil y : chains (Some y) [] y.
Proof. reflexivity. Qed.
Lemma chains_bump prev l y : chains prev l y -> chains prev (bump l) y.
Proof. unfold chains. rewrite chain_bump. exact (fun H => H). Qed.

Scheme cmd_mut := Induction for cmd Sort Prop
with compound_mut := Induction for compound Sort Prop
with pipeline_mut := Induction for pipeline Sort Prop
with cmds_mut := Induction for cmds Sort Prop
with andor_mut := Induction for andor Sort Prop
with aorest_mut := Induction for aorest Sort Prop
with clist_mut := Induction for clist Sort Prop
with clrest_mut := Induction for clrest Sort Prop
with elses_mut := Induction for elses Sort Prop
with citems_mut := Induction for citems Sort Prop.
Combined Scheme ast_mutind from cmd_mut, compound_mut, pipeline_mut, cmds_mut, andor_mut, aorest_mut,
  clist_mut, clrest_mut, elses_mut, citems_mut.

Definition nlsafe (y : lexeme) : Prop := lex_ok y = true /\ (match y with LIoNum _ => False | _ => True end).

Ltac kw := vm_compute; reflexivity.
Ltac sepw := first [reflexivity | apply sep_after; [first [assumption | kw] | exact I | first [left; reflexivity | right; reflexivity]]].

Section Sep.
Variable pf : pflags.

Lemma chains_redirs_sep l : forall y, f_redir_sep pf = true -> forallb redir_ok l = true -> endtok y = true ->
  exists y', chains (Some y) (a_redirs pf (Some l)) y' /\ endtok y' = true.
Proof.
  unfold a_redirs. intros y Hs. rewrite Hs. revert y.
  induction l as [|r l IH]; intros y Hok Hy.
  - exists y. split; [apply chains_nil | exact Hy].
  - cbn [forallb] in Hok. apply andb_true_iff in Hok. destruct Hok as [Hr Hl].
    cbn [flat_map].
    destruct (chains_redir None r Hr eq_refl) as [w [Hc Hw]].
    assert (He : endtok (LWord w) = true) by (cbn [endtok]; apply word_ok_lex; exact Hw).
    destruct (IH (LWord w) Hl He) as [y' [Hc' Hy']].
    exists y'. split; [|exact Hy'].
    rewrite <- app_assoc. cbn [app]. unfold SP at 1.
    apply chains_sp; [apply endtok_sep; [unfold endtok_l; rewrite Hy; reflexivity | left; reflexivity]|].
    eapply chains_app; [exact Hc | exact Hc'].
Qed.

Lemma cend_glue_redir y r : cend y = true -> redir_ok r = true ->
  (match first_of_redir r with LIoNum _ => false | _ => true end) = true ->
  glue_ok (Some y) (first_of_redir r) = true.
Proof.
  intros Hy Hr Hf.
  destruct r as [[n|] k t | w app | [n|] w]; cbn [first_of_redir] in *; try discriminate;
    destruct (cend_cases y Hy) as [E|[E|[E|[E|E]]]]; subst y;
    try (destruct k); try (destruct app); vm_compute; reflexivity.
Qed.

Lemma chains_redirs y rs : rs_ok pf rs = true -> cend y = true ->
  exists y', chains (Some y) (a_redirs pf rs) y' /\ endtok y' = true.
Proof.
  unfold rs_ok. intros H Hy. apply andb_true_iff in H. destruct H as [Hok Hrisk].
  pose proof (cend_endtok y Hy) as Hey.
  destruct rs as [l|]; [|exists y; split; [apply chains_nil | exact Hey]].
  cbn [redirs_ok] in Hok.
  destruct (f_redir_sep pf) eqn:Es.
  - apply chains_redirs_sep; assumption.
  - cbn [orb] in Hrisk. apply negb_true_iff in Hrisk.
    destruct l as [|r [|r2 l]]; cbn [risky] in Hrisk; try discriminate.
    + exists y. split; [apply chains_nil | exact Hey].
    + cbn [forallb] in Hok. rewrite andb_true_r in Hok.
      cbn [a_redirs flat_map]. rewrite Es. cbn [app]. rewrite app_nil_r.
      assert (Hf : (match first_of_redir r with LIoNum _ => false | _ => true end) = true)
        by (destruct (first_of_redir r); [reflexivity | reflexivity | discriminate]).
      destruct (chains_redir (Some y) r Hok (cend_glue_redir y r Hy Hok Hf)) as [w [Hc Hw]].
      exists (LWord w). split; [exact Hc|]. cbn [endtok]. apply word_ok_lex. exact Hw.
Qed.

Lemma first_item_bar_safe i : item_ok i = true -> amp_first [i] = false -> bar_safe (first_of_item i) = true.
Proof.
  intros Hok Ha. destruct i as [r|w]; cbn [first_of_item item_ok] in *.
  - destruct r as [[n|] k t | w app | [n|] w]; cbn [first_of_redir redir_ok fd_ok amp_first] in *; try discriminate.
    + apply andb_true_iff in Hok. destruct Hok as [Hn _]. apply ionum_bar_safe. exact Hn.
    + destruct k; kw.
    + apply andb_true_iff in Hok. destruct Hok as [Hn _]. apply ionum_bar_safe. exact Hn.
    + kw.
  - apply word_bar_safe. apply word_ok_lex. exact Hok.
Qed.

Lemma a_pats_cons x y r : a_pats (x :: y :: r) = Wd x :: OP "|" :: a_pats (y :: r).
Proof. reflexivity. Qed.

Lemma chains_pats_from pats : forall prev, pats <> [] -> forallb word_ok pats = true ->
  (forall w, word_ok w = true -> glue_ok prev (LWord w) = true) ->
  exists w, chains prev (a_pats pats) (LWord w) /\ word_ok w = true.
Proof.
  induction pats as [|x r IH]; intros prev Hne Hok Hg; [congruence|].
  cbn [forallb] in Hok. apply andb_true_iff in Hok. destruct Hok as [Hx Hr].
  destruct r as [|x2 r'].
  - exists x. split; [|exact Hx]. cbn [a_pats]. unfold Wd.
    apply chains_tok; [apply word_ok_lex; exact Hx | apply Hg; exact Hx | apply chains_nil].
  - rewrite a_pats_cons. unfold Wd at 1. unfold OP.
    destruct (IH (Some BAR) ltac:(discriminate) Hr) as [w [Hc Hw]].
    { intros w Hw. apply glue_op_word; [kw | apply word_ok_lex; exact Hw | exact I]. }
    exists w. split; [|exact Hw].
    apply chains_tok; [apply word_ok_lex; exact Hx | apply Hg; exact Hx |].
    apply chains_tok; [kw | apply glue_word_op; kw | exact Hc].
Qed.

Definition P_cmd (c : cmd) : Prop := forall bar prev, ok_cmd pf bar c = true -> gprev bar prev ->
  exists y, chains prev (a_cmd pf c) y /\ endtok y = true.
Definition P_compound (k : compound) : Prop := forall b prev, ok_compound pf k = true -> gprev b prev ->
  exists y, chains prev (a_compound pf k) y /\ cend y = true.
Definition P_pipeline (p : pipeline) : Prop := forall prev, ok_pipeline pf p = true -> gprev false prev ->
  exists y, chains prev (a_pipeline pf p) y /\ endtok y = true.
Definition P_cmds (r : cmds) : Prop := forall y, ok_cmds pf r = true -> endtok y = true ->
  exists y', chains (Some y) (a_cmds pf r) y' /\ endtok y' = true.
Definition P_andor (a : andor) : Prop := forall prev, ok_andor pf a = true -> gprev false prev ->
  exists y, chains prev (a_andor pf a) y /\ endtok y = true.
Definition P_aorest (r : aorest) : Prop := forall y, ok_aorest pf r = true -> endtok y = true ->
  exists y', chains (Some y) (a_aorest pf r) y' /\ endtok y' = true.
Definition P_clist (l : clist) : Prop := forall prev, ok_clist pf l = true -> gprev false prev ->
  exists y, chains prev (a_clist pf l) y /\ endtok_l y = true /\ (last_sync l = true -> endtok y = true).
Definition P_clrest (r : clrest) : Prop := forall y async, ok_clrest pf r = true -> endtok y = true ->
  exists y', chains (Some y) (a_sepop async (is_clnil r) ++ a_clrest pf r) y' /\ endtok_l y' = true /\
             (last_sync_r async r = true -> endtok y' = true).
Definition P_elses (es : elses) : Prop := forall y, ok_elses pf es = true -> endtok_l y = true ->
  exists y', chains (Some y) (a_elses pf es) y' /\ endtok_l y' = true.
Definition P_citems (is : citems) : Prop := forall y, ok_citems pf is = true -> nlsafe y ->
  exists y', chains (Some y) (a_citems pf is) y' /\ nlsafe y'.

Lemma endtok_is_l y : endtok y = true -> endtok_l y = true.
Proof. intros H. unfold endtok_l. rewrite H. reflexivity. Qed.

Lemma kw_glue b prev s : gprev b prev -> lex_ok (LWord (lit s)) = true -> glue_ok prev (LWord (lit s)) = true.
Proof. intros Hp Hl. apply (gprev_glue b); [exact Hp | intros _; apply word_bar_safe; exact Hl]. Qed.

(** the tail shared by for / while / until: do <newline> body <newline> done *)
Lemma chains_do_group prev (body : list atom) yb :
  sep_ok prev 32 = true \/ prev = None -> glue_ok prev (LWord (lit "do")) = true ->
  chains (Some NLOP) body yb -> endtok_l yb = true ->
  chains prev ([KW "do"; ANl] ++ bump body ++ [ANl; KW "done"]) (LWord (lit "done")).
Proof.
  intros _ Hg Hb Hy. cbn [app]. unfold KW.
  apply chains_tok; [kw | exact Hg |].
  apply chains_nl; [reflexivity|].
  eapply chains_app; [apply chains_bump; exact Hb|].
  apply chains_nl; [apply endtok_sep; [exact Hy | right; reflexivity]|].
  apply chains_tok; [kw | apply nl_glue | apply chains_nil].
Qed.

(** condition ; then <newline> body : shared by if and elif *)
Lemma chains_cond_then (c t : list atom) yc yt rest y :
  chains None c yc -> endtok yc = true -> chains (Some NLOP) t yt -> endtok_l yt = true ->
  chains (Some yt) rest y ->
  chains None (c ++ [OP ";"; SP; KW "then"; ANl] ++ bump t ++ rest) y.
Proof.
  intros Hc Hyc Ht Hyt Hr.
  eapply chains_app; [exact Hc|]. cbn [app]. unfold OP, KW, SP.
  apply chains_tok; [kw | apply endtok_semi; exact Hyc |].
  apply chains_sp; [sepw|].
  apply chains_tok; [kw | reflexivity |].
  apply chains_nl; [reflexivity|].
  eapply chains_app; [apply chains_bump; exact Ht | exact Hr].
Qed.


(** unfolding equations (so that proofs never expose the mutual fixpoint bodies) *)
Lemma ok_simple bar pre name suf : ok_cmd pf bar (CSimple pre name suf) =
  negb (is_nil (simple_items pre name suf)) && forallb item_ok (simple_items pre name suf)
  && negb (bar && amp_first (simple_items pre name suf)). Proof. reflexivity. Qed.
Lemma ok_ccompound bar k rs : ok_cmd pf bar (CCompound k rs) = ok_compound pf k && rs_ok pf rs. Proof. reflexivity. Qed.
Lemma ok_cfunction bar n k rs : ok_cmd pf bar (CFunction n k rs) = word_ok n && ok_compound pf k && rs_ok pf rs. Proof. reflexivity. Qed.
Lemma ok_kbrace l : ok_compound pf (KBrace l) = ok_clist pf l. Proof. reflexivity. Qed.
Lemma ok_ksub l : ok_compound pf (KSubshell l) = ok_clist pf l. Proof. reflexivity. Qed.
Lemma ok_kfor v vals b : ok_compound pf (KFor v vals b) =
  word_ok v && match vals with Some l => forallb word_ok l | None => true end && ok_clist pf b. Proof. reflexivity. Qed.
Lemma ok_kwhile c b : ok_compound pf (KWhile c b) = ok_clist pf c && last_sync c && ok_clist pf b. Proof. reflexivity. Qed.
Lemma ok_kuntil c b : ok_compound pf (KUntil c b) = ok_clist pf c && last_sync c && ok_clist pf b. Proof. reflexivity. Qed.
Lemma ok_kif c t es : ok_compound pf (KIf c t es) = ok_clist pf c && last_sync c && ok_clist pf t && ok_elses pf es. Proof. reflexivity. Qed.
Lemma ok_kcase w is : ok_compound pf (KCase w is) = word_ok w && ok_citems pf is. Proof. reflexivity. Qed.
Lemma ok_pipe tm bg c r : ok_pipeline pf (Pipe tm bg c r) = ok_cmd pf false c && ok_cmds pf r. Proof. reflexivity. Qed.
Lemma ok_cmdscons c r : ok_cmds pf (CmdsCons c r) = ok_cmd pf (negb (f_pipe_sep pf)) c && ok_cmds pf r. Proof. reflexivity. Qed.
Lemma ok_andor_eq p r : ok_andor pf (AndOr p r) = ok_pipeline pf p && ok_aorest pf r. Proof. reflexivity. Qed.
Lemma ok_aocons a p r : ok_aorest pf (AoCons a p r) = ok_pipeline pf p && ok_aorest pf r. Proof. reflexivity. Qed.
Lemma ok_clist_eq a s r : ok_clist pf (CList a s r) = ok_andor pf a && ok_clrest pf r. Proof. reflexivity. Qed.
Lemma ok_clcons a s r : ok_clrest pf (ClCons a s r) = ok_andor pf a && ok_clrest pf r. Proof. reflexivity. Qed.
Lemma ok_elif c b r : ok_elses pf (ElIf c b r) = ok_clist pf c && last_sync c && ok_clist pf b && ok_elses pf r. Proof. reflexivity. Qed.
Lemma ok_elelse b r : ok_elses pf (ElElse b r) = ok_clist pf b && ok_elses pf r. Proof. reflexivity. Qed.
Lemma ok_cisome ps b po r : ok_citems pf (CiSome ps b po r) =
  negb (is_nil ps) && forallb word_ok ps && ok_clist pf b && ok_citems pf r. Proof. reflexivity. Qed.
Lemma ok_cinone ps po r : ok_citems pf (CiNone ps po r) = negb (is_nil ps) && forallb word_ok ps && ok_citems pf r. Proof. reflexivity. Qed.

Lemma a_csimple pre name suf : a_cmd pf (CSimple pre name suf) = a_simple pre name suf. Proof. reflexivity. Qed.
Lemma a_ccompound k rs : a_cmd pf (CCompound k rs) = a_compound pf k ++ a_redirs pf rs. Proof. reflexivity. Qed.
Lemma a_cfunction n k rs : a_cmd pf (CFunction n k rs) =
  [Wd n; SP; OP "("; OP ")"; SP; ANl] ++ a_compound pf k ++ a_redirs pf rs. Proof. reflexivity. Qed.
Lemma a_kbrace l : a_compound pf (KBrace l) = [KW "{"; SP; ANl] ++ bump (a_clist pf l) ++ [ANl; KW "}"]. Proof. reflexivity. Qed.
Lemma a_ksub l : a_compound pf (KSubshell l) = [OP "("; SP] ++ a_clist pf l ++ [SP; OP ")"]. Proof. reflexivity. Qed.
Lemma a_kwhile c b : a_compound pf (KWhile c b) =
  [KW "while"; SP] ++ a_clist pf c ++ [OP ";"; SP] ++ [KW "do"; ANl] ++ bump (a_clist pf b) ++ [ANl; KW "done"]. Proof. reflexivity. Qed.
Lemma a_kuntil c b : a_compound pf (KUntil c b) =
  [KW "until"; SP] ++ a_clist pf c ++ [OP ";"; SP] ++ [KW "do"; ANl] ++ bump (a_clist pf b) ++ [ANl; KW "done"]. Proof. reflexivity. Qed.
Lemma a_kif c t es : a_compound pf (KIf c t es) =
  [KW "if"; SP] ++ a_clist pf c ++ [OP ";"; SP; KW "then"; ANl] ++ bump (a_clist pf t) ++ a_elses pf es ++ [ANl; KW "fi"]. Proof. reflexivity. Qed.
Lemma a_kcase w is : a_compound pf (KCase w is) =
  [KW "case"; SP; Wd w; SP; KW "in"] ++ bump (a_citems pf is) ++ [ANl; KW "esac"]. Proof. reflexivity. Qed.
Lemma a_pipe tm bg c r : a_pipeline pf (Pipe tm bg c r) =
  match tm with Some true => [KW "time"; SP; KW "-p"; SP] | Some false => [KW "time"; SP] | None => [] end ++
  (if bg then [KW "!"; SP] else []) ++ a_cmd pf c ++ a_cmds pf r. Proof. reflexivity. Qed.
Lemma a_cmdscons c r : a_cmds pf (CmdsCons c r) =
  [SP; OP "|"] ++ (if f_pipe_sep pf then [SP] else []) ++ a_cmd pf c ++ a_cmds pf r. Proof. reflexivity. Qed.
Lemma a_andor_eq p r : a_andor pf (AndOr p r) = a_pipeline pf p ++ a_aorest pf r. Proof. reflexivity. Qed.
Lemma a_aocons a p r : a_aorest pf (AoCons a p r) =
  [SP; OP (if a then "&&" else "||")%string; SP] ++ a_pipeline pf p ++ a_aorest pf r. Proof. reflexivity. Qed.
Lemma a_clist_eq a s r : a_clist pf (CList a s r) = a_andor pf a ++ a_sepop s (is_clnil r) ++ a_clrest pf r. Proof. reflexivity. Qed.
Lemma a_clcons a s r : a_clrest pf (ClCons a s r) = [ANl] ++ a_andor pf a ++ a_sepop s (is_clnil r) ++ a_clrest pf r. Proof. reflexivity. Qed.
Lemma a_elif c b r : a_elses pf (ElIf c b r) =
  [ANl; KW "elif"; SP] ++ a_clist pf c ++ [OP ";"; SP; KW "then"; ANl] ++ bump (a_clist pf b) ++ a_elses pf r. Proof. reflexivity. Qed.
Lemma a_elelse b r : a_elses pf (ElElse b r) = [ANl; KW "else"; ANl] ++ bump (a_clist pf b) ++ a_elses pf r. Proof. reflexivity. Qed.
Lemma a_cisome ps b po r : a_citems pf (CiSome ps b po r) =
  [ANl] ++ a_pats ps ++ [OP ")"; ANl] ++ bump (a_clist pf b) ++ [ANl; OP (post_text po)] ++ a_citems pf r. Proof. reflexivity. Qed.
Lemma a_cinone ps po r : a_citems pf (CiNone ps po r) =
  [ANl] ++ a_pats ps ++ [OP ")"; ANl] ++ [ANl; OP (post_text po)] ++ a_citems pf r. Proof. reflexivity. Qed.

Lemma a_compound_for v vals body : a_compound pf (KFor v vals body) =
  a_for_head pf v vals ++ [OP ";"; ANl] ++ [KW "do"; ANl] ++ bump (a_clist pf body) ++ [ANl; KW "done"].
Proof. reflexivity. Qed.

Theorem printer_chains :
  (forall c, P_cmd c) /\ (forall k, P_compound k) /\ (forall p, P_pipeline p) /\ (forall r, P_cmds r) /\
  (forall a, P_andor a) /\ (forall r, P_aorest r) /\ (forall l, P_clist l) /\ (forall r, P_clrest r) /\
  (forall es, P_elses es) /\ (forall is, P_citems is).
Proof.
  apply ast_mutind.
  - (* CSimple *)
    intros pre name suf bar prev Hok Hp. rewrite ok_simple in Hok.
    apply andb_true_iff in Hok. destruct Hok as [Hok Hbar]. apply andb_true_iff in Hok. destruct Hok as [Hne Hits].
    rewrite a_csimple. unfold a_simple. set (its := simple_items pre name suf) in *.
    destruct its as [|i r] eqn:Ei; [discriminate|].
    assert (Hg : glue_ok prev (first_of_item (hd (IWord []) (i :: r))) = true).
    { cbn [hd]. apply (gprev_glue bar); [exact Hp|]. intros Hb. subst bar. cbn [andb] in Hbar.
      apply negb_true_iff in Hbar. cbn [forallb] in Hits. apply andb_true_iff in Hits. destruct Hits as [Hi _].
      apply first_item_bar_safe; [exact Hi|]. destruct i as [[| |]|]; cbn [amp_first] in *; congruence. }
    destruct (chains_items (i :: r) prev ltac:(discriminate) Hits Hg) as [w [Hc Hw]].
    exists (LWord w). split; [exact Hc|]. cbn [endtok]. apply word_ok_lex. exact Hw.
  - (* CCompound *)
    intros k IHk rs bar prev Hok Hp. rewrite ok_ccompound in Hok. apply andb_true_iff in Hok. destruct Hok as [Hk Hrs].
    destruct (IHk bar prev Hk Hp) as [y [Hc Hy]].
    destruct (chains_redirs y rs Hrs Hy) as [y' [Hc' Hy']].
    exists y'. split; [|exact Hy']. rewrite a_ccompound. eapply chains_app; eassumption.
  - (* CFunction *)
    intros name k IHk rs bar prev Hok Hp. rewrite ok_cfunction in Hok.
    apply andb_true_iff in Hok. destruct Hok as [Hok Hrs]. apply andb_true_iff in Hok. destruct Hok as [Hn Hk].
    destruct (IHk false (Some NLOP) Hk (gprev_nl false)) as [y [Hc Hy]].
    destruct (chains_redirs y rs Hrs Hy) as [y' [Hc' Hy']].
    exists y'. split; [|exact Hy']. rewrite a_cfunction. cbn [app]. unfold Wd, SP, OP.
    pose proof (word_ok_lex name Hn) as Hl.
    apply chains_tok; [exact Hl | apply (gprev_glue bar); [exact Hp | intros _; apply word_bar_safe; exact Hl] |].
    apply chains_sp; [reflexivity|].
    apply chains_tok; [kw | reflexivity |].
    apply chains_tok; [kw | kw |].
    apply chains_sp; [sepw|].
    apply chains_nl; [reflexivity|].
    eapply chains_app; eassumption.
  - (* KBrace *)
    intros l IHl b prev Hok Hp. rewrite ok_kbrace in Hok.
    destruct (IHl (Some NLOP) Hok (gprev_nl false)) as [y [Hc [Hy _]]].
    exists (LWord (lit "}")). split; [|kw]. rewrite a_kbrace. cbn [app]. unfold KW, SP.
    apply chains_tok; [kw | apply (kw_glue b); [exact Hp | kw] |].
    apply chains_sp; [reflexivity|]. apply chains_nl; [reflexivity|].
    eapply chains_app; [apply chains_bump; exact Hc|].
    apply chains_nl; [apply endtok_sep; [exact Hy | right; reflexivity]|].
    apply chains_tok; [kw | apply nl_glue | apply chains_nil].
  - (* KSubshell *)
    intros l IHl b prev Hok Hp. rewrite ok_ksub in Hok.
    destruct (IHl None Hok (gprev_none false)) as [y [Hc [Hy _]]].
    exists (LOp (lit ")")). split; [|kw]. rewrite a_ksub. cbn [app]. unfold OP, SP.
    apply chains_tok; [kw | apply (gprev_glue b); [exact Hp | intros _; kw] |].
    apply chains_sp; [sepw|].
    eapply chains_app; [exact Hc|].
    apply chains_sp; [apply endtok_sep; [exact Hy | left; reflexivity]|].
    apply chains_tok; [kw | reflexivity | apply chains_nil].
  - (* KFor *)
    intros v vals body IHb b prev Hok Hp. rewrite ok_kfor in Hok.
    apply andb_true_iff in Hok. destruct Hok as [Hok Hbody]. apply andb_true_iff in Hok. destruct Hok as [Hv Hvals].
    destruct (IHb (Some NLOP) Hbody (gprev_nl false)) as [yb [Hcb [Hyb _]]].
    exists (LWord (lit "done")). split; [|kw].
    pose proof (word_ok_lex v Hv) as Hlv.
    assert (Htail : forall prev', glue_ok prev' SEMI = true ->
              chains prev' ([OP ";"; ANl] ++ [KW "do"; ANl] ++ bump (a_clist pf body) ++ [ANl; KW "done"]) (LWord (lit "done"))).
    { intros prev' Hg'. cbn [app]. unfold OP at 1.
      apply chains_tok; [kw | exact Hg' |].
      apply chains_nl; [sepw|].
      apply (chains_do_group (Some NLOP) (a_clist pf body) yb); [left; apply nl_sep | apply nl_glue | exact Hcb | exact Hyb]. }
    assert (Hwords : forall l y, forallb word_ok l = true -> endtok y = true ->
              exists y', chains (Some y) (flat_map (fun w => [SP; Wd w]) l) y' /\ endtok y' = true).
    { induction l as [|w l IHw]; intros y Hl Hy.
      - exists y. split; [apply chains_nil | exact Hy].
      - cbn [forallb] in Hl. apply andb_true_iff in Hl. destruct Hl as [Hw Hl].
        destruct (IHw (LWord w) Hl (word_ok_lex w Hw)) as [y' [Hc' Hy']].
        exists y'. split; [|exact Hy']. cbn [flat_map app]. unfold SP at 1, Wd at 1.
        apply chains_sp; [apply endtok_sep; [apply endtok_is_l; exact Hy | left; reflexivity]|].
        apply chains_tok; [apply word_ok_lex; exact Hw | reflexivity | exact Hc']. }
    rewrite a_compound_for. unfold a_for_head.
    assert (Hfor : glue_ok prev (LWord (lit "for")) = true) by (apply (kw_glue b); [exact Hp | kw]).
    destruct (f_for_in_always pf).
    + (* for v in [words]; *)
      rewrite <- !app_assoc. cbn [app]. unfold KW at 1 2, SP at 1 2 3, Wd at 1.
      apply chains_tok; [kw | exact Hfor |]. apply chains_sp; [reflexivity|].
      apply chains_tok; [exact Hlv | reflexivity |]. apply chains_sp; [reflexivity|].
      apply chains_tok; [kw | reflexivity |]. apply chains_sp; [reflexivity|].
      destruct vals as [[|w l]|].
      * cbn [sep_by app]. exact (Htail None eq_refl).
      * cbn [forallb] in Hvals. apply andb_true_iff in Hvals. destruct Hvals as [Hw Hl].
        assert (Hsb : forall l w, forallb word_ok l = true -> word_ok w = true ->
                  exists y', chains None (sep_by (fun w => [Wd w]) (w :: l)) y' /\ endtok y' = true).
        { clear. induction l as [|w2 l IHl]; intros w Hl Hw.
          - exists (LWord w). split; [|apply word_ok_lex; exact Hw]. cbn [sep_by]. unfold Wd.
            apply chains_tok; [apply word_ok_lex; exact Hw | reflexivity | apply chains_nil].
          - cbn [forallb] in Hl. apply andb_true_iff in Hl. destruct Hl as [Hw2 Hl].
            destruct (IHl w2 Hl Hw2) as [y' [Hc' Hy']]. exists y'. split; [|exact Hy'].
            rewrite sep_by_cons. cbn [app]. unfold Wd at 1, SP at 1.
            apply chains_tok; [apply word_ok_lex; exact Hw | reflexivity |].
            apply chains_sp; [reflexivity | exact Hc']. }
        destruct (Hsb l w Hl Hw) as [y' [Hc' Hy']].
        eapply chains_app; [exact Hc' | exact (Htail _ (endtok_semi _ Hy'))].
      * cbn [app]. exact (Htail None eq_refl).
    + (* for v [in words]; *)
      rewrite <- !app_assoc. cbn [app]. unfold KW at 1, SP at 1, Wd at 1.
      apply chains_tok; [kw | exact Hfor |]. apply chains_sp; [reflexivity|].
      apply chains_tok; [exact Hlv | reflexivity |].
      destruct vals as [l|].
      * cbn [app]. unfold SP at 1, KW at 1.
        apply chains_sp; [reflexivity|]. apply chains_tok; [kw | reflexivity |].
        destruct (Hwords l (LWord (lit "in")) Hvals ltac:(kw)) as [y' [Hc' Hy']].
        eapply chains_app; [exact Hc' | exact (Htail _ (endtok_semi _ Hy'))].
      * cbn [app]. exact (Htail (Some (LWord v)) (endtok_semi (LWord v) Hlv)).
  - (* KWhile *)
    intros c IHc body IHb b prev Hok Hp. rewrite ok_kwhile in Hok.
    apply andb_true_iff in Hok. destruct Hok as [Hok Hbody]. apply andb_true_iff in Hok. destruct Hok as [Hc Hsync].
    destruct (IHc None Hc (gprev_none false)) as [yc [Hcc [_ Hyc]]]. specialize (Hyc Hsync).
    destruct (IHb (Some NLOP) Hbody (gprev_nl false)) as [yb [Hcb [Hyb _]]].
    exists (LWord (lit "done")). split; [|kw]. rewrite a_kwhile. cbn [app]. unfold KW at 1, SP at 1.
    apply chains_tok; [kw | apply (kw_glue b); [exact Hp | kw] |]. apply chains_sp; [reflexivity|].
    eapply chains_app; [exact Hcc|]. cbn [app]. unfold OP, SP.
    apply chains_tok; [kw | apply endtok_semi; exact Hyc |]. apply chains_sp; [sepw|].
    apply (chains_do_group None (a_clist pf body) yb); [right; reflexivity | reflexivity | exact Hcb | exact Hyb].
  - (* KUntil *)
    intros c IHc body IHb b prev Hok Hp. rewrite ok_kuntil in Hok.
    apply andb_true_iff in Hok. destruct Hok as [Hok Hbody]. apply andb_true_iff in Hok. destruct Hok as [Hc Hsync].
    destruct (IHc None Hc (gprev_none false)) as [yc [Hcc [_ Hyc]]]. specialize (Hyc Hsync).
    destruct (IHb (Some NLOP) Hbody (gprev_nl false)) as [yb [Hcb [Hyb _]]].
    exists (LWord (lit "done")). split; [|kw]. rewrite a_kuntil. cbn [app]. unfold KW at 1, SP at 1.
    apply chains_tok; [kw | apply (kw_glue b); [exact Hp | kw] |]. apply chains_sp; [reflexivity|].
    eapply chains_app; [exact Hcc|]. cbn [app]. unfold OP, SP.
    apply chains_tok; [kw | apply endtok_semi; exact Hyc |]. apply chains_sp; [sepw|].
    apply (chains_do_group None (a_clist pf body) yb); [right; reflexivity | reflexivity | exact Hcb | exact Hyb].
  - (* KIf *)
    intros c IHc t IHt es IHes b prev Hok Hp. rewrite ok_kif in Hok.
    apply andb_true_iff in Hok. destruct Hok as [Hok Hes]. apply andb_true_iff in Hok. destruct Hok as [Hok Ht].
    apply andb_true_iff in Hok. destruct Hok as [Hc Hsync].
    destruct (IHc None Hc (gprev_none false)) as [yc [Hcc [_ Hyc]]]. specialize (Hyc Hsync).
    destruct (IHt (Some NLOP) Ht (gprev_nl false)) as [yt [Hct [Hyt _]]].
    destruct (IHes yt Hes Hyt) as [ye [Hce Hye]].
    exists (LWord (lit "fi")). split; [|kw]. rewrite a_kif. cbn [app]. unfold KW at 1, SP at 1.
    apply chains_tok; [kw | apply (kw_glue b); [exact Hp | kw] |]. apply chains_sp; [reflexivity|].
    apply (chains_cond_then (a_clist pf c) (a_clist pf t) yc yt _ _ Hcc Hyc Hct Hyt).
    eapply chains_app; [exact Hce|]. unfold KW.
    apply chains_nl; [apply endtok_sep; [exact Hye | right; reflexivity]|].
    apply chains_tok; [kw | apply nl_glue | apply chains_nil].
  - (* KCase *)
    intros w items IHi b prev Hok Hp. rewrite ok_kcase in Hok. apply andb_true_iff in Hok. destruct Hok as [Hw Hi].
    destruct (IHi (LWord (lit "in")) Hi) as [y [Hc [Hy1 Hy2]]]; [split; [kw | exact I]|].
    exists (LWord (lit "esac")). split; [|kw]. rewrite a_kcase. cbn [app]. unfold KW at 1 2, SP, Wd.
    apply chains_tok; [kw | apply (kw_glue b); [exact Hp | kw] |]. apply chains_sp; [reflexivity|].
    apply chains_tok; [apply word_ok_lex; exact Hw | reflexivity |]. apply chains_sp; [reflexivity|].
    apply chains_tok; [kw | reflexivity |].
    eapply chains_app; [apply chains_bump; exact Hc|]. unfold KW.
    apply chains_nl; [apply sep_after; [exact Hy1 | exact Hy2 | right; reflexivity]|].
    apply chains_tok; [kw | apply nl_glue | apply chains_nil].
  - (* Pipe *)
    intros timed bang c IHc r IHr prev Hok Hp. rewrite ok_pipe in Hok. apply andb_true_iff in Hok. destruct Hok as [Hc Hr].
    assert (Hbody : forall prev', gprev false prev' -> exists y, chains prev' (a_cmd pf c ++ a_cmds pf r) y /\ endtok y = true).
    { intros prev' Hp'. destruct (IHc false prev' Hc Hp') as [y [Hcc Hy]].
      destruct (IHr y Hr Hy) as [y' [Hcr Hy']]. exists y'. split; [|exact Hy']. eapply chains_app; eassumption. }
    assert (Hbang : forall prev', gprev false prev' ->
              exists y, chains prev' ((if bang then [KW "!"; SP] else []) ++ a_cmd pf c ++ a_cmds pf r) y /\ endtok y = true).
    { intros prev' Hp'. destruct bang; [|apply Hbody; exact Hp'].
      destruct (Hbody None (gprev_none false)) as [y [Hcy Hy]]. exists y. split; [|exact Hy].
      cbn [app]. unfold KW, SP. apply chains_tok; [kw | apply (kw_glue false); [exact Hp' | kw] |].
      apply chains_sp; [reflexivity | exact Hcy]. }
    rewrite a_pipe. destruct timed as [[|]|].
    + destruct (Hbang None (gprev_none false)) as [y [Hcy Hy]]. exists y. split; [|exact Hy].
      cbn [app]. unfold KW at 1 2, SP at 1 2.
      apply chains_tok; [kw | apply (kw_glue false); [exact Hp | kw] |]. apply chains_sp; [reflexivity|].
      apply chains_tok; [kw | reflexivity |]. apply chains_sp; [reflexivity | exact Hcy].
    + destruct (Hbang None (gprev_none false)) as [y [Hcy Hy]]. exists y. split; [|exact Hy].
      cbn [app]. unfold KW at 1, SP at 1.
      apply chains_tok; [kw | apply (kw_glue false); [exact Hp | kw] |]. apply chains_sp; [reflexivity | exact Hcy].
    + cbn [app]. apply Hbang. exact Hp.
  - (* CmdsNil *)
    intros y _ Hy. exists y. split; [apply chains_nil | exact Hy].
  - (* CmdsCons *)
    intros c IHc r IHr y Hok Hy. rewrite ok_cmdscons in Hok. apply andb_true_iff in Hok. destruct Hok as [Hc Hr].
    rewrite a_cmdscons. cbn [app]. unfold SP at 1, OP.
    destruct (f_pipe_sep pf) eqn:Ep; cbn [negb] in Hc.
    + destruct (IHc false None Hc (gprev_none false)) as [y1 [Hc1 Hy1]].
      destruct (IHr y1 Hr Hy1) as [y2 [Hc2 Hy2]]. exists y2. split; [|exact Hy2].
      apply chains_sp; [apply endtok_sep; [apply endtok_is_l; exact Hy | left; reflexivity]|].
      apply chains_tok; [kw | reflexivity |]. cbn [app]. unfold SP.
      apply chains_sp; [sepw|]. eapply chains_app; eassumption.
    + destruct (IHc true (Some BAR) Hc) as [y1 [Hc1 Hy1]]; [right; right; split; reflexivity|].
      destruct (IHr y1 Hr Hy1) as [y2 [Hc2 Hy2]]. exists y2. split; [|exact Hy2].
      apply chains_sp; [apply endtok_sep; [apply endtok_is_l; exact Hy | left; reflexivity]|].
      apply chains_tok; [kw | reflexivity |]. cbn [app]. eapply chains_app; eassumption.
  - (* AndOr *)
    intros p IHp r IHr prev Hok Hp. rewrite ok_andor_eq in Hok. apply andb_true_iff in Hok. destruct Hok as [H1 H2].
    destruct (IHp prev H1 Hp) as [y [Hc Hy]]. destruct (IHr y H2 Hy) as [y' [Hc' Hy']].
    exists y'. split; [|exact Hy']. rewrite a_andor_eq. eapply chains_app; eassumption.
  - (* AoNil *)
    intros y _ Hy. exists y. split; [apply chains_nil | exact Hy].
  - (* AoCons *)
    intros is_and p IHp r IHr y Hok Hy. rewrite ok_aocons in Hok. apply andb_true_iff in Hok. destruct Hok as [H1 H2].
    destruct (IHp None H1 (gprev_none false)) as [y1 [Hc1 Hy1]]. destruct (IHr y1 H2 Hy1) as [y2 [Hc2 Hy2]].
    exists y2. split; [|exact Hy2]. rewrite a_aocons. cbn [app]. unfold SP, OP.
    apply chains_sp; [apply endtok_sep; [apply endtok_is_l; exact Hy | left; reflexivity]|].
    apply chains_tok; [destruct is_and; kw | reflexivity |].
    apply chains_sp; [destruct is_and; sepw|]. eapply chains_app; eassumption.
  - (* CList *)
    intros a IHa async r IHr prev Hok Hp. rewrite ok_clist_eq in Hok. apply andb_true_iff in Hok. destruct Hok as [H1 H2].
    destruct (IHa prev H1 Hp) as [y [Hc Hy]]. destruct (IHr y async H2 Hy) as [y' [Hc' [Hy' Hs']]].
    exists y'. split; [|split; [exact Hy' | exact Hs']]. rewrite a_clist_eq. eapply chains_app; eassumption.
  - (* ClNil *)
    intros y async _ Hy. change (a_clrest pf ClNil) with (@nil atom). cbn [is_clnil a_sepop]. rewrite app_nil_r. destruct async.
    + exists AMP. split; [|split; [kw | cbn [last_sync_r negb]; discriminate]].
      unfold OP. apply chains_tok; [kw | apply endtok_amp; exact Hy | apply chains_nil].
    + exists y. split; [apply chains_nil | split; [apply endtok_is_l; exact Hy | intros _; exact Hy]].
  - (* ClCons *)
    intros a IHa async' r IHr y async Hok Hy. rewrite ok_clcons in Hok. apply andb_true_iff in Hok. destruct Hok as [H1 H2].
    destruct (IHa (Some NLOP) H1 (gprev_nl false)) as [y1 [Hc1 Hy1]].
    destruct (IHr y1 async' H2 Hy1) as [y2 [Hc2 [Hy2 Hs2]]].
    exists y2. split; [|split; [exact Hy2 | exact Hs2]].
    rewrite a_clcons. cbn [is_clnil a_sepop app]. unfold OP.
    apply chains_tok; [destruct async; kw | destruct async; [apply endtok_amp | apply endtok_semi]; exact Hy |].
    apply chains_nl; [destruct async; sepw|].
    eapply chains_app; eassumption.
  - (* ElNil *)
    intros y _ Hy. exists y. split; [apply chains_nil | exact Hy].
  - (* ElIf *)
    intros c IHc t IHt r IHr y Hok Hy. rewrite ok_elif in Hok.
    apply andb_true_iff in Hok. destruct Hok as [Hok Hr]. apply andb_true_iff in Hok. destruct Hok as [Hok Ht].
    apply andb_true_iff in Hok. destruct Hok as [Hc Hsync].
    destruct (IHc None Hc (gprev_none false)) as [yc [Hcc [_ Hyc]]]. specialize (Hyc Hsync).
    destruct (IHt (Some NLOP) Ht (gprev_nl false)) as [yt [Hct [Hyt _]]].
    destruct (IHr yt Hr Hyt) as [ye [Hce Hye]].
    exists ye. split; [|exact Hye]. rewrite a_elif. cbn [app]. unfold KW at 1, SP at 1.
    apply chains_nl; [apply endtok_sep; [exact Hy | right; reflexivity]|].
    apply chains_tok; [kw | apply nl_glue |]. apply chains_sp; [reflexivity|].
    apply (chains_cond_then (a_clist pf c) (a_clist pf t) yc yt _ _ Hcc Hyc Hct Hyt). exact Hce.
  - (* ElElse *)
    intros t IHt r IHr y Hok Hy. rewrite ok_elelse in Hok. apply andb_true_iff in Hok. destruct Hok as [Ht Hr].
    destruct (IHt (Some NLOP) Ht (gprev_nl false)) as [yt [Hct [Hyt _]]].
    destruct (IHr yt Hr Hyt) as [ye [Hce Hye]].
    exists ye. split; [|exact Hye]. rewrite a_elelse. cbn [app]. unfold KW.
    apply chains_nl; [apply endtok_sep; [exact Hy | right; reflexivity]|].
    apply chains_tok; [kw | apply nl_glue |]. apply chains_nl; [reflexivity|].
    eapply chains_app; [apply chains_bump; exact Hct | exact Hce].
  - (* CiNil *)
    intros y _ Hy. exists y. split; [apply chains_nil | exact Hy].
  - (* CiSome *)
    intros pats body IHb post r IHr y Hok [Hy1 Hy2]. rewrite ok_cisome in Hok.
    apply andb_true_iff in Hok. destruct Hok as [Hok Hr]. apply andb_true_iff in Hok. destruct Hok as [Hok Hb].
    apply andb_true_iff in Hok. destruct Hok as [Hne Hp].
    destruct (chains_pats_from pats (Some NLOP)) as [w [Hcp Hw]];
      [destruct pats; [discriminate | discriminate] | exact Hp | intros; apply nl_glue |].
    destruct (IHb (Some NLOP) Hb (gprev_nl false)) as [yb [Hcb [Hyb _]]].
    destruct (IHr (LOp (lit (post_text post)))) as [y' [Hc' Hy']]; [exact Hr | split; [destruct post; kw | exact I] |].
    exists y'. split; [|exact Hy']. rewrite a_cisome. cbn [app].
    apply chains_nl; [apply sep_after; [exact Hy1 | exact Hy2 | right; reflexivity]|].
    eapply chains_app; [exact Hcp|]. cbn [app]. unfold OP.
    apply chains_tok; [kw | apply glue_word_op; kw |]. apply chains_nl; [sepw|].
    eapply chains_app; [apply chains_bump; exact Hcb|]. cbn [app].
    apply chains_nl; [apply endtok_sep; [exact Hyb | right; reflexivity]|].
    apply chains_tok; [destruct post; kw | apply nl_glue | exact Hc'].
  - (* CiNone *)
    intros pats post r IHr y Hok [Hy1 Hy2]. rewrite ok_cinone in Hok.
    apply andb_true_iff in Hok. destruct Hok as [Hok Hr]. apply andb_true_iff in Hok. destruct Hok as [Hne Hp].
    destruct (chains_pats_from pats (Some NLOP)) as [w [Hcp Hw]];
      [destruct pats; [discriminate | discriminate] | exact Hp | intros; apply nl_glue |].
    destruct (IHr (LOp (lit (post_text post)))) as [y' [Hc' Hy']]; [exact Hr | split; [destruct post; kw | exact I] |].
    exists y'. split; [|exact Hy']. rewrite a_cinone. cbn [app].
    apply chains_nl; [apply sep_after; [exact Hy1 | exact Hy2 | right; reflexivity]|].
    eapply chains_app; [exact Hcp|]. cbn [app]. unfold OP.
    apply chains_tok; [kw | apply glue_word_op; kw |]. apply chains_nl; [sepw|].
    apply chains_nl; [apply nl_sep|].
    apply chains_tok; [destruct post; kw | apply nl_glue | exact Hc'].
Qed.

End Sep.

(** * Main theorems *)

Theorem show_separates_gen pf c : ok_cmd pf false c = true -> tokenize (show pf c) = lexemes pf c.
Proof.
  intros Hok. destruct (printer_chains pf) as [Hc _].
  destruct (Hc c false None Hok (gprev_none false)) as [y [Hch Hy]].
  assert (Hn : not_ionum (Some y) = true) by (destruct y; [reflexivity | reflexivity | discriminate]).
  destruct (chain_sound _ _ _ Hch Hn) as [H1 H2].
  unfold show, lexemes. apply tokenize_render; assumption.
Qed.

(** the printer before the repairs: redirection lists and pipeline bars glued *)
Definition old_flags : pflags := {| f_redir_sep := false; f_pipe_sep := false; f_for_in_always := true |}.

(** well-formed command of the sub-grammar: non-empty simple commands, plain words, digit fds,
    conditions not ending in & *)
Definition wf (c : cmd) : bool := ok_cmd repaired_flags false c.
(** the class of the open findings KF-C14-redirect-list-glue / KF-C14-pipe-amp-glue: some compound command
    or function body carries a redirection list of two or more redirections or one starting with an
    fd number, or some command behind a bar starts with an &> redirection *)
Definition Known (c : cmd) : Prop := ok_cmd old_flags false c = false.

Theorem show_separates c : wf c = true -> tokenize (show repaired_flags c) = lexemes repaired_flags c.
Proof. apply show_separates_gen. Qed.

Theorem show_separates_outside_known c : ~ Known c -> tokenize (show old_flags c) = lexemes old_flags c.
Proof. unfold Known. intros H. apply show_separates_gen. destruct (ok_cmd old_flags false c); congruence. Qed.

Definition ex_word (s : string) : item := IWord (lit s).
Definition ex_redirs : cmd :=
  CCompound (KBrace (CList (AndOr (Pipe None false (CSimple [] (Some (lit "echo")) [ex_word "a"]) CmdsNil) AoNil) false ClNil))
            (Some [RFile None RWrite (lit "f"); RFile (Some (lit "2")) RDupOut (lit "1")]).
Definition ex_pipe : cmd :=
  CCompound (KBrace (CList (AndOr (Pipe None false (CSimple [] (Some (lit "a")) [])
                                      (CmdsCons (CSimple [IRedir (ROutErr (lit "f") false)] (Some (lit "b")) []) CmdsNil)) AoNil) false ClNil))
            None.

Theorem show_separates_refuted :
  exists c, wf c = true /\ tokenize (show old_flags c) <> lexemes old_flags c.
Proof. exists ex_redirs. split; [vm_compute; reflexivity | vm_compute; discriminate]. Qed.

Theorem show_pipe_refuted :
  exists c, wf c = true /\ tokenize (show old_flags c) <> lexemes old_flags c /\
            tokenize (show {| f_redir_sep := true; f_pipe_sep := false; f_for_in_always := true |} c)
            <> lexemes {| f_redir_sep := true; f_pipe_sep := false; f_for_in_always := true |} c.
Proof. exists ex_pipe. split; [vm_compute; reflexivity | split; vm_compute; discriminate]. Qed.

(** non-vacuity: both examples are well-formed, the repaired printer separates them, and the
    class Known is proper (a command with a single plain redirection is outside it) *)
Definition ex_plain : cmd :=
  CFunction (lit "f") (KBrace (CList (AndOr (Pipe None true (CCompound (KFor (lit "v") (Some [lit "a"; lit "7"])
     (CList (AndOr (Pipe None false (CSimple [] (Some (lit "echo")) [ex_word "x"; IRedir (RFile (Some (lit "2")) RDupOut (lit "1"))]) CmdsNil) AoNil) false ClNil))
     (Some [RFile None RWrite (lit "o")])) (CmdsCons (CSimple [] (Some (lit "cat")) []) CmdsNil)) AoNil) false ClNil)) None.
Example show_separates_examples :
  wf ex_redirs = true /\ wf ex_pipe = true /\ wf ex_plain = true /\ ok_cmd old_flags false ex_plain = true /\
  tokenize (show repaired_flags ex_redirs) = lexemes repaired_flags ex_redirs /\
  show old_flags ex_redirs = lit "{ " ++ [10] ++ lit "    echo a" ++ [10] ++ lit "}> f2>& 1" /\
  show repaired_flags ex_redirs = lit "{ " ++ [10] ++ lit "    echo a" ++ [10] ++ lit "} > f 2>& 1".
Proof. vm_compute. repeat split; reflexivity. Qed.

(** * The printer as it is now (regenerated flags): unconditional *)
Lemma current_is_repaired : current_flags = repaired_flags.
Proof. reflexivity. Qed.

Theorem show_separates_current c : wf c = true -> tokenize (show current_flags c) = lexemes current_flags c.
Proof. rewrite current_is_repaired. apply show_separates. Qed.
