(** Pathname expansion: dot-file policy and sortedness of the model of [Pattern::expand]. *)
From Coq Require Import String Sorted.
From BV Require Import Base.Prelude Base.Codec Glob.Ast Glob.Parse Glob.Regex Glob.Translate Glob.Sem Glob.Expand.
Local Open Scope N_scope.

Lemma str_leb_total a : forall b, str_leb a b = false -> str_leb b a = true.
Proof.
  induction a as [|x a IH]; intros [|y b] H; cbn [str_leb] in *; try discriminate; try reflexivity.
  destruct (N.ltb x y) eqn:Hxy; [discriminate|]. destruct (N.eqb x y) eqn:Exy.
  - apply N.eqb_eq in Exy. subst y. rewrite Hxy, N.eqb_refl. apply IH. exact H.
  - apply N.ltb_ge in Hxy. apply N.eqb_neq in Exy. assert (Hlt : N.ltb y x = true) by (apply N.ltb_lt; lia).
    rewrite Hlt. reflexivity.
Qed.

Section Sort.
  Context {A : Type} (le : A -> A -> bool).
  Hypothesis le_total : forall a b, le a b = false -> le b a = true.
  Notation R := (fun a b => le a b = true).

  Lemma insert_by_in x y l : In y (insert_by le x l) <-> y = x \/ In y l.
  Proof.
    induction l as [|z l IH]; cbn [insert_by].
    - cbn. intuition.
    - destruct (le x z); cbn [In]; [intuition|]. rewrite IH. intuition.
  Qed.

  Lemma sort_by_in y l : In y (sort_by le l) <-> In y l.
  Proof.
    induction l as [|x l IH]; cbn [sort_by fold_right]; [reflexivity|].
    fold (sort_by le l). rewrite insert_by_in, IH. cbn [In]. intuition.
  Qed.

  Lemma insert_by_hdrel a x l : HdRel R a l -> le a x = true -> HdRel R a (insert_by le x l).
  Proof.
    intros Hl Hax. destruct l as [|y l]; cbn [insert_by]; [constructor; exact Hax|].
    destruct (le x y); constructor; [exact Hax | inversion Hl; assumption].
  Qed.

  Lemma insert_by_sorted x l : Sorted R l -> Sorted R (insert_by le x l).
  Proof.
    induction l as [|y l IH]; intros Hs; cbn [insert_by].
    - constructor; constructor.
    - destruct (le x y) eqn:Hxy.
      + constructor; [exact Hs | constructor; exact Hxy].
      + inversion Hs as [|? ? Hs' Hhd]; subst. constructor; [apply IH; exact Hs'|].
        apply insert_by_hdrel; [exact Hhd | apply le_total; exact Hxy].
  Qed.

  Lemma sort_by_sorted l : Sorted R (sort_by le l).
  Proof.
    induction l as [|x l IH]; cbn [sort_by fold_right]; [constructor|]. apply insert_by_sorted. exact IH.
  Qed.
End Sort.

Definition sorted_strs (l : list str) : Prop := Sorted (fun a b => str_leb a b = true) l.

Section Theorems.
  Variable ls : path -> option (list str).
  Variable ex : path -> bool.
  Variable ext ci dotglob : bool.

  Notation step := (step ls ex ext ci dotglob).
  Notation walk := (walk ls ex ext ci dotglob).

  (** the dot-file rule, per component *)
  Definition dot_rule (c n : str) : Prop := starts_dot n = true -> dotglob = true \/ starts_dot c = true.

  Lemma dir_sort_in y l : In y (dir_sort l) -> In y l.
  Proof. unfold dir_sort. destruct expand_sorts_per_dir; [apply sort_by_in | auto]. Qed.

  Lemma step_in c paths p1 : In p1 (step c paths) -> exists p0 n, In p0 paths /\ p1 = p0 ++ [n] /\ dot_rule c n.
  Proof.
    unfold Expand.step. destruct (requires_expansion ext c).
    - intros H. apply in_flat_map in H. destruct H as [p0 [Hp0 H]]. destruct (ls p0) as [es|]; [|destruct H].
      apply in_map_iff in H. destruct H as [e [<- He]]. apply dir_sort_in in He. apply filter_In in He.
      destruct He as [_ Hk]. unfold keep in Hk. apply andb_true_iff in Hk. destruct Hk as [_ Hd].
      exists p0, e. split; [exact Hp0|]. split; [reflexivity|]. intros Hdot. unfold dot_ok in Hd. rewrite Hdot in Hd.
      cbn [negb orb] in Hd. apply orb_true_iff in Hd. exact Hd.
    - intros H. apply filter_In in H. destruct H as [H _]. apply in_map_iff in H. destruct H as [p0 [<- Hp0]].
      exists p0, c. split; [exact Hp0|]. split; [reflexivity|]. intros Hdot. right. exact Hdot.
  Qed.

  Lemma walk_in : forall comps paths r, In r (walk comps paths) ->
    exists p0 suf, In p0 paths /\ r = p0 ++ suf /\ Forall2 dot_rule comps suf.
  Proof.
    induction comps as [|c cs IH]; intros paths r H; cbn [Expand.walk] in H.
    - exists r, []. split; [exact H|]. split; [rewrite app_nil_r; reflexivity | constructor].
    - apply IH in H. destruct H as [p1 [suf [Hp1 [-> Hsuf]]]]. apply step_in in Hp1.
      destruct Hp1 as [p0 [n [Hp0 [-> Hn]]]]. exists p0, (n :: suf). split; [exact Hp0|].
      split; [rewrite <- app_assoc; reflexivity | constructor; assumption].
  Qed.

  (** no name starting with a dot is produced for a component that does not start with a dot,
      unless dotglob is on — for every directory tree *)
  Theorem dotfile_policy comps r : In r (walk comps [[]]) -> Forall2 dot_rule comps r.
  Proof.
    intros H. apply walk_in in H. destruct H as [p0 [suf [Hp0 [-> Hs]]]]. destruct Hp0 as [<- | []]. exact Hs.
  Qed.

  Lemma map_join_single (l : list str) : map join_path (map (fun e => [] ++ [e]) l) = l.
  Proof. induction l as [|e l IH]; [reflexivity|]. change (e :: map join_path (map (fun e => [] ++ [e]) l) = e :: l). rewrite IH. reflexivity. Qed.

  (** a single glob component expands to a sorted list — for every directory listing order *)
  Theorem expand_sorted_single c : requires_expansion ext c = true ->
    (expand_sorts_per_dir || expand_sorts_results = true) ->
    sorted_strs (expand ls ex ext ci dotglob [c]).
  Proof.
    intros Hc Hflag. unfold expand, final_sort. cbn [Expand.walk]. unfold Expand.step. rewrite Hc. cbn [flat_map].
    rewrite app_nil_r. destruct (ls []) as [es|].
    - rewrite map_join_single. unfold dir_sort. revert Hflag.
      destruct expand_sorts_results, expand_sorts_per_dir; intros Hflag; try discriminate;
        apply sort_by_sorted; exact str_leb_total.
    - cbn [map]. destruct expand_sorts_results; [apply sort_by_sorted; exact str_leb_total | constructor].
  Qed.

  (** the final list is sorted (a7bf7f8): every expansion is sorted, whatever the listing order *)
  Theorem expand_sorted_all comps : sorted_strs (expand ls ex ext ci dotglob comps).
  Proof.
    assert (H : expand_sorts_results = true) by reflexivity.
    unfold expand, final_sort. rewrite H. apply sort_by_sorted. exact str_leb_total.
  Qed.
End Theorems.

(** regression example: directories a and a- (whole-path order, '-' before '/') *)
Theorem multilevel_sort_repaired :
  expand_model true false false [lit "a/x"; lit "a-/x"] (lit "*/x") = Some [lit "a-/x"; lit "a/x"] /\
  expand_spec_words true false false [lit "a/x"; lit "a-/x"] (lit "*/x") = [lit "a-/x"; lit "a/x"].
Proof. split; vm_compute; reflexivity. Qed.

Lemma sort_flag : expand_sorts_per_dir || expand_sorts_results = true.
Proof. reflexivity. Qed.
