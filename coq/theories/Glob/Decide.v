(** A decidable sufficient condition for the hypotheses of [translate_correct]. *)
From Coq Require Import String.
From BV Require Import Base.Prelude Base.Codec Glob.Ast Glob.Parse Glob.Regex Glob.Translate Glob.Sem Glob.Known
  Glob.Proofs Glob.ClassProofs.
Local Open Scope N_scope.

Lemma tr_items_valid items : Forall item_valid (tr_items items).
Proof.
  induction items as [|i l IH]; [constructor|]. cbn [tr_items].
  destruct i as [n|lo hi|m]; cbn [tr_item].
  - constructor; [exact I | exact IH].
  - destruct (N.leb (bmem_char lo) (bmem_char hi)) eqn:Hle; [constructor; [exact Hle | exact IH] | exact IH].
  - constructor; [exact I | exact IH].
Qed.

Lemma tr_items_has items x : existsb (fun i => citem_has i x) (tr_items items) = items_have items x.
Proof.
  induction items as [|i l IH]; [reflexivity|]. cbn [tr_items items_have existsb]. fold (items_have l x).
  destruct i as [n|lo hi|m]; cbn [tr_item item_has].
  - cbn [existsb citem_has]. rewrite IH. reflexivity.
  - destruct (N.leb (bmem_char lo) (bmem_char hi)) eqn:Hle.
    + cbn [existsb citem_has]. rewrite IH. reflexivity.
    + rewrite IH. unfold in_range. apply N.leb_gt in Hle.
      destruct (N.leb (bmem_char lo) x) eqn:H1; [|reflexivity]. destruct (N.leb x (bmem_char hi)) eqn:H2; [|reflexivity].
      apply N.leb_le in H1, H2. lia.
  - cbn [existsb citem_has]. rewrite IH. reflexivity.
Qed.

Theorem class_benign_ok ci neg items : class_benign (tr_items items) = true -> class_ok ci neg items.
Proof.
  intros Hb _ x. unfold set_matches.
  destruct (class_benign_sem ci neg (tr_items items) Hb (tr_items_valid items)) as [f [-> Hx]].
  unfold fold_set, bracket_has. destruct ci; rewrite !Hx, !tr_items_has; reflexivity.
Qed.

(** decidable version of [ok] *)
Fixpoint okb (g : gpat) : bool :=
  match g with GNil => true | GCons a r => okb_atom a && okb r end
with okb_atom (a : gatom) : bool :=
  match a with
  | GBracket neg items => class_benign (tr_items items)
  | GExt k alts => (match k with EBang => false | _ => true end) && okb_alts alts
  | _ => true
  end
with okb_alts (l : galts) : bool :=
  match l with AOne g => okb g | ACons g r => okb g && okb_alts r end.

Theorem okb_ok ci :
  (forall g, okb g = true -> ok ci g) /\
  (forall a, okb_atom a = true -> ok_atom ci a) /\
  (forall l, okb_alts l = true -> ok_alts ci l).
Proof.
  apply glob_mutind.
  - intros _. exact I.
  - intros a IHa r IHr H. cbn [okb] in H. apply andb_true_iff in H. destruct H as [H1 H2].
    change (ok_atom ci a /\ ok ci r). split; [exact (IHa H1) | exact (IHr H2)].
  - intros c _. exact I.
  - intros _. exact I.
  - intros _. exact I.
  - intros neg items H. cbn [okb_atom] in H. change (class_ok ci neg items). apply class_benign_ok. exact H.
  - intros k alts IH H. cbn [okb_atom] in H. apply andb_true_iff in H. destruct H as [Hk Ha].
    change (k <> EBang /\ ok_alts ci alts). split; [destruct k; congruence | exact (IH Ha)].
  - intros g IHg H. cbn [okb_alts] in H. change (ok ci g). exact (IHg H).
  - intros g IHg r IHr H. cbn [okb_alts] in H. apply andb_true_iff in H. destruct H as [H1 H2].
    change (ok ci g /\ ok_alts ci r). split; [exact (IHg H1) | exact (IHr H2)].
Qed.

(** the whole-string theorem with decidable hypotheses *)
Theorem translate_correct_dec multi ci g s : okb g = true ->
  whole multi true ci (tr g) s = glob_match ci g s.
Proof. intros H. apply translate_correct. apply (proj1 (okb_ok ci)). exact H. Qed.

Theorem whole_string_dec ci g s : okb g = true ->
  search eff_multi eff_dotall ci (anchored (tr g)) s = glob_match ci g s.
Proof. intros H. apply whole_string. apply (proj1 (okb_ok ci)). exact H. Qed.

(** non-vacuity: a pattern using every construct but !() satisfies the hypothesis *)
Definition ex_yes : str := lit "aqzexyyy*".
Definition ex_no : str := lit "aqzcx*".
Example ex_pat_ok : okb ex_pat = true /\ ex_pat <> GNil /\
  glob_match false ex_pat ex_yes = true /\ glob_match false ex_pat ex_no = false.
Proof. repeat split; try (vm_compute; reflexivity). vm_compute. discriminate. Qed.
