(** C08 correspondence entries. *)
From Coq Require Import String.
From BV Require Import Base.Prelude Base.Codec Glob.Ast Glob.Parse Glob.Regex Glob.Translate Glob.Sem Glob.Known Glob.Expand Glob.Budget.

Definition has_opt (o : str) (c : N) : bool := mem c o.

Definition enum_level (alpha : str) (prev : list str) : list str :=
  flat_map (fun p => map (fun c => p ++ [c]) alpha) prev.
Fixpoint enum_strs (alpha : str) (n : nat) (prev : list str) : list str :=
  match n with
  | O => []
  | S n' => let nx := enum_level alpha prev in nx ++ enum_strs alpha n' nx
  end.
Definition all_strs (alpha : str) (n : nat) : list str := [] :: enum_strs alpha n [[]].

Definition bit (b : bool) : char := if b then 49%N else 48%N.

(** model of Pattern::exactly_matches on many subjects, the regex being built once.
    [budget = false]: the proven matcher [search]; [budget = true]: the step-budgeted [search_f]
    ('F' = budget exhausted, inconclusive). *)
Definition model_bits_with (budget : bool) (ext ci : bool) (ps : list piece) (ss : list str) : str :=
  let r := pattern_regex ext ps in
  match re_status r with
  | SErr => map (fun _ => 69%N) ss
  | SUnm => map (fun _ => 85%N) ss
  | SOk =>
      if budget then
        map (fun s => match search_f eff_multi eff_dotall ci r s engine_budget with
                      | Some b => bit b | None => 70%N end) ss
      else map (fun s => bit (search eff_multi eff_dotall ci r s)) ss
  end.
Definition model_bits := model_bits_with true.

Definition spec_pat (ext : bool) (ps : list piece) : gpat :=
  fold_right (fun p g => match p with PPat s => gapp (spec_parse ext s) g | PLit s => gapp (lits s) g end) GNil ps.

(** 'F' where the cut enumeration of the specification is not affordable *)
Definition spec_bits (ext ci : bool) (ps : list piece) (ss : list str) : str :=
  let g := spec_pat ext ps in
  map (fun s => if spec_affordable g s then bit (glob_match ci g s) else 70%N) ss.

Definition spec_ml_bits (ext ci : bool) (ps : list piece) (ss : list str) : str :=
  let g := spec_pat ext ps in
  map (fun s => if negb (spec_affordable g s) then 70%N
                else if mem 10%N s then bit (spec_multiline ci g s) else bit (glob_match ci g s)) ss.

Definition class_flags (ext : bool) (p : str) : str :=
  [bit (k_negation ext p); bit (k_lead_rbracket ext p); bit (k_esc_alnum ext p);
   bit (k_class_ops ext p); bit (k_paren_nest ext p)].

(** glob_re: <opts> <pattern> -> <regex text> <final text changed by add_missing_escape? 0/1>
    <engine status of the regex: 1 ok / 0 error or unmodelled> <class flags> *)
Definition entry_glob_re (a : list str) : list str :=
  match a with
  | o :: p :: _ =>
      let ext := has_opt o 101 in
      let g := parse ext p in
      let t := print_regex (tr g) in
      let full := print_regex (anchored (tr g)) in
      [t; [bit (negb (str_eqb (add_missing_escape full) full))];
       [bit (match re_status (tr g) with SOk => true | _ => false end)]; class_flags ext p]
  | _ => []
  end.

(** glob_m: <opts> <pattern> <alphabet> <maxlen> -> <model bits> <spec bits> <spec-multiline bits> <class flags> *)
Definition entry_glob_m (a : list str) : list str :=
  match a with
  | o :: p :: al :: n :: _ =>
      let ext := has_opt o 101 in
      let ci := has_opt o 105 in
      let ss := all_strs al (dec_nat n) in
      let mb := model_bits_with true ext ci [PPat p] ss in
      let mp := model_bits_with false ext ci [PPat p] ss in
      [mp; spec_bits ext ci [PPat p] ss; spec_ml_bits ext ci [PPat p] ss; class_flags ext p;
       [bit (forallb (fun xy => N.eqb (fst xy) (snd xy) || N.eqb (fst xy) 70) (combine mb mp) && Nat.eqb (length mb) (length mp))]]
  | _ => []
  end.

(** glob_ms: <opts> <pattern> <quoted prefix> <string>* -> same fields as glob_m *)
Definition entry_glob_ms (a : list str) : list str :=
  match a with
  | o :: p :: q :: ss =>
      let ext := has_opt o 101 in
      let ci := has_opt o 105 in
      let ps := match q with [] => [PPat p] | _ => [PLit q; PPat p] end in
      [model_bits ext ci ps ss; spec_bits ext ci ps ss; spec_ml_bits ext ci ps ss; class_flags ext p]
  | _ => []
  end.

(** glob_fs: <opts> <pattern> <name>* -> model words ; "||" ; specification words
    opts: e extglob, i nocaseglob, d dotglob *)
Definition entry_glob_fs (a : list str) : list str :=
  match a with
  | o :: p :: names =>
      let ext := has_opt o 101 in
      let ci := has_opt o 105 in
      let dotglob := has_opt o 100 in
      (match expand_model ext ci dotglob names p with Some l => l | None => [lit "?unmodelled"] end)
        ++ [[124%N; 124%N]] ++ expand_spec_words ext ci dotglob names p
  | _ => []
  end.
