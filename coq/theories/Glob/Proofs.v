(** Theorems about the pattern translation: the backtracking engine model run on the emitted regex
    decides exactly the language that the specification assigns to the glob AST. *)
From Coq Require Import String.
From BV Require Import Base.Prelude Base.Codec Glob.Ast Glob.Parse Glob.Regex Glob.Translate Glob.Sem Glob.Known.
Local Open Scope N_scope.

(** ** Generalities *)

Lemma existsb_splits (f : str * str -> bool) (s : str) :
  existsb f (splits s) = true <-> exists u v, s = u ++ v /\ f (u, v) = true.
Proof.
  revert f. induction s as [|c r IH]; intros f; cbn [splits existsb].
  - rewrite orb_false_r. split.
    + intros H. exists [], []. split; [reflexivity|exact H].
    + intros [u [v [E H]]]. symmetry in E. apply app_eq_nil in E. destruct E as [-> ->]. exact H.
  - rewrite orb_true_iff. rewrite existsb_exists. split.
    + intros [H | [x [Hin Hx]]].
      * exists [], (c :: r). split; [reflexivity|exact H].
      * apply in_map_iff in Hin. destruct Hin as [[u v] [Ex Hin]]. subst x. cbn [fst snd] in Hx.
        assert (Hs : existsb (fun uv => f (c :: fst uv, snd uv)) (splits r) = true).
        { apply existsb_exists. exists (u, v). split; [exact Hin| exact Hx]. }
        apply IH in Hs. destruct Hs as [u' [v' [E Hf]]]. exists (c :: u'), v'. cbn [fst snd] in Hf.
        split; [rewrite E; reflexivity | exact Hf].
    + intros [u [v [E H]]]. destruct u as [|c' u].
      * left. cbn [app] in E. subst v. exact H.
      * right. cbn [app] in E. injection E as -> Er.
        assert (Hs : existsb (fun uv => f (c' :: fst uv, snd uv)) (splits r) = true).
        { apply IH. exists u, v. split; [exact Er | exact H]. }
        apply existsb_exists in Hs. destruct Hs as [[u' v'] [Hin Hx]]. cbn [fst snd] in Hx.
        exists (c' :: u', v'). split; [|exact Hx].
        apply in_map_iff. exists (u', v'). split; [reflexivity| exact Hin].
Qed.

Lemma is_nil_true (s : str) : is_nil s = true <-> s = [].
Proof. destruct s; cbn; split; congruence. Qed.

(** the previous-char component after consuming [u] *)
Definition adv (p : option char) (u : str) : option char := fold_left (fun _ c => Some c) u p.

Lemma adv_app p u v : adv p (u ++ v) = adv (adv p u) v.
Proof. unfold adv. apply fold_left_app. Qed.

Lemma rep_fuel (f : str -> bool) : forall n m w, (length w <= n)%nat -> (length w <= m)%nat -> rep f n w = rep f m w.
Proof.
  induction n as [|n IH]; intros m w Hn Hm.
  - destruct w; [destruct m; reflexivity | cbn in Hn; lia].
  - destruct w as [|c w]; [destruct m; reflexivity|].
    destruct m as [|m]; [cbn in Hm; lia|].
    cbn [rep].
    apply eq_true_iff_eq. rewrite !existsb_splits.
    split; intros [u [v [E H]]]; exists u, v; (split; [exact E|]); cbn [fst snd] in *;
      rewrite !andb_true_iff in *; destruct H as [[Hu Hf] Hr]; (split; [split; assumption|]);
      destruct u as [|c' u]; try discriminate;
      assert (Hl : (length v <= length w)%nat) by
        (apply (f_equal (@length _)) in E; rewrite app_length in E; cbn [length] in E; unfold char in *; lia);
      cbn [length] in Hn, Hm; [rewrite <- (IH m v) | rewrite (IH m v)]; try assumption; lia.
Qed.

Lemma rep_unfold (f : str -> bool) n w : (length w <= n)%nat ->
  rep f n w = true <->
  w = [] \/ exists u v, w = u ++ v /\ u <> [] /\ f u = true /\ rep f (length v) v = true.
Proof.
  intros Hn. destruct w as [|c w].
  - destruct n; cbn; split; auto.
  - destruct n as [|n]; [cbn in Hn; lia|]. cbn [rep]. rewrite existsb_splits. split.
    + intros [u [v [E H]]]. right. cbn [fst snd] in H. rewrite !andb_true_iff in H. destruct H as [[Hu Hf] Hr].
      exists u, v. split; [exact E|]. split; [destruct u; [discriminate|congruence]|]. split; [exact Hf|].
      destruct u as [|c' u]; [discriminate|].
      assert (Hl : (length v <= n)%nat).
      { apply (f_equal (@length _)) in E. rewrite app_length in E. cbn [length] in E, Hn. unfold char in *. lia. }
      rewrite (rep_fuel f (length v) n v); [exact Hr | lia | exact Hl].
    + intros [H | [u [v [E [Hu [Hf Hr]]]]]]; [discriminate|].
      exists u, v. split; [exact E|]. cbn [fst snd]. rewrite !andb_true_iff. split; [split|].
      * destruct u; [congruence | reflexivity].
      * exact Hf.
      * destruct u as [|c' u]; [congruence|].
        assert (Hl : (length v <= n)%nat).
        { apply (f_equal (@length _)) in E. rewrite app_length in E. cbn [length] in E, Hn. unfold char in *. lia. }
        rewrite (rep_fuel f n (length v) v); [exact Hr | exact Hl | lia].
Qed.

(** ** The matcher *)

Section Engine.
  Variable multi : bool.
  Variable ci : bool.
  Notation rm := (rm multi true ci).
  Notation star_loop := (star_loop).

  Lemma is_some_orelse (a : res) (b : unit -> res) : is_some (orelse a b) = is_some a || is_some (b tt).
  Proof. destruct a; reflexivity. Qed.

  (** A matcher [m] *decides* a language [L] when a match succeeds exactly if the input splits
      into a word of [L] and a remainder the continuation accepts. *)
  Definition decides (m : option char -> str -> kont -> res) (L : str -> bool) : Prop :=
    forall p s k, is_some (m p s k) = true <->
                  exists u v, s = u ++ v /\ L u = true /\ is_some (k (adv p u) v) = true.

  Lemma star_decides m1 L : decides m1 L ->
    forall n p s k, (length s <= n)%nat ->
      (is_some (star_loop m1 n p s k) = true <->
       exists u v, s = u ++ v /\ rep L (length u) u = true /\ is_some (k (adv p u) v) = true).
  Proof.
    intros Hm. induction n as [|n IH]; intros p s k Hn.
    - destruct s; [|cbn in Hn; lia]. cbn [Regex.star_loop]. split.
      + intros H. exists [], []. repeat split; assumption.
      + intros [u [v [E [_ H]]]]. symmetry in E. apply app_eq_nil in E. destruct E as [-> ->]. exact H.
    - cbn [Regex.star_loop]. rewrite is_some_orelse, orb_true_iff. rewrite (Hm p s _). split.
      + intros [[u [v [E [Hu Hk]]]] | Hk].
        * destruct (Nat.ltb (length v) (length s)) eqn:Hlt; [|discriminate].
          apply Nat.ltb_lt in Hlt.
          assert (Hv : (length v <= n)%nat) by lia.
          apply (IH _ _ _ Hv) in Hk. destruct Hk as [u2 [v2 [E2 [Hr Hk]]]].
          exists (u ++ u2), v2. split; [rewrite E, E2, app_assoc; reflexivity|]. split.
          -- apply (rep_unfold L (length (u ++ u2)) (u ++ u2)); [lia|]. right. exists u, u2.
             split; [reflexivity|]. split.
             ++ intros ->. subst s. cbn in Hlt. lia.
             ++ split; assumption.
          -- rewrite adv_app. exact Hk.
        * exists [], s. split; [reflexivity|]. split; [reflexivity | exact Hk].
      + intros [w [v2 [E [Hr Hk]]]].
        apply (rep_unfold L (length w) w) in Hr; [|lia]. destruct Hr as [-> | [u [u2 [Ew [Hu [Hf Hr]]]]]].
        * right. cbn in E. subst s. exact Hk.
        * left. exists u, (u2 ++ v2). split; [rewrite E, Ew, app_assoc; reflexivity|]. split; [exact Hf|].
          assert (Hlen : (length (u2 ++ v2) < length s)%nat).
          { rewrite E, Ew, !app_length. destruct u; [congruence|cbn [length]; lia]. }
          apply Nat.ltb_lt in Hlen. rewrite Hlen.
          apply IH; [apply Nat.ltb_lt in Hlen; lia|].
          exists u2, v2. split; [reflexivity|]. split; [exact Hr|]. rewrite <- adv_app, <- Ew. exact Hk.
  Qed.

  (** one character *)
  Lemma one_char_decides (test : char -> bool) (m : option char -> str -> kont -> res) :
    (forall p s k, m p s k = match s with x :: s' => if test x then k (Some x) s' else None | [] => None end) ->
    decides m (fun u => match u with [x] => test x | _ => false end).
  Proof.
    intros Hm p s k. rewrite Hm. split.
    - destruct s as [|x s']; [discriminate|]. destruct (test x) eqn:Ht; [|discriminate].
      intros H. exists [x], s'. split; [reflexivity|]. split; [exact Ht | exact H].
    - intros [u [v [E [Hu H]]]]. destruct u as [|x [|y u]]; try discriminate.
      cbn [app] in E. subst s. rewrite Hu. exact H.
  Qed.

  Lemma cat_decides m1 m2 L1 L2 : decides m1 L1 -> decides m2 L2 ->
    decides (fun p s k => m1 p s (fun p' s' => m2 p' s' k))
            (fun w => existsb (fun uv => L1 (fst uv) && L2 (snd uv)) (splits w)).
  Proof.
    intros H1 H2 p s k. rewrite (H1 p s _). split.
    - intros [u [v [E [Hu Hk]]]]. apply H2 in Hk. destruct Hk as [u2 [v2 [E2 [Hu2 Hk]]]].
      exists (u ++ u2), v2. split; [rewrite E, E2, app_assoc; reflexivity|]. split.
      + apply existsb_splits. exists u, u2. split; [reflexivity|]. cbn [fst snd]. rewrite Hu, Hu2. reflexivity.
      + rewrite adv_app. exact Hk.
    - intros [w [v2 [E [Hw Hk]]]]. apply existsb_splits in Hw. destruct Hw as [u [u2 [Ew Hw]]].
      cbn [fst snd] in Hw. apply andb_true_iff in Hw. destruct Hw as [Hu Hu2].
      exists u, (u2 ++ v2). split; [rewrite E, Ew, app_assoc; reflexivity|]. split; [exact Hu|].
      apply H2. exists u2, v2. split; [reflexivity|]. split; [exact Hu2|]. rewrite <- adv_app, <- Ew. exact Hk.
  Qed.

  Lemma alt_decides m1 m2 L1 L2 : decides m1 L1 -> decides m2 L2 ->
    decides (fun p s k => orelse (m1 p s k) (fun _ => m2 p s k)) (fun w => L1 w || L2 w).
  Proof.
    intros H1 H2 p s k. rewrite is_some_orelse, orb_true_iff, (H1 p s k), (H2 p s k). split.
    - intros [[u [v [E [Hu Hk]]]] | [u [v [E [Hu Hk]]]]]; exists u, v; rewrite Hu; repeat split; auto using orb_true_r.
    - intros [u [v [E [Hu Hk]]]]. apply orb_true_iff in Hu. destruct Hu as [Hu|Hu]; [left|right]; exists u, v; auto.
  Qed.

  Lemma eps_decides : decides (fun p s k => k p s) is_nil.
  Proof.
    intros p s k. split.
    - intros H. exists [], s. auto.
    - intros [u [v [E [Hu Hk]]]]. apply is_nil_true in Hu. subst u. cbn in E. subst v. exact Hk.
  Qed.

  Lemma decides_ext m L1 L2 : (forall w, L1 w = L2 w) -> decides m L1 -> decides m L2.
  Proof.
    intros He H p s k. rewrite (H p s k). split; intros [u [v [E [Hu Hk]]]]; exists u, v.
    - rewrite <- He. auto.
    - rewrite He. auto.
  Qed.

  Lemma star_loop_decides m1 L : decides m1 L ->
    decides (fun p s k => star_loop m1 (length s) p s k) (fun w => rep L (length w) w).
  Proof. intros Hm p s k. apply (star_decides m1 L Hm); lia. Qed.

  (** ** The translation *)

  Lemma lower_same c : lower c = to_lower c.
  Proof. reflexivity. Qed.
  Lemma upper_same c : upper c = to_upper c.
  Proof. reflexivity. Qed.
  Lemma chr_eq_same a b : chr_eq ci a b = ch_eq ci a b.
  Proof. reflexivity. Qed.

  (** The hypothesis on bracket expressions: the engine reads the emitted class text as the union
      of the members ([class_benign_ok] below gives a syntactic sufficient condition). *)
  Definition class_ok (neg : bool) (items : list bitem) : Prop :=
    tr_items items <> [] ->
    forall x, set_matches ci neg (tr_items items) x = xorb neg (bracket_has ci items x).

  Fixpoint ok (g : gpat) : Prop :=
    match g with GNil => True | GCons a r => ok_atom a /\ ok r end
  with ok_atom (a : gatom) : Prop :=
    match a with
    | GBracket neg items => class_ok neg items
    | GExt k alts => k <> EBang /\ ok_alts alts
    | _ => True
    end
  with ok_alts (l : galts) : Prop :=
    match l with AOne g => ok g | ACons g r => ok g /\ ok_alts r end.

  Lemma dead_items (items : list bitem) : tr_items items = [] -> forall x, items_have items x = false.
  Proof.
    induction items as [|i l IH]; intros H x; [reflexivity|].
    cbn [tr_items] in H. destruct (tr_item i) eqn:Hi; [discriminate|].
    cbn [items_have existsb]. fold (items_have l x). rewrite (IH H x), orb_false_r.
    destruct i as [n|lo hi|m]; cbn [tr_item] in Hi; try discriminate.
    destruct (N.leb (bmem_char lo) (bmem_char hi)) eqn:Hle; [discriminate|].
    cbn [item_has]. unfold in_range. apply N.leb_gt in Hle.
    destruct (N.leb (bmem_char lo) x) eqn:H1; [|reflexivity]. destruct (N.leb x (bmem_char hi)) eqn:H2; [|reflexivity].
    apply N.leb_le in H1, H2. lia.
  Qed.

  Lemma dead_bracket_has (items : list bitem) : tr_items items = [] -> forall x, bracket_has ci items x = false.
  Proof.
    intros H x. unfold bracket_has. destruct ci; rewrite ?(dead_items items H); reflexivity.
  Qed.

  Theorem tr_decides :
    (forall g, ok g -> decides (rm (tr g)) (gm ci g)) /\
    (forall a, ok_atom a -> decides (rm (tr_atom a)) (gm_atom ci a)) /\
    (forall l, ok_alts l -> decides (rm (tr_alts l)) (gm_alts ci l)).
  Proof.
    apply glob_mutind.
    - (* GNil *) intros _. cbn [tr gm]. apply eps_decides.
    - (* GCons *) intros a IHa r IHr [Ha Hr]. cbn [tr gm].
      exact (cat_decides _ _ _ _ (IHa Ha) (IHr Hr)).
    - (* GLit *) intros c _. cbn [tr_atom gm_atom].
      apply (one_char_decides (fun x => chr_eq ci c x)). intros p s k. reflexivity.
    - (* GAny *) intros _. cbn [tr_atom gm_atom].
      apply (decides_ext _ (fun u => match u with [x] => true | _ => false end)).
      + intros [|x [|y w]]; reflexivity.
      + apply (one_char_decides (fun _ => true)). intros p s k. cbn [Regex.rm orb]. reflexivity.
    - (* GStar *) intros _. cbn [tr_atom gm_atom].
      assert (Hany : decides (rm RAny) (fun u => match u with [x] => true | _ => false end)).
      { apply (one_char_decides (fun _ => true)). intros p s k. cbn [Regex.rm orb]. reflexivity. }
      apply (decides_ext _ (fun w => rep (fun u => match u with [x] => true | _ => false end) (length w) w)).
      + intros w. induction w as [|c w IH]; [reflexivity|].
        apply (rep_unfold _ (length (c :: w)) (c :: w)); [lia|]. right.
        exists [c], w. split; [reflexivity|]. split; [congruence|]. split; [reflexivity|exact IH].
      + cbn [Regex.rm]. exact (star_loop_decides _ _ Hany).
    - (* GBracket *) intros neg items Hok. cbn [tr_atom gm_atom ok_atom] in *.
      destruct (tr_items items) as [|i0 l0] eqn:Hti.
      + destruct neg.
        * apply (decides_ext _ (fun u => match u with [x] => true | _ => false end)).
          -- intros [|x [|y w]]; try reflexivity. rewrite (dead_bracket_has items Hti). reflexivity.
          -- apply (one_char_decides (fun _ => true)). intros p s k. cbn [Regex.rm orb]. reflexivity.
        * apply (decides_ext _ (fun u => false)).
          -- intros [|x [|y w]]; try reflexivity. rewrite (dead_bracket_has items Hti). reflexivity.
          -- intros p s k. cbn [Regex.rm is_some]. split; [discriminate|]. intros [u [v [_ [H _]]]]. discriminate.
      + rewrite <- Hti.
        assert (Hne : tr_items items <> []) by (rewrite Hti; discriminate).
        apply (one_char_decides (fun x => xorb neg (bracket_has ci items x))).
        intros p s k. cbn [Regex.rm]. destruct s as [|x s']; [reflexivity|]. rewrite (Hok Hne x). reflexivity.
    - (* GExt *) intros k alts IH [Hk Hal]. specialize (IH Hal). cbn [tr_atom gm_atom].
      destruct k; try congruence.
      + (* EPlus *) cbn [Regex.rm].
        apply (decides_ext _ (fun w => existsb (fun uv => gm_alts ci alts (fst uv) && rep (gm_alts ci alts) (length (snd uv)) (snd uv)) (splits w))).
        * reflexivity.
        * exact (cat_decides _ _ _ _ IH (star_loop_decides _ _ IH)).
      + (* EAt *) cbn [Regex.rm]. exact IH.
      + (* EQuest *) cbn [Regex.rm].
        apply (decides_ext _ (fun w => gm_alts ci alts w || is_nil w)).
        * intros w. apply orb_comm.
        * exact (alt_decides _ _ _ _ IH eps_decides).
      + (* EStar *) cbn [Regex.rm]. exact (star_loop_decides _ _ IH).
    - (* AOne *) intros g IH Hg. cbn [tr_alts gm_alts]. exact (IH Hg).
    - (* ACons *) intros g IHg r IHr [Hg Hr]. cbn [tr_alts gm_alts].
      exact (alt_decides _ _ _ _ (IHg Hg) (IHr Hr)).
  Qed.

  (** matching the whole subject *)
  Theorem translate_correct g s : ok g -> whole multi true ci (tr g) s = glob_match ci g s.
  Proof.
    intros Hok. apply eq_true_iff_eq. unfold whole, glob_match.
    rewrite (proj1 tr_decides g Hok None s _). split.
    - intros [u [v [E [Hu Hk]]]]. destruct v; [|discriminate]. rewrite app_nil_r in E. subst u. exact Hu.
    - intros H. exists s, []. rewrite app_nil_r. auto.
  Qed.
End Engine.

(** ** Anchoring: [^r$] searched anywhere = [r] matched against the whole subject, unless the
    [m] flag is on. *)
Section Anchors.
  Variable dotall : bool.
  Variable ci : bool.

  Lemma star_loop_ext (m1 : option char -> str -> kont -> res) :
    (forall p s k1 k2, (forall p' s', k1 p' s' = k2 p' s') -> m1 p s k1 = m1 p s k2) ->
    forall n p s k1 k2, (forall p' s', k1 p' s' = k2 p' s') ->
      star_loop m1 n p s k1 = star_loop m1 n p s k2.
  Proof.
    intros Hm. induction n as [|n IH]; intros p s k1 k2 Hk; cbn [star_loop].
    - apply Hk.
    - rewrite (Hm p s _ (fun p' s' => if Nat.ltb (length s') (length s) then star_loop m1 n p' s' k2 else None)).
      + rewrite (Hk p s). reflexivity.
      + intros p' s'. destruct (Nat.ltb (length s') (length s)); [apply IH; exact Hk | reflexivity].
  Qed.

  Lemma lazy_loop_ext (m1 : option char -> str -> kont -> res) :
    (forall p s k1 k2, (forall p' s', k1 p' s' = k2 p' s') -> m1 p s k1 = m1 p s k2) ->
    forall n p s k1 k2, (forall p' s', k1 p' s' = k2 p' s') ->
      lazy_loop m1 n p s k1 = lazy_loop m1 n p s k2.
  Proof.
    intros Hm. induction n as [|n IH]; intros p s k1 k2 Hk; cbn [lazy_loop].
    - apply Hk.
    - rewrite (Hk p s).
      rewrite (Hm p s _ (fun p' s' => if Nat.ltb (length s') (length s) then lazy_loop m1 n p' s' k2 else None)).
      + reflexivity.
      + intros p' s'. destruct (Nat.ltb (length s') (length s)); [apply IH; exact Hk | reflexivity].
  Qed.

  Lemma rm_ext multi r : forall p s k1 k2, (forall p' s', k1 p' s' = k2 p' s') ->
    rm multi dotall ci r p s k1 = rm multi dotall ci r p s k2.
  Proof.
    induction r; intros p s k1 k2 Hk; cbn [rm].
    - apply Hk.
    - destruct s; [reflexivity|]. destruct (chr_eq ci c c0); [apply Hk | reflexivity].
    - destruct s; [reflexivity|]. destruct (dotall || negb (N.eqb c 10)); [apply Hk | reflexivity].
    - destruct s; [reflexivity|]. destruct (set_matches ci neg items c); [apply Hk | reflexivity].
    - reflexivity.
    - apply IHr1. intros p' s'. apply IHr2. exact Hk.
    - rewrite (IHr1 p s k1 k2 Hk), (IHr2 p s k1 k2 Hk). reflexivity.
    - apply IHr. exact Hk.
    - apply IHr. exact Hk.
    - apply star_loop_ext; [exact IHr | exact Hk].
    - apply IHr. intros p' s'. apply star_loop_ext; [exact IHr | exact Hk].
    - rewrite (IHr p s k1 k2 Hk), (Hk p s). reflexivity.
    - apply IHr. intros p' s'. apply lazy_loop_ext; [exact IHr | exact Hk].
    - destruct (rm multi dotall ci r p s kid); [reflexivity | apply Hk].
    - destruct (rm multi dotall ci r p s kid) as [[p' s']|]; [apply Hk | reflexivity].
    - destruct (at_bol multi p); [apply Hk | reflexivity].
    - destruct (at_eol multi s); [apply Hk | reflexivity].
  Qed.

  Theorem anchored_search_is_whole r s :
    search false dotall ci (RCat RBol (RCat r REol)) s = whole false dotall ci r s.
  Proof.
    unfold search, whole.
    assert (Hlater : forall c s', search_from false dotall ci (RCat RBol (RCat r REol)) (Some c) s' = false).
    { intros c s'. revert c. induction s' as [|d s' IH]; intros c; cbn [search_from rm at_bol andb is_some orb]; [reflexivity|].
      apply IH. }
    assert (Hfirst : rm false dotall ci (RCat RBol (RCat r REol)) None s kid =
                     rm false dotall ci r None s (fun p' s' => match s' with [] => Some (p', s') | _ => None end)).
    { cbn [rm at_bol]. apply rm_ext. intros p' s'. cbn [rm at_eol andb]. destruct s'; reflexivity. }
    destruct s as [|c s'].
    - cbn [search_from]. rewrite Hfirst, orb_false_r. reflexivity.
    - cbn [search_from]. rewrite Hfirst, Hlater, orb_false_r. reflexivity.
  Qed.
End Anchors.

(** ** Literal pieces: a quoted piece, escaped by [Pattern::to_regex_str] with
    [regex_char_is_special] and then read by the pattern PEG, is the sequence of its characters,
    and matches exactly itself. *)

Lemma special_facts :
  regex_special 92 = true /\ regex_special 91 = true /\ regex_special 63 = true /\
  regex_special 42 = true /\ regex_special 40 = true.
Proof. repeat split; reflexivity. Qed.

Lemma not_special_neq c x : regex_special c = false -> regex_special x = true -> N.eqb c x = false.
Proof.
  intros Hc Hx. destruct (N.eqb c x) eqn:E; [|reflexivity]. apply N.eqb_eq in E. subst. congruence.
Qed.

Lemma head_escape_lit q d r : escape_lit q = d :: r -> N.eqb d 40 = false.
Proof.
  destruct q as [|c q]; [discriminate|]. unfold escape_lit. cbn [flat_map].
  destruct (regex_special c) eqn:Hc; cbn [app]; intros H; injection H as <- _.
  - reflexivity.
  - apply not_special_neq; [exact Hc | apply special_facts].
Qed.

Lemma parse_seq_S f ext inb c r :
  parse_seq (S f) ext inb (c :: r) =
  if inb && (N.eqb c c_bar || N.eqb c c_rparen) then (GNil, c :: r)
  else match parse_piece f ext (c :: r) with
       | Some (a, r1) => let '(g, r') := parse_seq f ext inb r1 in (GCons a g, r')
       | None => (GNil, c :: r)
       end.
Proof. reflexivity. Qed.

Lemma parse_piece_S f ext c r :
  parse_piece (S f) ext (c :: r) =
  first_some (if N.eqb c c_bslash then match r with d :: r' => Some (GLit d, r') | [] => None end else None)
  (fun _ => first_some (if N.eqb c c_lbrack then parse_bracket r else None)
  (fun _ => first_some
     (if ext then
        match ext_kind c, r with
        | Some k, d :: r' =>
            if N.eqb d c_lparen then
              match parse_alts f ext r' with
              | Some (al, r'') => Some (GExt k al, r'')
              | None => None
              end
            else None
        | _, _ => None
        end
      else None)
  (fun _ => if N.eqb c c_quest then Some (GAny, r) else if N.eqb c c_star then Some (GStar, r) else Some (GLit c, r)))).
Proof. reflexivity. Qed.

Lemma parse_seq_escape_lit ext : forall q fuel, (length q + 2 <= fuel)%nat ->
  parse_seq fuel ext false (escape_lit q) = (lits q, []).
Proof.
  induction q as [|c q IH]; intros fuel Hf.
  - destruct fuel; [lia|]. reflexivity.
  - destruct fuel as [|f]; [lia|]. destruct f as [|f']; [cbn [length] in Hf; lia|].
    assert (Hrest : parse_seq (S f') ext false (escape_lit q) = (lits q, [])) by (apply IH; cbn [length] in Hf; lia).
    change (escape_lit (c :: q)) with ((if regex_special c then [92; c] else [c]) ++ escape_lit q).
    destruct (regex_special c) eqn:Hc; cbn [app].
    + rewrite parse_seq_S. cbn [andb]. rewrite parse_piece_S. unfold c_bslash. rewrite N.eqb_refl. cbn [first_some].
      rewrite Hrest. reflexivity.
    + destruct special_facts as [H92 [H91 [H63 [H42 H40]]]].
      rewrite parse_seq_S. cbn [andb]. rewrite parse_piece_S.
      unfold c_bslash, c_lbrack, c_quest, c_star, c_lparen.
      rewrite (not_special_neq c 92 Hc H92), (not_special_neq c 91 Hc H91),
              (not_special_neq c 63 Hc H63), (not_special_neq c 42 Hc H42).
      cbn [first_some].
      assert (Hext : (if ext then
               match ext_kind c, escape_lit q with
               | Some k, d :: r' =>
                   if N.eqb d 40 then
                     match parse_alts f' ext r' with
                     | Some (al, r'') => Some (GExt k al, r'')
                     | None => None
                     end
                   else None
               | _, _ => None
               end
             else None) = None).
      { destruct ext; [|reflexivity]. destruct (ext_kind c); [|reflexivity].
        destruct (escape_lit q) as [|d r'] eqn:Hq; [reflexivity|].
        rewrite (head_escape_lit q d r' Hq). reflexivity. }
      rewrite Hext. cbn [first_some]. rewrite Hrest. reflexivity.
Qed.

Lemma escape_lit_length q : (length q <= length (escape_lit q))%nat.
Proof.
  induction q as [|c q IH]; [cbn; lia|].
  change (escape_lit (c :: q)) with ((if regex_special c then [92; c] else [c]) ++ escape_lit q).
  rewrite app_length. cbn [length]. destruct (regex_special c); cbn [length]; unfold char in *; lia.
Qed.

Theorem parse_escape_lit ext q : parse ext (escape_lit q) = lits q.
Proof.
  unfold parse. rewrite parse_seq_escape_lit; [reflexivity|].
  unfold parse_fuel. pose proof (escape_lit_length q). unfold char in *. lia.
Qed.

Lemma gm_lits q : forall s, glob_match false (lits q) s = str_eqb q s.
Proof.
  unfold glob_match. induction q as [|c q IH]; intros s.
  - destruct s; reflexivity.
  - cbn [lits fold_right gm]. fold (lits q). apply eq_true_iff_eq. rewrite existsb_splits. split.
    + intros [u [v [E H]]]. cbn [fst snd gm_atom] in H. apply andb_true_iff in H. destruct H as [Hu Hv].
      destruct u as [|x [|y u]]; try discriminate. unfold ch_eq in Hu. apply N.eqb_eq in Hu. subst x.
      rewrite E. cbn [app str_eqb]. rewrite N.eqb_refl, <- IH. exact Hv.
    + intros H. destruct s as [|x s]; [discriminate|]. cbn [str_eqb] in H. apply andb_true_iff in H.
      destruct H as [Hx Hs]. apply N.eqb_eq in Hx. subst x. exists [c], s. split; [reflexivity|].
      cbn [fst snd gm_atom]. unfold ch_eq. rewrite N.eqb_refl, IH, Hs. reflexivity.
Qed.

Lemma ok_lits ci q : ok ci (lits q).
Proof. induction q as [|c q IH]; cbn; auto. Qed.

(** a pattern consisting of one quoted piece matches exactly that string *)
Theorem literal_identity multi ext q s :
  whole multi true false (tr (parse ext (pieces_text [PLit q]))) s = str_eqb q s.
Proof.
  unfold pieces_text. cbn [flat_map]. rewrite app_nil_r, parse_escape_lit.
  rewrite translate_correct; [apply gm_lits | apply ok_lits].
Qed.

(** ** Obligations over the regenerated tables *)

(** characters with a meaning at the top level of the engine's regex syntax *)
Definition engine_meta : list char := [46; 94; 36; 40; 41; 92; 43; 42; 63; 124; 91; 123].

Lemma needs_escaping_covers_engine_meta : forallb needs_escaping engine_meta = true.
Proof. reflexivity. Qed.

(** every escaped top-level char is ASCII punctuation, for which "\c" is the literal c *)
Lemma needs_escaping_only_punct :
  forallb (fun c => negb (is_alnum c) && N.ltb c 128 && N.ltb 32 c) needs_escaping_chars = true.
Proof. reflexivity. Qed.

Lemma flags_as_modelled : flag_other = false /\ pattern_uses_flags = true /\ flag_dotall = true /\
                          anchor_start = true /\ anchor_end = true.
Proof. repeat split; reflexivity. Qed.

(** ** The whole-string theorem in the configuration read from the source *)

Lemma multi_is_off : eff_multi = false.
Proof. reflexivity. Qed.

Theorem whole_string ci g s : ok ci g ->
  search eff_multi eff_dotall ci (anchored (tr g)) s = glob_match ci g s.
Proof.
  intros Hok. rewrite multi_is_off. unfold anchored.
  destruct flags_as_modelled as [_ [Hu [Hd [Hs He]]]]. rewrite Hs, He.
  unfold eff_dotall. rewrite Hu, Hd. cbn [andb].
  rewrite anchored_search_is_whole. apply translate_correct. exact Hok.
Qed.

(** with the [m] flag the statement is false *)
Theorem whole_string_refuted_multi :
  exists g s, ok false g /\ search true true false (RCat RBol (RCat (tr g) REol)) s = true /\ glob_match false g s = false.
Proof.
  exists (lits [97; 98; 99]), [120; 10; 97; 98; 99]. split; [apply ok_lits|]. split; vm_compute; reflexivity.
Qed.

(** ** Refutations: the known findings, as facts about the model *)

Definition s_of (s : string) : str := lit s.

(** !(a|ab) matches "ab" *)
Theorem negation_refuted :
  exists g s, has_neg g = true /\ whole false true false (tr g) s = true /\ glob_match false g s = false.
Proof.
  exists (parse true (s_of "!(a|ab)")), (s_of "ab"). repeat split; vm_compute; reflexivity.
Qed.

(** repaired (787d8bd): a leading ']' is a member — []a] matches "]" and "a", [!]] rejects "]",
    and the PEG twin reads these patterns as the specification does *)
Theorem leading_bracket_repaired :
  spec_matches false false (s_of "[]a]") (s_of "]") = true /\
  whole false true false (tr (parse false (s_of "[]a]"))) (s_of "]") = true /\
  whole false true false (tr (parse false (s_of "[]a]"))) (s_of "a") = true /\
  whole false true false (tr (parse false (s_of "[!]]"))) (s_of "]") = false /\
  whole false true false (tr (parse false (s_of "[!]]"))) (s_of "a") = true /\
  print_regex (tr (parse false (s_of "[]-a]"))) = [91; 92; 93; 45; 97; 93].
Proof. repeat split; vm_compute; reflexivity. Qed.

(** repaired (f7a052e): an escaped letter or digit in a bracket is that character *)
Theorem escaped_alnum_repaired :
  whole false true false (tr (parse false [91; 92; 97; 93])) (s_of "a") = true /\
  whole false true false (tr (parse false [91; 92; 97; 93])) [7] = false /\
  print_regex (tr (parse false [91; 92; 97; 92; 100; 93])) = s_of "[ad]".
Proof. repeat split; vm_compute; reflexivity. Qed.

(** [+--] does not match "," *)
Theorem class_ops_refuted :
  exists p s, k_class_ops false p = true /\
              whole false true false (tr (parse false p)) s = false /\ spec_matches false false p s = true.
Proof.
  exists (s_of "[+--]"), (s_of ","). repeat split; vm_compute; reflexivity.
Qed.

(** *(() matches "" although its extglob is unterminated for bash *)
Theorem paren_nesting_refuted :
  exists p s, k_paren_nest true p = true /\
              whole false true false (tr (parse true p)) s = true /\ spec_matches true false p s = false.
Proof.
  exists (s_of "*(()"), []. repeat split; vm_compute; reflexivity.
Qed.

(** non-vacuity: a pattern with every construct except !() satisfies the hypotheses *)
Definition ex_pat : gpat := parse true (s_of "a?*[!b-d]+(x|y*)@(|z)\*").

Lemma class_ok_by_cases ci neg items :
  (forall x, set_matches ci neg (tr_items items) x = xorb neg (bracket_has ci items x)) -> class_ok ci neg items.
Proof. intros H _. exact H. Qed.
