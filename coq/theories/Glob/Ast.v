(** Glob patterns as the PEG of brush-parser/src/pattern.rs sees them. *)
From BV Require Import Base.Prelude.
From BV Require Export gen.C08RegexTables.

(** A bracket member as [single_char_bracket_member] reads it: [\c], the char '[', or any raw char
    other than ']'. *)
Inductive bmem :=
| MEsc (c : char)
| MOpen
| MRaw (c : char).

Definition bmem_char (m : bmem) : char :=
  match m with MEsc c => c | MOpen => 91%N | MRaw c => c end.

Inductive bitem :=
| BClass (name : str)            (* [:name:] *)
| BRange (lo hi : bmem)          (* lo-hi; contributes nothing when lo > hi *)
| BOne (m : bmem).

(** Sequences, atoms and alternative lists (mutual, so that no nested lists are needed). An
    alternative list is never empty: the PEG's "no branches" case [@()] is one empty branch. *)
Inductive gpat :=
| GNil
| GCons (a : gatom) (rest : gpat)
with gatom :=
| GLit (c : char)
| GAny                            (* ? *)
| GStar                           (* * *)
| GBracket (neg : bool) (items : list bitem)
| GExt (k : ekind) (alts : galts)
with galts :=
| AOne (g : gpat)
| ACons (g : gpat) (rest : galts).

Scheme gpat_mind := Induction for gpat Sort Prop
  with gatom_mind := Induction for gatom Sort Prop
  with galts_mind := Induction for galts Sort Prop.
Combined Scheme glob_mutind from gpat_mind, gatom_mind, galts_mind.

Fixpoint gapp (a b : gpat) : gpat :=
  match a with GNil => b | GCons x r => GCons x (gapp r b) end.

Definition lits (s : str) : gpat := fold_right (fun c g => GCons (GLit c) g) GNil s.

Definition mem (c : char) (l : list char) : bool := existsb (N.eqb c) l.

Lemma mem_In c l : mem c l = true <-> In c l.
Proof.
  unfold mem. rewrite existsb_exists. split.
  - intros [x [Hx He]]. apply N.eqb_eq in He. subst. exact Hx.
  - intros H. exists c. split; [exact H | apply N.eqb_refl].
Qed.

Definition is_alnum (c : char) : bool :=
  (N.leb 48 c && N.leb c 57) || (N.leb 65 c && N.leb c 90) || (N.leb 97 c && N.leb c 122).

Definition needs_escaping (c : char) : bool := mem c needs_escaping_chars.
Definition regex_special (c : char) : bool := mem c regex_special_chars.

(** Does the pattern contain a [!(...)] (at any depth)? *)
Fixpoint has_neg (g : gpat) : bool :=
  match g with GNil => false | GCons a r => has_neg_atom a || has_neg r end
with has_neg_atom (a : gatom) : bool :=
  match a with
  | GExt k alts => (match k with EBang => true | _ => false end) || has_neg_alts alts
  | _ => false
  end
with has_neg_alts (l : galts) : bool :=
  match l with AOne g => has_neg g | ACons g r => has_neg g || has_neg_alts r end.
