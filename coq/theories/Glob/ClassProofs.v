(** The engine's class parser (regex-syntax, as modelled in Glob/Regex.v) reads the class text
    emitted for a *benign* member list as the plain union of the members. *)
From Coq Require Import String.
From BV Require Import Base.Prelude Base.Codec Glob.Ast Glob.Parse Glob.Regex Glob.Translate Glob.Sem Glob.Known.
Local Open Scope N_scope.

Definition citem_has (i : citem) (x : char) : bool :=
  match i with
  | CCls n => ascii_class n x
  | CRng lo hi => in_rng (bmem_char lo) (bmem_char hi) x
  | CMem m => N.eqb x (bmem_char m)
  end.

Definition good_tok (t : tok) (c : char) : Prop :=
  (t = TRaw c \/ t = TLit c) /\ is_raw t 45 = false /\ is_raw t 38 = false /\ is_raw t 126 = false /\ is_raw t 94 = false.

Lemma mem_cons_false c x l : mem c (x :: l) = false -> N.eqb c x = false /\ mem c l = false.
Proof. unfold mem. cbn [existsb]. apply orb_false_iff. Qed.

Lemma plain_mem_tok m : plain_mem m = true -> exists t, mem_toks m = [t] /\ good_tok t (bmem_char m).
Proof.
  destruct m as [c| |c]; cbn [plain_mem mem_toks bmem_char]; intros H.
  - (* MEsc *)
    destruct (peg_escaped_alnum_plain && is_alnum c) eqn:Hsw.
    + apply andb_true_iff in Hsw. destruct Hsw as [_ Hal].
      exists (TRaw c). split; [reflexivity|]. unfold good_tok. cbn [is_raw].
      assert (Hne : forall y, is_alnum y = false -> N.eqb c y = false).
      { intros y Hy. destruct (N.eqb c y) eqn:E; [|reflexivity]. apply N.eqb_eq in E. subst. congruence. }
      repeat split; auto; apply Hne; reflexivity.
    + assert (Hna : is_alnum c = false).
      { destruct (is_alnum c) eqn:Hal; [|reflexivity]. rewrite andb_true_r in Hsw. rewrite Hsw in H. discriminate H. }
      clear H. unfold is_alnum in Hna. fold (in_rng 48 57 c) (in_rng 65 90 c) (in_rng 97 122 c) in Hna.
      apply orb_false_iff in Hna. destruct Hna as [H H3]. apply orb_false_iff in H. destruct H as [H1 H2].
      unfold esc_tok. rewrite H1. unfold is_ascii_alpha. rewrite H2, H3. cbn [orb].
      destruct (rs_meta c) eqn:Hm.
      * exists (TLit c). split; [reflexivity|]. repeat split; auto.
      * exists (TRaw c). split; [reflexivity|]. unfold good_tok. cbn [is_raw].
        assert (Hne : forall y, rs_meta y = true -> N.eqb c y = false).
        { intros y Hy. destruct (N.eqb c y) eqn:E; [|reflexivity]. apply N.eqb_eq in E. subst. congruence. }
        repeat split; auto; apply Hne; reflexivity.
  - exists (TLit 91). split; [reflexivity|]. repeat split; auto.
  - (* MRaw *) apply negb_true_iff in H.
    apply mem_cons_false in H. destruct H as [H45 H]. apply mem_cons_false in H. destruct H as [H38 H].
    apply mem_cons_false in H. destruct H as [H126 H]. apply mem_cons_false in H. destruct H as [H91 H].
    apply mem_cons_false in H. destruct H as [H92 H]. apply mem_cons_false in H. destruct H as [H93 H].
    apply mem_cons_false in H. destruct H as [H94 _].
    unfold mem. cbn [existsb]. rewrite H91, H92, H93. cbn [orb].
    exists (TRaw c). split; [reflexivity|]. unfold good_tok. cbn [is_raw]. repeat split; auto.
Qed.

Definition rest_ok (rest : list tok) : Prop :=
  match rest with d :: r2 => is_raw d 45 = true -> r2 = [] | [] => True end.

Lemma op_at_good t c rest : good_tok t c -> op_at t rest = None.
Proof.
  intros [_ [H1 [H2 [H3 _]]]]. unfold op_at. destruct rest; [reflexivity|]. rewrite H1, H2, H3. reflexivity.
Qed.

Lemma single_step t c rest acc : good_tok t c -> rest_ok rest ->
  cls_union (t :: rest) acc = cls_union rest (cadd1 acc c).
Proof.
  intros Hg Hr. pose proof (op_at_good t c rest Hg) as Hop. destruct Hg as [[-> | ->] _].
  - cbn [cls_union]. rewrite Hop. destruct rest as [|d r2]; [reflexivity|].
    destruct (is_raw d 45) eqn:Hd; [|reflexivity]. cbn [rest_ok] in Hr. rewrite (Hr Hd). reflexivity.
  - cbn [cls_union]. rewrite Hop. destruct rest as [|d r2]; [reflexivity|].
    destruct (is_raw d 45) eqn:Hd; [|reflexivity]. cbn [rest_ok] in Hr. rewrite (Hr Hd). reflexivity.
Qed.

Lemma range_step t1 c1 t2 c2 rest acc : good_tok t1 c1 -> good_tok t2 c2 -> N.leb c1 c2 = true ->
  cls_union (t1 :: TRaw 45 :: t2 :: rest) acc = cls_union rest (caddr acc c1 c2).
Proof.
  intros Hg1 Hg2 Hle. pose proof (op_at_good t1 c1 (TRaw 45 :: t2 :: rest) Hg1) as Hop.
  destruct Hg2 as [Ht2 [H245 _]].
  destruct Hg1 as [[-> | ->] _]; cbn [cls_union]; rewrite Hop; cbn [is_raw]; rewrite N.eqb_refl; rewrite H245;
    destruct Ht2 as [-> | ->]; rewrite Hle; reflexivity.
Qed.

Definition item_fine (i : citem) : Prop :=
  plain_item i = true /\ match i with CRng lo hi => N.leb (bmem_char lo) (bmem_char hi) = true | _ => True end.

Definition tail_toks (td : bool) : list tok := if td then [TRaw 45] else [].

Lemma rest_ok_toks L td : Forall item_fine L -> rest_ok (flat_map item_toks L ++ tail_toks td).
Proof.
  intros HL. destruct L as [|i L].
  - cbn [flat_map app]. destruct td; cbn; auto.
  - inversion HL as [|? ? [Hp _] _]; subst. cbn [flat_map]. destruct i as [n|lo hi|m]; cbn [item_toks plain_item] in *.
    + cbn. discriminate.
    + apply andb_true_iff in Hp. destruct Hp as [Hlo _]. apply plain_mem_tok in Hlo. destruct Hlo as [t [-> [_ [H45 _]]]].
      cbn [app rest_ok]. intros H. congruence.
    + apply plain_mem_tok in Hp. destruct Hp as [t [-> [_ [H45 _]]]]. cbn [app rest_ok]. intros H. congruence.
Qed.

Lemma cls_union_plain : forall (L : list citem) (td : bool) (acc : cset),
  Forall item_fine L ->
  exists f, cls_union (flat_map item_toks L ++ tail_toks td) acc = UOk f None /\
            forall x, f x = acc x || existsb (fun i => citem_has i x) L || (td && N.eqb x 45).
Proof.
  induction L as [|i L IH]; intros td acc HL.
  - cbn [flat_map app existsb]. destruct td; cbn [tail_toks].
    + exists (cadd1 acc 45). split; [reflexivity|]. intros x. unfold cadd1. rewrite orb_false_r. reflexivity.
    + exists acc. split; [reflexivity|]. intros x. rewrite !orb_false_r. reflexivity.
  - inversion HL as [|? ? [Hp Hv] HL']; subst.
    pose proof (rest_ok_toks L td HL') as Hrest.
    cbn [flat_map existsb]. rewrite <- app_assoc.
    destruct i as [n|lo hi|m]; cbn [item_toks plain_item citem_has] in *.
    + cbn [app cls_union]. destruct (IH td (cunion acc (ascii_class n)) HL') as [f [Hf Hx]].
      exists f. split; [exact Hf|]. intros x. rewrite Hx. unfold cunion. rewrite !orb_assoc. reflexivity.
    + apply andb_true_iff in Hp. destruct Hp as [Hlo Hhi].
      apply plain_mem_tok in Hlo. destruct Hlo as [t1 [-> Hg1]].
      apply plain_mem_tok in Hhi. destruct Hhi as [t2 [-> Hg2]].
      cbn [app]. rewrite (range_step t1 _ t2 _ _ acc Hg1 Hg2 Hv).
      destruct (IH td (caddr acc (bmem_char lo) (bmem_char hi)) HL') as [f [Hf Hx]].
      exists f. split; [exact Hf|]. intros x. rewrite Hx. unfold caddr, in_rng. rewrite !orb_assoc. reflexivity.
    + apply plain_mem_tok in Hp. destruct Hp as [t [-> Hg]]. cbn [app].
      rewrite (single_step t _ _ acc Hg Hrest).
      destruct (IH td (cadd1 acc (bmem_char m)) HL') as [f [Hf Hx]].
      exists f. split; [exact Hf|]. intros x. rewrite Hx. unfold cadd1. rewrite !orb_assoc. reflexivity.
Qed.

Definition dash_item : citem := CMem (MRaw 45).

Lemma is_dash_item_eq i : is_dash_item i = true -> i = dash_item.
Proof.
  destruct i as [n|lo hi|m]; try discriminate. destruct m as [c| |c]; try discriminate.
  cbn [is_dash_item]. intros H. apply N.eqb_eq in H. subst. reflexivity.
Qed.

Definition tail_items (td : bool) : list citem := if td then [dash_item] else [].

Lemma plain_then_dash_split l : plain_then_dash l = true ->
  exists L td, l = L ++ tail_items td /\ Forall (fun i => plain_item i = true) L.
Proof.
  induction l as [|i l IH]; intros H.
  - exists [], false. split; [reflexivity | constructor].
  - destruct l as [|j l'].
    + cbn [plain_then_dash] in H. apply orb_true_iff in H. destruct H as [H|H].
      * exists [i], false. split; [reflexivity | repeat constructor; exact H].
      * apply is_dash_item_eq in H. subst. exists [], true. split; [reflexivity | constructor].
    + change (plain_then_dash (i :: j :: l')) with (plain_item i && plain_then_dash (j :: l')) in H.
      apply andb_true_iff in H. destruct H as [Hi Hl]. destruct (IH Hl) as [L [td [E HL]]].
      exists (i :: L), td. split; [cbn [app]; rewrite E; reflexivity | constructor; assumption].
Qed.

Lemma toks_tail td : flat_map item_toks (tail_items td) = tail_toks td.
Proof. destruct td; reflexivity. Qed.

Lemma first_tok_fine i : item_fine i ->
  exists t r, item_toks i = t :: r /\ is_raw t 45 = false /\ is_raw t 94 = false.
Proof.
  intros [Hp _]. destruct i as [n|lo hi|m]; cbn [item_toks plain_item] in *.
  - exists (TCls n), []. repeat split; reflexivity.
  - apply andb_true_iff in Hp. destruct Hp as [Hlo _]. apply plain_mem_tok in Hlo.
    destruct Hlo as [t [-> [_ [H45 [_ [_ H94]]]]]]. cbn [app]. eexists _, _. split; [reflexivity|]. split; assumption.
  - apply plain_mem_tok in Hp. destruct Hp as [t [-> [_ [H45 [_ [_ H94]]]]]]. eexists _, _. split; [reflexivity|]. split; assumption.
Qed.

Lemma cls_ops_none ci n f : cls_ops ci n f None = COk f.
Proof. destruct n; reflexivity. Qed.

Definition item_valid (i : citem) : Prop :=
  match i with CRng lo hi => N.leb (bmem_char lo) (bmem_char hi) = true | _ => True end.

Lemma fine_of L : Forall (fun i => plain_item i = true) L -> Forall item_valid L -> Forall item_fine L.
Proof.
  intros H1 H2. induction L as [|i L IH]; [constructor|].
  inversion H1; inversion H2; subst. constructor; [split; assumption | apply IH; assumption].
Qed.

(** body of a class: plain items, then possibly a final dash, starting from accumulator [acc]
    after the (possibly empty) run of leading dashes has been stripped *)
Lemma class_body ci L td acc0 ts0 :
  Forall item_fine L ->
  exists f,
    (let '(ts', acc) := strip_dashes (flat_map item_toks L ++ tail_toks td) acc0 in
     match cls_union ts' acc with UOk g more => cls_ops ci ts0 g more | UErr => CErr | UUnm => CUnm end) = COk f /\
    forall x, f x = acc0 x || existsb (fun i => citem_has i x) L || (td && N.eqb x 45).
Proof.
  intros HL. destruct L as [|i L].
  - cbn [flat_map app existsb]. destruct td; cbn [tail_toks strip_dashes is_raw]; [rewrite N.eqb_refl|]; cbn [cls_union].
    + rewrite cls_ops_none. eexists. split; [reflexivity|]. intros x. unfold cadd1. rewrite orb_false_r. reflexivity.
    + rewrite cls_ops_none. eexists. split; [reflexivity|]. intros x. rewrite !orb_false_r. reflexivity.
  - inversion HL as [|? ? Hi HL']; subst. destruct (first_tok_fine i Hi) as [t [r [Ht [H45 _]]]].
    assert (Hstrip : strip_dashes (flat_map item_toks (i :: L) ++ tail_toks td) acc0 =
                     (flat_map item_toks (i :: L) ++ tail_toks td, acc0)).
    { cbn [flat_map]. rewrite Ht. cbn [app strip_dashes]. rewrite H45. reflexivity. }
    rewrite Hstrip. destruct (cls_union_plain (i :: L) td acc0 HL) as [f [Hf Hx]]. rewrite Hf, cls_ops_none.
    exists f. split; [reflexivity | exact Hx].
Qed.

Theorem class_benign_sem ci neg cits : class_benign cits = true -> Forall item_valid cits ->
  exists f, class_sem ci neg cits = COk f /\ forall x, f x = existsb (fun i => citem_has i x) cits.
Proof.
  intros Hb Hv. unfold class_sem. destruct cits as [|i l].
  - cbn. rewrite andb_false_r. eexists. split; [reflexivity | reflexivity].
  - cbn [class_benign] in Hb. destruct (is_dash_item i) eqn:Hd.
    + apply is_dash_item_eq in Hd. subst i. destruct (plain_then_dash_split l Hb) as [L [td [-> HL]]].
      inversion Hv as [|? ? _ Hv']; subst. apply Forall_app in Hv'. destruct Hv' as [HvL _].
      pose proof (fine_of L HL HvL) as HF.
      change (flat_map item_toks (dash_item :: L ++ tail_items td)) with (TRaw 45 :: flat_map item_toks (L ++ tail_items td)).
      rewrite flat_map_app, toks_tail.
      cbn [starts_caret is_raw]. change (N.eqb 45 94) with false. rewrite andb_false_r.
      cbn [strip_dashes is_raw]. rewrite N.eqb_refl.
      destruct (class_body ci L td (cadd1 cempty 45) (length (TRaw 45 :: flat_map item_toks L ++ tail_toks td)) HF)
        as [f [Hf Hx]].
      exists f. split; [exact Hf|]. intros x. rewrite Hx. cbn [existsb citem_has dash_item bmem_char].
      rewrite existsb_app. unfold cadd1, cempty. cbn [orb]. destruct td; cbn [tail_items existsb citem_has dash_item bmem_char andb];
        rewrite ?orb_false_r; [rewrite <- !orb_assoc|]; reflexivity.
    + destruct (plain_then_dash_split (i :: l) Hb) as [L [td [E HL]]]. rewrite E in *.
      apply Forall_app in Hv. destruct Hv as [HvL _]. pose proof (fine_of L HL HvL) as HF.
      rewrite flat_map_app, toks_tail.
      assert (Hcaret : starts_caret (flat_map item_toks L ++ tail_toks td) = false).
      { destruct L as [|i1 L1].
        - destruct td; reflexivity.
        - inversion HF as [|? ? Hi1 _]; subst. destruct (first_tok_fine i1 Hi1) as [t [r [Ht [_ H94]]]].
          cbn [flat_map]. rewrite Ht. cbn [app starts_caret]. exact H94. }
      rewrite Hcaret, andb_false_r.
      destruct (class_body ci L td cempty (length (flat_map item_toks L ++ tail_toks td)) HF) as [f [Hf Hx]].
      exists f. split; [exact Hf|]. intros x. rewrite Hx. rewrite existsb_app. unfold cempty. cbn [orb].
      destruct td; cbn [tail_items existsb citem_has dash_item bmem_char andb]; rewrite ?orb_false_r; reflexivity.
Qed.
