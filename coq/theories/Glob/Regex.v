(** The subset of regular expressions that the pattern translator emits, with the semantics the
    engine (fancy-regex 0.19 over regex 1.x) gives to it.  The semantics is *modelled*: the
    correspondence check compares it with the real engine through [Pattern::exactly_matches] on
    every run.

    Matching is a backtracking matcher in continuation-passing style whose result is the first
    successful continuation result in the engine's priority order (left alternative first, greedy
    repetition first, lazy repetition last); that is what gives atomic groups [(?>r)] and negative
    look-ahead [(?!r)] their meaning.  [^]/[$] follow the flags: with [m] they also match next to a
    line feed.  [is_match] is a search over all start positions. *)
From Coq Require Import String.
From BV Require Import Base.Prelude Base.Codec Glob.Ast.
Local Open Scope N_scope.

Inductive citem :=
| CCls (name : str)
| CRng (lo hi : bmem)
| CMem (m : bmem).

Inductive re :=
| REps
| RChr (c : char)
| RAny
| RSet (neg : bool) (items : list citem)
| RFail                          (* (?!) *)
| RCat (a b : re)
| RAlt (a b : re)
| RGrp (r : re)                  (* (r) *)
| RNcg (r : re)                  (* (?:r) *)
| RStar (r : re)                 (* r* *)
| RPlus (r : re)                 (* r+ *)
| ROpt (r : re)                  (* r? *)
| RPlusLazy (r : re)             (* r+? *)
| RNegLook (r : re)              (* (?!r) *)
| RAtomic (r : re)               (* (?>r) *)
| RBol
| REol.

(** ** Character sets *)

Definition cset := char -> bool.
Definition cempty : cset := fun _ => false.
Definition cadd1 (f : cset) (c : char) : cset := fun x => f x || N.eqb x c.
Definition caddr (f : cset) (lo hi : char) : cset := fun x => f x || (N.leb lo x && N.leb x hi).
Definition cunion (f g : cset) : cset := fun x => f x || g x.

Definition in_rng (lo hi x : char) : bool := N.leb lo x && N.leb x hi.

(** POSIX class names as regex-syntax's ASCII classes define them. *)
Definition ascii_class (n : str) : cset := fun x =>
  let up := in_rng 65 90 x in
  let lo := in_rng 97 122 x in
  let dg := in_rng 48 57 x in
  if str_eqb n (lit "alnum") then up || lo || dg
  else if str_eqb n (lit "alpha") then up || lo
  else if str_eqb n (lit "blank") then N.eqb x 32 || N.eqb x 9
  else if str_eqb n (lit "cntrl") then N.leb x 31 || N.eqb x 127
  else if str_eqb n (lit "digit") then dg
  else if str_eqb n (lit "graph") then in_rng 33 126 x
  else if str_eqb n (lit "lower") then lo
  else if str_eqb n (lit "print") then in_rng 32 126 x
  else if str_eqb n (lit "punct") then in_rng 33 47 x || in_rng 58 64 x || in_rng 91 96 x || in_rng 123 126 x
  else if str_eqb n (lit "space") then in_rng 9 13 x || N.eqb x 32
  else if str_eqb n (lit "upper") then up
  else if str_eqb n (lit "xdigit") then dg || in_rng 65 70 x || in_rng 97 102 x
  else false.

(** *** What the engine's class parser makes of the emitted class text.
    Tokens of the text between "[" / "[^" and the closing "]": a raw char, a char that reaches
    regex-syntax as an escaped (never special) literal, a [[:name:]] class, text the engine
    rejects, text whose engine meaning is not modelled. *)
Inductive tok := TRaw (c : char) | TLit (c : char) | TCls (n : str) | TErr | TUnm.

(** regex_syntax::is_meta_character *)
Definition rs_meta (c : char) : bool :=
  mem c [92; 46; 43; 42; 63; 40; 41; 124; 91; 93; 123; 125; 94; 36; 35; 38; 45; 126]%N.

Definition is_ascii_alpha (c : char) : bool := in_rng 65 90 c || in_rng 97 122 c.

(** fancy_regex::parse::parse_escape with in_class = true, followed by parse_class's
    [escape_into]: what "\c" inside a class turns into. *)
Definition esc_tok (c : char) : tok :=
  if in_rng 48 57 c then TErr                                  (* back-reference inside a class *)
  else if is_ascii_alpha c then
    if N.eqb c 97 then TRaw 7 else if N.eqb c 98 then TRaw 8 else if N.eqb c 102 then TRaw 12
    else if N.eqb c 110 then TRaw 10 else if N.eqb c 114 then TRaw 13 else if N.eqb c 116 then TRaw 9
    else if N.eqb c 118 then TRaw 11 else if N.eqb c 101 then TRaw 27
    else if mem c [107; 65; 122; 66; 75; 71; 82]%N then TRaw c  (* k A z B K G R: literal in a class *)
    else if mem c [100; 115; 119; 68; 83; 87; 104; 72; 120; 117; 85; 112; 80]%N then TUnm
    else TErr                                                   (* InvalidEscape *)
  else if rs_meta c then TLit c else TRaw c.

Definition mem_toks (m : bmem) : list tok :=
  match m with
  | MEsc c => if peg_escaped_alnum_plain && is_alnum c then [TRaw c] else [esc_tok c]
  | MOpen => [TLit 91]
  | MRaw c => if mem c [91; 92; 93] then [TUnm] else [TRaw c]   (* never produced by the PEG *)
  end.

Definition item_toks (i : citem) : list tok :=
  match i with
  | CCls n => [TCls n]
  | CRng lo hi => mem_toks lo ++ [TRaw 45] ++ mem_toks hi
  | CMem m => mem_toks m
  end.

Definition is_raw (t : tok) (c : char) : bool :=
  match t with TRaw x => N.eqb x c | _ => false end.

Inductive cop := OpDiff | OpInter | OpSym.
Definition cop_apply (o : cop) (f g : cset) : cset :=
  match o with
  | OpDiff => fun x => f x && negb (g x)
  | OpInter => fun x => f x && g x
  | OpSym => fun x => xorb (f x) (g x)
  end.

Inductive ures := UOk (f : cset) (more : option (cop * list tok)) | UErr | UUnm.

Definition op_at (t : tok) (r : list tok) : option cop :=
  match r with
  | d :: _ =>
      if is_raw t 45 && is_raw d 45 then Some OpDiff
      else if is_raw t 38 && is_raw d 38 then Some OpInter
      else if is_raw t 126 && is_raw d 126 then Some OpSym
      else None
  | [] => None
  end.

(** regex-syntax parse_set_class / parse_set_class_range: one union of items, up to a binary
    operator or the end. *)
Fixpoint cls_union (ts : list tok) (acc : cset) : ures :=
  match ts with
  | [] => UOk acc None
  | TErr :: _ => UErr
  | TUnm :: _ => UUnm
  | TCls n :: r => cls_union r (cunion acc (ascii_class n))
  | t1 :: r =>
      let c := match t1 with TRaw x => x | TLit x => x | _ => 0%N end in
      match op_at t1 r with
      | Some o => UOk acc (Some (o, tl r))
      | None =>
          match r with
          | d :: r2 =>
              if is_raw d 45 then
                match r2 with
                | [] => cls_union r (cadd1 acc c)
                | p2 :: r3 =>
                    if is_raw p2 45 then cls_union r (cadd1 acc c)
                    else
                      match p2 with
                      | TRaw e | TLit e => if N.leb c e then cls_union r3 (caddr acc c e) else UErr
                      | TCls _ => UUnm
                      | TErr => UErr
                      | TUnm => UUnm
                      end
                end
              else cls_union r (cadd1 acc c)
          | [] => UOk (cadd1 acc c) None
          end
      end
  end.

(** Simple case folding, modelled for ASCII and Latin-1 letters only. *)
Definition lower (c : char) : char :=
  if in_rng 65 90 c then (c + 32)%N
  else if in_rng 192 222 c && negb (N.eqb c 215) then (c + 32)%N else c.
Definition upper (c : char) : char :=
  if in_rng 97 122 c then (c - 32)%N
  else if in_rng 224 254 c && negb (N.eqb c 247) then (c - 32)%N else c.

Definition fold_set (ci : bool) (f : cset) : cset :=
  if ci then fun x => f x || f (lower x) || f (upper x) else f.


Inductive cres := COk (f : cset) | CErr | CUnm.

(** the engine folds case in each operand before it applies a set operator *)
Fixpoint cls_ops (ci : bool) (fuel : nat) (lhs : cset) (more : option (cop * list tok)) : cres :=
  match more with
  | None => COk lhs
  | Some (o, ts) =>
      match fuel with
      | O => CUnm
      | S f =>
          match cls_union ts cempty with
          | UOk rhs more' => cls_ops ci f (cop_apply o (fold_set ci lhs) (fold_set ci rhs)) more'
          | UErr => CErr
          | UUnm => CUnm
          end
      end
  end.

(** parse_set_class_open: any number of leading '-' are literal. *)
Fixpoint strip_dashes (ts : list tok) (acc : cset) : list tok * cset :=
  match ts with
  | t :: r => if is_raw t 45 then strip_dashes r (cadd1 acc 45) else (ts, acc)
  | [] => ([], acc)
  end.

Definition starts_caret (ts : list tok) : bool :=
  match ts with t :: _ => is_raw t 94 | [] => false end.

Definition class_sem (ci : bool) (neg : bool) (items : list citem) : cres :=
  let ts := flat_map item_toks items in
  if negb neg && starts_caret ts then CUnm else      (* "[^": never produced by the PEG *)
  let '(ts', acc) := strip_dashes ts cempty in
  match cls_union ts' acc with
  | UOk f more => cls_ops ci (length ts) f more
  | UErr => CErr
  | UUnm => CUnm
  end.

Definition chr_eq (ci : bool) (a b : char) : bool :=
  if ci then N.eqb (lower a) (lower b) else N.eqb a b.

(** ** Does a regex contain a class the engine rejects / the model does not cover? *)
Inductive status := SOk | SErr | SUnm.
Definition st_join (a b : status) : status :=
  match a with SErr => SErr | SUnm => match b with SErr => SErr | _ => SUnm end | SOk => b end.

(** An iterated group whose body can match the empty string, inside an atomic group or a
    look-ahead: the order in which the real VM abandons empty iterations is not modelled. *)
Fixpoint nullable (r : re) : bool :=
  match r with
  | REps | RStar _ | ROpt _ | RNegLook _ | RBol | REol => true
  | RChr _ | RAny | RSet _ _ | RFail => false
  | RCat a b => nullable a && nullable b
  | RAlt a b => nullable a || nullable b
  | RGrp a | RNcg a | RPlus a | RPlusLazy a | RAtomic a => nullable a
  end.

Fixpoint empty_loop (r : re) : bool :=
  match r with
  | RStar a | RPlus a | RPlusLazy a => nullable a || empty_loop a
  | RCat a b | RAlt a b => empty_loop a || empty_loop b
  | RGrp a | RNcg a | ROpt a | RNegLook a | RAtomic a => empty_loop a
  | _ => false
  end.

Fixpoint re_status (r : re) : status :=
  match r with
  | RSet neg items => match class_sem false neg items with COk _ => SOk | CErr => SErr | CUnm => SUnm end
  | RCat a b | RAlt a b => st_join (re_status a) (re_status b)
  | RNegLook a | RAtomic a => if empty_loop a then st_join SUnm (re_status a) else re_status a
  | RGrp a | RNcg a | RStar a | RPlus a | ROpt a | RPlusLazy a => re_status a
  | _ => SOk
  end.

(** ** The matcher *)

Section Match.
  Variable multi : bool.      (* flag m *)
  Variable dotall : bool.     (* flag s *)
  Variable ci : bool.         (* case-insensitive *)

  Definition pos := (option char * str)%type.   (* previous char, remaining input *)
  Definition res := option pos.
  Definition kont := option char -> str -> res.

  Definition at_bol (p : option char) : bool :=
    match p with None => true | Some c => multi && N.eqb c 10 end.
  Definition at_eol (s : str) : bool :=
    match s with [] => true | c :: _ => multi && N.eqb c 10 end.

  Definition orelse (a : res) (b : unit -> res) : res :=
    match a with Some x => Some x | None => b tt end.

  Definition set_matches (neg : bool) (items : list citem) (x : char) : bool :=
    match class_sem ci neg items with
    | COk f => xorb neg (fold_set ci f x)
    | _ => false
    end.

  (** greedy loop: another iteration first (it must consume something), then leave *)
  Fixpoint star_loop (m1 : option char -> str -> kont -> res) (n : nat) (p : option char) (s : str) (k : kont) : res :=
    match n with
    | O => k p s
    | S n' =>
        orelse (m1 p s (fun p' s' => if Nat.ltb (length s') (length s) then star_loop m1 n' p' s' k else None))
               (fun _ => k p s)
    end.

  (** lazy loop: leave first, then another iteration *)
  Fixpoint lazy_loop (m1 : option char -> str -> kont -> res) (n : nat) (p : option char) (s : str) (k : kont) : res :=
    match n with
    | O => k p s
    | S n' =>
        orelse (k p s)
               (fun _ => m1 p s (fun p' s' => if Nat.ltb (length s') (length s) then lazy_loop m1 n' p' s' k else None))
    end.

  Definition kid : kont := fun p s => Some (p, s).

  Fixpoint rm (r : re) (p : option char) (s : str) (k : kont) : res :=
    match r with
    | REps => k p s
    | RChr c => match s with x :: s' => if chr_eq ci c x then k (Some x) s' else None | [] => None end
    | RAny => match s with x :: s' => if dotall || negb (N.eqb x 10) then k (Some x) s' else None | [] => None end
    | RSet neg items => match s with x :: s' => if set_matches neg items x then k (Some x) s' else None | [] => None end
    | RFail => None
    | RCat a b => rm a p s (fun p' s' => rm b p' s' k)
    | RAlt a b => orelse (rm a p s k) (fun _ => rm b p s k)
    | RGrp a => rm a p s k
    | RNcg a => rm a p s k
    | RStar a => star_loop (rm a) (length s) p s k
    | RPlus a => rm a p s (fun p' s' => star_loop (rm a) (length s') p' s' k)
    | ROpt a => orelse (rm a p s k) (fun _ => k p s)
    | RPlusLazy a => rm a p s (fun p' s' => lazy_loop (rm a) (length s') p' s' k)
    | RNegLook a => match rm a p s kid with Some _ => None | None => k p s end
    | RAtomic a => match rm a p s kid with Some (p', s') => k p' s' | None => None end
    | RBol => if at_bol p then k p s else None
    | REol => if at_eol s then k p s else None
    end.

  Definition is_some {A} (o : option A) : bool := match o with Some _ => true | None => false end.

  (** match [r] against the whole of [s] *)
  Definition whole (r : re) (s : str) : bool :=
    is_some (rm r None s (fun p' s' => match s' with [] => Some (p', s') | _ => None end)).

  (** fancy_regex::Regex::is_match: a match starting anywhere *)
  Fixpoint search_from (r : re) (p : option char) (s : str) : bool :=
    is_some (rm r p s kid) ||
    match s with
    | c :: s' => search_from r (Some c) s'
    | [] => false
    end.
  Definition search (r : re) (s : str) : bool := search_from r None s.
End Match.
