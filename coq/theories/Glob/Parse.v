(** Recursive-descent twin of the PEG [pattern_to_regex_translator] (brush-parser/src/pattern.rs):
    same rules, same ordered choice, same backtracking points; produces the glob AST instead of
    regex text ([Glob/Translate.v] turns the AST into the text the PEG's actions emit).

    PEG facts used: [e?], [e*], [e+] are greedy and never give back; [a / b] commits to [a] when [a]
    succeeds; a failing sequence rewinds to where its enclosing choice started. *)
From BV Require Import Base.Prelude Glob.Ast.

Definition c_bslash : char := 92%N.
Definition c_lbrack : char := 91%N.
Definition c_rbrack : char := 93%N.
Definition c_lparen : char := 40%N.
Definition c_rparen : char := 41%N.
Definition c_bar : char := 124%N.
Definition c_dash : char := 45%N.
Definition c_colon : char := 58%N.
Definition c_quest : char := 63%N.
Definition c_star : char := 42%N.

(** rule single_char_bracket_member *)
Definition parse_single (s : str) : option (bmem * str) :=
  match s with
  | [] => None
  | c :: r =>
      if N.eqb c c_bslash then
        match r with
        | d :: r' => Some (MEsc d, r')
        | [] => Some (MRaw c, r)          (* third alternative: any char but ']' *)
        end
      else if N.eqb c c_lbrack then Some (MOpen, r)
      else if N.eqb c c_rbrack then None
      else Some (MRaw c, r)
  end.

(** rule char_class_expression: "[:" char_class() ":]" *)
Definition parse_class (s : str) : option (str * str) :=
  match s with
  | a :: b :: r =>
      if N.eqb a c_lbrack && N.eqb b c_colon then
        match find (fun n => starts_with n r) class_names with
        | Some n =>
            match skipn (length n) r with
            | x :: y :: r' => if N.eqb x c_colon && N.eqb y c_rbrack then Some (n, r') else None
            | _ => None
            end
        | None => None
        end
      else None
  | _ => None
  end.

(** rule bracket_member: char_class_expression / char_range / single_char_bracket_member *)
Definition parse_member (s : str) : option (bitem * str) :=
  match parse_class s with
  | Some (n, r) => Some (BClass n, r)
  | None =>
      match parse_single s with
      | Some (m1, r1) =>
          match r1 with
          | c :: r2 =>
              if N.eqb c c_dash then
                match parse_single r2 with
                | Some (m2, r3) => Some (BRange m1 m2, r3)
                | None => Some (BOne m1, r1)
                end
              else Some (BOne m1, r1)
          | [] => Some (BOne m1, r1)
          end
      | None => None
      end
  end.

Fixpoint parse_members (fuel : nat) (s : str) : list bitem * str :=
  match fuel with
  | O => ([], s)
  | S f =>
      match parse_member s with
      | Some (i, r) => let '(l, r') := parse_members f r in (i :: l, r')
      | None => ([], s)
      end
  end.

(** rule bracket_expression, entered after the "[" *)
Definition parse_bracket (r : str) : option (gatom * str) :=
  let '(neg, r1) :=
    match r with
    | c :: r' => if mem c invert_chars then (true, r') else (false, r)
    | [] => (false, r)
    end in
  (* rule leading_right_bracket (only in trees that have it): "]" "-" single / "]" *)
  let '(first, r1) :=
    match r1 with
    | c :: r' =>
        if peg_leading_rbracket && N.eqb c c_rbrack then
          match r' with
          | d :: r'' =>
              if N.eqb d c_dash then
                match parse_single r'' with
                | Some (m2, r3) => ([BRange (MEsc c_rbrack) m2], r3)
                | None => ([BOne (MEsc c_rbrack)], r')
                end
              else ([BOne (MEsc c_rbrack)], r')
          | [] => ([BOne (MEsc c_rbrack)], r')
          end
        else ([], r1)
    | [] => ([], r1)
    end in
  let '(items0, r2) := parse_members (length r1) r1 in
  let items := first ++ items0 in
  match items, r2 with
  | _ :: _, c :: r3 => if N.eqb c c_rbrack then Some (GBracket neg items, r3) else None
  | _, _ => None
  end.

Definition ext_kind (c : char) : option ekind :=
  match find (fun p => N.eqb c (fst p)) extglob_prefixes with
  | Some p => Some (snd p)
  | None => None
  end.

Definition first_some {A} (a : option A) (b : unit -> option A) : option A :=
  match a with Some x => Some x | None => b tt end.

(** [parse_seq]: pattern_piece()*, stopping (when [inb]) before '|' or ')' as a branch of an
    extglob body does; [parse_piece]: rule pattern_piece; [parse_alts]: rule extended_glob_body
    followed by the ")" of extended_glob_pattern. *)
Fixpoint parse_seq (fuel : nat) (ext inb : bool) (s : str) : gpat * str :=
  match fuel with
  | O => (GNil, s)
  | S f =>
      match s with
      | [] => (GNil, [])
      | c :: _ =>
          if inb && (N.eqb c c_bar || N.eqb c c_rparen) then (GNil, s)
          else
            match parse_piece f ext s with
            | Some (a, r) => let '(g, r') := parse_seq f ext inb r in (GCons a g, r')
            | None => (GNil, s)
            end
      end
  end
with parse_piece (fuel : nat) (ext : bool) (s : str) : option (gatom * str) :=
  match fuel with
  | O => None
  | S f =>
      match s with
      | [] => None
      | c :: r =>
          first_some
            (* escape_sequence *)
            (if N.eqb c c_bslash then match r with d :: r' => Some (GLit d, r') | [] => None end else None)
          (fun _ => first_some
            (* bracket_expression *)
            (if N.eqb c c_lbrack then parse_bracket r else None)
          (fun _ => first_some
            (* extglob_enabled() extended_glob_pattern() *)
            (if ext then
               match ext_kind c, r with
               | Some k, d :: r' =>
                   if N.eqb d c_lparen then
                     match parse_alts f ext r' with
                     | Some (al, r'') => Some (GExt k al, r'')
                     | None => None
                     end
                   else None
               | _, _ => None
               end
             else None)
          (fun _ =>
            (* wildcard / escaped literal / literal *)
            if N.eqb c c_quest then Some (GAny, r)
            else if N.eqb c c_star then Some (GStar, r)
            else Some (GLit c, r))))
      end
  end
with parse_alts (fuel : nat) (ext : bool) (s : str) : option (galts * str) :=
  match fuel with
  | O => None
  | S f =>
      let '(g, r) := parse_seq f ext true s in
      match r with
      | c :: r' =>
          if N.eqb c c_rparen then Some (AOne g, r')
          else if N.eqb c c_bar then
            match parse_alts f ext r' with
            | Some (al, r'') => Some (ACons g al, r'')
            | None => None
            end
          else None
      | [] => None
      end
  end.

Definition parse_fuel (s : str) : nat := 3 * length s + 3.

(** rule pattern: the whole input (a piece exists for every char, so nothing is left over). *)
Definition parse (ext : bool) (s : str) : gpat := fst (parse_seq (parse_fuel s) ext false s).
