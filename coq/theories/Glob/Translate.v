(** The actions of the PEG: glob AST -> regex AST, and [print_regex] reproducing byte for byte the
    text that [pattern_to_regex_str] returns; then what [Pattern::to_regex_str] / [compile_regex]
    add around it (anchors, flag prefix, [add_missing_escape_chars_to_regex]). *)
From BV Require Import Base.Prelude Glob.Ast Glob.Parse Glob.Regex.

Definition tr_item (i : bitem) : option citem :=
  match i with
  | BClass n => Some (CCls n)
  | BRange lo hi => if N.leb (bmem_char lo) (bmem_char hi) then Some (CRng lo hi) else None
  | BOne m => Some (CMem m)
  end.

Fixpoint tr_items (l : list bitem) : list citem :=
  match l with
  | [] => []
  | i :: l' => match tr_item i with Some c => c :: tr_items l' | None => tr_items l' end
  end.

Definition is_empty_alts (l : galts) : bool :=
  match l with AOne GNil => true | _ => false end.

Fixpoint tr (g : gpat) : re :=
  match g with
  | GNil => REps
  | GCons a r => RCat (tr_atom a) (tr r)
  end
with tr_atom (a : gatom) : re :=
  match a with
  | GLit c => RChr c
  | GAny => RAny
  | GStar => RStar RAny
  | GBracket neg items =>
      match tr_items items with
      | [] => if neg then RAny else RFail
      | ms => RSet neg ms
      end
  | GExt k alts =>
      let A := tr_alts alts in
      match k with
      | EBang =>
          if is_empty_alts alts then RNcg (RPlus RAny)
          else RNcg (RAlt (RCat (RNegLook A) (RStar RAny))
                          (RAlt (RCat (RAtomic A) (RPlusLazy RAny)) REps))
      | EAt => RGrp A
      | EPlus => RPlus (RGrp A)
      | EQuest => ROpt (RGrp A)
      | EStar => RStar (RGrp A)
      end
  end
with tr_alts (l : galts) : re :=
  match l with
  | AOne g => tr g
  | ACons g r => RAlt (tr g) (tr_alts r)
  end.

(** ** Printing *)

Definition p_mem (m : bmem) : str :=
  match m with
  | MEsc c => if peg_escaped_alnum_plain && is_alnum c then [c] else [92%N; c]
  | MOpen => [92; 91]%N
  | MRaw c => [c]
  end.

Definition p_item (i : citem) : str :=
  match i with
  | CCls n => [91; 58]%N ++ n ++ [58; 93]%N
  | CRng lo hi => p_mem lo ++ [45%N] ++ p_mem hi
  | CMem m => p_mem m
  end.

Fixpoint print_regex (r : re) : str :=
  match r with
  | REps => []
  | RChr c => if needs_escaping c then [92%N; c] else [c]
  | RAny => [46%N]
  | RSet neg items => [91%N] ++ (if neg then [94%N] else []) ++ flat_map p_item items ++ [93%N]
  | RFail => [40; 63; 33; 41]%N
  | RCat a b => print_regex a ++ print_regex b
  | RAlt a b => print_regex a ++ [124%N] ++ print_regex b
  | RGrp a => [40%N] ++ print_regex a ++ [41%N]
  | RNcg a => [40; 63; 58]%N ++ print_regex a ++ [41%N]
  | RStar a => print_regex a ++ [42%N]
  | RPlus a => print_regex a ++ [43%N]
  | ROpt a => print_regex a ++ [63%N]
  | RPlusLazy a => print_regex a ++ [43; 63]%N
  | RNegLook a => [40; 63; 33]%N ++ print_regex a ++ [41%N]
  | RAtomic a => [40; 63; 62]%N ++ print_regex a ++ [41%N]
  | RBol => [94%N]
  | REol => [36%N]
  end.

(** brush_parser::pattern::pattern_to_regex_str *)
Definition pattern_to_regex_str (ext : bool) (p : str) : str := print_regex (tr (parse ext p)).

(** ** Pattern::to_regex_str: literal pieces are regex-escaped and then go through the same
    translator as the pattern pieces. *)
Inductive piece := PPat (s : str) | PLit (s : str).

Definition escape_lit (s : str) : str :=
  flat_map (fun c => if regex_special c then [92%N; c] else [c]) s.

Definition pieces_text (ps : list piece) : str :=
  flat_map (fun p => match p with PPat s => s | PLit s => escape_lit s end) ps.

Definition anchored (r : re) : re :=
  let r1 := if anchor_end then RCat r REol else r in
  if anchor_start then RCat RBol r1 else r1.

Definition pattern_regex (ext : bool) (ps : list piece) : re := anchored (tr (parse ext (pieces_text ps))).

(** regex.rs add_missing_escape_chars_to_regex (a scan over the final text). *)
Fixpoint add_missing_go (s : str) (in_escape in_brackets : bool) : str :=
  match s with
  | [] => []
  | c :: r =>
      let next_is_colon := match r with d :: _ => N.eqb d 58 | [] => false end in
      let open := N.eqb c 91 in
      let close := N.eqb c 93 in
      let ins := open && negb in_escape && in_brackets && negb next_is_colon in
      let in_brackets' :=
        if open && negb in_escape && negb in_brackets then true
        else if close && negb in_escape && in_brackets then false
        else in_brackets in
      let in_escape' := negb in_escape && N.eqb c 92 in
      (if ins then [92%N; c] else [c]) ++ add_missing_go r in_escape' in_brackets'
  end.
Definition add_missing_escape (s : str) : str := add_missing_go s false false.

(** The regex text handed to fancy-regex by [compile_regex]. *)
Definition final_regex_text (ext : bool) (ps : list piece) : str :=
  (if pattern_uses_flags then flag_prefix else []) ++ add_missing_escape (print_regex (pattern_regex ext ps)).

(** ** The model of [Pattern::exactly_matches]. *)
Inductive mres := MYes | MNo | MErr | MUnm.

Definition eff_multi : bool := pattern_uses_flags && flag_multi.
Definition eff_dotall : bool := pattern_uses_flags && flag_dotall.

Definition exactly_matches (ext ci : bool) (ps : list piece) (s : str) : mres :=
  let r := pattern_regex ext ps in
  match re_status r with
  | SErr => MErr
  | SUnm => MUnm
  | SOk => if search eff_multi eff_dotall ci r s then MYes else MNo
  end.
