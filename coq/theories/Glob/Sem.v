(** The specification: which strings a glob pattern matches (POSIX.1-2017 XCU 2.13 plus bash's
    extglob operators).  Written independently of the translator: the pattern text is read by a
    scanner in the way bash reads it ([spec_parse]), and matching is defined denotationally on the
    glob AST by enumerating the ways of cutting the subject ([gm]); no regular expressions, no
    continuations, no backtracking order. *)
From Coq Require Import String.
From BV Require Import Base.Prelude Base.Codec Glob.Ast.
Local Open Scope N_scope.

(** ** Matching *)

Definition in_range (lo hi x : char) : bool := N.leb lo x && N.leb x hi.

Definition posix_class (n : str) (x : char) : bool :=
  let up := in_range 65 90 x in
  let lo := in_range 97 122 x in
  let dg := in_range 48 57 x in
  if str_eqb n (lit "alnum") then up || lo || dg
  else if str_eqb n (lit "alpha") then up || lo
  else if str_eqb n (lit "blank") then N.eqb x 32 || N.eqb x 9
  else if str_eqb n (lit "cntrl") then N.leb x 31 || N.eqb x 127
  else if str_eqb n (lit "digit") then dg
  else if str_eqb n (lit "graph") then in_range 33 126 x
  else if str_eqb n (lit "lower") then lo
  else if str_eqb n (lit "print") then in_range 32 126 x
  else if str_eqb n (lit "punct") then in_range 33 47 x || in_range 58 64 x || in_range 91 96 x || in_range 123 126 x
  else if str_eqb n (lit "space") then in_range 9 13 x || N.eqb x 32
  else if str_eqb n (lit "upper") then up
  else if str_eqb n (lit "xdigit") then dg || in_range 65 70 x || in_range 97 102 x
  else false.

Definition item_has (i : bitem) (x : char) : bool :=
  match i with
  | BClass n => posix_class n x
  | BRange lo hi => in_range (bmem_char lo) (bmem_char hi) x      (* empty when lo > hi *)
  | BOne m => N.eqb x (bmem_char m)
  end.

Definition items_have (l : list bitem) (x : char) : bool := existsb (fun i => item_has i x) l.

(** case folding of nocasematch, for ASCII and Latin-1 letters *)
Definition to_lower (c : char) : char :=
  if in_range 65 90 c then (c + 32)%N
  else if in_range 192 222 c && negb (N.eqb c 215) then (c + 32)%N else c.
Definition to_upper (c : char) : char :=
  if in_range 97 122 c then (c - 32)%N
  else if in_range 224 254 c && negb (N.eqb c 247) then (c - 32)%N else c.

(** all ways of cutting [s] in two *)
Fixpoint splits (s : str) : list (str * str) :=
  match s with
  | [] => [([], [])]
  | c :: r => ([], s) :: map (fun uv => (c :: fst uv, snd uv)) (splits r)
  end.

Definition is_nil (s : str) : bool := match s with [] => true | _ => false end.

(** [s] is a concatenation of zero or more non-empty strings accepted by [f] *)
Fixpoint rep (f : str -> bool) (n : nat) (s : str) : bool :=
  match s with
  | [] => true
  | _ :: _ =>
      match n with
      | O => false
      | S n' => existsb (fun uv => negb (is_nil (fst uv)) && f (fst uv) && rep f n' (snd uv)) (splits s)
      end
  end.

Section Sem.
  Variable ci : bool.   (* nocasematch *)

  Definition ch_eq (a b : char) : bool := if ci then N.eqb (to_lower a) (to_lower b) else N.eqb a b.
  Definition bracket_has (l : list bitem) (x : char) : bool :=
    if ci then items_have l x || items_have l (to_lower x) || items_have l (to_upper x) else items_have l x.

  Fixpoint gm (g : gpat) (s : str) : bool :=
    match g with
    | GNil => is_nil s
    | GCons a r => existsb (fun uv => gm_atom a (fst uv) && gm r (snd uv)) (splits s)
    end
  with gm_atom (a : gatom) (s : str) : bool :=
    match a with
    | GLit c => match s with [x] => ch_eq c x | _ => false end
    | GAny => match s with [_] => true | _ => false end
    | GStar => true
    | GBracket neg items => match s with [x] => xorb neg (bracket_has items x) | _ => false end
    | GExt k alts =>
        match k with
        | EAt => gm_alts alts s
        | EQuest => is_nil s || gm_alts alts s
        | EBang => negb (gm_alts alts s)
        | EStar => rep (gm_alts alts) (length s) s
        | EPlus => existsb (fun uv => gm_alts alts (fst uv) && rep (gm_alts alts) (length (snd uv)) (snd uv)) (splits s)
        end
    end
  with gm_alts (l : galts) (s : str) : bool :=
    match l with
    | AOne g => gm g s
    | ACons g r => gm g s || gm_alts r s
    end.
End Sem.

Definition glob_match (ci : bool) (g : gpat) (s : str) : bool := gm ci g s.

(** ** Reading the pattern text the way bash does (lib/glob/sm_loop.c): a scanner, not a PEG. *)

Definition is_c (c : char) (x : N) : bool := N.eqb c x.

(** Bracket expression after the "[": optional '!'/'^', a leading ']' is a member, "\c" is c,
    [:name:] is a class, "a-b" a range unless the '-' is last; ends at the first other ']'.
    [None] when there is no closing ']' (then the "[" is an ordinary character). *)
Definition sp_single (s : str) : option (bmem * str) :=
  match s with
  | [] => None
  | c :: r =>
      if is_c c 92 then match r with d :: r' => Some (MEsc d, r') | [] => None end
      else if is_c c 91 then Some (MOpen, r)
      else Some (MRaw c, r)
  end.

Definition sp_class (s : str) : option (str * str) :=
  match s with
  | a :: b :: r =>
      if is_c a 91 && is_c b 58 then
        match find (fun n => starts_with n r) class_names with
        | Some n =>
            match skipn (length n) r with
            | x :: y :: r' => if is_c x 58 && is_c y 93 then Some (n, r') else None
            | _ => None
            end
        | None => None
        end
      else None
  | _ => None
  end.

(** members up to the closing ']' ; [first] allows a ']' as a member *)
Fixpoint sp_members (fuel : nat) (first : bool) (s : str) : option (list bitem * str) :=
  match fuel with
  | O => None
  | S f =>
      match s with
      | [] => None
      | c :: r =>
          if is_c c 93 && negb first then Some ([], r)
          else
            match sp_class s with
            | Some (n, r1) =>
                match sp_members f false r1 with
                | Some (l, r2) => Some (BClass n :: l, r2)
                | None => None
                end
            | None =>
                let one := if is_c c 93 then Some (MRaw c, r) else sp_single s in
                match one with
                | None => None
                | Some (m1, r1) =>
                    match r1 with
                    | d :: e :: r2 =>
                        if is_c d 45 && negb (is_c e 93) then
                          match sp_single (e :: r2) with
                          | Some (m2, r3) =>
                              match sp_members f false r3 with
                              | Some (l, r4) => Some (BRange m1 m2 :: l, r4)
                              | None => None
                              end
                          | None => None
                          end
                        else
                          match sp_members f false r1 with
                          | Some (l, r4) => Some (BOne m1 :: l, r4)
                          | None => None
                          end
                    | _ =>
                        match sp_members f false r1 with
                        | Some (l, r4) => Some (BOne m1 :: l, r4)
                        | None => None
                        end
                    end
                end
            end
      end
  end.

Definition sp_bracket (r : str) : option (gatom * str) :=
  let '(neg, r1) :=
    match r with
    | c :: r' => if is_c c 33 || is_c c 94 then (true, r') else (false, r)
    | [] => (false, r)
    end in
  match sp_members (S (length r1)) true r1 with
  | Some (items, r2) => Some (GBracket neg items, r2)
  | None => None
  end.

(** Length of the bracket expression starting at "[" (including both brackets), if it is one. *)
Definition bracket_len (s : str) : option nat :=
  match s with
  | c :: r => if is_c c 91 then
                match sp_bracket r with
                | Some (_, rest) => Some (length s - length rest)%nat
                | None => None
                end
              else None
  | [] => None
  end.

Definition sp_kind (c : char) : option ekind :=
  if is_c c 43 then Some EPlus else if is_c c 64 then Some EAt else if is_c c 33 then Some EBang
  else if is_c c 63 then Some EQuest else if is_c c 42 then Some EStar else None.

(** Cut an extglob body (the text after "X(") at its top-level '|' and its closing ')':
    backslash pairs and bracket expressions are skipped, parentheses nest.
    Result: the alternatives' texts and what follows the ')'. *)
Fixpoint sp_scan (fuel : nat) (depth : nat) (cur : str) (acc : list str) (s : str) : option (list str * str) :=
  match fuel with
  | O => None
  | S f =>
      match s with
      | [] => None
      | c :: r =>
          if is_c c 92 then
            match r with
            | d :: r' => sp_scan f depth (d :: c :: cur) acc r'
            | [] => None
            end
          else if is_c c 91 then
            match bracket_len s with
            | Some n => sp_scan f depth (rev (firstn n s) ++ cur) acc (skipn n s)
            | None => sp_scan f depth (c :: cur) acc r
            end
          else if is_c c 40 then sp_scan f (S depth) (c :: cur) acc r
          else if is_c c 41 then
            match depth with
            | O => Some (rev (rev cur :: acc), r)
            | S d => sp_scan f d (c :: cur) acc r
            end
          else if is_c c 124 then
            match depth with
            | O => sp_scan f depth [] (rev cur :: acc) r
            | S _ => sp_scan f depth (c :: cur) acc r
            end
          else sp_scan f depth (c :: cur) acc r
      end
  end.

Fixpoint sp_seq (fuel : nat) (ext : bool) (s : str) : gpat :=
  match fuel with
  | O => GNil
  | S f =>
      match s with
      | [] => GNil
      | c :: r =>
          let plain :=
            if is_c c 92 then
              match r with
              | d :: r' => GCons (GLit d) (sp_seq f ext r')
              | [] => GCons (GLit c) GNil
              end
            else if is_c c 91 then
              match sp_bracket r with
              | Some (a, rest) => GCons a (sp_seq f ext rest)
              | None => GCons (GLit c) (sp_seq f ext r)
              end
            else if is_c c 63 then GCons GAny (sp_seq f ext r)
            else if is_c c 42 then GCons GStar (sp_seq f ext r)
            else GCons (GLit c) (sp_seq f ext r) in
          match (if ext then sp_kind c else None), r with
          | Some k, d :: r' =>
              if is_c d 40 then
                match sp_scan (S (length r')) 0 [] [] r' with
                | Some (bodies, rest) =>
                    let alts :=
                      (fix mk (l : list str) : galts :=
                         match l with
                         | [] => AOne GNil
                         | [b] => AOne (sp_seq f ext b)
                         | b :: l' => ACons (sp_seq f ext b) (mk l')
                         end) bodies in
                    GCons (GExt k alts) (sp_seq f ext rest)
                | None => plain
                end
              else plain
          | _, _ => plain
          end
      end
  end.

Definition spec_parse (ext : bool) (s : str) : gpat := sp_seq (S (length s)) ext s.

(** The specification of [case], [[ == ]] and friends: the whole subject is matched. *)
Definition spec_matches (ext ci : bool) (p : str) (s : str) : bool :=
  glob_match ci (spec_parse ext p) s.
