(** Step-budgeted execution of the engine model and of the specification, for the correspondence
    runner.  The budgeted matcher [rmf] is the matcher [rm] of Glob/Regex.v with a tick counter
    threaded through successes and failures; running out of ticks is the explicit answer [AOut]
    (the driver counts it as inconclusive), never a boolean.  On every exhaustive case of every run
    the entry [glob_m] also evaluates the proven, unbudgeted [rm] and reports any difference. *)
From Coq Require Import String.
From BV Require Import Base.Prelude Base.Codec Glob.Ast Glob.Regex Glob.Sem.
Local Open Scope N_scope.

Inductive ans := AYes (p : option char) (s : str) (left : nat) | ANo (left : nat) | AOut.

Section MatchF.
  Variable multi dotall ci : bool.
  Definition kontf := option char -> str -> nat -> ans.
  Definition kidf : kontf := fun p s n => AYes p s n.

  Definition or_else (a : ans) (b : nat -> ans) : ans :=
    match a with ANo m => b m | x => x end.

  Fixpoint star_loop_f (m1 : option char -> str -> kontf -> nat -> ans) (cnt : nat)
           (p : option char) (s : str) (k : kontf) (n : nat) : ans :=
    match cnt with
    | O => k p s n
    | S c' =>
        or_else (m1 p s (fun p' s' m => if Nat.ltb (length s') (length s) then star_loop_f m1 c' p' s' k m else ANo m) n)
                (fun m => k p s m)
    end.

  Fixpoint lazy_loop_f (m1 : option char -> str -> kontf -> nat -> ans) (cnt : nat)
           (p : option char) (s : str) (k : kontf) (n : nat) : ans :=
    match cnt with
    | O => k p s n
    | S c' =>
        or_else (k p s n)
                (fun m => m1 p s (fun p' s' m' => if Nat.ltb (length s') (length s) then lazy_loop_f m1 c' p' s' k m' else ANo m') m)
    end.

  Fixpoint rmf (r : re) (p : option char) (s : str) (k : kontf) (n : nat) {struct r} : ans :=
    match n with
    | O => AOut
    | S n' =>
        match r with
        | REps => k p s n'
        | RChr c => match s with x :: s' => if chr_eq ci c x then k (Some x) s' n' else ANo n' | [] => ANo n' end
        | RAny => match s with x :: s' => if dotall || negb (N.eqb x 10) then k (Some x) s' n' else ANo n' | [] => ANo n' end
        | RSet neg items => match s with x :: s' => if set_matches ci neg items x then k (Some x) s' n' else ANo n' | [] => ANo n' end
        | RFail => ANo n'
        | RCat a b => rmf a p s (fun p' s' m => rmf b p' s' k m) n'
        | RAlt a b => or_else (rmf a p s k n') (fun m => rmf b p s k m)
        | RGrp a => rmf a p s k n'
        | RNcg a => rmf a p s k n'
        | RStar a => star_loop_f (rmf a) (length s) p s k n'
        | RPlus a => rmf a p s (fun p' s' m => star_loop_f (rmf a) (length s') p' s' k m) n'
        | ROpt a => or_else (rmf a p s k n') (fun m => k p s m)
        | RPlusLazy a => rmf a p s (fun p' s' m => lazy_loop_f (rmf a) (length s') p' s' k m) n'
        | RNegLook a => match rmf a p s kidf n' with AYes _ _ m => ANo m | ANo m => k p s m | AOut => AOut end
        | RAtomic a => match rmf a p s kidf n' with AYes p' s' m => k p' s' m | ANo m => ANo m | AOut => AOut end
        | RBol => if at_bol multi p then k p s n' else ANo n'
        | REol => if at_eol multi s then k p s n' else ANo n'
        end
    end.

  (** is_match with a budget: [Some b] or [None] when the budget ran out *)
  Fixpoint search_from_f (r : re) (p : option char) (s : str) (n : nat) : option bool :=
    match rmf r p s kidf n with
    | AYes _ _ _ => Some true
    | AOut => None
    | ANo m =>
        match s with
        | c :: s' => search_from_f r (Some c) s' m
        | [] => Some false
        end
    end.
  Definition search_f (r : re) (s : str) (n : nat) : option bool := search_from_f r None s n.
End MatchF.

Definition engine_budget : nat := 60000.

(** ** A cost guard for the denotational specification (cut enumeration is exponential in the
    nesting of iterated groups): beyond the guard the specification answer is "inconclusive". *)
Fixpoint qnest (g : gpat) : nat :=
  match g with GNil => O | GCons a r => Nat.max (qnest_atom a) (qnest r) end
with qnest_atom (a : gatom) : nat :=
  match a with
  | GExt k alts =>
      match k with
      | EStar | EPlus => S (qnest_alts alts)
      | _ => qnest_alts alts
      end
  | _ => O
  end
with qnest_alts (l : galts) : nat :=
  match l with AOne g => qnest g | ACons g r => Nat.max (qnest g) (qnest_alts r) end.

Fixpoint gsize (g : gpat) : nat :=
  match g with GNil => O | GCons a r => S (gsize_atom a + gsize r) end
with gsize_atom (a : gatom) : nat :=
  match a with GExt _ alts => gsize_alts alts | _ => O end
with gsize_alts (l : galts) : nat :=
  match l with AOne g => gsize g | ACons g r => gsize g + gsize_alts r end.

Definition spec_affordable (g : gpat) (s : str) : bool :=
  let n := length s in
  match qnest g with
  | O => Nat.leb n 14 && Nat.leb (gsize g) 14
  | S O => Nat.leb n 9 && Nat.leb (gsize g) 12
  | _ => Nat.leb n 5 && Nat.leb (gsize g) 10
  end.
