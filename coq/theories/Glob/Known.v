(** Decidable classes of inputs on which the unchanged code is known to deviate from the
    specification (see known_findings.json).  The python driver does not re-implement them: it
    reads the flags computed by these very functions through the extracted runner. *)
From BV Require Import Base.Prelude Glob.Ast Glob.Parse Glob.Regex Glob.Translate Glob.Sem.
Local Open Scope N_scope.

(** does some bracket expression of the pattern satisfy [P]? *)
Section AnyBracket.
  Variable P : bool -> list bitem -> bool.
  Fixpoint any_br (g : gpat) : bool :=
    match g with GNil => false | GCons a r => any_br_atom a || any_br r end
  with any_br_atom (a : gatom) : bool :=
    match a with
    | GBracket neg items => P neg items
    | GExt _ alts => any_br_alts alts
    | _ => false
    end
  with any_br_alts (l : galts) : bool :=
    match l with AOne g => any_br g | ACons g r => any_br g || any_br_alts r end.
End AnyBracket.


Definition mem_esc_alnum (m : bmem) : bool := match m with MEsc c => is_alnum c | _ => false end.
Definition item_esc_alnum (i : bitem) : bool :=
  match i with BClass _ => false | BRange a b => mem_esc_alnum a || mem_esc_alnum b | BOne m => mem_esc_alnum m end.

(** KF-C08-leading-rbracket: bash reads a bracket expression whose first member is ']' *)
Definition k_lead_rbracket (ext : bool) (p : str) : bool :=
  any_br (fun _ items =>
            match items with
            | BOne (MRaw c) :: _ => N.eqb c 93
            | BRange (MRaw c) _ :: _ => N.eqb c 93
            | _ => false
            end) (spec_parse ext p).

(** KF-C08-bracket-escaped-alnum: a bracket expression contains backslash + ASCII letter/digit *)
Definition k_esc_alnum (ext : bool) (p : str) : bool :=
  any_br (fun _ items => existsb item_esc_alnum items) (spec_parse ext p)
  || any_br (fun _ items => existsb item_esc_alnum items) (parse ext p).

(** KF-C08-extglob-negation: the pattern contains !(...) *)
Definition k_negation (ext : bool) (p : str) : bool :=
  has_neg (spec_parse ext p) || has_neg (parse ext p).

(** The emitted class text is read by the engine as the plain union of its members: no member is
    '-', '&' or '~' except a '-' in first or last position, and no escaped letter/digit. *)
Definition plain_mem (m : bmem) : bool :=
  match m with
  | MRaw c => negb (mem c [45; 38; 126; 91; 92; 93; 94])
  | MOpen => true
  | MEsc c => peg_escaped_alnum_plain || negb (is_alnum c)
  end.
Definition plain_item (i : citem) : bool :=
  match i with CCls _ => true | CRng a b => plain_mem a && plain_mem b | CMem m => plain_mem m end.
Definition is_dash_item (i : citem) : bool :=
  match i with CMem (MRaw c) => N.eqb c 45 | _ => false end.

Fixpoint plain_then_dash (l : list citem) : bool :=
  match l with
  | [] => true
  | [i] => plain_item i || is_dash_item i
  | i :: l' => plain_item i && plain_then_dash l'
  end.
Definition class_benign (l : list citem) : bool :=
  match l with
  | i :: l' => if is_dash_item i then plain_then_dash l' else plain_then_dash l
  | [] => true
  end.

(** KF-C08-bracket-dash-ops: a bracket expression whose regex text the engine does not read as
    the union of its members ('--' '&&' '~~' set operators, a range starting with a leading '-') *)
Definition k_class_ops (ext : bool) (p : str) : bool :=
  any_br (fun _ items => negb (class_benign (tr_items items))) (parse ext p).

(** KF-C08-extglob-paren-nesting: an extglob body contains a '(' that the PEG takes as a literal *)
Fixpoint lit_paren (inx : bool) (g : gpat) : bool :=
  match g with GNil => false | GCons a r => lit_paren_atom inx a || lit_paren inx r end
with lit_paren_atom (inx : bool) (a : gatom) : bool :=
  match a with
  | GLit c => inx && N.eqb c 40
  | GExt _ alts => lit_paren_alts alts
  | _ => false
  end
with lit_paren_alts (l : galts) : bool :=
  match l with AOne g => lit_paren true g | ACons g r => lit_paren true g || lit_paren_alts r end.
Definition k_paren_nest (ext : bool) (p : str) : bool := lit_paren false (parse ext p).

(** KF-C08-multiline-anchors: what a correct matcher would answer if '^' and '$' also matched
    next to line feeds: some region of the subject that starts at a line start and ends at a line
    end is matched by the pattern. *)
Fixpoint line_regions_from (s : str) : list str :=
  (* all prefixes of [s] that end at a line end *)
  match s with
  | [] => [[]]
  | c :: r => (if N.eqb c 10 then [[]] else []) ++ map (fun u => c :: u) (line_regions_from r)
  end.
Fixpoint line_regions (at_start : bool) (s : str) : list str :=
  (if at_start then line_regions_from s else []) ++
  match s with
  | [] => []
  | c :: r => line_regions (N.eqb c 10) r
  end.
Definition spec_multiline (ci : bool) (g : gpat) (s : str) : bool :=
  existsb (fun u => glob_match ci g u) (line_regions true s).
