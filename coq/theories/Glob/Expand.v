(** Pathname expansion: model of [Pattern::expand] (brush-core/src/patterns.rs) over a directory
    oracle, and its specification.  Modelled domain: relative patterns whose '/'-separated
    components are non-empty. *)
From Coq Require Import String.
From BV Require Import Base.Prelude Base.Codec Glob.Ast Glob.Parse Glob.Regex Glob.Translate Glob.Sem.
Local Open Scope N_scope.

(** byte-wise (= code-point) lexicographic order, as [Vec<PathBuf>::sort] gives for siblings *)
Fixpoint str_leb (a b : str) : bool :=
  match a, b with
  | [], _ => true
  | _ :: _, [] => false
  | x :: a', y :: b' => if N.ltb x y then true else if N.eqb x y then str_leb a' b' else false
  end.

Fixpoint insert_by {A} (le : A -> A -> bool) (x : A) (l : list A) : list A :=
  match l with
  | [] => [x]
  | y :: l' => if le x y then x :: l else y :: insert_by le x l'
  end.
Definition sort_by {A} (le : A -> A -> bool) (l : list A) : list A := fold_right (insert_by le) [] l.

Definition path := list str.
Fixpoint join_path (p : path) : str :=
  match p with
  | [] => []
  | [c] => c
  | c :: p' => c ++ [47] ++ join_path p'
  end.

Definition starts_dot (s : str) : bool := match s with c :: _ => N.eqb c 46 | [] => false end.

(** rule has_glob_metacharacters: non_glob_piece()* glob_piece() [_]* *)
Fixpoint has_glob (fuel : nat) (ext : bool) (s : str) : bool :=
  match fuel with
  | O => false
  | S f =>
      match s with
      | [] => false
      | c :: r =>
          if N.eqb c 92 then match r with _ :: r' => has_glob f ext r' | [] => false end
          else
            let glob_here :=
              (N.eqb c 91 && match parse_bracket r with Some _ => true | None => false end)
              || (ext && match ext_kind c, r with
                         | Some _, d :: r' => N.eqb d 40 && match parse_alts (parse_fuel s) ext r' with Some _ => true | None => false end
                         | _, _ => false
                         end)
              || N.eqb c 63 || N.eqb c 42 in
            glob_here || has_glob f ext r
      end
  end.
Definition requires_expansion (ext : bool) (s : str) : bool := has_glob (S (length s)) ext s.

Section Expand.
  (** the directory oracle: entries of a directory (in readdir order), [None] if not a directory;
      and whether a path names an existing entry *)
  Variable ls : path -> option (list str).
  Variable ex : path -> bool.
  Variable ext ci dotglob : bool.

  Definition comp_regex (c : str) : re := anchored (tr (parse ext c)).
  Definition comp_matches (c name : str) : bool := search eff_multi eff_dotall ci (comp_regex c) name.

  (** matches_dotfile_policy *)
  Definition dot_ok (c name : str) : bool := negb (starts_dot name) || (dotglob || starts_dot c).
  Definition keep (c name : str) : bool := comp_matches c name && dot_ok c name.

  Definition dir_sort (l : list str) : list str := if expand_sorts_per_dir then sort_by str_leb l else l.

  Definition step (c : str) (paths : list path) : list path :=
    if requires_expansion ext c then
      flat_map (fun p => match ls p with
                         | Some es => map (fun e => p ++ [e]) (dir_sort (filter (keep c) es))
                         | None => []
                         end) paths
    else filter ex (map (fun p => p ++ [c]) paths).

  Fixpoint walk (comps : list str) (paths : list path) : list path :=
    match comps with
    | [] => paths
    | c :: cs => walk cs (step c paths)
    end.

  Definition final_sort (l : list str) : list str := if expand_sorts_results then sort_by str_leb l else l.

  (** result words of expanding the (relative) pattern with components [comps] *)
  Definition expand (comps : list str) : list str := final_sort (map join_path (walk comps [[]])).

  (** ** Specification: every existing path whose components match the pattern's components
      (dot-files only for components that start with a dot, or under dotglob), sorted as strings *)
  Definition spec_comp (c name : str) : bool :=
    glob_match ci (spec_parse ext c) name && (negb (starts_dot name) || dotglob || starts_dot c).

  Fixpoint candidates (n : nat) (paths : list path) : list path :=
    match n with
    | O => paths
    | S n' => candidates n' (flat_map (fun p => match ls p with Some es => map (fun e => p ++ [e]) es | None => [] end) paths)
    end.

  Fixpoint all_match (comps : list str) (p : path) : bool :=
    match comps, p with
    | [], [] => true
    | c :: cs, n :: ns => spec_comp c n && all_match cs ns
    | _, _ => false
    end.

  Definition expand_spec (comps : list str) : list str :=
    sort_by str_leb (map join_path (filter (all_match comps) (candidates (length comps) [[]]))).
End Expand.

(** ** A concrete oracle from a list of names: "x" file, "d/" directory, "d/x" file inside d *)
Definition split_slash (s : str) : list str := split_on 47 s [].

Definition strip_trailing (p : path) : path :=
  match rev p with [] :: r => rev r | _ => p end.

Definition name_paths (names : list str) : list path := map (fun n => strip_trailing (split_slash n)) names.

Fixpoint prefixes (p : path) : list path :=
  match p with [] => [[]] | c :: p' => [] :: map (cons c) (prefixes p') end.

Fixpoint path_eqb (a b : path) : bool :=
  match a, b with
  | [], [] => true
  | x :: a', y :: b' => str_eqb x y && path_eqb a' b'
  | _, _ => false
  end.

Fixpoint dedup (l : list str) : list str :=
  match l with [] => [] | x :: l' => if existsb (str_eqb x) l' then dedup l' else x :: dedup l' end.

Definition is_dir_name (n : str) : bool := match rev n with c :: _ => N.eqb c 47 | [] => false end.

Definition tree_ls (names : list str) (p : path) : option (list str) :=
  let ps := name_paths names in
  (* children of p *)
  let kids := flat_map (fun q => if (Nat.ltb (length p) (length q)) && path_eqb (firstn (length p) q) p
                                 then match nth_error q (length p) with Some k => [k] | None => [] end else []) ps in
  let isdir := match p with [] => true | _ => existsb (fun n => is_dir_name n && path_eqb (strip_trailing (split_slash n)) p) names
                                              || negb (match kids with [] => true | _ => false end) end in
  if isdir then Some (dedup kids) else None.

Definition tree_ex (names : list str) (p : path) : bool :=
  existsb (fun q => existsb (path_eqb p) (prefixes q)) (name_paths names).

Definition comps_ok (comps : list str) : bool := forallb (fun c => negb (match c with [] => true | _ => false end)) comps.

Definition expand_model (ext ci dotglob : bool) (names : list str) (p : str) : option (list str) :=
  let comps := split_slash p in
  if negb (comps_ok comps) then None
  else if existsb (fun c => match re_status (tr (parse ext c)) with SOk => false | _ => true end) comps then None
  else if negb (existsb (requires_expansion ext) comps) then Some [p]
  else match expand (tree_ls names) (tree_ex names) ext ci dotglob comps with
       | [] => Some [p]            (* nullglob off: the word is left as it is *)
       | l => Some l
       end.

Definition expand_spec_words (ext ci dotglob : bool) (names : list str) (p : str) : list str :=
  let comps := split_slash p in
  match expand_spec (tree_ls names) ext ci dotglob comps with
  | [] => [p]
  | l => l
  end.
