(** C16 — the EXIT trap runs exactly once on every way out, and traps preserve $?.
    Only pinned statements, [exact], and [Print Assumptions].
    [cfg] carries the function table of the program and the flag [fixed]: false = the tree as found
    (an `exit` inside a handler is dropped), true = with the proposed repair.  Everything below holds
    for both unless it says otherwise; all front-ends ([-c], script file, commands on stdin), all
    programs of the command language of Traps/Syntax.v, any fuel. *)
From BV Require Import Base.Prelude Traps.Syntax Traps.Model Traps.Spec Traps.Proofs Traps.Theorems.

(** exactly once / never when none is registered *)
Theorem c16_exit_trap_once : forall cf fe fuel cs z sf,
  run cf fe fuel cs = Done z sf ->
  count_start SExit (out sf) = if registered_at_end cf fe fuel cs then 1%nat else 0%nat.
Proof. exact exit_trap_once. Qed.
Print Assumptions c16_exit_trap_once.

(** after all other output, seeing the terminating status: the whole trace is the program's own
    trace (no EXIT handler start in it), then one bracketed handler run whose start event carries
    the terminating status, then nothing *)
Theorem c16_exit_trap_last_sees_status : forall cf fe fuel cs z sf,
  run cf fe fuel cs = Done z sf -> registered_at_end cf fe fuel cs = true ->
  exists x, exit_handler_last (body_trace cf fe fuel cs) (out sf) (terminating_status cf fe fuel cs) x
            /\ count_start SExit (body_trace cf fe fuel cs) = 0%nat.
Proof. exact exit_trap_last_sees_status. Qed.
Print Assumptions c16_exit_trap_last_sees_status.

(** `exec` replaces the shell without running the trap *)
Theorem c16_exec_no_trap : forall cf fe fuel cs c s1,
  run_body cf fe fuel cs init_st = (RExec c, s1) ->
  run cf fe fuel cs = Replaced c s1 /\ count_start SExit (out s1) = 0%nat.
Proof. exact exec_no_trap. Qed.
Print Assumptions c16_exec_no_trap.

(** ERR and EXIT handlers leave the [$?] of the interrupted flow unchanged *)
Theorem c16_handlers_preserve_status : forall cf fuel g sup s r s',
  invoke cf (exec cf fuel) g sup s = (r, s') -> okerr r = true ->
  (fixed cf = false \/ exit_of r = None) -> status s' = status s.
Proof. exact handlers_preserve_status. Qed.
Print Assumptions c16_handlers_preserve_status.

(** a handler never re-enters itself: the scanner of Traps/Spec.v accepts the trace of every run *)
Theorem c16_no_reentry : forall cf fe fuel cs z sf, run cf fe fuel cs = Done z sf -> no_reentry (out sf).
Proof. exact no_reentry_run. Qed.
Print Assumptions c16_no_reentry.

(** the interpreter invariant behind the two previous theorems, for every command in every state *)
Theorem c16_exec_invariant : forall cf fuel sup c s r s', exec cf fuel sup c s = (r, s') -> Inv s r s'.
Proof. exact exec_inv. Qed.
Print Assumptions c16_exec_invariant.

(** final status: with the repair, the full statement *)
Theorem c16_final_status : forall cf, fixed cf = true -> final_status_stmt cf.
Proof. exact final_status. Qed.
Print Assumptions c16_final_status.

(** final status: the tree as found refutes it (`trap 'exit 7' EXIT; exit 3` ends with 3) … *)
Theorem c16_final_status_refuted : ~ final_status_stmt (mkcfg [] false None).
Proof. exact final_status_refuted. Qed.
Print Assumptions c16_final_status_refuted.

(** … because it always ends with the terminating status … *)
Theorem c16_final_status_as_found : forall cf fe fuel cs z sf,
  fixed cf = false -> run cf fe fuel cs = Done z sf -> z = terminating_status cf fe fuel cs.
Proof. exact final_status_as_found. Qed.
Print Assumptions c16_final_status_as_found.

(** … and outside the known class (no handler run ends in `exit`) the statement holds as found *)
Theorem c16_final_status_outside_known : forall cf fe fuel cs z sf,
  fixed cf = false -> run cf fe fuel cs = Done z sf -> handler_exited (out sf) = false ->
  let code := terminating_status cf fe fuel cs in
  if registered_at_end cf fe fuel cs
  then exists x, exit_handler_last (body_trace cf fe fuel cs) (out sf) code x
                 /\ z = match x with Some c => c | None => code end
  else z = code.
Proof. exact final_status_outside_known. Qed.
Print Assumptions c16_final_status_outside_known.

(** with the repair, a handler's `exit n` makes n the shell's status *)
Theorem c16_handler_exit_status : forall cf fuel g sup s s' f c,
  fixed cf = true -> invoke cf (exec cf fuel) g sup s = (ROk f c, s') -> exit_of (ROk f c) = Some c -> status s' = c.
Proof. exact handler_exit_status. Qed.
Print Assumptions c16_handler_exit_status.

(** non-vacuity: a concrete run with a registered EXIT handler, an ERR handler firing inside a
    function (errtrace), and `exit` inside `eval` inside a function inside a loop *)
Theorem c16_nonvacuous :
  exists z sf, run (mkcfg ex_funs true None) FeScript 30 ex_prog = Done z sf
    /\ registered_at_end (mkcfg ex_funs true None) FeScript 30 ex_prog = true
    /\ z = 4 /\ count_start SErr (out sf) = 6%nat.
Proof. exact nonvacuous. Qed.
Print Assumptions c16_nonvacuous.
