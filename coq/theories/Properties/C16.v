(** C16 — placeholder while the tie is being established. *)
From BV Require Import Base.Prelude Traps.Syntax Traps.Model.
Theorem c16_placeholder : init_st = init_st.
Proof. exact eq_refl. Qed.
Print Assumptions c16_placeholder.
