(** C05 — Unquoted words expand to the same argument lists as in bash.
    Only pinned statements, [exact], and [Print Assumptions].

    The specification (Expand/SplitSpec.v) expands a word to one flat stream of tagged characters
    with field breaks and quoted-null marks and cuts it as the bash manual / POSIX describe; it is
    validated against /usr/bin/bash on every run.  The model (Expand/Model.v) mirrors brush's
    piece/field data structures. *)
From BV Require Import Base.Prelude gen.ExpandGen Expand.Model Expand.SplitSpec Expand.Proofs Expand.SpecProofs.

(** For every environment whose IFS consists of blanks, tabs and newlines (or is unset or empty),
    every oracle, every brace-free word of the fragment (text, '..', $'..', "..", tilde, $v ${v} $N
    ${a[i]} $# $@ $* ${a[@]} ${a[*]}, ${#p}, $(..), $((..)), \c; no ${p:-w} forms) whose literal text has no
    IFS character (true of every tokenised word), outside the recorded class [known_at_null] and with
    "$*" joined as in bash: the model's fields — split at the same places, empty fields kept or
    dropped alike, every character with the same quoted/unquoted tag — are the specification's. *)
Theorem c05_fields_model_eq_spec : forall o e w,
  ifs_ws (ifs_of e) -> frag w = true -> lit_ok (ifs_of e) w = true ->
  known_at_null o e w = false -> star_ok e ->
  spec_fields o e w =
  match basic_expand o e w with
  | Ok x => Ok (map tagged (split_fields e x))
  | Err c => Err c
  end.
Proof. exact fields_model_eq_spec. Qed.
Print Assumptions c05_fields_model_eq_spec.

(** ... and the final argument lists (count, order, content) are equal when every field is entirely
    quoted or already cut into maximal quoted / unquoted runs (pathname matching proper is C08). *)
Theorem c05_full_model_eq_spec : forall o e w,
  ifs_ws (ifs_of e) -> frag w = true -> lit_ok (ifs_of e) w = true ->
  known_at_null o e w = false -> star_ok e ->
  (forall x, basic_expand o e w = Ok x -> Forall glob_ready (split_fields e x)) ->
  spec_expand o e w = full_expand o e w.
Proof. exact full_model_eq_spec. Qed.
Print Assumptions c05_full_model_eq_spec.

(** the cutting machine of the specification run on the model's fields IS split_fields *)
Theorem c05_cut_is_split_fields : forall sep, ifs_ws sep -> forall fs,
  cut sep (flat fs) = map tagged (split_loop sep fs []).
Proof. exact cut_flat. Qed.
Print Assumptions c05_cut_is_split_fields.

(** coalescing adjacent pieces is concatenation of their streams *)
Theorem c05_coalesce_is_concatenation : forall a b, flat (join_fields a b) = flat a ++ flat b.
Proof. exact flat_join_fields. Qed.
Print Assumptions c05_coalesce_is_concatenation.

(** "$*" is joined as in bash whenever IFS is not the empty string *)
Theorem c05_star_ok_nonempty_ifs : forall e, ifs e <> Some [] -> star_ok e.
Proof. exact star_ok_nonempty_ifs. Qed.
Print Assumptions c05_star_ok_nonempty_ifs.

(** empty-field rules *)
Theorem c05_empty_unquoted_vanishes : forall o e p, fields (expand_param e p) = [[Splittable []]] ->
  full_expand o e [WParam (EPlain p)] = Ok [].
Proof. exact empty_unquoted_vanishes. Qed.
Print Assumptions c05_empty_unquoted_vanishes.

Theorem c05_quoted_null_kept : forall o e,
  full_expand o e [WDQ []] = Ok [[]] /\ full_expand o e [WSQ []] = Ok [[]].
Proof. exact quoted_null_kept. Qed.
Print Assumptions c05_quoted_null_kept.

Theorem c05_empty_next_to_quoted_null : forall o e p, fields (expand_param e p) = [[Splittable []]] ->
  full_expand o e [WParam (EPlain p); WDQ []] = Ok [[]] /\
  full_expand o e [WDQ []; WParam (EPlain p)] = Ok [[]].
Proof. exact empty_next_to_quoted_null. Qed.
Print Assumptions c05_empty_next_to_quoted_null.

(** outside the quantifier (IFS with a non-blank character) the statement is refuted by the model *)
Theorem c05_nonws_ifs_refuted :
  spec_expand ex_oracles0 ex_colon_env [WParam (EPlain (PNamed [120%N]))] = Ok [[97]; []; [98]]%N /\
  full_expand ex_oracles0 ex_colon_env [WParam (EPlain (PNamed [120%N]))] = Ok [[97]; [98]]%N.
Proof. exact nonws_ifs_refuted. Qed.
Print Assumptions c05_nonws_ifs_refuted.

Theorem c05_literal_ifs_refuted :
  spec_expand ex_oracles0 ex_colon_env [WText [97; 58; 98]%N] = Ok [[97; 58; 98]]%N /\
  full_expand ex_oracles0 ex_colon_env [WText [97; 58; 98]%N] = Ok [[97]; [98]]%N.
Proof. exact literal_ifs_refuted. Qed.
Print Assumptions c05_literal_ifs_refuted.

(** The same equivalence on the larger fragment [frag2]: additionally ${p:-w} ${p-w} ${p:+w} ${p+w}
    with a scalar parameter p and a list-free default / alternative word w (text, quotes, scalar
    expansions, command and arithmetic substitutions), outside and inside double quotes. *)
From BV Require Import Expand.DefaultProofs.
Theorem c05_fields_model_eq_spec2 : forall o e w,
  ifs_ws (ifs_of e) -> frag2 w = true -> lit_ok (ifs_of e) w = true ->
  known_at_null o e w = false -> star_ok e ->
  spec_fields o e w =
  match basic_expand o e w with
  | Ok x => Ok (map tagged (split_fields e x))
  | Err c => Err c
  end.
Proof. exact fields_model_eq_spec2. Qed.
Print Assumptions c05_fields_model_eq_spec2.

Theorem c05_frag_frag2 : forall w, frag w = true -> frag2 w = true.
Proof. exact frag_frag2. Qed.
Print Assumptions c05_frag_frag2.

(** non-vacuity of the larger fragment: x unset, y="a b":  p${x:-$y"q r"}"${x:+z}${y:-d}" *)
Theorem c05_default_example :
  frag2 ex_default_word = true /\ frag ex_default_word = false /\
  spec_fields ex_oracles0 ex_default_env ex_default_word =
    Ok [[(112, false); (97, false)]; [(98, false); (113, true); (32, true); (114, true); (97, true); (32, true); (98, true)]]%N.
Proof. exact ex_default_in_fragment. Qed.
Print Assumptions c05_default_example.

(** Brace expansion (Expand/Brace.v).  The products of the model — itertools' cartesian product of
    the per-group alternatives, concatenated — are the words of the bash manual's rule (each
    alternative of the first group followed by every word of the rest), in the same order, for
    every tree (nesting, sequences, empty alternatives). *)
From BV Require Import Expand.Brace.
Theorem c05_brace_product_order : forall l, gen_nodes l = spec_words l.
Proof. exact brace_product_order. Qed.
Print Assumptions c05_brace_product_order.

(** With the blank in IFS, products that are non-empty and free of IFS characters come out as one
    field each: the join-with-a-blank-and-re-split detour of the code is invisible. *)
Theorem c05_brace_plain_blank_ifs : forall e ws,
  mem SP (ifs_of e) = true -> Forall (clean_word (ifs_of e)) ws ->
  split_fields e (exp_of_str (join_with [SP] ws)) = map mk1 ws.
Proof. exact brace_plain_blank_ifs. Qed.
Print Assumptions c05_brace_plain_blank_ifs.

(** Without the blank in IFS the statement is refuted: IFS=newline, {a,b}: specification (bash) two
    words, model (code) one field "a b". *)
Theorem c05_brace_refuted :
  spec_words ex_brace_tree = [[97]; [98]]%N /\
  split_fields ex_nl_env (exp_of_str (brace_expand_text true [123; 97; 44; 98; 125]%N (Some ex_brace_tree)))
  = [[Splittable [97; 32; 98]%N]].
Proof. exact brace_refuted. Qed.
Print Assumptions c05_brace_refuted.
