From BV Require Import Base.Prelude Hist.Model.
Theorem placeholder : True. Proof. exact I. Qed.
Print Assumptions placeholder.
