(** C20 — Command history is saved once, in order, and reloads as saved.
    Only pinned statements, [exact], and [Print Assumptions]. *)
From Coq Require Import Sorting.Sorted.
From BV Require Import Base.Prelude Base.Decimal Hist.Model Hist.Spec Hist.Proofs Hist.Once.

(** For every op sequence (any number of sessions on one file) whose recorded commands do not
    start with '#' after trimming, the model behaves as the abstract specification in
    Hist/Spec.v, where a save appends exactly the unsaved commands, in order, once. *)
Theorem c20_refinement : forall ops w, WF w -> Forall op_ok ops ->
  abs (run w ops) = arun (abs w) ops /\ WF (run w ops).
Proof. exact run_refines. Qed.
Print Assumptions c20_refinement.

Theorem c20_save_idempotent : forall w sid, step (step w (Save sid)) (Save sid) = step w (Save sid).
Proof. exact save_idempotent. Qed.
Print Assumptions c20_save_idempotent.

Theorem c20_save_appends_exactly_unsaved : forall w sid h, WF w -> nth_error (sessions w) sid = Some h ->
  afile (abs (step w (Save sid))) =
  afile (abs w) ++ map (fun it => (cmd it, if tsflag w then ts it else None)) (filter dirty (items h)).
Proof. exact save_appends_exactly_unsaved. Qed.
Print Assumptions c20_save_appends_exactly_unsaved.

Theorem c20_reload_as_saved : forall w, WF w ->
  map (fun x => fst x) (view (import (file w))) = afile (abs w).
Proof. exact reload_as_saved. Qed.
Print Assumptions c20_reload_as_saved.

(** Timestamps stay attached: re-importing what a save wrote gives back each unsaved item with
    its own stamp (stamps in chrono's range). *)
Theorem c20_timestamp_attached : forall tsf its, Forall item_ok its ->
  iview (flush_lines tsf its) None = map (saved_view tsf) (filter dirty its) /\
  ipend (flush_lines tsf its) None = None.
Proof. exact iview_flush. Qed.
Print Assumptions c20_timestamp_attached.

Theorem c20_file_append_only : forall w o, is_write o = false -> exists more, file (step w o) = file w ++ more.
Proof. exact file_append_only. Qed.
Print Assumptions c20_file_append_only.

(** `history -w` (op Write) rewrites the file: afterwards it holds exactly the session's items. The
    exactly-once statement below is about histories without it (bash, too, appends again after -w). *)
Theorem c20_write_replaces_file : forall w sid h, WF w -> nth_error (sessions w) sid = Some h ->
  afile (abs (step w (Write sid))) = map (fun it => (cmd it, if tsflag w then ts it else None)) (items h).
Proof. exact write_replaces_file. Qed.
Print Assumptions c20_write_replaces_file.

Theorem c20_decimal_roundtrip : forall z, in_i64 z = true -> parse_i64 (show_Z z) = Some z.
Proof. exact parse_show_Z. Qed.
Print Assumptions c20_decimal_roundtrip.

Theorem c20_nonvacuous : WF (init_world [[111;108;100]%N; HASH :: [49;50]%N; [99]%N]) /\ Forall op_ok ex_ops.
Proof. exact ex_wf. Qed.
Print Assumptions c20_nonvacuous.

(** Exactly once, in recording order, nothing lost: on the abstract machine instrumented with ghost
    tags (session, serial) — which erase to the machine of Hist/Spec.v — after ANY op sequence from
    ANY initial file: no tag occurs twice in the file, per session the serials in the file increase,
    every recorded command whose unsaved flag is clear is in the file, and none with the flag set is. *)
Theorem c20_tags_are_ghost : forall ops w, no_write ops -> terase (trun w ops) = arun (terase w) ops.
Proof. exact trun_erase. Qed.
Print Assumptions c20_tags_are_ghost.

Theorem c20_saved_exactly_once_in_order : forall f ops,
  let w := trun (tinit f) ops in
  NoDup (file_tags w) /\
  (forall k, StronglySorted lt (serials_of k (file_tags w))) /\
  (forall k l t a, nth_error (tsess w) k = Some l -> In (Some t, (a, false)) l -> In t (file_tags w)) /\
  (forall k l t a, nth_error (tsess w) k = Some l -> In (Some t, (a, true)) l -> ~ In t (file_tags w)).
Proof. exact saved_exactly_once_in_order. Qed.
Print Assumptions c20_saved_exactly_once_in_order.
