(** C10 — placeholder while the tie is being established. *)
From BV Require Import Base.Prelude Redir.FdTable.
Theorem c10_placeholder : forall t n e, tlookup (tset t n e) n = Some e.
Proof. exact tlookup_tset_same. Qed.
Print Assumptions c10_placeholder.
