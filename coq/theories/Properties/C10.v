(** C10 — Redirections give each command bash's descriptors and are undone afterwards;
    noclobber; here-documents byte-exact.
    Only pinned statements, [exact], and [Print Assumptions]. *)
From BV Require Import Base.Prelude Redir.FdTable Redir.Apply Redir.Spec Redir.Prog Redir.Interp Redir.SpecInterp
  Redir.Proofs Redir.ProgProofs Redir.HereDoc Redir.HereProofs Redir.HereExpand Redir.GenTie gen.C10Defaults.

(** For every redirection list, every noclobber setting, every world and every layered table
    (per-command layer L over the shell's persistent table P) whose flat view is T: applying the
    list to the layer (the model of brush's setup_redirect loop) and applying it with
    open/dup2/close to the flat table T (the POSIX/bash specification) give the same file
    system, the same failure (if any) and tables with the same flat view - strictly left to
    right, so `2>&1 >f` and `>f 2>&1` differ exactly as in the specification.  Unconditional
    since the repairs 77f6cd7 (&> honours noclobber) and 3653826 (n>&n). *)
Theorem c10_layered_refines_flat : forall rs nc P w L T,
  agree T L P ->
  let '(w1, L1, e1) := apply_redirs nc P w L rs in
  let '(w2, T2, e2) := spec_apply nc w T rs in
  w1 = w2 /\ e1 = e2 /\ agree T2 L1 P.
Proof. exact layered_refines_flat. Qed.
Print Assumptions c10_layered_refines_flat.

Theorem c10_order_matters :
  let a := apply_redirs false ex_tbl ex_world [] [RDup (Some 2%nat) true 1%nat; RFile None RWrite 4%nat] in
  let b := apply_redirs false ex_tbl ex_world [] [RFile None RWrite 4%nat; RDup (Some 2%nat) true 1%nat] in
  (try_fd (snd (fst a)) ex_tbl 1%nat, try_fd (snd (fst a)) ex_tbl 2%nat) = (Some 3%nat, Some 1%nat) /\
  (try_fd (snd (fst b)) ex_tbl 1%nat, try_fd (snd (fst b)) ex_tbl 2%nat) = (Some 3%nat, Some 3%nat) /\
  (flat_lookup (snd (fst (spec_apply false ex_world ex_tbl [RDup (Some 2%nat) true 1%nat; RFile None RWrite 4%nat]))) 2%nat,
   flat_lookup (snd (fst (spec_apply false ex_world ex_tbl [RFile None RWrite 4%nat; RDup (Some 2%nat) true 1%nat]))) 2%nat)
  = (Some 1%nat, Some 3%nat).
Proof. exact order_matters. Qed.
Print Assumptions c10_order_matters.

(** Whatever a command without `exec` does (any nesting of groups, subshells, loops, function
    calls, any redirection lists, failing or not), the shell's own table is afterwards exactly
    what it was. *)
Theorem c10_shell_table_untouched : forall nc m c, no_exec c = true ->
  forall w P L, snd (fst (run_cmd nc m c w P L)) = P.
Proof. exact shell_table_untouched. Qed.
Print Assumptions c10_shell_table_untouched.

(** `exec rs` at the top level makes exactly the specification's table the shell's table. *)
Theorem c10_exec_persists : forall nc m rs w P,
  let '(w1, P1, f) := run_cmd nc m (CExec rs) w P [] in
  let '(w2, T2, e) := spec_apply nc w P rs in
  e = None -> w1 = w2 /\ f = FNormal /\ forall n, flat_lookup P1 n = flat_lookup T2 n.
Proof. exact exec_persists. Qed.
Print Assumptions c10_exec_persists.

(** Program level.  For every script of the command language (simple commands observing their
    descriptors, exec, brace groups, subshells, loops, functions with definition and call
    redirections, arbitrarily nested, arbitrary redirection lists), every noclobber setting and
    every initial file system: if the specification's run stays outside the three open deviation
    classes (exec inside a redirected construct, 0/1/2 closed for an external command, a
    diagnostic while 2 is unusable), the model of brush's interpreter ends with the same file system (hence every command
    saw the descriptors the specification gives it: each observer writes what it sees) and the
    shell's table has the specification's flat view. *)
Theorem c10_run_refines_spec_outside_known : forall nc m prog w P ws Ts f,
  srun_script nc m prog w P = (ws, Ts, f) -> any_flag f = false ->
  exists Pm, run_script nc m prog w P = (ws, Pm) /\ forall n, flat_lookup Pm n = flat_lookup Ts n.
Proof. exact run_refines_spec_outside_known. Qed.
Print Assumptions c10_run_refines_spec_outside_known.

Theorem c10_program_nonvacuous : any_flag (snd (srun_script false [] ex_prog ex_world ex_tbl)) = false.
Proof. exact ex_prog_unflagged. Qed.
Print Assumptions c10_program_nonvacuous.

(** An external command receives exactly the flat view, outside the one open class (one of
    0,1,2 closed). *)
Theorem c10_child_sees_view_outside_known : forall L P T,
  agree T L P -> k_std_closed (std_flags T) = false ->
  forall n, child_view L P n = flat_lookup T n.
Proof. exact child_sees_view_outside_known. Qed.
Print Assumptions c10_child_sees_view_outside_known.

(** Regression examples for the repaired defects (each was a known finding). *)
Theorem c10_regress_andgreater_noclobber :
  setup_redirect true ex_tbl ex_world [] (RBoth 2%nat false) = inr (EOpenFail 2%nat EEXIST).
Proof. exact regress_andgreater_noclobber. Qed.
Theorem c10_regress_selfdup_closed :
  setup_redirect false ex_tbl ex_world [] (RDup (Some 4%nat) true 4%nat) = inl (ex_world, []).
Proof. exact regress_selfdup_closed. Qed.
Theorem c10_regress_std_dup : child_view [(2%nat, Some 1%nat)] ex_tbl 2%nat = Some 1%nat.
Proof. exact regress_std_dup. Qed.
Theorem c10_regress_compound_failure_continues :
  let '(w, _) := run_script false [] [CGroup GBrace [CSimple [] (AEcho [105]%N)] [RDup None true 7%nat];
                                      CSimple [] (AEcho [97]%N)] ex_world ex_tbl in
  nth_error (files w) 2%nat = Some {| f_exists := true; f_regular := true; f_data := [97; 10]%N |}.
Proof. exact regress_compound_failure_continues. Qed.

Theorem c10_open_flags_table :
  flags_of false false RRead = fl true false false false false false /\
  (forall isf, flags_of false isf RWrite = fl false true false true true false) /\
  flags_of true true RWrite = fl false true false false false true /\
  flags_of true false RWrite = fl false true false false true false /\
  (forall nc isf, flags_of nc isf RAppend = fl false false true false true false) /\
  (forall nc isf, flags_of nc isf RReadWrite = fl true true false false true false) /\
  (forall nc isf, flags_of nc isf RClobber = fl false true false true true false) /\
  (forall nc w k p, k_open w p (flags_of nc (is_file w p) k) = spec_open nc w k p).
Proof. exact open_flags_table. Qed.
Print Assumptions c10_open_flags_table.

(** Under noclobber no list of `<`, `>`, duplications, closes, here-documents and here-strings
    changes an existing regular file (content and existence). *)
Theorem c10_noclobber_never_truncates : forall rs P w L p f,
  forallb guarded rs = true ->
  file_at w p = Some f -> f_exists f = true -> f_regular f = true ->
  file_at (fst (fst (apply_redirs true P w L rs))) p = Some f.
Proof. exact noclobber_never_truncates. Qed.
Print Assumptions c10_noclobber_never_truncates.

Theorem c10_noclobber_write_refused : forall P w L n p,
  is_file w p = true -> setup_redirect true P w L (RFile n RWrite p) = inr (EOpenFail p EEXIST).
Proof. exact noclobber_write_refused. Qed.
Print Assumptions c10_noclobber_write_refused.

Theorem c10_clobber_truncates : forall nc P w L n p,
  is_file w p = true ->
  exists w' L', setup_redirect nc P w L (RFile n RClobber p) = inl (w', L') /\
                file_at w' p = Some {| f_exists := true; f_regular := true; f_data := [] |}.
Proof. exact clobber_truncates. Qed.
Print Assumptions c10_clobber_truncates.

(** The tokenizer's here-document loop equals the line-based definition on every input. *)
Theorem c10_heredoc_scan_spec : forall t strip inp, nonl t ->
  scan t strip [] inp = spec_doc t strip inp.
Proof. exact heredoc_scan_spec. Qed.
Print Assumptions c10_heredoc_scan_spec.

Theorem c10_heredoc_body_exact : forall t strip body tline rest,
  nonl t -> Forall nonl body -> nonl tline -> eff strip tline = t ->
  Forall (fun l => str_eqb (eff strip l) t = false) body ->
  scan t strip [] (unlines body ++ tline ++ NL :: rest) = Some (unlines (map (eff strip) body), rest).
Proof. exact heredoc_body_exact. Qed.
Print Assumptions c10_heredoc_body_exact.

Theorem c10_scan_all_spec : forall tags inp,
  Forall (fun p => nonl (tag_of_token (snd p))) tags -> scan_all tags inp = spec_all tags inp.
Proof. exact scan_all_spec. Qed.
Print Assumptions c10_scan_all_spec.

Theorem c10_two_docs_one_line : forall s1 tok1 s2 tok2 b1 l1 b2 l2 rest,
  let t1 := tag_of_token tok1 in let t2 := tag_of_token tok2 in
  nonl t1 -> nonl t2 -> Forall nonl b1 -> Forall nonl b2 -> nonl l1 -> nonl l2 ->
  eff s1 l1 = t1 -> eff s2 l2 = t2 ->
  Forall (fun l => str_eqb (eff s1 l) t1 = false) b1 ->
  Forall (fun l => str_eqb (eff s2 l) t2 = false) b2 ->
  scan_all [(s1, tok1); (s2, tok2)] (unlines b1 ++ l1 ++ NL :: unlines b2 ++ l2 ++ NL :: rest)
  = Some ([unlines (map (eff s1) b1); unlines (map (eff s2) b2)], rest).
Proof. exact two_docs_one_line. Qed.
Print Assumptions c10_two_docs_one_line.

Theorem c10_expansion_iff_unquoted_delimiter : forall tok,
  (requires_expansion tok = negb (has_quoting tok)) /\
  (requires_expansion tok = true -> tag_of_token tok = tok /\ unquote_str tok = tok).
Proof. exact expansion_iff_unquoted_delimiter. Qed.
Print Assumptions c10_expansion_iff_unquoted_delimiter.

Theorem c10_body_independent_of_quoting : forall tags tags' inp,
  map (fun p => (fst p, tag_of_token (snd p))) tags = map (fun p => (fst p, tag_of_token (snd p))) tags' ->
  scan_all tags inp = scan_all tags' inp.
Proof. exact body_independent_of_quoting. Qed.
Print Assumptions c10_body_independent_of_quoting.

Theorem c10_heredoc_nonvacuous :
  scan [69;79;70]%N true [] ([9;69;79;70;88;10; 32;69;79;70;10; 9;9;120;10; 9;69;79;70;10; 114]%N)
  = Some ([69;79;70;88;10; 32;69;79;70;10; 120;10]%N, [114]%N).
Proof. exact heredoc_example. Qed.
Print Assumptions c10_heredoc_nonvacuous.

(** The constants of the hand-written model equal the tables regenerated from the Rust source
    on this run (default descriptors, OpenOptions per redirect kind incl. the noclobber arm,
    here-document operators, the stripped character, the quoting characters). *)
Theorem c10_tables_match_source :
  default_fd RRead = c10_default_fd_Read /\ default_fd RWrite = c10_default_fd_Write /\
  default_fd RAppend = c10_default_fd_Append /\ default_fd RReadWrite = c10_default_fd_ReadAndWrite /\
  default_fd RClobber = c10_default_fd_Clobber /\
  default_dup_fd false = c10_default_dup_in /\ default_dup_fd true = c10_default_dup_out /\
  c10_default_fd_DuplicateInput = c10_default_dup_in /\ c10_default_fd_DuplicateOutput = c10_default_dup_out /\
  c10_default_heredoc = 0%nat /\ c10_default_herestring = 0%nat /\ c10_std_fds = (0, 1, 2)%nat /\
  flags_of false false RRead = fl6 c10_open_Read /\
  (forall isf, flags_of false isf RWrite = fl6 c10_open_Write) /\
  flags_of true false RWrite = fl6 c10_open_Write_nc_notfile /\
  flags_of true true RWrite = fl6 c10_open_Write_nc_file /\
  (forall nc isf, flags_of nc isf RAppend = fl6 c10_open_Append) /\
  (forall nc isf, flags_of nc isf RReadWrite = fl6 c10_open_ReadAndWrite) /\
  (forall nc isf, flags_of nc isf RClobber = fl6 c10_open_Clobber) /\
  c10_here_ops = [([60; 60]%N, false); ([60; 60; 45]%N, true)] /\
  (forall op b, In (op, b) c10_here_ops_parser <-> In (op, b) c10_here_ops) /\
  TAB = c10_strip_char /\
  (forall c, is_quoting_char c = existsb (N.eqb c) c10_quoting_chars) /\
  (forall tok, requires_expansion tok = negb (existsb (fun c => existsb (N.eqb c) c10_requires_expansion_chars) tok)) /\
  heredoc_triggers = c10_heredoc_triggers.
Proof. exact tables_match_source. Qed.
Print Assumptions c10_tables_match_source.

(** Processing of a here-document body under an unquoted delimiter (text, backslashes, $name, ${name}):
    outside the open class (an unquoted backslash-newline in the body) the model of brush - the
    "nothing to expand" shortcut over the trigger set of the source, then the piece-wise expansion -
    equals bash's rules: backslash before one of backslash, dollar, backquote is removed, any other
    backslash stays, parameters are replaced, quotes are ordinary characters. *)
Theorem c10_heredoc_body_processing_outside_known : forall e body,
  has_bsnl body = false -> code_expand heredoc_triggers e body = spec_expand e body.
Proof. exact heredoc_body_processing_outside_known. Qed.
Print Assumptions c10_heredoc_body_processing_outside_known.

Theorem c10_heredoc_shortcut_sound : forall e body,
  existsb (fun c => existsb (N.eqb c) heredoc_triggers) body = false ->
  hexpand true e (S (length body)) body = body.
Proof. exact shortcut_sound. Qed.
Print Assumptions c10_heredoc_shortcut_sound.

Theorem c10_quoted_delimiter_body_verbatim : forall tr e strip tok raw,
  has_quoting tok = true ->
  code_doc tr e strip tok raw = doc_lines strip raw /\ spec_doc_text e strip tok raw = doc_lines strip raw.
Proof. exact quoted_delimiter_body_verbatim. Qed.
Print Assumptions c10_quoted_delimiter_body_verbatim.

Theorem c10_heredoc_backslash_rules :
  spec_expand [([120]%N, [86]%N)] [92;92; 32; 92;36;120; 32; 92;96; 32; 92;97; 32; 92;34; 32; 36;120; 32; 36;123;120;125; 32; 39;36;120;39]%N
  = [92; 32; 36;120; 32; 96; 32; 92;97; 32; 92;34; 32; 86; 32; 86; 32; 39;86;39]%N.
Proof. exact backslash_rules. Qed.

(** regression example: a shortcut that ignores backslashes (trigger set without the backslash) is wrong *)
Theorem c10_regress_backslash_only_body :
  code_expand heredoc_triggers [] [67;58;92;92;100]%N = [67;58;92;100]%N /\
  code_expand [DOLLAR; BQ] [] [67;58;92;92;100]%N <> spec_expand [] [67;58;92;92;100]%N.
Proof. exact backslash_only_body_is_processed. Qed.
