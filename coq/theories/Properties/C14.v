(** C14 - placeholder while the theorems are being built. *)
From BV Require Import Base.Prelude Print.Tokenize Print.Show.
Theorem c14_tokenize_render : forall l,
  forallb atom_ok l = true -> chain_ok None l = true -> tokenize (render true l) = toks l.
Proof. exact tokenize_render. Qed.
Print Assumptions c14_tokenize_render.
