(** C14 - Printed function definitions re-parse to the same function  (partial).
    Only pinned statements, [exact], and [Print Assumptions].

    [show pf c] models the AST printer of brush-parser/src/ast.rs on the sub-grammar of
    Print/Show.v, [lexemes pf c] are the tokens the printer means to emit, [tokenize] models the
    tokenizer on the plain alphabet over the regenerated operator tables (gen/C14TokTables.v).
    [pf]: whether the printer separates redirection lists / pipeline bars ([repaired_flags]: yes;
    [old_flags]: the unchanged tree; [current_flags]: regenerated from ast.rs).
    What is outside the Coq statements (parser round trip, here-documents, quoting, behaviour) is
    decided on the code by execution: see props/c14.py. *)
From Coq Require Import String.
From BV Require Import Base.Prelude Base.Codec gen.C14TokTables Print.Tokenize Print.Show Print.Separation Print.ParseFlat.

(** generic: a well-separated sequence of valid print atoms tokenizes back to its lexemes *)
Theorem c14_tokenize_render : forall l,
  forallb atom_ok l = true -> chain_ok None l = true -> tokenize (render true l) = toks l.
Proof. exact tokenize_render. Qed.
Print Assumptions c14_tokenize_render.

(** the printer, for whatever flags, on every command that is well-formed for these flags *)
Theorem c14_show_separates_gen : forall pf c, ok_cmd pf false c = true -> tokenize (show pf c) = lexemes pf c.
Proof. exact show_separates_gen. Qed.
Print Assumptions c14_show_separates_gen.

(** repaired printer: every well-formed command of the sub-grammar *)
Theorem c14_show_separates : forall c, wf c = true -> tokenize (show repaired_flags c) = lexemes repaired_flags c.
Proof. exact show_separates. Qed.
Print Assumptions c14_show_separates.

(** the printer as it is now (regenerated flags = repaired): every well-formed command, no side condition *)
Theorem c14_show_separates_current : forall c, wf c = true -> tokenize (show current_flags c) = lexemes current_flags c.
Proof. exact show_separates_current. Qed.
Print Assumptions c14_show_separates_current.

Theorem c14_print_parse_print_current : forall c, ParseFlat.flat_fun c = true -> wf c = true ->
  ParseFlat.parse (tokenize (show current_flags c)) = Some c.
Proof. exact ParseFlat.parse_show_current. Qed.
Print Assumptions c14_print_parse_print_current.

(** regression examples, printer before the repairs: outside the class of the findings since repaired *)
Theorem c14_show_separates_outside_known : forall c, ~ Known c -> tokenize (show old_flags c) = lexemes old_flags c.
Proof. exact show_separates_outside_known. Qed.
Print Assumptions c14_show_separates_outside_known.

(** ... and refuted inside it: `{ echo a; } >f 2>&1` prints `}> f2>& 1` *)
Theorem c14_show_separates_refuted :
  exists c, wf c = true /\ tokenize (show old_flags c) <> lexemes old_flags c.
Proof. exact show_separates_refuted. Qed.
Print Assumptions c14_show_separates_refuted.

(** `a | &>f b` prints `a |&> f b`, also when only the redirection lists are repaired *)
Theorem c14_show_pipe_refuted :
  exists c, wf c = true /\ tokenize (show old_flags c) <> lexemes old_flags c /\
            tokenize (show {| f_redir_sep := true; f_pipe_sep := false; f_for_in_always := true |} c)
            <> lexemes {| f_redir_sep := true; f_pipe_sep := false; f_for_in_always := true |} c.
Proof. exact show_pipe_refuted. Qed.
Print Assumptions c14_show_pipe_refuted.

Theorem c14_nonvacuous :
  wf ex_redirs = true /\ wf ex_pipe = true /\ wf ex_plain = true /\ ok_cmd old_flags false ex_plain = true /\
  tokenize (show repaired_flags ex_redirs) = lexemes repaired_flags ex_redirs /\
  show old_flags ex_redirs = (lit "{ "%string ++ [10] ++ lit "    echo a"%string ++ [10] ++ lit "}> f2>& 1"%string)%N /\
  show repaired_flags ex_redirs = (lit "{ "%string ++ [10] ++ lit "    echo a"%string ++ [10] ++ lit "} > f 2>& 1"%string)%N.
Proof. exact show_separates_examples. Qed.
Print Assumptions c14_nonvacuous.

(** parse round trip (partial): for flat function definitions - a body that is a list of and-or lists of
    pipelines of simple commands - the parser model gives back the AST from the printed text.
    The full statement [print_parse_print_stmt] (Print/ParseFlat.v) is not proved: compound commands
    inside the body are outside the parser model. *)
Theorem c14_print_parse_print_partial : forall pf c, ParseFlat.flat_fun c = true -> ok_cmd pf false c = true ->
  ParseFlat.parse (tokenize (show pf c)) = Some c.
Proof. exact ParseFlat.parse_show. Qed.
Print Assumptions c14_print_parse_print_partial.

Theorem c14_print_parse_print_nonvacuous :
  ParseFlat.flat_fun ParseFlat.ex_flat = true /\ ok_cmd old_flags false ParseFlat.ex_flat = true /\
  ParseFlat.parse (tokenize (show old_flags ParseFlat.ex_flat)) = Some ParseFlat.ex_flat.
Proof. exact ParseFlat.parse_show_example. Qed.
Print Assumptions c14_print_parse_print_nonvacuous.
