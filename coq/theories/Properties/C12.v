(** C12 — Subshell isolation: nothing done in a subshell changes the parent shell.
    Only pinned statements, [exact], and [Print Assumptions]. The table [shell_clone_table] /
    [shell_struct_fields] is regenerated from brush-core/src/shell.rs on every run. *)
From Coq Require Import String.
From BV Require Import Base.Prelude Base.Codec Subshell.Kinds gen.ShellFields Subshell.Model Subshell.Entry Subshell.Proofs.

Theorem c12_clone_table_complete : map fst shell_struct_fields = map fst shell_clone_table.
Proof. exact clone_table_complete. Qed.
Print Assumptions c12_clone_table_complete.

Theorem c12_shared_fields_known : shared_fields shell_clone_table = known_shared.
Proof. exact shared_fields_known. Qed.
Print Assumptions c12_shared_fields_known.

Theorem c12_observed_fields_cloned :
  forallb (fun f => match kind_of f shell_clone_table with Some CkClone => true | _ => false end) observed = true.
Proof. exact observed_fields_cloned. Qed.
Print Assumptions c12_observed_fields_cloned.

Theorem c12_subshell_preserves_cloned : forall o c body w f,
  is_subshell o c = true -> ~ In f known_shared -> flows_back f = false ->
  cget f (fst (fst (run_mut o (MSub c body) w))) = cget f (fst w).
Proof. exact subshell_preserves_cloned. Qed.
Print Assumptions c12_subshell_preserves_cloned.

Theorem c12_clone_starts_equal : forall f s, In f observed -> cget f (clone_shell s) = cget f s.
Proof. exact clone_starts_equal. Qed.
Print Assumptions c12_clone_starts_equal.

(** Which contexts are subshells, as a function of pipefail / lastpipe / set -m. *)
Theorem c12_stage_classification :
  (forall o, is_subshell o CPipeFirst = true /\ is_subshell o CPipeMid = true) /\
  (forall o c, c <> CPipeLast -> is_subshell o c = true) /\
  (forall o c, o_jobctl o = true -> is_subshell o c = true) /\
  (forall o c, o_lastpipe o = false -> is_subshell o c = true) /\
  (forall o, is_subshell o CPipeLast = false <-> (o_lastpipe o = true /\ o_jobctl o = false)).
Proof. exact stage_classification. Qed.
Print Assumptions c12_stage_classification.

Theorem c12_lastpipe_last_stage_is_current : forall o body w,
  o_lastpipe o = true -> o_jobctl o = false ->
  run_mut o (MSub CPipeLast body) w =
  let '(w', fl) := run_list o body w in ((cset status_field [lit "?"] (fst w'), snd w'), fl).
Proof. exact lastpipe_last_stage_is_current. Qed.
Print Assumptions c12_lastpipe_last_stage_is_current.

Theorem c12_mutator_classification :
  (forall o m w, touches_pg m = false -> snd (fst (run_mut o m w)) = snd w) /\
  (forall o z w, pg_umask (snd (fst (run_mut o (MUmask z) w))) = z) /\
  (forall o z w, pg_nofile (snd (fst (run_mut o (MUlimit z) w))) = z) /\
  (forall o f v w, snd (fst (run_mut o (MField f v) w)) = snd w).
Proof. exact mutator_classification. Qed.
Print Assumptions c12_mutator_classification.

Theorem c12_isolation_outside_known : forall o c body w,
  is_subshell o c = true -> touches_pg (MSub c body) = false ->
  snd (fst (run_mut o (MSub c body) w)) = snd w /\
  forall f, ~ In f known_shared -> flows_back f = false ->
            cget f (fst (fst (run_mut o (MSub c body) w))) = cget f (fst w).
Proof. exact isolation_outside_known. Qed.
Print Assumptions c12_isolation_outside_known.

Theorem c12_isolation_refuted :
  exists o c body w, is_subshell o c = true /\ snd (fst (run_mut o (MSub c body) w)) <> snd w.
Proof. exact isolation_refuted. Qed.
Print Assumptions c12_isolation_refuted.

Theorem c12_isolation_ulimit_refuted :
  exists o c body w, is_subshell o c = true /\
    pg_nofile (snd (fst (run_mut o (MSub c body) w))) <> pg_nofile (snd w).
Proof. exact isolation_ulimit_refuted. Qed.
Print Assumptions c12_isolation_ulimit_refuted.

(** exit / return (any control flow) of a subshell stay in it, for every option setting. *)
Theorem c12_exit_contained : forall o c body w, is_subshell o c = true -> snd (run_mut o (MSub c body) w) = Go.
Proof. exact exit_contained. Qed.
Print Assumptions c12_exit_contained.

(** Background jobs (in-process tasks) and the step that collects them. *)
Theorem c12_bg_preserves_cloned : forall o how body w f,
  ~ In f known_shared -> flows_back f = false ->
  cget f (fst (fst (run_mut o (MBg how body) w))) = cget f (fst w).
Proof. exact bg_preserves_cloned. Qed.
Print Assumptions c12_bg_preserves_cloned.

Theorem c12_bg_collect_contained_outside_known : forall o how body w,
  how <> CollFg -> snd (run_mut o (MBg how body) w) = Go.
Proof. exact bg_collect_contained_outside_known. Qed.
Print Assumptions c12_bg_collect_contained_outside_known.

Theorem c12_bg_fg_refuted : exists o body w, snd (run_mut o (MBg CollFg body) w) = Exited.
Proof. exact bg_fg_refuted. Qed.
Print Assumptions c12_bg_fg_refuted.

Theorem c12_call_absorbs_return : forall o body w, snd (run_mut o (MCall body) w) <> Returned.
Proof. exact call_absorbs_return. Qed.
Print Assumptions c12_call_absorbs_return.

Theorem c12_shared_field_leaks :
  exists f v, In f known_shared /\
    cget f (fst (fst (run_mut o_none (MSub CParen [MField f v]) (init_state, mkPg 18 1024 [])))) = v /\
    v <> cget f init_state.
Proof. exact shared_field_leaks. Qed.
Print Assumptions c12_shared_field_leaks.

Theorem c12_nonvacuous :
  touches_pg (MSub CPipeFirst [MField "env"%string [lit "x"]; MSub CParen [MExit 3]; MCall [MReturn 2]; MField "traps"%string []]) = false /\
  is_subshell (mkOpts true true true) CPipeLast = true /\ is_subshell (mkOpts true false true) CPipeLast = false /\
  ~ In "env"%string known_shared /\ flows_back "env"%string = false /\ In "env"%string observed.
Proof. exact ex_nonvacuous. Qed.
Print Assumptions c12_nonvacuous.
