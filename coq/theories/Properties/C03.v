(** C03 — errexit, nounset and pipefail stop the shell exactly where bash does.
    Only pinned statements, [exact], and [Print Assumptions]. *)
From BV Require Import Base.Prelude Shell.Syntax Shell.ModelExec Shell.SpecExec Shell.Scope Shell.Ghost
  Shell.Simulation Shell.Witness Shell.C03Errexit Shell.C03Nounset.

(** errexit_flag_is_context + errexit_exit_point: whatever the nesting (groups, subshells,
    function calls, loops, conditions ...), if brush's interpreter is entered with its threaded flag
    equal to "some enclosing position is exempt" ([exempt stk]), every recursive call is again made
    with the flag of its own position stack, and brush and the declarative specification exit at
    the same command with the same status and output.  (Since the fix "errexit must not fire on a
    brace group / if / loop / case that failed quietly" this holds without an errexit-related side
    condition; the only ghost mark left, [GCond], concerns the status of a loop left from its
    condition and is C02's.) *)
Theorem c03_errexit_simulation : forall fuel c stk ctx l w,
  scope_cmd ctx c = [] -> funs_ok (sh w) -> (length ctx <= l)%nat ->
  sim (expect_c c stk ctx l) (exec fuel c (exempt stk) w) (sexec fuel c stk (emb w 0 0 l)).
Proof. exact (fun fuel => proj1 (sim_exec fuel)). Qed.
Print Assumptions c03_errexit_simulation.

Theorem c03_errexit_programs : forall fuel p,
  well_scoped p -> ghost_free (run_model fuel p) ->
  obs_model (run_model fuel p) = obs_spec (run_spec fuel p).
Proof. exact cf_trace_eq. Qed.
Print Assumptions c03_errexit_programs.

(** never_exits_in_exempt: the specification exits through errexit only when no enclosing
    position is exempt, the option is on and the status is non-zero *)
Theorem c03_never_exits_in_exempt : forall stk s s',
  errexit_check stk s = SExit s' ->
  exempt stk = false /\ errexit (opt (b_sh s)) = true /\ slast s <> 0%nat /\ s' = s.
Proof. exact spec_exit_not_exempt. Qed.
Print Assumptions c03_never_exits_in_exempt.

(** regression for the repaired defect: set -e; { false && true; }; echo m1  goes on, as in bash *)
Theorem c03_errexit_compound_repaired :
  agrees 20 w_compound /\ obs_model (run_model 20 w_compound) = Some (ENormal, 0%nat, [EMark 1]).
Proof. exact compound_repaired. Qed.
Print Assumptions c03_errexit_compound_repaired.

(** the extended fragment (redirections on compound commands, assignments with a command
    substitution) is inside the theorem: a non-trivial instance *)
Theorem c03_redirect_and_assignment :
  well_scoped ex_redir_assign /\ ghost_free (run_model 20 ex_redir_assign) /\
  obs_model (run_model 20 ex_redir_assign) = Some (EExit, 1%nat, [EMark 1]) /\
  obs_spec (run_spec 20 ex_redir_assign) = Some (EExit, 1%nat, [EMark 1]).
Proof. exact ex_redir_assign_ok. Qed.
Print Assumptions c03_redirect_and_assignment.

(** pipefail_status: the status brush computes for a pipeline is the last stage's, or under
    pipefail the rightmost non-zero one *)
Theorem c03_pipefail_status : forall pf rs, fst (pipe_result pf rs) = pipe_status pf (map fst rs).
Proof. exact pipefail_status. Qed.
Print Assumptions c03_pipefail_status.

(** nounset_table: brush's decision "this expansion of an unset parameter is an error under
    set -u" equals bash's on every row of the (form x name kind) table *)
Theorem c03_nounset_table : forall f k, In f all_forms -> In k all_kinds -> applicable f k = true ->
  model_rejects f k = bash_rejects f k \/ known_nounset_divergence f k = true.
Proof. exact nounset_table. Qed.
Print Assumptions c03_nounset_table.
