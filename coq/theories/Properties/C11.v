(** C11 — pipelines and command substitutions move all data, in order, without deadlock
    (partial: theorems about the transition-system model of brush's pipeline algorithm).
    Only pinned statements, [exact], and [Print Assumptions]. *)
From BV Require Import Base.Prelude Conc.Pipe Conc.Sched Conc.SchedProofs Conc.Deadlock Conc.Known Conc.Kahn Conc.Status.

(** On every schedule, for every pipe: read ++ in-flight = written (order kept, nothing lost
    or duplicated), and the buffer stays within the capacity. Any stage kinds, any capacity. *)
Theorem c11_fifo_integrity : forall (A : Type) (C : nat) (sgs : list (stage A)) (s : state A),
  reach C (init sgs) s ->
  Forall (fun p : pipe A => hw p = hr p ++ buf p /\ (length (buf p) <= C)%nat) (pipes s).
Proof. exact fifo_integrity. Qed.
Print Assumptions c11_fifo_integrity.

(** Safety of the data path: on every schedule, at every moment, what has reached the pipeline's
    stdout is a prefix of [spec_out] (the composition of the stages' stream functions). *)
Theorem c11_output_prefix : forall (A : Type) (C : nat) (sgs : list (stage A)) (s : state A),
  sgs <> [] -> reach C (init sgs) s -> prefix (out s) (spec_out A sgs).
Proof. exact output_prefix. Qed.
Print Assumptions c11_output_prefix.

(** Completeness: every reachable final state — any schedule, any stage kinds, stages ended early by
    EPIPE included — has delivered exactly [spec_out]. *)
Theorem c11_output_complete : forall (A : Type) (C : nat) (sgs : list (stage A)) (s : state A),
  sgs <> [] -> reach C (init sgs) s -> final s -> out s = spec_out A sgs.
Proof. exact output_complete. Qed.
Print Assumptions c11_output_complete.

(** If no stage but the last is executed inline, no reachable unfinished state is stuck —
    every payload, every capacity >= 1, every interleaving and split of reads and writes. *)
Theorem c11_progress_all_spawned : forall (A : Type) (C : nat), (1 <= C)%nat ->
  forall (sgs : list (stage A)) (s : state A),
  inline_only_last (map (@skind A) sgs) -> reach C (init sgs) s -> ~ final s ->
  exists s', step C s s'.
Proof. exact progress_all_spawned. Qed.
Print Assumptions c11_progress_all_spawned.

(** The repaired algorithm (every stage started before any is awaited: all kinds Spawned), without
    any side condition: no reachable unfinished state is stuck, whatever the payloads and C >= 1. *)
Theorem c11_progress_repaired : forall (A : Type) (C : nat), (1 <= C)%nat ->
  forall (sgs : list (stage A)) (s : state A),
  all_spawned A sgs -> reach C (init sgs) s -> ~ final s -> exists s', step C s s'.
Proof. exact progress_repaired. Qed.
Print Assumptions c11_progress_repaired.

(** The same outside the class of the known finding: if every stage that is executed inline and is
    not the last one emits at most the capacity ([known_class], computed from the stages' stream
    functions; the python driver decides the same predicate), no reachable unfinished state is stuck. *)
Theorem c11_progress_outside_known : forall (A : Type) (C : nat), (1 <= C)%nat ->
  forall (sgs : list (stage A)) (s : state A),
  known_class A C sgs = false -> reach C (init sgs) s -> ~ final s ->
  exists s', step C s s'.
Proof. exact progress_outside_known. Qed.
Print Assumptions c11_progress_outside_known.

(** No schedule from a reachable state is longer than that state's measure (any stage kinds):
    together with progress, every schedule of an all-spawned pipeline ends in the final state. *)
Theorem c11_terminates : forall (A : Type) (C : nat) (sgs : list (stage A)) (s : state A),
  reach C (init sgs) s ->
  forall ls s', run_labels C s ls = Some s' -> (length ls + mu A s' <= mu A s)%nat.
Proof. exact terminates. Qed.
Print Assumptions c11_terminates.

(** After the reader of pipe i has exited, the writer's next write (any quantum) ends the
    writer with status 141 instead of blocking. *)
Theorem c11_early_exit_reader : forall (A : Type) (C : nat) (sgs : list (stage A)) (s : state A)
    (i : nat) (sg : stage A) (k : nat),
  reach C (init sgs) s -> k <> 0%nat ->
  nth_error (stages s) i = Some sg -> sst sg = Running -> spend sg <> [] ->
  done_at A s (S i) = true ->
  next C s (LStage i k) = Some (exit_stage s i sg EPIPE_STATUS).
Proof. exact early_exit_reader. Qed.
Print Assumptions c11_early_exit_reader.

(** Regression example about the old algorithm (fixed by 6cea0bb): a stage executed inline in the
    middle can deadlock (capacity 1, payload 3). The model of the current code never has such a stage. *)
Theorem c11_inline_stage_deadlock_refuted :
  exists (C : nat) (sgs : list (stage nat)) (s : state nat),
    (1 <= C)%nat /\ (3 <= length (flat_map (@spend nat) sgs))%nat /\
    reach C (init sgs) s /\ ~ final s /\ stuck C s.
Proof. exact inline_stage_deadlock_refuted. Qed.
Print Assumptions c11_inline_stage_deadlock_refuted.

(** The schedulers run by the correspondence entry only take steps of the system. *)
Theorem c11_run_sched_sound : forall (A : Type) (C q : nat) (down : bool) (fuel : nat)
    (s s0 : state A) (o : outcome A),
  reach C s0 s -> run_sched C q down fuel s = o ->
  match o with
  | OFinal s' => reach C s0 s' /\ final s'
  | OStuck s' => reach C s0 s'
  | OFuel s' => reach C s0 s'
  end.
Proof. exact (fun A C q down fuel => @run_sched_reach A C q down fuel). Qed.
Print Assumptions c11_run_sched_sound.

(** ... and their verdict "stuck" (what the driver turns into "this pipeline hangs") is a state in
    which no label at all is enabled. *)
Theorem c11_stuck_verdict_sound : forall (A : Type) (C q : nat) (down : bool) (fuel : nat),
  q <> 0%nat -> forall s s' : state A, run_sched C q down fuel s = OStuck s' -> stuck C s'.
Proof. exact run_sched_stuck. Qed.
Print Assumptions c11_stuck_verdict_sound.

(** `$?` and PIPESTATUS computed by the wait loop equal bash's rule (last status; with
    pipefail the rightmost failure; `!` inverts; PIPESTATUS is the status vector). *)
Theorem c11_pipeline_status_spec : forall pipefail bang codes, codes <> [] ->
  pipeline_status pipefail bang codes = spec_status pipefail bang codes.
Proof. exact pipeline_status_spec. Qed.
Print Assumptions c11_pipeline_status_spec.

(** `$(...)` drops exactly the maximal suffix of newlines. *)
Theorem c11_cmdsub_strip : forall s : str, exists k,
  s = strip_nl s ++ repeat NL k /\
  (strip_nl s = [] \/ exists s' c, strip_nl s = s' ++ [c] /\ c <> NL).
Proof. exact cmdsub_strip. Qed.
Print Assumptions c11_cmdsub_strip.

(** Non-vacuity: `source 5 | cat | head 2` (last stage inline, capacity 2) satisfies the
    hypothesis of progress and completes with exactly the first two units. *)
Theorem c11_nonvacuous :
  inline_only_last (map (@skind nat) ex_cfg) /\
  exists s, reach 2 (init ex_cfg) s /\ final s /\ out s = [0; 1]%nat /\ sts s = [0; 141; 0]%nat.
Proof. exact ex_nonvacuous. Qed.
Print Assumptions c11_nonvacuous.

Theorem c11_spec_out_example : spec_out nat ex_cfg = [0; 1]%nat /\ spec_out nat dl_cfg = [0; 1; 2]%nat.
Proof. split; reflexivity. Qed.
Print Assumptions c11_spec_out_example.

(** The refutation witness lies in the class; pipelines with a bounded inline stage do not. *)
Theorem c11_known_examples :
  known_class nat 1 dl_cfg = true /\ known_class nat 2 ex_cfg = false /\
  known_class nat 4 [ mkStage Spawned NotStarted 0 (Some 0%nat) true [0;1;2;3;4;5;6;7]%nat;
                      mkStage Inline NotStarted 0 (Some 3%nat) true [];
                      mkStage Spawned NotStarted 0 None true [] ] = false.
Proof. exact known_examples. Qed.
Print Assumptions c11_known_examples.
