(** C11 — placeholder, replaced once the proofs are pinned. *)
From BV Require Import Base.Prelude Conc.Pipe Conc.Sched Conc.Status.

Theorem c11_pipeline_status_spec : forall pipefail bang codes, codes <> [] ->
  pipeline_status pipefail bang codes = spec_status pipefail bang codes.
Proof. exact pipeline_status_spec. Qed.
Print Assumptions c11_pipeline_status_spec.
