(** C15 — a program means the same however it is delivered and whatever was parsed before.
    Only pinned statements, [exact], and [Print Assumptions].  PARTIAL: memoisation
    transparency and key coverage are proved; mode agreement is proved on the model of the
    front-ends (Modes/Modes.v) under the stated parser hypotheses; the completeness decision
    for all prefixes is explored, not proved ([Modes.CompleteProofs.completeness_stmt]). *)
From Coq Require Import String.
From BV Require Import Base.Prelude Cache.Lru Cache.Transparency gen.C15CacheKeys gen.C15Incomplete
  Modes.Classes Modes.Complete Modes.CompleteProofs Modes.Modes Modes.Example Base.Codec.
From BV Require Modes.Lex.

(** A bounded memo table with any capacity and any eviction order is invisible when the key
    determines the function's value: after any history of calls the memoised entry point
    returns what the plain function returns. *)
Theorem c15_memo_transparent :
  forall (A K V : Type) (K_eqb : K -> K -> bool), (forall a b, K_eqb a b = true <-> a = b) ->
  forall (on_hit : K -> list (K * V) -> list (K * V)) (on_insert : list (K * V) -> list (K * V)),
  (forall k s, incl (on_hit k s) s) -> (forall s, incl (on_insert s) s) ->
  forall (f : A -> V) (key : A -> K), (forall a b, key a = key b -> f a = f b) ->
  forall history a, cached_call K_eqb on_hit on_insert f key history a = f a.
Proof. exact memo_transparent. Qed.
Print Assumptions c15_memo_transparent.

(** The same for the whole sequence of answers of a process. *)
Theorem c15_memo_session_transparent :
  forall (A K V : Type) (K_eqb : K -> K -> bool), (forall a b, K_eqb a b = true <-> a = b) ->
  forall (on_hit : K -> list (K * V) -> list (K * V)) (on_insert : list (K * V) -> list (K * V)),
  (forall k s, incl (on_hit k s) s) -> (forall s, incl (on_insert s) s) ->
  forall (f : A -> V) (key : A -> K), (forall a b, key a = key b -> f a = f b) ->
  forall history, answers K_eqb on_hit on_insert f key [] history = map f history.
Proof. exact memo_session_transparent. Qed.
Print Assumptions c15_memo_session_transparent.

(** The concrete policy of `cached::LruCache` (hit moves to the front, a full store drops the
    least recently used entry) is an instance, and never holds more than [cap] entries. *)
Theorem c15_lru_transparent :
  forall (A K V : Type) (K_eqb : K -> K -> bool), (forall a b : K, K_eqb a b = true <-> a = b) ->
  forall (cap : nat) (f : A -> V) (key : A -> K), (forall a b : A, key a = key b -> f a = f b) ->
  forall (history : list A) (a : A), lru_cached_call A K V K_eqb cap f key history a = f a.
Proof. exact lru_transparent. Qed.
Print Assumptions c15_lru_transparent.

Theorem c15_lru_bounded :
  forall (A K V : Type) (K_eqb : K -> K -> bool) (cap : nat) (f : A -> V) (key : A -> K) (h : list A) (s : list (K * V)),
  (length s <= cap)%nat -> (length (lru_run A K V K_eqb cap f key s h) <= cap)%nat.
Proof. exact lru_bounded. Qed.
Print Assumptions c15_lru_bounded.

(** The hypothesis is necessary: a key that keeps the text and drops the option returns a stale
    value (non-vacuity of the coverage obligation). *)
Theorem c15_memo_key_drop_visible :
  lru_cached_call _ _ _ Nat.eqb 64 ex_f ex_key_bad [(7%nat, false)] (7%nat, true) <> ex_f (7%nat, true).
Proof. exact memo_key_drop_visible. Qed.
Print Assumptions c15_memo_key_drop_visible.

(** Regenerated obligations over the memoisation sites found in the sources now: every
    parameter of every memoised function occurs in its key; keys are well formed and bounded;
    the option structs inside keys use derived (structural) equality and hashing, with no
    hand-written impls; the parser crates hold no other process-global state. *)
Theorem c15_keys_cover_inputs : forallb covers cache_sites = true.
Proof. exact keys_cover_inputs. Qed.
Print Assumptions c15_keys_cover_inputs.

Theorem c15_sites_well_formed : forallb well_formed_site cache_sites = true.
Proof. exact sites_well_formed. Qed.
Print Assumptions c15_sites_well_formed.

Theorem c15_key_types_structural : forallb structural key_types = true /\ key_types_closed = true.
Proof. exact key_types_structural. Qed.
Print Assumptions c15_key_types_structural.

Theorem c15_no_other_parser_state : parser_globals = [].
Proof. exact no_other_parser_state. Qed.
Print Assumptions c15_no_other_parser_state.

(** Hence every memoisation site in the sources is transparent for every function of its
    parameters, every history, every bounded policy. *)
Theorem c15_all_sites_transparent :
  forall (Val R : Type) (key_eqb : list Val -> list Val -> bool), (forall a b : list Val, key_eqb a b = true <-> a = b) ->
  forall (on_hit : list Val -> list (list Val * R) -> list (list Val * R)) (on_insert : list (list Val * R) -> list (list Val * R)),
  (forall (k : list Val) (s : list (list Val * R)), incl (on_hit k s) s) ->
  (forall s : list (list Val * R), incl (on_insert s) s) ->
  Forall (fun c : cache_site =>
            forall (F : list Val -> R) (history : list (string -> Val)) (e : string -> Val),
            site_call Val R key_eqb on_hit on_insert c F history e = F (map e (cs_params c))) cache_sites.
Proof. exact all_sites_transparent. Qed.
Print Assumptions c15_all_sites_transparent.

Theorem c15_dropped_option_is_not_covered : covers bad_site = false.
Proof. exact dropped_option_is_not_covered. Qed.
Print Assumptions c15_dropped_option_is_not_covered.

(** [Program::execute]: running two programs one after the other is running their
    concatenation, unless the first one leaves through `exit`/`return`/`break`. *)
Theorem c15_program_concat :
  forall (St cmd : Type) (exec : cmd -> nat -> St -> St * flow) (cs1 cs2 : list cmd) (base : nat) (st : St),
  run_program St cmd exec (cs1 ++ cs2) base st =
  (let '(st1, fl) := run_program St cmd exec cs1 base st in
   match fl with FNormal => run_program St cmd exec cs2 base st1 | _ => (st1, fl) end).
Proof. exact program_concat. Qed.
Print Assumptions c15_program_concat.

(** Delivery modes agree (final state = output, status, every $LINENO observed), whatever was
    parsed before ([h]) and for any bounded cache policy: for a text whose chunks (as formed by the
    standard-input front-end) all parse, and whose top-level flow is normal or `exit`.
    Hypotheses on the abstract parts: positions are additive in the frame's line base; the parser
    accepts the empty text; the parser is compositional after a chunk the front-end hands over. *)
Theorem c15_modes_agree :
  forall (St cmd opts : Type) (exec : cmd -> nat -> St -> St * flow) (shift : nat -> cmd -> cmd)
    (on_exit : St -> St) (parse_error : str -> nat -> St -> St)
    (parse : opts -> str -> option (list cmd)) (needs_more : opts -> str -> bool)
    (K_eqb : str * opts -> str * opts -> bool)
    (on_hit : str * opts -> list (str * opts * option (list cmd)) -> list (str * opts * option (list cmd)))
    (on_insert : list (str * opts * option (list cmd)) -> list (str * opts * option (list cmd))),
  (forall a b : str * opts, K_eqb a b = true <-> a = b) ->
  (forall (k : str * opts) (s : list (str * opts * option (list cmd))), incl (on_hit k s) s) ->
  (forall s : list (str * opts * option (list cmd)), incl (on_insert s) s) ->
  (forall (n : nat) (c : cmd) (base : nat) (st : St), exec (shift n c) base st = exec c (n + base)%nat st) ->
  (forall o : opts, parse o [] = Some []) ->
  (forall (o : opts) (t1 t2 : str) (cs1 cs2 : list cmd),
     needs_more o t1 = false -> ends_nl t1 = true -> parse o t1 = Some cs1 -> parse o t2 = Some cs2 ->
     parse o (t1 ++ t2) = Some (cs1 ++ map (shift (count_nl t1)) cs2)) ->
  forall (o : opts) (lines : list str) (st : St) (h : list (str * opts)),
  nonlast (fun l : str => ends_nl l = true) lines ->
  Forall (fun ch : str => parse o ch <> None) (chunks_of (needs_more o) [] lines) ->
  flow_ok (snd (run_parsed St cmd exec parse_error (parse o (concat lines)) (concat lines) 0 st)) ->
  let text := concat lines in
  let r := script_frontend St cmd opts exec on_exit parse_error parse o text st in
  dash_c_frontend St cmd opts exec on_exit parse_error parse K_eqb on_hit on_insert h o text st = r /\
  eval_delivery St cmd opts exec on_exit parse_error parse K_eqb on_hit on_insert h o text st = r /\
  source_delivery St cmd opts exec on_exit parse_error parse o text st = r /\
  stdin_frontend St cmd opts exec on_exit parse_error parse needs_more K_eqb on_hit on_insert h o lines st = r.
Proof. exact modes_agree_gen. Qed.
Print Assumptions c15_modes_agree.

(** The hypotheses of [c15_modes_agree] are satisfiable, with an observable $LINENO trace. *)
Theorem c15_modes_agree_nonvacuous :
  (forall a b, t_keq a b = true <-> a = b) /\
  (forall n c base st, t_exec (t_shift n c) base st = t_exec c (n + base) st) /\
  (forall o, t_parse o [] = Some []) /\
  nonlast (fun l => ends_nl l = true) ex_lines /\
  Forall (fun ch => t_parse tt ch <> None) (chunks_of (t_nm tt) [] ex_lines) /\
  flow_ok (snd (run_parsed (list nat) nat t_exec (fun _ _ st => st) (t_parse tt (concat ex_lines)) (concat ex_lines) 0 [])).
Proof. exact example_hypotheses. Qed.
Print Assumptions c15_modes_agree_nonvacuous.

Theorem c15_modes_agree_example :
  let r := script_frontend (list nat) nat unit t_exec (fun st => st ++ [0%nat]) (fun _ _ st => st) t_parse tt (concat ex_lines) [] in
  r = [1; 2; 3; 0]%nat /\
  stdin_frontend (list nat) nat unit t_exec (fun st => st ++ [0%nat]) (fun _ _ st => st) t_parse t_nm t_keq
      (fun _ s => s) (fun s => firstn 64 s) [] tt ex_lines [] = r.
Proof. exact example_agrees. Qed.
Print Assumptions c15_modes_agree_example.

(** On standard input a command runs as soon as, and only when, the text read so far is
    complete according to the decision [nm]: the chunks partition the lines in order, every chunk
    but the last is complete, no chunk has a complete proper line-prefix. *)
Theorem c15_chunks_spec :
  forall (nm : str -> bool) (lines : list str), Forall (fun l => l <> []) lines ->
  exists groups : list (list str),
    concat groups = lines /\
    map (@concat _) groups = chunks_of nm [] lines /\
    Forall (fun g => g <> [] /\ minimal nm g) groups /\ nonlast (complete nm) groups.
Proof. exact chunks_spec. Qed.
Print Assumptions c15_chunks_spec.

(** The classification: a tokenizer error kind asks for more input iff it is an
    [Unterminated*] kind (over the regenerated [TokenizerError] variants); running out of tokens
    asks for more; a bad token never does; a clean parse asks for more exactly when the text
    ends in a line continuation.  The match is exhaustive. *)
Theorem c15_incomplete_table : forall v, In v tokenizer_error_variants -> is_incomplete v = unterminated v.
Proof. exact incomplete_table. Qed.
Print Assumptions c15_incomplete_table.

Theorem c15_needs_more_class_spec : forall c cont,
  needs_more_class c cont =
  match c with CTok v => is_incomplete v | CAtEnd => true | CNear => false | COk => cont end.
Proof. exact needs_more_class_spec. Qed.
Print Assumptions c15_needs_more_class_spec.

Theorem c15_nmi_arms_exhaustive : forall c, first_arm nmi_arms c <> None.
Proof. exact nmi_arms_exhaustive. Qed.
Print Assumptions c15_nmi_arms_exhaustive.

Theorem c15_completeness_partial : forall parse_class t,
  needs_more parse_class t = true <->
  match parse_class t with
  | CTok v => is_incomplete v = true
  | CAtEnd => True
  | CNear => False
  | COk => ends_with_line_continuation parse_class t = true
  end.
Proof. exact completeness_partial. Qed.
Print Assumptions c15_completeness_partial.

(** $LINENO bookkeeping on standard input: the offset in force for a chunk is the number of
    lines read before it. *)
Theorem c15_offsets_are_lines_before : forall off pre ch post,
  Forall (fun c => ends_nl c = true) pre ->
  In ((off + count_nl (concat pre))%nat, ch) (with_offsets off (pre ++ ch :: post)).
Proof. exact offsets_are_lines_before. Qed.
Print Assumptions c15_offsets_are_lines_before.

(** `eval` line numbers (finding KF-C15-eval-lineno-base, fixed by e4871cd): positions inside
    eval'ed text count from the line L of the `eval` word, as in bash, for every L >= 1 and every
    frame base; hence the same for every delivery mode. *)
Theorem c15_eval_lineno :
  forall (St cmd opts : Type) (exec : cmd -> nat -> St -> St * flow) (parse_error : str -> nat -> St -> St)
    (parse : opts -> str -> option (list cmd)) (K_eqb : str * opts -> str * opts -> bool)
    (on_hit : str * opts -> list (str * opts * option (list cmd)) -> list (str * opts * option (list cmd)))
    (on_insert : list (str * opts * option (list cmd)) -> list (str * opts * option (list cmd)))
    (h : list (str * opts)) (o : opts) (text : str) (base L : nat) (st : St), (1 <= L)%nat ->
  eval_builtin St cmd opts exec parse_error parse K_eqb on_hit on_insert h o text base L st =
  eval_builtin_bash St cmd opts exec parse_error parse K_eqb on_hit on_insert h o text base L st.
Proof. exact eval_lineno. Qed.
Print Assumptions c15_eval_lineno.

(** Regression example: eval'ed from line 3 the text reports 3 (and 3, 4 for two lines); on standard
    input with frame offset 2 and `eval` on the second line of its chunk it reports 4. *)
Theorem c15_eval_lineno_regression :
  fst (eval_builtin (list nat) nat unit t_exec (fun _ _ st => st) t_parse t_keq (fun _ s => s) (fun s => firstn 64 s)
         [] tt [101; 10]%N 0 3 []) = [3]%nat /\
  fst (eval_builtin (list nat) nat unit t_exec (fun _ _ st => st) t_parse t_keq (fun _ s => s) (fun s => firstn 64 s)
         [] tt [101; 10; 102; 10]%N 0 3 []) = [3; 4]%nat /\
  fst (eval_builtin (list nat) nat unit t_exec (fun _ _ st => st) t_parse t_keq (fun _ s => s) (fun s => firstn 64 s)
         [] tt [101; 10]%N 2 2 []) = [4]%nat.
Proof. exact eval_lineno_regression. Qed.
Print Assumptions c15_eval_lineno_regression.

(** The completeness decision is right on the lexical fragment (word characters, blanks,
    newlines, quotes, backslashes, `#`): with the tokenizer's quoting state machine as the
    parser's verdict ([Lex.lex_class], compared with the real parser on every such text up to a
    length bound), the decision says "more input needed" exactly when the text is not a complete
    program of the grammar [Lex.Prog] but can be extended to one.  This is
    [completeness_stmt] for the fragment; beyond it the statement is explored, not proved. *)
Theorem c15_lex_completeness :
  forall t, needs_more Lex.lex_class t = true <->
            (~ Lex.Prog true t /\ exists ext, Lex.Prog true (t ++ ext)).
Proof. exact Lex.lex_completeness. Qed.
Print Assumptions c15_lex_completeness.

Theorem c15_lex_examples :
  Lex.lex_needs_more (lit "a 'b") = true /\ Lex.lex_needs_more (lit "a # 'b") = false /\
  Lex.lex_needs_more [97; 92; 10]%N = true /\ Lex.lex_needs_more [97; 32; 35; 92; 10]%N = false /\
  Lex.lex_needs_more [97; 92; 92; 10]%N = false /\ Lex.lex_needs_more [34; 97; 92; 34; 10]%N = true.
Proof. exact Lex.lex_examples. Qed.
Print Assumptions c15_lex_examples.

(** Regenerated obligations: the translator recognised every shape it read (an unrecognised shape
    is recorded in the table instead of being dropped, and breaks these). *)
Theorem c15_cache_shapes_recognised : cache_unrecognised = [].
Proof. exact cache_shapes_recognised. Qed.
Print Assumptions c15_cache_shapes_recognised.

Theorem c15_incomplete_shapes_recognised : incomplete_unrecognised = [].
Proof. exact incomplete_shapes_recognised. Qed.
Print Assumptions c15_incomplete_shapes_recognised.
