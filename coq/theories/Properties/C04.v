(** C04 — Quoted expansions arrive byte-exact: never re-split, re-globbed or re-parsed.
    Only pinned statements, [exact], and [Print Assumptions].  All theorems hold for every value
    (any characters), every IFS (set, unset, empty), every combination of noglob / nullglob /
    failglob / extglob / dotglob and every oracle: directory contents and matcher ([o_glob]),
    glob-metacharacter test ([o_req]), command output, arithmetic, tilde, ANSI-C decoder. *)
From BV Require Import Base.Prelude Expand.Model Expand.Proofs.

(** Whatever stands between double quotes, the word yields exactly the fields built by
    double-quote processing: field splitting and pathname expansion are the identity on them. *)
Theorem c04_dq_never_split_or_globbed : forall o e ps x,
  expand_piece o e false (WDQ ps) = Ok x ->
  full_expand o e [WDQ ps] = Ok (map field_str (filter nonempty (fields x))).
Proof. exact dq_never_split_or_globbed. Qed.
Print Assumptions c04_dq_never_split_or_globbed.

(** "$x", "${x}", "$1", "${a[i]}": exactly one argument, the value itself (also when empty). *)
Theorem c04_dq_param_exact : forall o e p s,
  fields (expand_param e p) = [[Splittable s]] -> concatenate (expand_param e p) = true ->
  full_expand o e [WDQ [WParam (EPlain p)]] = Ok [s].
Proof. exact dq_param_exact. Qed.
Print Assumptions c04_dq_param_exact.

Theorem c04_dq_named_exact : forall o e x v, lookup (vars e) x = Some (VStr v) ->
  full_expand o e [WDQ [WParam (EPlain (PNamed x))]] = Ok [v].
Proof. exact dq_named_exact. Qed.
Print Assumptions c04_dq_named_exact.

Theorem c04_dq_unset_is_one_empty : forall o e x, lookup (vars e) x = None ->
  full_expand o e [WDQ [WParam (EPlain (PNamed x))]] = Ok [[]].
Proof. exact dq_unset_is_one_empty. Qed.
Print Assumptions c04_dq_unset_is_one_empty.

(** the hypotheses of c04_dq_param_exact hold for every scalar parameter form *)
Theorem c04_scalar_params_qualify : forall e p,
  match p with PNamed _ | PPos _ | PIdx _ _ | PCount => True | _ => False end ->
  exists s, fields (expand_param e p) = [[Splittable s]] /\ concatenate (expand_param e p) = true.
Proof. exact expand_param_scalar. Qed.
Print Assumptions c04_scalar_params_qualify.

(** "${a[@]}" and "$@": exactly the elements, as many arguments as elements (none if empty). *)
Theorem c04_dq_array_exact : forall o e p,
  match p with PAllPos false | PAllIdx _ false => True | _ => False end ->
  full_expand o e [WDQ [WParam (EPlain p)]] = Ok (elements e p).
Proof. exact dq_array_exact. Qed.
Print Assumptions c04_dq_array_exact.

(** "pre${a[@]}suf": only the first and the last element are extended. *)
Theorem c04_dq_array_affix : forall o e p pre suf,
  match p with PAllPos false | PAllIdx _ false => True | _ => False end ->
  full_expand o e [WDQ [WText pre; WParam (EPlain p); WText suf]] = Ok (affix pre (elements e p) suf).
Proof. exact dq_array_affix. Qed.
Print Assumptions c04_dq_array_affix.

(** "$(cmd)": the output minus NULs minus exactly the trailing newlines, one argument. *)
Theorem c04_dq_cmdsub : forall o e c,
  full_expand o e [WDQ [WCmd c]] = Ok [trim_trailing_nl (strip_nul (o_cmd o c))].
Proof. exact dq_cmdsub. Qed.
Print Assumptions c04_dq_cmdsub.

Theorem c04_trim_trailing_nl_exact : forall s, exists n,
  s = trim_trailing_nl s ++ repeat NL n /\ (forall t, trim_trailing_nl s <> t ++ [NL]).
Proof. exact trim_trailing_nl_spec. Qed.
Print Assumptions c04_trim_trailing_nl_exact.

Theorem c04_strip_nul_identity : forall s, ~ In 0%N s -> strip_nul s = s.
Proof. exact strip_nul_spec. Qed.
Print Assumptions c04_strip_nul_identity.

(** y=$x and y="$x" copy the value exactly. *)
Theorem c04_assign_exact : forall o e p s,
  fields (expand_param e p) = [[Splittable s]] -> concatenate (expand_param e p) = true ->
  expand_to_str o e [WParam (EPlain p)] = Ok s /\ expand_to_str o e [WDQ [WParam (EPlain p)]] = Ok s.
Proof. exact assign_exact. Qed.
Print Assumptions c04_assign_exact.

(** Unquoted $x: the value is cut at IFS characters ([ifs_split]: the non-empty segments between
    separator characters) and every part is handed to pathname expansion as it is — no quote
    removal, brace, tilde or command interpretation of the value's characters. *)
Theorem c04_unquoted_only_splits_and_globs : forall o e p v,
  fields (expand_param e p) = [[Splittable v]] ->
  full_expand o e [WParam (EPlain p)] = concat_map_res (glob1 o e) (ifs_split (ifs_of e) v).
Proof. exact unquoted_only_splits_and_globs. Qed.
Print Assumptions c04_unquoted_only_splits_and_globs.

Theorem c04_unquoted_noglob : forall o e p v,
  fields (expand_param e p) = [[Splittable v]] -> noglob e = true ->
  full_expand o e [WParam (EPlain p)] = Ok (ifs_split (ifs_of e) v).
Proof. exact unquoted_noglob. Qed.
Print Assumptions c04_unquoted_noglob.

(** A field made only of quoted pieces is never globbed ... *)
Theorem c04_unsplittable_fields_skip_globbing : forall o e f, all_uns f = true -> f <> [] ->
  expand_pathnames o e f = Ok [field_str f].
Proof. exact expand_pathnames_uns. Qed.
Print Assumptions c04_unsplittable_fields_skip_globbing.

(** ... and never split. *)
Theorem c04_unsplittable_fields_skip_splitting : forall sep fs acc,
  Forall (fun f => all_uns f = true) fs -> split_loop sep fs acc = acc ++ filter nonempty fs.
Proof. exact split_loop_uns. Qed.
Print Assumptions c04_unsplittable_fields_skip_splitting.

(** Non-vacuity: x=" * a*", directory {a, ab, *}, nullglob: quoted gives the value, unquoted
    gives five file names. *)
Theorem c04_nonvacuous_quoted :
  full_expand ex_oracles ex_env [WDQ [WParam (EPlain (PNamed [120%N]))]] = Ok [ex_value].
Proof. exact ex_quoted. Qed.
Print Assumptions c04_nonvacuous_quoted.

Theorem c04_nonvacuous_unquoted :
  full_expand ex_oracles ex_env [WParam (EPlain (PNamed [120%N]))] = Ok [[42]; [97]; [97; 98]; [97]; [97; 98]]%N.
Proof. exact ex_unquoted. Qed.
Print Assumptions c04_nonvacuous_unquoted.

(** What field splitting does to characters, for EVERY IFS and every expansion: read as tagged
    characters, the fields that come out are exactly the characters that went in, in order, minus the
    UNQUOTED characters that are in IFS.  No quoted character is dropped, moved or used as a
    delimiter (mixed words like pre"$x"$y included). *)
From BV Require Import Expand.SplitSpec Expand.SpecProofs.
Theorem c04_split_only_removes_unquoted_ifs : forall e x,
  all_tagged (split_fields e x) = filter (keep (ifs_of e)) (all_tagged (fields x)).
Proof. exact split_only_removes_unquoted_ifs. Qed.
Print Assumptions c04_split_only_removes_unquoted_ifs.

(** ~ ~+ ~- ~user ~N: the directory the tilde prefix stands for is exactly one argument (one assigned value),
    whatever blanks, newlines or glob characters it holds, for every IFS, glob option and directory. *)
Theorem c04_tilde_exact : forall o e t s, o_tilde o t = Some s ->
  full_expand o e [WTilde t] = Ok [s] /\ expand_to_str o e [WTilde t] = Ok s.
Proof. exact tilde_exact. Qed.
Print Assumptions c04_tilde_exact.
