(** placeholder; replaced once the proofs exist *)
From BV Require Import Base.Prelude Expand.Model.
Theorem c04_placeholder : forall s, field_str [Unsplittable s] = s ++ [].
Proof. intros s; reflexivity. Qed.
Print Assumptions c04_placeholder.
