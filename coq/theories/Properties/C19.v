(** C19 — Syntax highlighting covers the typed line exactly.
    Only pinned statements, [exact], and [Print Assumptions]. *)
From BV Require Import Base.Prelude Hl.Spans Hl.Spec Hl.Proofs Hl.Examples.
Local Open Scope nat_scope.

(** For every line, cursor and every token/piece tree handed to the highlighter that passes the
    decidable check [prog_ok] (token positions ordered, piece indices nested and on char
    boundaries, nested command texts embedded in the line — evaluated on every generated case by
    the extracted checker, discharged by correspondence, not by proof), the model of
    highlight_command returns spans (no panic) that are in range, on char boundaries, ordered,
    non-overlapping, contiguous from 0 to the end, cover every byte, and render back to the line;
    and no span is empty. *)
Theorem c19_spans_cover : forall top cursor p, prog_ok top p = 0 ->
  exists sp, highlight top cursor p = Some sp
    /\ spec top sp
    /\ Forall (fun x => sstart x < send x) sp.
Proof. exact spans_cover. Qed.
Print Assumptions c19_spans_cover.

Theorem c19_builder_no_panic : forall top cursor p, prog_ok top p = 0 -> highlight top cursor p <> None.
Proof. exact builder_no_panic. Qed.
Print Assumptions c19_builder_no_panic.

(** The span builder alone (append_span / skip_ahead / set_next_missing_kind), for any sequence of
    calls whose ranges are ordered ([cur <= start <= end]) and on char boundaries and whose last
    call ends at the line's length. *)
Theorem c19_builder_cover : forall top cs, wf_calls top 0 cs -> end_cur 0 cs = blen top ->
  exists st, run_calls top bst0 cs = Some st /\ spec top (b_spans st).
Proof. exact builder_cover. Qed.
Print Assumptions c19_builder_cover.

(** Offsets taken from the char->byte table are char boundaries of the UTF-8 bytes (any string,
    any index, including indices past the end, which clamp to the length). *)
Theorem c19_byte_offset_aligned : forall line ci, is_cb (utf8 line) (byte_offset line ci) = true.
Proof. exact byte_offset_aligned. Qed.
Print Assumptions c19_byte_offset_aligned.

(** The model's boundary test (table membership) is str::is_char_boundary on the bytes. *)
Theorem c19_is_boundary_is_cb : forall line i, is_boundary line i = is_cb (utf8 line) i.
Proof. exact is_boundary_is_cb. Qed.
Print Assumptions c19_is_boundary_is_cb.

(** The two assertions of upstream's fuzz target imply the property as worded (ordered,
    non-overlapping, every byte covered, rendering reproduces the text). *)
Theorem c19_spec_core_spec : forall line sp, spec_core line sp -> spec line sp.
Proof. exact spec_core_spec. Qed.
Print Assumptions c19_spec_core_spec.

(** The decidable check run on the code's spans decides the property. *)
Theorem c19_spec_code_correct : forall line sp, spec_code line sp = 0 <-> spec line sp.
Proof. exact spec_code_correct. Qed.
Print Assumptions c19_spec_code_correct.

(** Non-vacuity: a line with a nested command substitution, a multi-byte char and a comment
    satisfies the hypothesis, and the model's answer is the one the code gives. *)
Theorem c19_nonvacuous : prog_ok ex_ok_line ex_ok_tree = 0 /\
  highlight ex_ok_line 23 ex_ok_tree =
    Some [(0, 4, KBuiltin); (4, 5, KComment); (5, 6, KQuoted); (6, 8, KQuoted); (8, 10, KCmdSubst);
          (10, 12, KExternal); (12, 13, KCmdSubst); (13, 15, KDefault); (15, 16, KCmdSubst);
          (16, 18, KQuoted); (18, 19, KQuoted); (19, 23, KQuoted)].
Proof. exact ex_ok. Qed.
Print Assumptions c19_nonvacuous.

(** The hypothesis is needed (the builder does not clamp): with the token order the tokenizer
    produces for a here-document the spans overlap (known finding KF-C19-heredoc-token-order). *)
Theorem c19_unordered_tokens_refuted : prog_ok ex_heredoc_line ex_heredoc_tree = 1 /\
  exists sp, highlight ex_heredoc_line 0 ex_heredoc_tree = Some sp /\ ~ spec ex_heredoc_line sp.
Proof. exact ex_heredoc. Qed.
Print Assumptions c19_unordered_tokens_refuted.

(** ... and with the unescaped text of a backquoted command a span boundary falls inside a
    multi-byte char: panic in a debug build (known finding KF-C19-backquote-escape-offsets). *)
Theorem c19_unescaped_backquote_refuted :
  prog_ok ex_bq_line ex_bq_tree = 4 /\ highlight ex_bq_line 0 ex_bq_tree = None.
Proof. exact ex_bq. Qed.
Print Assumptions c19_unescaped_backquote_refuted.
