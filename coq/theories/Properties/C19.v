(** C19 — Syntax highlighting covers the typed line exactly.
    Only pinned statements, [exact], and [Print Assumptions].

    [clamp] is the form of append_span: [false] as in the pinned tree, [true] with the range
    clamped to [current position, line length] (the repair proposed for the here-document
    finding).  gen/C19Variant.v, regenerated from /repo on every run, says which one the code
    has; [highlight] = [highlight_gen clamp_spans]. *)
From BV Require Import Base.Prelude gen.C19Variant Hl.Spans Hl.Spec Hl.Proofs Hl.Cursor Hl.Examples.
Local Open Scope nat_scope.

(** For every line, cursor and every token/piece tree handed to the highlighter that passes the
    decidable check [prog_ok] (token positions ordered, piece indices nested and on char
    boundaries, nested command texts embedded in the line — evaluated on every generated case by
    the extracted checker, discharged by correspondence, not by proof), the model of
    highlight_command (either form) returns spans (no panic) that are in range, on char
    boundaries, ordered, non-overlapping, contiguous from 0 to the end, cover every byte, and
    render back to the line; and no span is empty. *)
Theorem c19_spans_cover : forall clamp top cursor p, prog_ok top p = 0 ->
  exists sp, highlight_gen clamp top cursor p = Some sp
    /\ spec top sp
    /\ Forall (fun x => sstart x < send x) sp.
Proof. exact spans_cover_gen. Qed.
Print Assumptions c19_spans_cover.

(** ... in particular for the form found in /repo *)
Theorem c19_spans_cover_repo : forall top cursor p, prog_ok top p = 0 ->
  exists sp, highlight top cursor p = Some sp
    /\ spec top sp
    /\ Forall (fun x => sstart x < send x) sp.
Proof. exact spans_cover. Qed.
Print Assumptions c19_spans_cover_repo.

Theorem c19_builder_no_panic : forall top cursor p, prog_ok top p = 0 -> highlight top cursor p <> None.
Proof. exact builder_no_panic. Qed.
Print Assumptions c19_builder_no_panic.

(** The span builder alone (append_span / skip_ahead / set_next_missing_kind), for any sequence of
    calls whose ranges are ordered ([cur <= start <= end]) and on char boundaries and whose last
    call ends at the line's length. *)
Theorem c19_builder_cover : forall clamp top cs, wf_calls top 0 cs -> end_cur 0 cs = blen top ->
  exists st, run_calls_gen clamp top bst0 cs = Some st /\ spec top (b_spans st).
Proof. exact builder_cover. Qed.
Print Assumptions c19_builder_cover.

(** The clamped builder needs no order at all: for ANY sequence of calls whose positions are char
    boundaries (what the debug assertions demand) and whose last call asks for the end of the line. *)
Theorem c19_builder_clamped_cover : forall top cs k s e,
  calls_aligned top (cs ++ [Append k s e]) = true -> blen top <= e ->
  exists st, run_calls_gen true top bst0 (cs ++ [Append k s e]) = Some st /\ spec top (b_spans st).
Proof. exact builder_clamped_cover. Qed.
Print Assumptions c19_builder_clamped_cover.

(** ... hence for the clamped highlighter, whatever the tokenizer's order and the piece indices *)
Theorem c19_spans_cover_clamped : forall top cursor p,
  calls_aligned top (prog_calls cursor top 0 p) = true ->
  exists sp, highlight_gen true top cursor p = Some sp /\ spec top sp.
Proof. exact spans_cover_clamped. Qed.
Print Assumptions c19_spans_cover_clamped.

Theorem c19_spans_cover_repo_clamped : clamp_spans = true -> forall top cursor p,
  calls_aligned top (prog_calls cursor top 0 p) = true ->
  exists sp, highlight top cursor p = Some sp /\ spec top sp.
Proof. exact spans_cover_repo_clamped. Qed.
Print Assumptions c19_spans_cover_repo_clamped.

(** Offsets taken from the char->byte table are char boundaries of the UTF-8 bytes (any string,
    any index, including indices past the end, which clamp to the length). *)
Theorem c19_byte_offset_aligned : forall line ci, is_cb (utf8 line) (byte_offset line ci) = true.
Proof. exact byte_offset_aligned. Qed.
Print Assumptions c19_byte_offset_aligned.

(** The model's boundary test (table membership) is str::is_char_boundary on the bytes. *)
Theorem c19_is_boundary_is_cb : forall line i, is_boundary line i = is_cb (utf8 line) i.
Proof. exact is_boundary_is_cb. Qed.
Print Assumptions c19_is_boundary_is_cb.

(** The two assertions of upstream's fuzz target imply the property as worded (ordered,
    non-overlapping, every byte covered, rendering reproduces the text). *)
Theorem c19_spec_core_spec : forall line sp, spec_core line sp -> spec line sp.
Proof. exact spec_core_spec. Qed.
Print Assumptions c19_spec_core_spec.

(** The decidable check run on the code's spans decides the property. *)
Theorem c19_spec_code_correct : forall line sp, spec_code line sp = 0 <-> spec line sp.
Proof. exact spec_code_correct. Qed.
Print Assumptions c19_spec_code_correct.

(** Non-vacuity: a line with a nested command substitution, a multi-byte char and a comment
    satisfies the hypothesis, and the model's answer is the one the code gives. *)
Theorem c19_nonvacuous : prog_ok ex_ok_line ex_ok_tree = 0 /\ forall clamp,
  highlight_gen clamp ex_ok_line 23 ex_ok_tree =
    Some [(0, 4, KBuiltin); (4, 5, KComment); (5, 6, KQuoted); (6, 8, KQuoted); (8, 10, KCmdSubst);
          (10, 12, KExternal); (12, 13, KCmdSubst); (13, 15, KDefault); (15, 16, KCmdSubst);
          (16, 18, KQuoted); (18, 19, KQuoted); (19, 23, KQuoted)].
Proof. exact ex_ok. Qed.
Print Assumptions c19_nonvacuous.

(** The order hypothesis is needed for the unclamped form: with the token order the tokenizer
    produces for a here-document the spans overlap (known finding KF-C19-heredoc-token-order) ... *)
Theorem c19_unordered_tokens_refuted : prog_ok ex_heredoc_line ex_heredoc_tree = 1 /\
  exists sp, highlight_gen false ex_heredoc_line 0 ex_heredoc_tree = Some sp /\ ~ spec ex_heredoc_line sp.
Proof. exact ex_heredoc. Qed.
Print Assumptions c19_unordered_tokens_refuted.

(** ... while the clamped form is fine on the same input. *)
Theorem c19_unordered_tokens_clamped :
  calls_aligned ex_heredoc_line (prog_calls 0 ex_heredoc_line 0 ex_heredoc_tree) = true /\
  highlight_gen true ex_heredoc_line 0 ex_heredoc_tree =
    Some [(0, 3, KUnknown); (3, 4, KComment); (4, 6, KOperator); (6, 9, KDefault); (9, 10, KComment);
          (10, 19, KDefault)].
Proof. exact ex_heredoc_clamped. Qed.
Print Assumptions c19_unordered_tokens_clamped.

(** With the unescaped text of a backquoted command a span boundary falls inside a multi-byte
    char: panic in a debug build, either form (known finding KF-C19-backquote-escape-offsets). *)
Theorem c19_unescaped_backquote_refuted :
  prog_ok ex_bq_line ex_bq_tree = 4 /\ forall clamp, highlight_gen clamp ex_bq_line 0 ex_bq_tree = None.
Proof. exact ex_bq. Qed.
Print Assumptions c19_unescaped_backquote_refuted.

(** The cursor only influences kinds (command classification): the byte ranges of the spans, and
    whether the highlighter panics, do not depend on it. *)
Theorem c19_ranges_cursor_independent : forall clamp top c1 c2 p,
  option_map (map range) (highlight_gen clamp top c1 p) = option_map (map range) (highlight_gen clamp top c2 p).
Proof. exact ranges_cursor_independent. Qed.
Print Assumptions c19_ranges_cursor_independent.
