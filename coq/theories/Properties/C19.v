(** C19 — placeholder; pinned theorems follow. *)
From BV Require Import Base.Prelude Hl.Spans Hl.Spec.
