(** C06 — parameter-expansion operators compute bash's result; prefix/suffix removal deletes
    the shortest/longest matching prefix/suffix, the empty one included.
    Only pinned statements, [exact], and [Print Assumptions]. *)
From BV Require Import Base.Prelude ParamExp.Remove ParamExp.RemoveProofs ParamExp.Param ParamExp.ParamSpec ParamExp.ParamProofs.
From BV Require Import gen.C06ParamOps ParamExp.OpsOrder ParamExp.EvProofs.

(** ** The bash-independent clause, for every matcher [m] and every string [s]. *)

(** [##] and [%%] (loops of the unchanged tree): full strength. *)
Theorem c06_remove_largest_prefix : forall m s, largest_prefix_spec m s (remove_largest_prefix m s).
Proof. exact remove_largest_prefix_spec. Qed.
Print Assumptions c06_remove_largest_prefix.

Theorem c06_remove_largest_suffix : forall m s, largest_suffix_spec m s (remove_largest_suffix m s).
Proof. exact remove_largest_suffix_spec. Qed.
Print Assumptions c06_remove_largest_suffix.

(** [#] and [%] (loops as repaired by 0a1f494, ce50a75): full strength. *)
Theorem c06_remove_smallest_prefix : forall m s, smallest_prefix_spec m s (remove_smallest_prefix m s).
Proof. exact remove_smallest_prefix_repaired_spec. Qed.
Print Assumptions c06_remove_smallest_prefix.

Theorem c06_remove_smallest_suffix : forall m s, smallest_suffix_spec m s (remove_smallest_suffix m s).
Proof. exact remove_smallest_suffix_repaired_spec. Qed.
Print Assumptions c06_remove_smallest_suffix.

(** Regression: the loops as they were before the repair ([…_old]) are refuted when the pattern
    matches the empty string (witness: pattern [*], value abc) and were right outside that class. *)
Theorem c06_regression_old_smallest_prefix_refuted : exists m s, ~ smallest_prefix_spec m s (remove_smallest_prefix_old m s).
Proof. exact remove_smallest_prefix_refuted. Qed.
Print Assumptions c06_regression_old_smallest_prefix_refuted.

Theorem c06_regression_old_smallest_suffix_refuted : exists m s, ~ smallest_suffix_spec m s (remove_smallest_suffix_old m s).
Proof. exact remove_smallest_suffix_refuted. Qed.
Print Assumptions c06_regression_old_smallest_suffix_refuted.

Theorem c06_regression_old_smallest_prefix_outside_class : forall m s, m [] = false ->
  smallest_prefix_spec m s (remove_smallest_prefix_old m s).
Proof. exact remove_smallest_prefix_outside_known. Qed.
Print Assumptions c06_regression_old_smallest_prefix_outside_class.

Theorem c06_regression_old_smallest_suffix_outside_class : forall m s, m [] = false ->
  smallest_suffix_spec m s (remove_smallest_suffix_old m s).
Proof. exact remove_smallest_suffix_outside_known. Qed.
Print Assumptions c06_regression_old_smallest_suffix_outside_class.

(** The specification determines the result, and the executable oracle used by the check
    computes it. *)
Theorem c06_removal_spec_functional : forall ok b cut s r1 r2,
  removal_spec ok b cut s r1 -> removal_spec ok b cut s r2 -> r1 = r2.
Proof. exact removal_spec_functional. Qed.
Print Assumptions c06_removal_spec_functional.

Theorem c06_oracle_prefix_sound : forall shortest m s,
  removal_spec (prefix_ok m s) shortest (fun k => skipn k s) s (spec_remove_prefix shortest m s).
Proof. exact spec_remove_prefix_sound. Qed.
Print Assumptions c06_oracle_prefix_sound.

Theorem c06_oracle_suffix_sound : forall shortest m s,
  removal_spec (suffix_ok m s) (negb shortest) (fun k => firstn k s) s (spec_remove_suffix shortest m s).
Proof. exact spec_remove_suffix_sound. Qed.
Print Assumptions c06_oracle_suffix_sound.

(** The four operators through [transform_expansion], for every parameter (scalars,
    positional parameters, [$@]/[$*], arrays), with and without nounset. *)
Theorem c06_removal_eq_oracle : forall sh r o m,
  obs (removal true sh r o (Some m)) = removal_oracle sh r o (Some m).
Proof. exact removal_repaired_eq_oracle. Qed.
Print Assumptions c06_removal_eq_oracle.

Theorem c06_regression_old_removal_outside_class : forall sh r o m,
  (match o with RmSmallestPrefix | RmSmallestSuffix => m [] = false | _ => True end) ->
  obs (removal false sh r o (Some m)) = removal_oracle sh r o (Some m).
Proof. exact removal_outside_known. Qed.
Print Assumptions c06_regression_old_removal_outside_class.

(** ** unset / null / set *)
Theorem c06_arms_are_posix_table : forall op colon st, arm_action op colon st = posix_table op colon (tr st).
Proof. exact arms_are_posix_table. Qed.
Print Assumptions c06_arms_are_posix_table.

Theorem c06_unset_null_table : forall sh r op colon w, known_cond sh r op colon = false ->
  obs2 (conditional sh r op colon (of_string w)) = conditional_spec sh r op colon w.
Proof. exact unset_null_table. Qed.
Print Assumptions c06_unset_null_table.

(** ** length *)
Theorem c06_length_eq_spec : forall sh r, known_len sh r = false ->
  parameter_length sh r = length_spec sh r.
Proof. exact length_repaired_eq_spec. Qed.
Print Assumptions c06_length_eq_spec.

Theorem c06_length_chars : forall sh r,
  (forall w, is_list r = false -> words sh r = Some [w] -> parameter_length sh r = Ok (length w)) /\
  (forall l, is_list r = true -> words sh r = Some l -> parameter_length sh r = Ok (length l)).
Proof. exact length_chars. Qed.
Print Assumptions c06_length_chars.

Theorem c06_regression_old_length_ascii : forall sh r,
  (forall w, is_list r = false -> words sh r = Some [w] -> ascii w = true) ->
  parameter_length_old sh r = parameter_length sh r.
Proof. exact length_outside_known. Qed.
Print Assumptions c06_regression_old_length_ascii.

Theorem c06_regression_old_length_refuted : exists sh r, parameter_length_old sh r <> length_spec sh r.
Proof. exact length_refuted. Qed.
Print Assumptions c06_regression_old_length_refuted.

(** ** substring *)
Theorem c06_substring_bounds_eq_bash : forall sh r off olen, fits sh r ->
  obs (substring sh r off olen) = substring_spec sh r off olen.
Proof. exact substring_repaired_eq_spec. Qed.
Print Assumptions c06_substring_bounds_eq_bash.

Theorem c06_substring_no_panic : forall sh r off olen, fits sh r -> substring sh r off olen <> Panic.
Proof. exact substring_no_panic. Qed.
Print Assumptions c06_substring_no_panic.

(** The unchanged arm, outside its two known classes (negative length; non-ASCII scalar word). *)
Theorem c06_regression_old_substring_outside_class : forall sh r off olen, fits sh r ->
  (forall l, olen = Some l -> 0 <= l) ->
  (forall w, is_list r = false -> words sh r = Some [w] -> ascii w = true) ->
  obs (substring_old sh r off olen) = substring_spec sh r off olen.
Proof. exact substring_outside_known. Qed.
Print Assumptions c06_regression_old_substring_outside_class.

Theorem c06_regression_old_substring_panics : exists sh r off olen, substring_old sh r off olen = Panic.
Proof. exact substring_refuted. Qed.
Print Assumptions c06_regression_old_substring_panics.

Theorem c06_regression_old_substring_negative_length :
  obs (substring_old (sh_scalar abcdefgh) RNamed 2 (Some (-3))) <> substring_spec (sh_scalar abcdefgh) RNamed 2 (Some (-3)).
Proof. exact substring_negative_length_refuted. Qed.
Print Assumptions c06_regression_old_substring_negative_length.

(** Order of evaluation: the offset is evaluated only for a parameter that has words, the length only
    for an offset inside the value (side effects and errors of skipped operands do not happen). *)
Theorem c06_substring_evaluation_order : forall sh r off olen, fits sh r ->
  obs_ev (substring_ev sh r off olen) = substring_spec_ev sh r off olen.
Proof. exact substring_ev_eq_spec. Qed.
Print Assumptions c06_substring_evaluation_order.

(** ** [${!a[@]}] / [${!a[*]}] *)
Theorem c06_member_keys : forall sh c, dq_args (member_keys sh c) = keys_spec sh c.
Proof. exact member_keys_eq_spec. Qed.
Print Assumptions c06_member_keys.

(** ** operator recognition order of the grammar (table regenerated from word.rs on every run):
    no operator literal is tried before a longer one it is a proper prefix of. *)
Theorem c06_ops_longest_first : forall i j a b, (i < j)%nat ->
  nth_error param_ops i = Some a -> nth_error param_ops j = Some b -> proper_prefix a b = false.
Proof. exact ops_longest_first. Qed.
Print Assumptions c06_ops_longest_first.

Theorem c06_modelled_ops_recognised : forallb (fun o => existsb (str_eqb o) param_ops) modelled_ops = true.
Proof. exact modelled_ops_recognised. Qed.
Print Assumptions c06_modelled_ops_recognised.

(** ** regression examples on the model of the present code *)
Theorem c06_regression_examples :
  remove_smallest_prefix m_star abc = abc /\ remove_smallest_suffix m_star abc = abc /\
  parameter_length (sh_scalar e_acute) RNamed = Ok 1%nat /\
  substring (sh_scalar abcd) RNamed 2 (Some (-5)) = Fail /\
  obs (substring (sh_scalar abcdefgh) RNamed 2 (Some (-3))) = Ok ([[99; 100; 101]%N], None) /\
  substring_ev (sh_scalar abc) RNamed {| oval := 5; oerr := false; oinc := 0 |} (Some {| oval := 0; oerr := true; oinc := 1 |})
    = (Ok {| fields := []; concatenate := true; from_array := false; undefined := false |}, 0).
Proof. exact regression_examples. Qed.
Print Assumptions c06_regression_examples.

(** ** non-vacuity *)
Theorem c06_hypotheses_satisfiable :
  fits (sh_scalar abcd) RNamed /\ fits sh_array (RAll false) /\ fits sh_array (RArgs true) /\
  known_cond sh_array (RAll false) OpAlt true = false /\ known_cond (sh_scalar []) RNamed OpAssign true = false /\
  known_len sh_array (RAll true) = false /\
  (exists m : str -> bool, m [] = false /\ m abcd = true).
Proof. exact hypotheses_satisfiable. Qed.
Print Assumptions c06_hypotheses_satisfiable.
