(** C06 — parameter-expansion operators. Only pinned statements, [exact], [Print Assumptions]. *)
From BV Require Import Base.Prelude ParamExp.Remove ParamExp.RemoveProofs.

Theorem c06_remove_largest_prefix : forall m s, largest_prefix_spec m s (remove_largest_prefix m s).
Proof. exact remove_largest_prefix_spec. Qed.
Print Assumptions c06_remove_largest_prefix.
