(** C07 — arithmetic evaluates as bash's wrapping 64-bit C-style integer arithmetic.
    Only pinned statements, [exact], and [Print Assumptions]. *)
From BV Require Import Base.Prelude Arith.Wrap64 Arith.Ast Arith.Lit Arith.PegPrec Arith.Parse Arith.Eval
  Arith.EvalProofs Arith.ParseProofs Arith.TokProofs Arith.CharLex Arith.CharProofs Arith.NumProofs gen.C07ArithTable.

(** *** the parser table regenerated from brush-parser/src/arithmetic.rs is the C / bash operator
    table: same levels in the same order, same associativity, same operator texts, same AST
    constructors (re-checked by computation whenever the Rust source changes) *)
Theorem c07_table_matches_c : levels_eqb (levels_of arith_table) c_levels = true.
Proof. exact table_matches_c. Qed.
Print Assumptions c07_table_matches_c.

Theorem c07_table_well_typed : forallb (forallb rule_typed) arith_table = true.
Proof. exact table_well_typed. Qed.
Print Assumptions c07_table_well_typed.

Theorem c07_table_markers_ok : forallb (forallb rule_markers_ok) arith_table = true.
Proof. exact table_markers_ok. Qed.
Print Assumptions c07_table_markers_ok.

(** *** parse ∘ render = id, character level.  brush's arithmetic parser (model: the algorithm
    rust-peg generates for [precedence!], the regenerated table, the regenerated lexical rules)
    maps every rendering of a tree [e] from bash's operator table ([R]: minimal parentheses or any
    redundant ones; no array subscripts) with one blank between tokens ([show_toks]) back to [e].
    [wf_chars]: names are identifiers, literals are decimal numbers below 2^63. *)
Theorem c07_parse_render : forall e ts tq, R 0 e ts tq -> wf_chars e ->
  arith_parse (show_toks ts) = Some e.
Proof. exact parse_render_char. Qed.
Print Assumptions c07_parse_render.

(** the same at token level (the algorithm over an ideal lexer), for any call level [m <= q] and any
    continuation that cannot extend the expression *)
Theorem c07_parse_render_tokens : forall q e ts tq, R q e ts tq ->
  forall m rest fuel, (m <= q)%nat -> follow_ok m rest -> (length (ts ++ rest) < fuel)%nat ->
  tparse fuel m (ts ++ rest) = PMatch e rest.
Proof. exact tparse_render. Qed.
Print Assumptions c07_parse_render_tokens.

(** every well-formed tree (no array subscripts), rendered with minimal parentheses *)
Theorem c07_parse_render_min : forall e, wf e ->
  parse_full (list tok) tok_lexer arith_table false (render_at 0 e) = PMatch e [].
Proof. exact tparse_render_min. Qed.
Print Assumptions c07_parse_render_min.

(** the side condition on the continuation is necessary *)
Theorem c07_follow_needed :
  tparse 10 0 [TNum 1; TOp [43%N]; TNum 2; TOp [42%N]; TNum 3]
  = PMatch (EBin Add (ELit 1) (EBin Mul (ELit 2) (ELit 3))) [].
Proof. exact follow_needed. Qed.
Print Assumptions c07_follow_needed.

(** non-vacuity, and the character-level statement on a tree containing every operator *)
Theorem c07_parse_render_instance :
  wf ex_all_ops /\ roundtrip_check ex_all_ops = true /\
  parse_full (list tok) tok_lexer arith_table false (render_at 0 ex_all_ops) = PMatch ex_all_ops [].
Proof. exact parse_render_instance. Qed.
Print Assumptions c07_parse_render_instance.

(** *** wrapping arithmetic: + - * and unary minus are arithmetic modulo 2^64 *)
Theorem c07_add_mod : forall a b, wadd a b mod M64 = (a + b) mod M64 /\ inr (wadd a b).
Proof. exact (fun a b => conj (wadd_mod a b) (wadd_range a b)). Qed.
Print Assumptions c07_add_mod.
Theorem c07_sub_mod : forall a b, wsub a b mod M64 = (a - b) mod M64 /\ inr (wsub a b).
Proof. exact (fun a b => conj (wsub_mod a b) (wsub_range a b)). Qed.
Print Assumptions c07_sub_mod.
Theorem c07_mul_mod : forall a b, wmul a b mod M64 = (a * b) mod M64 /\ inr (wmul a b).
Proof. exact (fun a b => conj (wmul_mod a b) (wmul_range a b)). Qed.
Print Assumptions c07_mul_mod.
Theorem c07_wrap_unique : forall z r, inr r -> r mod M64 = z mod M64 -> wrap64 z = r.
Proof. exact wrap64_unique. Qed.
Print Assumptions c07_wrap_unique.

(** the square-and-multiply loop of [wrapping_pow_u64] computes [base^e] modulo 2^64 and ends
    within 64 iterations for every u64 exponent *)
Theorem c07_pow_loop_correct : forall base e, 0 <= e < M64 -> wpow base e = Some (wrap64 (base ^ e)).
Proof. exact wpow_correct. Qed.
Print Assumptions c07_pow_loop_correct.

(** [<<] and [>>] shift by the right operand modulo 64 ([right as u32], then the 6-bit mask) *)
Theorem c07_shift_spec : forall a r,
  wshl a (as_u32 r) = wrap64 (a * 2 ^ (r mod 64)) /\ wshr a (as_u32 r) = a / 2 ^ (r mod 64).
Proof. exact (fun a r => conj (wshl_spec a r) (wshr_spec a r)). Qed.
Print Assumptions c07_shift_spec.

(** C division: [a = q*b + r], [|r| < |b|], the remainder has the sign of the dividend;
    [MIN / -1 = MIN], [MIN % -1 = 0]; a zero divisor is the only case without a result *)
Theorem c07_div_rem_c : forall a b q r, inr a -> inr b -> wdiv a b = Some q -> wrem a b = Some r ->
  b <> 0 /\ inr q /\ inr r /\
  (~ (a = - M63 /\ b = -1) -> a = q * b + r) /\
  Z.abs r < Z.abs b /\ (r = 0 \/ Z.sgn r = Z.sgn a) /\
  (a = - M63 -> b = -1 -> q = - M63 /\ r = 0).
Proof. exact div_rem_c. Qed.
Print Assumptions c07_div_rem_c.

(** *** the operator table of [apply_binary_op], in mathematical terms *)
Theorem c07_arith_spec : forall o l r v, inr l -> inr r -> arith o l r = AOk v ->
  match o with
  | Add => v = wrap64 (l + r)
  | Sub => v = wrap64 (l - r)
  | Mul => v = wrap64 (l * r)
  | Div => r <> 0 /\ v = wrap64 (Z.quot l r)
  | Mod => r <> 0 /\ v = Z.rem l r
  | Pow => 0 <= r /\ v = wrap64 (l ^ r)
  | Shl => v = wrap64 (l * 2 ^ (r mod 64))
  | Shr => v = l / 2 ^ (r mod 64)
  | Lt => v = b2z (l <? r) | Le => v = b2z (l <=? r) | Gt => v = b2z (l >? r) | Ge => v = b2z (l >=? r)
  | Eq => v = b2z (l =? r) | Ne => v = b2z (negb (l =? r))
  | BAnd => v = Z.land l r | BOr => v = Z.lor l r | BXor => v = Z.lxor l r
  | Comma => v = r
  | LAnd | LOr => False
  end.
Proof. exact arith_spec. Qed.
Print Assumptions c07_arith_spec.

(** division by zero and negative exponents are reported errors, exactly then *)
Theorem c07_div0_iff : forall o l r, arith o l r = AErr EDivZero <-> (o = Div \/ o = Mod) /\ r = 0.
Proof. exact div0_iff. Qed.
Print Assumptions c07_div0_iff.
Theorem c07_negexp_iff : forall o l r, arith o l r = AErr ENegExp <-> o = Pow /\ r < 0.
Proof. exact negexp_iff. Qed.
Print Assumptions c07_negexp_iff.

(** *** the evaluator, for every parser of variable contents, environment, depth and fuel *)
(** never reaches an operation that panics in Rust (zero divisor, [unreachable!], [depth + 1]) *)
Theorem c07_eval_no_panic : forall parse nounset max_depth, 0 <= max_depth < U32_MAX ->
  forall fuel e depth en, 0 <= depth <= max_depth -> eval parse nounset max_depth fuel e depth en <> RPanic.
Proof. exact eval_no_panic. Qed.
Print Assumptions c07_eval_no_panic.

(** short circuit: the skipped operand has no effect whatever it is *)
Theorem c07_and_short_circuit : forall parse nounset max_depth f a b depth en en1,
  eval parse nounset max_depth f a depth en = ROk 0 en1 ->
  eval parse nounset max_depth (S f) (EBin LAnd a b) depth en = ROk 0 en1.
Proof. exact and_short_circuit. Qed.
Print Assumptions c07_and_short_circuit.
Theorem c07_or_short_circuit : forall parse nounset max_depth f a b depth en en1 v,
  eval parse nounset max_depth f a depth en = ROk v en1 -> v <> 0 ->
  eval parse nounset max_depth (S f) (EBin LOr a b) depth en = ROk 1 en1.
Proof. exact or_short_circuit. Qed.
Print Assumptions c07_or_short_circuit.
Theorem c07_cond_one_branch : forall parse nounset max_depth f c t e depth en en1 v,
  eval parse nounset max_depth f c depth en = ROk v en1 ->
  eval parse nounset max_depth (S f) (ECond c t e) depth en =
    if v =? 0 then eval parse nounset max_depth f e depth en1 else eval parse nounset max_depth f t depth en1.
Proof. exact cond_one_branch. Qed.
Print Assumptions c07_cond_one_branch.

(** assignment operators leave the variable with the stated value *)
Theorem c07_assign_stores : forall parse nounset max_depth f x rhs depth en v en',
  eval parse nounset max_depth (S f) (EAssign x None rhs) depth en = ROk v en' ->
  exists en1, eval parse nounset max_depth f rhs depth en = ROk v en1 /\ en' = update x (show_Z v) en1 /\
              lookup x en' = Some (show_Z v).
Proof. exact assign_stores. Qed.
Print Assumptions c07_assign_stores.
Theorem c07_binassign_stores : forall parse nounset max_depth f o x rhs depth en v en',
  o <> LAnd -> o <> LOr ->
  eval parse nounset max_depth (S f) (EBinAssign o x None rhs) depth en = ROk v en' ->
  exists lv en1 rv en2,
    eval parse nounset max_depth f (ERef x None) depth en = ROk lv en1 /\
    eval parse nounset max_depth f rhs depth en1 = ROk rv en2 /\
    arith o lv rv = AOk v /\ en' = update x (show_Z v) en2 /\ lookup x en' = Some (show_Z v).
Proof. exact binassign_stores. Qed.
Print Assumptions c07_binassign_stores.
Theorem c07_incr_stores : forall parse nounset max_depth f o x depth en v en',
  eval parse nounset max_depth (S f) (EIncr o x None) depth en = ROk v en' ->
  exists old en1,
    deref parse nounset max_depth (eval parse nounset max_depth f) x None depth en = ROk old en1 /\
    let nv := match o with PreInc | PostInc => wadd old 1 | PreDec | PostDec => wsub old 1 end in
    en' = update x (show_Z nv) en1 /\ lookup x en' = Some (show_Z nv) /\
    v = match o with PreInc | PreDec => nv | PostInc | PostDec => old end.
Proof. exact incr_stores. Qed.
Print Assumptions c07_incr_stores.

(** evaluation terminates: with fuel above (max_depth+1)*(H+1) + weight e it never runs out, where H
    bounds the weight of what variables can hold (their initial contents, and the decimal
    renderings stored by assignments); the recursion through variable contents is cut by the
    1024-level depth counter *)
Theorem c07_deref_depth_bound : forall parse nounset max_depth, 0 <= max_depth -> forall H,
  val_ok parse H [] -> (forall z, val_ok parse H (show_Z z)) ->
  forall fuel e en, env_ok parse H en ->
  ((Z.to_nat max_depth) * S H + weight e < fuel)%nat ->
  eval parse nounset max_depth fuel e 0 en <> RFuel.
Proof. exact deref_depth_bound. Qed.
Print Assumptions c07_deref_depth_bound.

Theorem c07_fuel_hyps_nonvacuous :
  let parse := fun s : str => match s with [] => Some (ELit 0) | _ => Some (ERef [120%N] None) end in
  val_ok parse 1 [] /\ (forall z, val_ok parse 1 (show_Z z)) /\
  env_ok parse 1 [([120%N], [120%N])] /\
  eval parse false 1024 (1024 * 2 + 1 + 1) (ERef [120%N] None) 0 [([120%N], [120%N])]
    = RErr ERecLimit [([120%N], [120%N])].
Proof. exact fuel_hyps_nonvacuous. Qed.
Print Assumptions c07_fuel_hyps_nonvacuous.

(** … and for brush's parser the hypothesis on numbers holds: the decimal rendering of any integer
    parses to nothing, a literal, or a negated literal — so evaluation terminates, for every expression
    and every environment whose values parse to weight <= H (or not at all) *)
Theorem c07_number_weight : forall z, val_ok arith_parse 1 (show_Z z).
Proof. exact number_weight. Qed.
Print Assumptions c07_number_weight.
Theorem c07_eval_terminates : forall nounset (H : nat) fuel e en, (1 <= H)%nat -> env_ok arith_parse H en ->
  ((Z.to_nat (max_deref_depth arith_lex)) * S H + weight e < fuel)%nat ->
  eval arith_parse nounset (max_deref_depth arith_lex) fuel e 0 en <> RFuel.
Proof. exact eval_terminates. Qed.
Print Assumptions c07_eval_terminates.
Theorem c07_eval_terminates_nonvacuous :
  env_ok arith_parse 1 [([120%N], [120%N])] /\
  eval arith_parse false (max_deref_depth arith_lex) 2100 (ERef [120%N] None) 0 [([120%N], [120%N])]
    = RErr ERecLimit [([120%N], [120%N])].
Proof. exact eval_terminates_nonvacuous. Qed.
Print Assumptions c07_eval_terminates_nonvacuous.

(** *** parser and evaluator together: whatever brush's parser accepts evaluates to an i64 *)
Theorem c07_parse_lits_in_range : forall s e, arith_parse s = Some e -> lits_inr e.
Proof. exact parse_lits_in_range. Qed.
Print Assumptions c07_parse_lits_in_range.
Theorem c07_eval_in_range : forall nounset fuel s e depth en v en',
  arith_parse s = Some e ->
  eval arith_parse nounset (max_deref_depth arith_lex) fuel e depth en = ROk v en' -> inr v.
Proof. exact eval_in_range_parsed. Qed.
Print Assumptions c07_eval_in_range.
