(** C07 — arithmetic evaluates as bash's wrapping 64-bit C-style integer arithmetic.
    Only pinned statements, [exact], and [Print Assumptions]. *)
From BV Require Import Base.Prelude Arith.Wrap64.

Theorem c07_add_mod : forall a b, wadd a b mod M64 = (a + b) mod M64.
Proof. exact wadd_mod. Qed.
Print Assumptions c07_add_mod.
