(** C13 - Shell-quoted output re-reads to the original values.
    Only pinned statements, [exact], and [Print Assumptions].

    [quote pos o s] models brush-core/src/escape.rs [quote] over the regenerated tables of
    gen/C13EscapeTables.v; [pos] says whether the code has the position-dependent escaping test
    [needs_escaping_at] (regenerated flag [C13EscapeTables.positional_escaping]; absent in the
    unchanged tree).  [read_word p w] is the reader specification of Quote/Reader.v: the bash
    quoting rules for one word in argument / assignment position. *)
From BV Require Import Base.Prelude gen.C13EscapeTables Quote.Quote Quote.Reader Quote.Proofs Quote.AnsiC Quote.Decl.

Theorem c13_read_single : forall p s, read_word p (single_quote s) = Some s.
Proof. exact read_single. Qed.
Print Assumptions c13_read_single.

Theorem c13_read_double : forall p s, read_word p (double_quote s) = Some s.
Proof. exact read_double. Qed.
Print Assumptions c13_read_double.

Theorem c13_read_ansi_c : forall p s, no_nul s -> read_word p (ansi_c_quote s) = Some s.
Proof. exact read_ansi_c. Qed.
Print Assumptions c13_read_ansi_c.

Theorem c13_read_backslash : forall p s, no_ctrl s -> read_word p (backslash_escape true s) = Some s.
Proof. exact read_backslash. Qed.
Print Assumptions c13_read_backslash.

(** every style and option set reachable through force_quote / quote_if_needed, repaired code *)
Theorem c13_read_quote : forall p o s, avoid_nl o = false -> no_nul s ->
  read_word p (quote true o s) = Some s.
Proof. exact read_quote. Qed.
Print Assumptions c13_read_quote.

(** forced single/double quoting (the @Q, @A, declare -p styles): unchanged and repaired code *)
Theorem c13_read_force_quote : forall pos p m s, m <> QBackslash -> no_nul s ->
  read_word p (force_quote pos m s) = Some s.
Proof. exact read_force_quote. Qed.
Print Assumptions c13_read_force_quote.

(** regression example, code before the repair ([pos = false]): the round trip holds outside the class [Known] (a leading ~ or #, a ~ after : or =) *)
Theorem c13_read_quote_outside_known : forall p o s, avoid_nl o = false -> no_nul s -> ~ Known s ->
  read_word p (quote false o s) = Some s.
Proof. exact read_quote_outside_known. Qed.
Print Assumptions c13_read_quote_outside_known.

(** ... and fails inside it *)
Theorem c13_backslash_mode_refuted :
  exists s, no_nul s /\ forall p, read_word p (quote_if_needed false QBackslash s) <> Some s.
Proof. exact backslash_mode_refuted. Qed.
Print Assumptions c13_backslash_mode_refuted.

Theorem c13_if_needed_refuted : forall m,
  exists s, no_nul s /\ forall p, read_word p (quote_if_needed false m s) <> Some s.
Proof. exact if_needed_refuted. Qed.
Print Assumptions c13_if_needed_refuted.

Theorem c13_hash_refuted :
  exists s, no_nul s /\ read_word Arg (quote_if_needed false QBackslash s) <> Some s.
Proof. exact hash_refuted. Qed.
Print Assumptions c13_hash_refuted.

Theorem c13_colon_tilde_refuted :
  exists s, no_nul s /\ read_word Assign (quote_if_needed false QBackslash s) <> Some s.
Proof. exact colon_tilde_refuted. Qed.
Print Assumptions c13_colon_tilde_refuted.

(** latent: the option avoid_ansi_c_quoting_newline (set by no caller) breaks the if-needed styles *)
Theorem c13_avoid_nl_refuted :
  exists o s, avoid_nl o = true /\ no_nul s /\ read_word Assign (quote true o s) <> Some s.
Proof. exact avoid_nl_refuted. Qed.
Print Assumptions c13_avoid_nl_refuted.

(** brush's own ANSI-C decoder (escape.rs expand_backslash_escapes, model Quote/AnsiC.v) inverts
    ansi_c_quote when a backslash-0 escape takes at most two further octal digits (repaired code) *)
Theorem c13_decode_ansi_body : forall s, Forall (fun c => c <> 0%N) s -> decode 2 (ansi_body s) = DOk (utf8s s).
Proof. exact decode_ansi_body. Qed.
Print Assumptions c13_decode_ansi_body.

(** ... and does not with three (unchanged code): a control character followed by an octal digit *)
Theorem c13_decode_ansi_body_refuted :
  exists s, Forall (fun c => c <> 0%N) s /\ decode 3 (ansi_body s) <> DOk (utf8s s).
Proof. exact decode_ansi_body_refuted. Qed.
Print Assumptions c13_decode_ansi_body_refuted.

(** declare -p values of arrays ([ShellValue::format], DeclarePrint) read back as compound assignments:
    indexed arrays for both values of [pos], associative arrays with the position test in place *)
Theorem c13_decl_indexed : forall pos vs, Forall kv_ok_indexed vs -> read_compound (fmt_indexed pos vs) = Some vs.
Proof. exact read_indexed. Qed.
Print Assumptions c13_decl_indexed.

Theorem c13_decl_assoc : forall kvs, Forall kv_ok_assoc kvs -> read_compound (fmt_assoc true kvs) = Some kvs.
Proof. exact read_assoc. Qed.
Print Assumptions c13_decl_assoc.

Theorem c13_decl_assoc_refuted :
  exists kvs, Forall kv_ok_assoc kvs /\ read_compound (fmt_assoc false kvs) <> Some kvs.
Proof. exact read_assoc_refuted. Qed.
Print Assumptions c13_decl_assoc_refuted.

(** the code as it is now: the regenerated flags say the position test and the three-digit octal rule
    are in place, so the round trips hold without a side condition on the printer *)
Theorem c13_read_quote_current : forall p o s, avoid_nl o = false -> no_nul s ->
  read_word p (quote positional_escaping o s) = Some s.
Proof. exact read_quote_current. Qed.
Print Assumptions c13_read_quote_current.

Theorem c13_decode_ansi_body_current : forall s, Forall (fun c => c <> 0%N) s ->
  decode zero_octal_digits_ansic (ansi_body s) = DOk (utf8s s).
Proof. exact decode_ansi_body_current. Qed.
Print Assumptions c13_decode_ansi_body_current.

Theorem c13_decl_assoc_current : forall kvs, Forall kv_ok_assoc kvs ->
  read_compound (fmt_assoc positional_escaping kvs) = Some kvs.
Proof. exact read_assoc_current. Qed.
Print Assumptions c13_decl_assoc_current.

Theorem c13_nonvacuous :
  read_word Arg (quote_if_needed true QBackslash [TILDE; 97; 32; 39; 36]%N) = Some [TILDE; 97; 32; 39; 36]%N
  /\ quote_if_needed true QBackslash [TILDE; 97; 32; 39; 36]%N = [92; TILDE; 97; 92; 32; 92; 39; 92; 36]%N
  /\ quote_if_needed true QSingle [97; 39; 98]%N = [39; 97; 39; 92; 39; 39; 98; 39]%N
  /\ force_quote true QDouble [97; 34; 9]%N = [36; 39; 97; 34; 92; 116; 39]%N.
Proof. exact read_quote_example. Qed.
Print Assumptions c13_nonvacuous.
