(** C02 — placeholder while the tie is being built. *)
From BV Require Import Base.Prelude Shell.Syntax Shell.ModelExec.
Theorem c02_placeholder : dec (BreakLoop 0) = Normal.
Proof. exact eq_refl. Qed.
Print Assumptions c02_placeholder.
