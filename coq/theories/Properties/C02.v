(** C02 — Control flow and exit statuses of compound commands equal bash's.
    Only pinned statements, [exact], and [Print Assumptions]. *)
From BV Require Import Base.Prelude Shell.Syntax Shell.ModelExec Shell.SpecExec Shell.Scope Shell.Ghost
  Shell.Simulation Shell.Witness Shell.ExitCodeProofs gen.C02ExitCodes.

(** The simulation, for every fuel, command, position stack, loop context and state: brush's
    interpreter run with [suppress_errexit := exempt stk] and bash's run at position stack [stk]
    end the same way ([BreakLoop k] <-> [breaking = k+1], ...), with the same [$?] and output,
    as long as the one remaining divergence point (ghost mark [GCond]: loop left from its
    condition with a status different from the last body's) was not passed. *)
Theorem c02_sim_exec : forall fuel,
  (forall c stk ctx l w, scope_cmd ctx c = [] -> funs_ok (sh w) -> (length ctx <= l)%nat ->
     sim (expect_c c stk ctx l) (exec fuel c (exempt stk) w) (sexec fuel c stk (emb w 0 0 l))) /\
  (forall u c b stk ctx l res w,
     scope_clist scope_cmd (FCond :: ctx) c = [] -> scope_clist scope_cmd (FLoop :: ctx) b = [] ->
     funs_ok (sh w) -> (length ctx <= l)%nat -> snd res = Normal ->
     sim (expect_s ctx l) (while_loop fuel u c b (exempt stk) res w)
         (swhile fuel u c b stk (fst res) (emb w 0 0 (S l)))).
Proof. exact sim_exec. Qed.
Print Assumptions c02_sim_exec.

Theorem c02_cf_simulation : forall fuel p,
  well_scoped p -> sim (expect_s [] 0) (run_model fuel p) (run_spec fuel p).
Proof. exact cf_simulation. Qed.
Print Assumptions c02_cf_simulation.

(** Same ending (normal / exit), same final status, same trace of markers and [$?] probes, for
    every fuel (both sides run out of fuel together). *)
Theorem c02_cf_trace_eq : forall fuel p,
  well_scoped p -> ghost_free (run_model fuel p) ->
  obs_model (run_model fuel p) = obs_spec (run_spec fuel p).
Proof. exact cf_trace_eq. Qed.
Print Assumptions c02_cf_trace_eq.

(** the ghost marks never influence the run and only accumulate *)
Theorem c02_ghost_monotone : forall fuel,
  (forall c sup w, mono w (exec fuel c sup w)) /\
  (forall u c b sup res w, mono w (while_loop fuel u c b sup res w)).
Proof. exact mono_exec. Qed.
Print Assumptions c02_ghost_monotone.

(** The full statement (without the side conditions) is refuted by the faithful model: one
    witness per known class of divergence (replayed on brush and bash by the driver). *)
Theorem c02_cf_refuted_stray : differs 20 w_stray /\ scope_program w_stray = [RStray].
Proof. exact stray_refuted. Qed.
Theorem c02_cf_refuted_overcount : differs 20 w_overcount /\ scope_program w_overcount = [RStray].
Proof. exact overcount_refuted. Qed.
Theorem c02_cf_refuted_zero : differs 20 w_zero /\ scope_program w_zero = [RZero].
Proof. exact zero_refuted. Qed.
Theorem c02_cf_refuted_continue_in_condition : differs 20 w_cont_cond /\ scope_program w_cont_cond = [RContCond].
Proof. exact cont_cond_refuted. Qed.
Theorem c02_cf_refuted_function_break : differs 20 w_fn_break /\ scope_program w_fn_break = [RStray].
Proof. exact fn_break_refuted. Qed.
Theorem c02_cf_refuted_condition_status : differs 20 w_cond_status /\ ghost_of (run_model 20 w_cond_status) = [GCond].
Proof. exact cond_status_refuted. Qed.
Print Assumptions c02_cf_refuted_stray.

(** regressions for the repaired defects (fix: pipeline-stage control flow, fix: `! exit n`):
    the former refutation witnesses now agree with the specification *)
Theorem c02_regress_stage_flow : agrees 20 w_stage_leak /\ obs_model (run_model 20 w_stage_leak) = Some (ENormal, 0%nat, [EMark 1]).
Proof. exact stage_leak_repaired. Qed.
Theorem c02_regress_bang_exit : agrees 20 w_bang_exit /\ obs_model (run_model 20 w_bang_exit) = Some (ENormal, 0%nat, [EProbe 3]).
Proof. exact bang_exit_repaired. Qed.
Print Assumptions c02_regress_bang_exit.

Theorem c02_exitcode_roundtrip : forall b, (b < 256)%nat -> to_u8 (of_u8 b) = b.
Proof. exact exitcode_roundtrip. Qed.
Print Assumptions c02_exitcode_roundtrip.

(** non-vacuity: a program with nested loops, break/continue, case fallthrough, a function with
    return, subshells and errexit satisfies the hypotheses and has a non-trivial run *)
Theorem c02_nonvacuous :
  well_scoped ex_prog /\ ghost_free (run_model 40 ex_prog) /\
  obs_model (run_model 40 ex_prog) =
    Some (EExit, 7%nat, rev [EMark 3; EMark 3; EMark 1; EProbe 4; EMark 7; EProbe 0; EMark 9]).
Proof. exact ex_prog_ok. Qed.
Print Assumptions c02_nonvacuous.
