(** C01 — placeholder while the correspondence is brought up. *)
From BV Require Import Base.Prelude NoPanic.Mach NoPanic.Brace.

Theorem c01_placeholder : forall z, in_i64 (wrap64 z) = true.
Proof. exact wrap64_in. Qed.
Print Assumptions c01_placeholder.
