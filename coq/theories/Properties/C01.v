(** C01 — no input crashes the shell (PARTIAL: the numeric/indexing cores; the rest of the pipeline
    is explored by the check, not proved).  Only pinned statements, [exact], [Print Assumptions].
    [f_orig] = checked twin of the code at the pinned commit, [f] = checked twin of the repaired code. *)
From BV Require Import Base.Prelude NoPanic.Mach NoPanic.Brace NoPanic.Substring NoPanic.Vars
  NoPanic.Tilde NoPanic.History NoPanic.Pow NoPanic.FirstChar NoPanic.BraceProofs NoPanic.SubstringProofs NoPanic.OtherProofs.

(** *** brace sequences: rule number() *)
Theorem c01_no_panic_number : forall tok, number tok <> Panic.
Proof. exact no_panic_number. Qed.
Print Assumptions c01_no_panic_number.

Theorem c01_no_panic_number_refuted : exists tok, number_tok tok = true /\ number_orig tok = Panic.
Proof. exact number_refuted. Qed.
Print Assumptions c01_no_panic_number_refuted.

Theorem c01_no_panic_number_outside_known : forall tok,
  number_tok tok = true -> known_number tok = false -> number_orig tok <> Panic.
Proof. exact number_orig_outside_known. Qed.
Print Assumptions c01_no_panic_number_outside_known.

(** *** brace sequences: NumberSequence *)
Theorem c01_no_panic_numseq : forall fuel s e i, numseq fuel s e i <> Panic.
Proof. exact no_panic_numseq. Qed.
Print Assumptions c01_no_panic_numseq.

(** termination, with the length formula |end-start| / max 1 |inc| + 1 *)
Theorem c01_terminates_numseq : forall s e i fuel,
  i64_min <= e -> (Z.to_nat (seq_count s e i) <= fuel)%nat ->
  exists l, numseq fuel s e i = Val l /\ Z.of_nat (length l) = seq_count s e i.
Proof. exact numseq_terminates. Qed.
Print Assumptions c01_terminates_numseq.

Theorem c01_numseq_elements : forall fuel s e i l, numseq fuel s e i = Val l ->
  forall j, (j < length l)%nat ->
  nth j l 0 = if s <=? e then s + Z.of_nat j * step_of i else s - Z.of_nat j * step_of i.
Proof. exact numseq_elements. Qed.
Print Assumptions c01_numseq_elements.

Theorem c01_no_panic_numseq_refuted : exists fuel s e i,
  in_i64 s = true /\ in_i64 e = true /\ in_i64 i = true /\ numseq_orig fuel s e i = Panic.
Proof. exact numseq_refuted. Qed.
Print Assumptions c01_no_panic_numseq_refuted.

Theorem c01_numseq_outside_known : forall fuel s e i,
  in_i64 s = true -> in_i64 i = true -> known_numseq s e i = false ->
  numseq_orig fuel s e i = numseq fuel s e i.
Proof. exact numseq_orig_outside_known. Qed.
Print Assumptions c01_numseq_outside_known.

(** *** brace sequences: CharSequence *)
Theorem c01_no_panic_charseq : forall fuel s e i, charseq fuel s e i <> Panic.
Proof. exact no_panic_charseq. Qed.
Print Assumptions c01_no_panic_charseq.

Theorem c01_terminates_charseq : forall s e i fuel, 0 <= e ->
  (Z.to_nat (Z.abs (s - e)) + 1 <= fuel)%nat -> exists l, charseq fuel s e i = Val l.
Proof. exact charseq_terminates. Qed.
Print Assumptions c01_terminates_charseq.

Theorem c01_no_panic_charseq_refuted : exists fuel s e i,
  is_letter s = true /\ is_letter e = true /\ in_i64 i = true /\ charseq_orig fuel s e i = Panic.
Proof. exact charseq_refuted. Qed.
Print Assumptions c01_no_panic_charseq_refuted.

(** the pinned code loops forever on {b..a..4294967296} *)
Theorem c01_terminates_charseq_refuted : forall fuel, charseq_orig fuel 98 97 4294967296 = OutOfFuel.
Proof. exact charseq_orig_hangs. Qed.
Print Assumptions c01_terminates_charseq_refuted.

Theorem c01_charseq_outside_known : forall fuel s e i,
  known_charseq s e i = false -> charseq_orig fuel s e i = charseq fuel s e i.
Proof. exact charseq_orig_outside_known. Qed.
Print Assumptions c01_charseq_outside_known.

(** *** ${parameter:offset:length} *)
Theorem c01_no_panic_subslice : forall x index end_,
  0 <= index <= end_ -> zlen (fields x) <= u64_max ->
  (from_array x = true -> index <= zlen (fields x)) ->
  subslice x index end_ <> Panic.
Proof. exact no_panic_subslice. Qed.
Print Assumptions c01_no_panic_subslice.

Theorem c01_no_panic_substring : forall x positional off len,
  poly_len x <= i64_max -> zlen (fields x) <= i64_max ->
  in_i64 off = true -> (forall l, len = Some l -> in_i64 l = true) ->
  substring x positional off len <> Panic.
Proof. exact no_panic_substring. Qed.
Print Assumptions c01_no_panic_substring.

Theorem c01_no_panic_substring_refuted : exists x off len,
  in_i64 off = true /\ (forall l, len = Some l -> in_i64 l = true) /\ substring_orig x off len = Panic.
Proof. exact substring_refuted. Qed.
Print Assumptions c01_no_panic_substring_refuted.

Theorem c01_no_panic_substring_outside_known : forall x off len,
  poly_len_orig x <= i64_max -> zlen (fields x) <= i64_max ->
  in_i64 off = true -> (forall l, len = Some l -> in_i64 l = true) ->
  known_substring len = false ->
  substring_orig x off len <> Panic.
Proof. exact substring_orig_outside_known. Qed.
Print Assumptions c01_no_panic_substring_outside_known.

(** *** variables.rs *)
Theorem c01_no_panic_int_append : forall b s, int_append b s <> Panic.
Proof. exact no_panic_int_append. Qed.
Print Assumptions c01_no_panic_int_append.

Theorem c01_no_panic_int_append_refuted : exists b s, int_append_orig b s = Panic.
Proof. exact int_append_refuted. Qed.
Print Assumptions c01_no_panic_int_append_refuted.

Theorem c01_int_append_outside_known : forall b s,
  known_int_append b s = false -> int_append_orig b s = int_append b s.
Proof. exact int_append_orig_outside_known. Qed.
Print Assumptions c01_int_append_outside_known.

Theorem c01_no_panic_array_keys : forall last lits, array_keys last lits <> Panic.
Proof. exact no_panic_array_keys. Qed.
Print Assumptions c01_no_panic_array_keys.

Theorem c01_no_panic_array_keys_refuted : exists last lits, array_keys_orig last lits = Panic.
Proof. exact array_keys_refuted. Qed.
Print Assumptions c01_no_panic_array_keys_refuted.

Theorem c01_array_keys_outside_known : forall last lits,
  (forall m, last = Some m -> 0 <= m <= u64_max) ->
  known_array_keys last lits = false -> array_keys_orig last lits = array_keys last lits.
Proof. exact array_keys_orig_outside_known. Qed.
Print Assumptions c01_array_keys_outside_known.

Theorem c01_no_panic_indexed_key : forall count idx, 0 <= count <= i64_max -> indexed_key count idx <> Panic.
Proof. exact no_panic_indexed_key. Qed.
Print Assumptions c01_no_panic_indexed_key.

Theorem c01_no_panic_capitalize : forall lowered up, capitalize lowered up <> Panic.
Proof. exact no_panic_capitalize. Qed.
Print Assumptions c01_no_panic_capitalize.

Theorem c01_no_panic_capitalize_refuted : exists lowered up, capitalize_orig lowered up = Panic.
Proof. exact capitalize_refuted. Qed.
Print Assumptions c01_no_panic_capitalize_refuted.

Theorem c01_capitalize_outside_known : forall lowered up,
  known_capitalize lowered = false -> capitalize_orig lowered up = capitalize lowered up.
Proof. exact capitalize_orig_outside_known. Qed.
Print Assumptions c01_capitalize_outside_known.

(** *** tilde prefixes *)
Theorem c01_no_panic_tilde_digits : forall ds, tilde_digits ds <> Panic.
Proof. exact no_panic_tilde_digits. Qed.
Print Assumptions c01_no_panic_tilde_digits.

Theorem c01_no_panic_tilde_digits_refuted : exists ds, tilde_digits_orig ds = Panic.
Proof. exact tilde_digits_refuted. Qed.
Print Assumptions c01_no_panic_tilde_digits_refuted.

Theorem c01_tilde_digits_outside_known : forall ds,
  known_tilde ds = false -> tilde_digits_orig ds = tilde_digits ds.
Proof. exact tilde_digits_orig_outside_known. Qed.
Print Assumptions c01_tilde_digits_outside_known.

Theorem c01_no_panic_dirstack : forall count n, dirstack_top count n <> Panic.
Proof. exact no_panic_dirstack. Qed.
Print Assumptions c01_no_panic_dirstack.

(** *** history display *)
Theorem c01_no_panic_display_history : forall count max,
  0 <= count <= u64_max - 1 -> (forall m, max = Some m -> 0 <= m) -> display count max <> Panic.
Proof. exact no_panic_display. Qed.
Print Assumptions c01_no_panic_display_history.

Theorem c01_no_panic_display_history_refuted : exists count max, display_orig count max = Panic.
Proof. exact display_refuted. Qed.
Print Assumptions c01_no_panic_display_history_refuted.

Theorem c01_display_history_outside_known : forall count max,
  known_history count max = false -> display_orig count max = display count max.
Proof. exact display_orig_outside_known. Qed.
Print Assumptions c01_display_history_outside_known.

(** *** loops whose bound is data *)
Theorem c01_terminates_pow : forall b e, e < 2 ^ 64 ->
  exists v, wrapping_pow 64 b e = Val v /\ in_i64 v = true.
Proof. exact pow_terminates. Qed.
Print Assumptions c01_terminates_pow.

Theorem c01_no_panic_deref : forall fuel env i, deref fuel env i 0 <> Panic.
Proof. exact no_panic_deref. Qed.
Print Assumptions c01_no_panic_deref.

Theorem c01_terminates_deref : forall env i, deref 1026 env i 0 <> OutOfFuel.
Proof. exact deref_terminates. Qed.
Print Assumptions c01_terminates_deref.

(** dereference chains through array subscripts: the subscript is evaluated at the current depth *)
Theorem c01_no_panic_deref_subscripts : forall fuel env e, aeval fuel env e 0 <> Panic.
Proof. exact no_panic_aeval. Qed.
Print Assumptions c01_no_panic_deref_subscripts.

Theorem c01_deref_subscript_cycle_fails : aeval 4000 cycle_env (AElem 0 (AVar 0)) 0 = Fail.
Proof. exact aeval_subscript_cycle_fails. Qed.
Print Assumptions c01_deref_subscript_cycle_fails.

(** *** ${v^} / ${v,}: first-character case modification *)
Theorem c01_no_panic_first_char_case : forall s applicable mapped, first_char_case s applicable mapped <> Panic.
Proof. exact no_panic_first_char_case. Qed.
Print Assumptions c01_no_panic_first_char_case.

Theorem c01_first_char_case_spec : forall s applicable mapped,
  first_char_case s applicable mapped =
  Val (match s, applicable, mapped with
       | c :: r, true, u :: _ => u :: r
       | _, _, _ => s
       end).
Proof. exact first_char_case_spec. Qed.
Print Assumptions c01_first_char_case_spec.

(** slicing the rest at the CONVERTED character's byte length panics (dotless i -> I) *)
Theorem c01_first_char_case_wrong_index_refuted : exists s mapped, first_char_case_wrong s true mapped = Panic.
Proof. exact first_char_case_wrong_refuted. Qed.
Print Assumptions c01_first_char_case_wrong_index_refuted.

(** non-vacuity: the hypotheses of the conditional theorems are satisfiable and the functions do
    produce values *)
Theorem c01_nonvacuous :
  numseq 10 5 1 2 = Val [5; 3; 1] /\ seq_count 5 1 2 = 3 /\
  known_numseq 5 1 2 = false /\ known_charseq 122 97 5 = false /\
  substring {| fields := [[[97;98;99;100]%N]]; from_array := false |} false 1 (Some (-1)) = Val [[[98;99]%N]] /\
  substring {| fields := [[[97;98;99;100]%N]]; from_array := false |} false 2 (Some (-5)) = Fail /\
  deref 1026 [Ref 0] 0 0 = Fail.
Proof. exact nonvacuous. Qed.
Print Assumptions c01_nonvacuous.
