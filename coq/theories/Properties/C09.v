(** C09 — placeholder while the correspondence is being established. *)
From BV Require Import Base.Prelude Scope.Vars Scope.Env Scope.Prog.

Theorem c09_push_pop : forall e k, fst (pop_scope k (push_scope k e)) = e.
Proof. exact (fun e k => eq_refl). Qed.
Print Assumptions c09_push_pop.
