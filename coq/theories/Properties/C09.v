(** C09 — Variable scope and attributes: locals, temporary assignments, export, readonly.
    Only pinned statements, [exact], and [Print Assumptions].
    Model: Scope/Vars.v (variables.rs), Scope/Env.v (env.rs), Scope/Prog.v (the writers of
    interp.rs / commands.rs / declare.rs / export.rs / unset.rs and the action grammar). *)
From BV Require Import Base.Prelude Scope.Vars Scope.Env Scope.Prog Scope.EnvLemmas
  Scope.ReadonlyProofs Scope.ScopeProofs Scope.ExportProofs.

(** Stack discipline, every action, every state: the Command scope of `n=v cmd` is popped on
    every dispatch path (builtin, function, external, not found, failed prefix), the Local scope
    of a call on normal completion, `return` and error alike. *)
Theorem c09_stack_discipline : forall a e, kinds (env_of (exec a e)) = kinds e.
Proof. exact exec_kinds. Qed.
Print Assumptions c09_stack_discipline.

(** The shield (dynamic scoping): once [n] is bound in scope [d] with a Local scope at or above
    it, no program without `unset n` changes any binding of [n] below [d]. *)
Theorem c09_shield : forall n a, nu n a = true -> forall e d,
  shielded n d e -> kinds (env_of (exec a e)) = kinds e /\ shielded n d (env_of (exec a e)) /\
                    below_eq n d e (env_of (exec a e)).
Proof. exact exec_shield. Qed.
Print Assumptions c09_shield.

Theorem c09_local_restores : forall n body m rest,
  mget n m <> None -> Forall (fun a => nu n a = true) body ->
  let e' := fst (pop_scope KLocal (env_of (exec_list body ((KLocal, m) :: rest)))) in
  kinds e' = kinds rest /\ (forall j, scope_get j n e' = scope_get j n rest) /\ get n e' = get n rest.
Proof. exact local_restores. Qed.
Print Assumptions c09_local_restores.

Theorem c09_local_binds : forall f d m rest e',
  do_declare DLocal f d ((KCommand, []) :: (KLocal, m) :: rest) = (e', None) ->
  exists m', e' = (KCommand, []) :: (KLocal, m') :: rest /\ mget (decl_name d) m' <> None.
Proof. exact local_binds. Qed.
Print Assumptions c09_local_binds.

Theorem c09_callee_sees_local : forall n frames m rest x,
  mget n m = Some x -> Forall (fun s => snd s = []) frames ->
  get n (frames ++ (KLocal, m) :: rest) = Some x.
Proof. exact callee_sees_local. Qed.
Print Assumptions c09_callee_sees_local.

Theorem c09_unset_local_tombstone : forall n m rest x,
  mget n m = Some x -> v_ro x = false ->
  env_of (exec (ACmd [] (CBuiltin (BUnset n))) ((KLocal, m) :: rest)) = (KLocal, mset n tombstone m) :: rest.
Proof. exact unset_local_tombstone. Qed.
Print Assumptions c09_unset_local_tombstone.

(** Temporary assignments. *)
Theorem c09_temp_assign_undone_outside_known : forall ts c e,
  noop_cmd c = true -> Forall (not_nested e) ts -> env_of (exec (ACmd ts c) e) = e.
Proof. exact temp_assign_undone. Qed.
Print Assumptions c09_temp_assign_undone_outside_known.

Theorem c09_temp_func_restores : forall n ts body e,
  In n (map temp_name ts) -> Forall (not_nested e) ts -> Forall (fun a => nu n a = true) body ->
  let e' := env_of (exec (ACmd ts (CFunc body)) e) in
  kinds e' = kinds e /\ (forall j, scope_get j n e' = scope_get j n e) /\ get n e' = get n e.
Proof. exact temp_func_restores. Qed.
Print Assumptions c09_temp_func_restores.

Theorem c09_temp_assign_undone_refuted :
  exists ts c e, noop_cmd c = true /\ env_of (exec (ACmd ts c) e) <> e.
Proof. exact temp_assign_undone_refuted. Qed.
Print Assumptions c09_temp_assign_undone_refuted.

(** Readonly. *)
Theorem c09_assign_checks_readonly : forall x l app, v_ro x = true -> assign x l app = (x, Some EReadonly).
Proof. exact assign_readonly. Qed.
Print Assumptions c09_assign_checks_readonly.

Theorem c09_readonly_invariant_outside_known : forall a e, ro_safe a = true -> ro_pres e (env_of (exec a e)).
Proof. exact readonly_invariant_exec. Qed.
Print Assumptions c09_readonly_invariant_outside_known.

Theorem c09_readonly_invariant_refuted : exists a e, ~ ro_pres e (env_of (exec a e)).
Proof. exact readonly_invariant_refuted. Qed.
Print Assumptions c09_readonly_invariant_refuted.

Theorem c09_readonly_elem : forall x ix v app, v_ro x = true -> assign_at_index x ix v app = (x, Some EReadonly).
Proof. exact assign_at_index_readonly. Qed.
Print Assumptions c09_readonly_elem.

Theorem c09_readonly_unset_elem : forall x ix, v_ro x = true -> unset_index x ix = Err EReadonly.
Proof. exact unset_index_readonly. Qed.
Print Assumptions c09_readonly_unset_elem.

Theorem c09_readonly_local_shadow_refuted :
  exists body, match exec (ACmd [] (CFunc body)) ro_scalar_env with
               | (_, [OState _ e], _) =>
                   (exists x, get va ro_scalar_env = Some x /\ v_ro x = true) /\ get va e <> get va ro_scalar_env
               | _ => False
               end.
Proof. exact readonly_local_shadow_refuted. Qed.
Print Assumptions c09_readonly_local_shadow_refuted.

Theorem c09_readonly_temp_shadow_refuted :
  match exec (ACmd [(va, None, LScalar [50%N], false)] (CBuiltin (BProbe []))) ro_scalar_env with
  | (_, [OState _ e], _) => get va e <> get va ro_scalar_env
  | _ => False
  end.
Proof. exact readonly_temp_shadow_refuted. Qed.
Print Assumptions c09_readonly_temp_shadow_refuted.

(** Export: what children receive. *)
Theorem c09_reachable_wf : forall a e, wf_env e -> wf_env (env_of (exec a e)).
Proof. exact exec_wf. Qed.
Print Assumptions c09_reachable_wf.

Theorem c09_exported_env_outside_known : forall e n, wf_env e -> no_shine n e ->
  sm_get n (child_env e) = spec_child n e.
Proof. exact exported_env_outside_known. Qed.
Print Assumptions c09_exported_env_outside_known.

Theorem c09_exported_env_refuted : exists e n, wf_env e /\ sm_get n (child_env e) <> spec_child n e.
Proof. exact exported_env_refuted. Qed.
Print Assumptions c09_exported_env_refuted.

(** Attributes. *)
Theorem c09_attr_assign_table : forall x s old,
  v_ro x = false -> v_val x = VStr old ->
  assign x (LScalar s) false =
  match xform_str (v_int x) (v_xf x) s with
  | Ok s' => (set_val x (VStr s'), None)
  | Err er => (x, Some er)
  end.
Proof. exact assign_scalar_table. Qed.
Print Assumptions c09_attr_assign_table.

Theorem c09_integer_attr_refuted : xform_str true XNone [49; 43; 50]%N = Ok [48%N].
Proof. exact integer_attr_witness. Qed.
Print Assumptions c09_integer_attr_refuted.

Theorem c09_nonvacuous :
  Forall (fun a => nu va a = true) ex_body /\
  Forall (fun a => ro_safe a = true) ex_body /\
  (exists x, get va ro_scalar_env = Some x /\ v_ro x = true) /\
  Forall (not_nested ro_scalar_env) [(va, None, LScalar [50%N], false)] /\
  wf_env shadow_env /\ no_shine va (tl shadow_env) /\ ~ no_shine va shadow_env.
Proof. exact ex_nonvacuous. Qed.
Print Assumptions c09_nonvacuous.
