(** C17 — `wait` really waits; live jobs carry distinct job numbers (partial: theorems about
    the job-table model; task completion is the environment's input).
    Only pinned statements, [exact], and [Print Assumptions]. *)
From BV Require Import Base.Prelude Conc.Jobs Conc.JobsProofs.

(** However task completions and the waiter's steps interleave: when wait_all returns, every
    task of every job of the table has finished; the returned jobs are exactly the table's jobs
    (same numbers, same order: none twice, none lost), without tasks and Done; the table is empty. *)
Theorem c17_wait_all_post : forall m fin0 es w m' ret,
  wrun (mkW m 0 fin0) es = Some w -> wait_returned w = Some (m', ret) ->
  (forall j t, In j m -> In t (jtasks j) -> In t (wfin w)) /\
  ids ret = ids m /\ m' = [] /\
  Forall (fun j => jtasks j = [] /\ jst j = JDone) ret.
Proof. exact wait_all_post. Qed.
Print Assumptions c17_wait_all_post.

(** The waiter is blocked while the task it awaits has not finished. *)
Theorem c17_wait_blocks_on_unfinished : forall w j t rest,
  nth_error (wm w) (widx w) = Some j -> rev (jtasks j) = t :: rest -> memb t (wfin w) = false ->
  wait_step w = None.
Proof. exact wait_blocks_on_unfinished. Qed.
Print Assumptions c17_wait_blocks_on_unfinished.

(** Regression example about the old numbering, fixed by 649020c (id = table length + 1): launch, launch, the first finishes, poll, launch gives
    two live, running jobs with the same number. *)
Theorem c17_ids_distinct_refuted :
  exists ops, let m := table (run_ops false world0 ops) in
    ~ NoDup (ids m) /\ Forall (fun j => jst j = JRunning /\ jtasks j <> []) m.
Proof. exact ids_distinct_refuted. Qed.
Print Assumptions c17_ids_distinct_refuted.

(** Outside the finding's class: as long as jobs leave only from the end of the table the
    numbers are 1..n, hence distinct. *)
Theorem c17_ids_distinct_if_suffix_removal :
  canonical [] /\
  (forall m ts, canonical m -> canonical (add_as_current m ts)) /\
  (forall m k, canonical m -> canonical (firstn k m)) /\
  (forall m, canonical m -> NoDup (ids m)).
Proof. exact ids_distinct_if_suffix_removal. Qed.
Print Assumptions c17_ids_distinct_if_suffix_removal.

(** The current code (largest live number + 1): distinct numbers after every history, unconditionally. *)
Theorem c17_ids_distinct_fixed : forall ops, NoDup (ids (table (run_ops true world0 ops))).
Proof. exact ids_distinct_fixed. Qed.
Print Assumptions c17_ids_distinct_fixed.

(** At most one current job, for today's code and the repaired one, after every history. *)
Theorem c17_current_unique : forall fixed ops,
  (count is_cur (table (run_ops fixed world0 ops)) <= 1)%nat.
Proof. exact current_unique. Qed.
Print Assumptions c17_current_unique.

(** Regression example about the old code (fixed by 01e8198): three launches left two jobs marked
    previous; the current code ([add_fixed]): at most one, after every history. *)
Theorem c17_previous_unique_refuted :
  exists ops, (count is_prev (table (run_ops false world0 ops)) = 2)%nat.
Proof. exact previous_unique_refuted. Qed.
Print Assumptions c17_previous_unique_refuted.

Theorem c17_previous_unique_fixed : forall ops,
  (count is_prev (table (run_ops true world0 ops)) <= 1)%nat.
Proof. exact previous_unique_fixed. Qed.
Print Assumptions c17_previous_unique_fixed.

(** Non-vacuity: two jobs whose tasks finish in the opposite order; the waiter gets through and
    returns both. *)
Theorem c17_nonvacuous :
  let m := add_as_current (add_as_current [] [1%nat]) [2%nat] in
  exists w, wrun (mkW m 0 []) [EFin 2; EFin 1; EStep; EStep; EStep; EStep]%nat = Some w /\
            wait_returned w = Some ([], map (fun j => mkJob (jid j) [] (jann j) JDone) m).
Proof. exact wait_all_example. Qed.
Print Assumptions c17_nonvacuous.
