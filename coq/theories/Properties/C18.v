(** C18 — long sessions do not leak internal stacks (the proved part; descriptors and children are
    measured, see props/c18.py).  Only pinned statements, [exact], and [Print Assumptions]. *)
From BV Require Import Base.Prelude Traps.Syntax Traps.Model Traps.Spec Traps.Proofs Traps.Theorems.

(** every command of the language — including the fault leaves (failing redirect, unknown command,
    expansion error inside the command-scope assignments, call-depth limit, missing sourced file),
    `return`/`exit` out of nested constructs, trap handlers, eval, source — leaves the scope stack
    and the call stack exactly as it found them, whenever it comes back at all *)
Theorem c18_depth_balanced : forall cf fuel sup c s r s',
  exec cf fuel sup c s = (r, s') -> okerr r = true ->
  scopes s' = scopes s /\ frames s' = frames s.
Proof. exact depth_balanced. Qed.
Print Assumptions c18_depth_balanced.

Theorem c18_session_balanced : forall cf fuel cs s s',
  session_run cf fuel cs s = Some s' -> scopes s' = scopes s /\ frames s' = frames s.
Proof. exact session_balanced. Qed.
Print Assumptions c18_session_balanced.

(** N repetitions of a command sequence leave the same depths as one *)
Theorem c18_iterate_same_depth : forall cf fuel cs n s s1 sn,
  session_run cf fuel cs s = Some s1 ->
  session_run cf fuel (repeat_list n cs) s = Some sn ->
  length (scopes sn) = length (scopes s1) /\ length (frames sn) = length (frames s1).
Proof. exact iterate_same_depth. Qed.
Print Assumptions c18_iterate_same_depth.

(** the active-handler marks, too, are restored (part of the invariant) *)
Theorem c18_exec_invariant : forall cf fuel sup c s r s', exec cf fuel sup c s = (r, s') -> Inv s r s'.
Proof. exact exec_inv. Qed.
Print Assumptions c18_exec_invariant.
