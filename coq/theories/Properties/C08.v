(** C08 — glob, bracket and extglob patterns match exactly the strings the specification (POSIX
    2.13 + bash extglob) says; the match covers the whole subject.
    Only pinned statements, [exact], and [Print Assumptions]. *)
From Coq Require Import String.
From BV Require Import Base.Prelude Base.Codec Glob.Ast Glob.Parse Glob.Regex Glob.Translate Glob.Sem Glob.Known
  Glob.Proofs Glob.ClassProofs Glob.Decide Glob.Expand Glob.ExpandProofs.

(** The engine model run on the regex emitted for [g] accepts, as a whole-subject match, exactly the
    strings of the specification; for every pattern without !() whose bracket expressions are benign
    ([okb], decidable), every subject, case-sensitive or not, whatever the [m] flag. *)
Theorem c08_translate_correct : forall multi ci g s, okb g = true ->
  whole multi true ci (tr g) s = glob_match ci g s.
Proof. exact translate_correct_dec. Qed.
Print Assumptions c08_translate_correct.

(** [^r$] searched anywhere in the subject (is_match) is a whole-subject match when [m] is off. *)
Theorem c08_anchored_search_is_whole : forall dotall ci r s,
  search false dotall ci (RCat RBol (RCat r REol)) s = whole false dotall ci r s.
Proof. exact anchored_search_is_whole. Qed.
Print Assumptions c08_anchored_search_is_whole.

(** Whole-string theorem for the flags and anchors regenerated from the source ("(?s)", ^ and $):
    what [Pattern::exactly_matches] computes is the specification's whole-subject match. *)
Theorem c08_whole_string : forall ci g s, okb g = true ->
  search eff_multi eff_dotall ci (anchored (tr g)) s = glob_match ci g s.
Proof. exact whole_string_dec. Qed.
Print Assumptions c08_whole_string.

(** regression: with the [m] flag (the defect repaired by f17341b) it is false: abc matches "x\nabc". *)
Theorem c08_regression_multiline :
  exists g s, ok false g /\ search true true false (RCat RBol (RCat (tr g) REol)) s = true /\ glob_match false g s = false.
Proof. exact whole_string_refuted_multi. Qed.
Print Assumptions c08_regression_multiline.

(** The bracket hypothesis is decidable: the engine's class parser reads benign class text as the
    union of its members. *)
Theorem c08_class_benign : forall ci neg cits, class_benign cits = true -> Forall item_valid cits ->
  exists f, class_sem ci neg cits = COk f /\ forall x, f x = existsb (fun i => citem_has i x) cits.
Proof. exact class_benign_sem. Qed.
Print Assumptions c08_class_benign.

(** A quoted piece is read back by the pattern PEG as its characters, and matches exactly itself. *)
Theorem c08_literal_parse : forall ext q, parse ext (escape_lit q) = lits q.
Proof. exact parse_escape_lit. Qed.
Print Assumptions c08_literal_parse.

Theorem c08_literal_identity : forall multi ext q s,
  whole multi true false (tr (parse ext (pieces_text [PLit q]))) s = str_eqb q s.
Proof. exact literal_identity. Qed.
Print Assumptions c08_literal_identity.

(** Obligations over the regenerated tables. *)
Theorem c08_tables : forallb needs_escaping engine_meta = true /\
  forallb (fun c => negb (is_alnum c) && N.ltb c 128 && N.ltb 32 c) needs_escaping_chars = true /\
  (flag_other = false /\ pattern_uses_flags = true /\ flag_dotall = true /\ anchor_start = true /\ anchor_end = true).
Proof. exact (conj needs_escaping_covers_engine_meta (conj needs_escaping_only_punct flags_as_modelled)). Qed.
Print Assumptions c08_tables.

(** Known findings, as refutations on the faithful model. *)
Theorem c08_negation_refuted :
  exists g s, has_neg g = true /\ whole false true false (tr g) s = true /\ glob_match false g s = false.
Proof. exact negation_refuted. Qed.
Print Assumptions c08_negation_refuted.

Theorem c08_leading_bracket_repaired :
  spec_matches false false (s_of "[]a]") (s_of "]") = true /\
  whole false true false (tr (parse false (s_of "[]a]"))) (s_of "]") = true /\
  whole false true false (tr (parse false (s_of "[]a]"))) (s_of "a") = true /\
  whole false true false (tr (parse false (s_of "[!]]"))) (s_of "]") = false /\
  whole false true false (tr (parse false (s_of "[!]]"))) (s_of "a") = true /\
  print_regex (tr (parse false (s_of "[]-a]"))) = [91; 92; 93; 45; 97; 93]%N.
Proof. exact leading_bracket_repaired. Qed.
Print Assumptions c08_leading_bracket_repaired.

Theorem c08_escaped_alnum_repaired :
  whole false true false (tr (parse false [91; 92; 97; 93]%N)) (s_of "a") = true /\
  whole false true false (tr (parse false [91; 92; 97; 93]%N)) [7%N] = false /\
  print_regex (tr (parse false [91; 92; 97; 92; 100; 93]%N)) = s_of "[ad]".
Proof. exact escaped_alnum_repaired. Qed.
Print Assumptions c08_escaped_alnum_repaired.

Theorem c08_class_ops_refuted :
  exists p s, k_class_ops false p = true /\
              whole false true false (tr (parse false p)) s = false /\ spec_matches false false p s = true.
Proof. exact class_ops_refuted. Qed.
Print Assumptions c08_class_ops_refuted.

Theorem c08_paren_nesting_refuted :
  exists p s, k_paren_nest true p = true /\
              whole false true false (tr (parse true p)) s = true /\ spec_matches true false p s = false.
Proof. exact paren_nesting_refuted. Qed.
Print Assumptions c08_paren_nesting_refuted.

(** Pathname expansion over an arbitrary directory oracle [ls]/[ex] (any listing order). *)
Theorem c08_dotfile_policy : forall ls ex ext ci dotglob comps r,
  In r (walk ls ex ext ci dotglob comps [[]]) -> Forall2 (dot_rule dotglob) comps r.
Proof. exact dotfile_policy. Qed.
Print Assumptions c08_dotfile_policy.

Theorem c08_sort_flag : expand_sorts_per_dir || expand_sorts_results = true.
Proof. exact sort_flag. Qed.
Print Assumptions c08_sort_flag.

Theorem c08_expand_sorted_single : forall ls ex ext ci dotglob c, requires_expansion ext c = true ->
  sorted_strs (expand ls ex ext ci dotglob [c]).
Proof. exact (fun ls ex ext ci dotglob c H => expand_sorted_single ls ex ext ci dotglob c H sort_flag). Qed.
Print Assumptions c08_expand_sorted_single.

Theorem c08_expand_sorted_all : forall ls ex ext ci dotglob comps,
  sorted_strs (expand ls ex ext ci dotglob comps).
Proof. exact expand_sorted_all. Qed.
Print Assumptions c08_expand_sorted_all.

Theorem c08_multilevel_sort_repaired :
  expand_model true false false [Codec.lit "a/x"; Codec.lit "a-/x"] (Codec.lit "*/x") = Some [Codec.lit "a-/x"; Codec.lit "a/x"] /\
  expand_spec_words true false false [Codec.lit "a/x"; Codec.lit "a-/x"] (Codec.lit "*/x") = [Codec.lit "a-/x"; Codec.lit "a/x"].
Proof. exact multilevel_sort_repaired. Qed.
Print Assumptions c08_multilevel_sort_repaired.

(** Non-vacuity of the hypotheses. *)
Theorem c08_nonvacuous : okb ex_pat = true /\ ex_pat <> GNil /\
  glob_match false ex_pat ex_yes = true /\ glob_match false ex_pat ex_no = false.
Proof. exact ex_pat_ok. Qed.
Print Assumptions c08_nonvacuous.
