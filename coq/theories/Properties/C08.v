(** C08 — placeholder, pinned theorems follow. *)
From BV Require Import Base.Prelude Glob.Ast Glob.Parse Glob.Regex Glob.Translate Glob.Sem.
