(** C15 — the five ways a program reaches the interpreter, over an abstract command executor.

    Mirrors
      brush-core/src/interp.rs          [impl Execute for ast::Program]         -> [run_program]
      brush-core/src/shell/execution.rs [run_string] [run_dash_c_command] [run_script]
                                        [parse_and_execute_script_file] [source_script]
      brush-builtins/src/eval.rs, dot.rs
      brush-shell/src/entry.rs          [run_in_shell]
      brush-interactive/src/interactive_shell.rs [run_interactively] [execute_line]
      brush-interactive/src/minimal/input_backend.rs [read_program_from]  (Complete.chunks_of)

    Abstract (Section variables): the shell state [St]; parsed complete commands [cmd];
    [exec c base st] — executing one complete command whose source positions are to be read
    with [base] lines added (what $LINENO reports inside [c] is [base] + the position recorded by
    the parser); [shift n c] — the command the parser produces for the same text starting [n]
    lines further down; the uncached parser [parse]; the EXIT path [on_exit]; the report of a
    parse error.  [-c], [eval] and the standard-input front-end parse through the memoised
    [Shell::parse_string] (Cache.Lru), script files and [source] through the plain parser. *)
From BV Require Import Base.Prelude Cache.Lru Modes.Classes Modes.Complete.
From BV Require gen.C15Incomplete.

Inductive flow := FNormal | FExit | FReturn | FLoop.

(** regenerated obligation: the floor of [execute_line]'s line count is at most one line *)
Lemma floor_le_one : (gen.C15Incomplete.line_count_floor <= 1)%nat.
Proof. vm_compute. lia. Qed.

Section Modes.
  Variables St cmd opts : Type.
  Variable exec : cmd -> nat -> St -> St * flow.
  Variable shift : nat -> cmd -> cmd.
  Variable on_exit : St -> St.
  Variable parse_error : str -> nat -> St -> St.   (* display the error, set the status *)
  Variable parse : opts -> str -> option (list cmd).
  Variable needs_more : opts -> str -> bool.

  (** [impl Execute for ast::Program]: complete commands in order; anything but normal flow stops
      the program and is handed to the caller. *)
  Fixpoint run_program (cs : list cmd) (base : nat) (st : St) : St * flow :=
    match cs with
    | [] => (st, FNormal)
    | c :: cs' => let '(st', fl) := exec c base st in
                  match fl with FNormal => run_program cs' base st' | _ => (st', fl) end
    end.

  Lemma program_concat cs1 cs2 base st :
    run_program (cs1 ++ cs2) base st =
    (let '(st1, fl) := run_program cs1 base st in
     match fl with FNormal => run_program cs2 base st1 | _ => (st1, fl) end).
  Proof.
    revert st; induction cs1 as [|c cs1 IH]; intros st; cbn; [reflexivity|].
    destruct (exec c base st) as [st' fl]. destruct fl; try reflexivity. apply IH.
  Qed.

  (** The memoised [Shell::parse_string]: key (text, options); any bounded policy. *)
  Variable K_eqb : (str * opts) -> (str * opts) -> bool.
  Variable on_hit : (str * opts) -> list ((str * opts) * option (list cmd)) -> list ((str * opts) * option (list cmd)).
  Variable on_insert : list ((str * opts) * option (list cmd)) -> list ((str * opts) * option (list cmd)).
  Definition parse_string (history : list (str * opts)) (o : opts) (text : str) : option (list cmd) :=
    cached_call K_eqb on_hit on_insert (fun a => parse (snd a) (fst a)) (fun a => a) history (text, o).

  (** [run_parsed_result] of a whole text at line base [base]. *)
  Definition run_parsed (r : option (list cmd)) (text : str) (base : nat) (st : St) : St * flow :=
    match r with
    | Some cs => run_program cs base st
    | None => (parse_error text base st, FNormal)
    end.

  (** brush FILE: [run_script] = parse the whole file, run, EXIT path. A `return` that reaches
      the script boundary is consumed. *)
  Definition script_frontend (o : opts) (text : str) (st : St) : St :=
    on_exit (fst (run_parsed (parse o text) text 0 st)).

  (** brush -c TEXT: [run_dash_c_command] = [run_string] (memoised parse), EXIT path. *)
  Definition dash_c_frontend (h : list (str * opts)) (o : opts) (text : str) (st : St) : St :=
    on_exit (fst (run_parsed (parse_string h o text) text 0 st)).

  (** The [eval] builtin (brush-builtins/src/eval.rs after fix e4871cd): [run_string] in the
      current frame; control flow passes through.  While the string runs the frame's line offset is
      raised by the line [L] of the `eval` command within its source minus one
      ([pos.line.saturating_sub(1)]), and lowered again afterwards, so positions inside the
      eval'ed text count from the line of the `eval` command. *)
  Definition eval_line_delta (L : nat) : nat := L - 1.
  Definition eval_builtin (h : list (str * opts)) (o : opts) (text : str) (base L : nat) (st : St) : St * flow :=
    run_parsed (parse_string h o text) text (base + eval_line_delta L) st.

  (** The [.]/[source] builtin: plain parse of the file, own frame with base 0, `return` consumed. *)
  Definition dot_builtin (o : opts) (text : str) (st : St) : St * flow :=
    let '(st', fl) := run_parsed (parse o text) text 0 st in
    (st', match fl with FReturn => FNormal | _ => fl end).

  (** Specification (bash): line [j] of the eval'ed text reports the absolute line of the `eval`
      word ([base + L]) plus [j - 1], i.e. the text is read at base "absolute line of eval, minus one". *)
  Definition eval_builtin_bash (h : list (str * opts)) (o : opts) (text : str) (base L : nat) (st : St) : St * flow :=
    run_parsed (parse_string h o text) text (Nat.pred (base + L)) st.

  Definition eval_lineno_stmt : Prop :=
    forall h o text base L st, (1 <= L)%nat ->
    eval_builtin h o text base L st = eval_builtin_bash h o text base L st.

  (** Holds since fix e4871cd (finding KF-C15-eval-lineno-base, fixed): for every line [L >= 1]. *)
  Lemma eval_lineno : eval_lineno_stmt.
  Proof.
    intros h o text base L st HL. unfold eval_builtin, eval_builtin_bash, eval_line_delta.
    replace (base + (L - 1))%nat with (Nat.pred (base + L)) by lia. reflexivity.
  Qed.

  (** Delivery through a one-command wrapper ( -c 'eval "$text"' ,  -c '. file' ). *)
  Definition eval_delivery (h : list (str * opts)) (o : opts) (text : str) (st : St) : St :=
    on_exit (fst (eval_builtin h o text 0 1 st)).
  Definition source_delivery (o : opts) (text : str) (st : St) : St :=
    on_exit (fst (dot_builtin o text st)).

  (** Standard input: [run_interactively] over the chunks handed over by the input backend;
      after each chunk the frame's line offset grows by the chunk's line count; `exit` ends the
      loop; at end of input the EXIT path runs. *)
  Fixpoint stdin_run (h : list (str * opts)) (o : opts) (chs : list str) (off : nat) (st : St) : St :=
    match chs with
    | [] => on_exit st
    | ch :: r =>
        let '(st', fl) := run_parsed (parse_string h o ch) ch off st in
        match fl with
        | FExit => on_exit st'
        | _ => stdin_run (h ++ [(ch, o)]) o r (off + line_count ch) st'
        end
    end.
  Definition stdin_frontend (h : list (str * opts)) (o : opts) (lines : list str) (st : St) : St :=
    stdin_run h o (chunks_of (needs_more o) [] lines) 0 st.

  (** ** Agreement *)
  Hypothesis K_eqb_eq : forall a b, K_eqb a b = true <-> a = b.
  Hypothesis on_hit_incl : forall k s, incl (on_hit k s) s.
  Hypothesis on_insert_incl : forall s, incl (on_insert s) s.

  Lemma parse_string_pure h o text : parse_string h o text = parse o text.
  Proof.
    unfold parse_string.
    rewrite (memo_transparent _ _ _ K_eqb K_eqb_eq on_hit on_insert on_hit_incl on_insert_incl
               (fun a => parse (snd a) (fst a)) (fun a => a)); [reflexivity|].
    intros a b ->; reflexivity.
  Qed.

  (** Positions are additive: the parser records positions relative to the text it is given and
      the frame adds its base ([Frame::current_line]). *)
  Hypothesis exec_shift : forall n c base st, exec (shift n c) base st = exec c (n + base) st.
  (** The parser is compositional on complete chunks: parsing a text that continues after a
      chunk the front-end would have handed over gives the chunk's commands followed by the
      rest's commands, [count_nl] lines further down. *)
  Hypothesis parse_empty : forall o, parse o [] = Some [].
  Hypothesis parse_concat : forall o t1 t2 cs1 cs2,
    needs_more o t1 = false -> ends_nl t1 = true ->
    parse o t1 = Some cs1 -> parse o t2 = Some cs2 ->
    parse o (t1 ++ t2) = Some (cs1 ++ map (shift (count_nl t1)) cs2).

  Lemma run_program_shift n cs base st :
    run_program (map (shift n) cs) base st = run_program cs (n + base) st.
  Proof.
    revert st; induction cs as [|c cs IH]; intros st; cbn; [reflexivity|].
    rewrite exec_shift. destruct (exec c (n + base) st) as [st' fl]. destruct fl; try reflexivity. apply IH.
  Qed.

  Fixpoint parse_chunks (o : opts) (chs : list str) : option (list cmd) :=
    match chs with
    | [] => Some []
    | ch :: r => match parse o ch, parse_chunks o r with
                 | Some cs, Some cr => Some (cs ++ map (shift (count_nl ch)) cr)
                 | _, _ => None
                 end
    end.

  Definition chunk_done (o : opts) (ch : str) : Prop := needs_more o ch = false /\ ends_nl ch = true.

  Lemma parse_chunks_some o chs : Forall (fun ch => parse o ch <> None) chs -> exists cs, parse_chunks o chs = Some cs.
  Proof.
    induction 1 as [|ch r Hch _ IH]; cbn; [eauto|].
    destruct IH as [cr ->]. destruct (parse o ch) as [cs|]; [eauto | congruence].
  Qed.

  Lemma parse_concat_chunks o chs :
    nonlast (chunk_done o) chs -> Forall (fun ch => parse o ch <> None) chs ->
    parse o (concat chs) = parse_chunks o chs.
  Proof.
    induction chs as [|ch r IH]; intros Hnl Hall; [apply parse_empty|].
    inversion Hall as [|? ? Hch Hr]; subst.
    destruct r as [|c2 r'].
    - cbn. rewrite app_nil_r. destruct (parse o ch) as [cs|]; [|congruence]. now rewrite app_nil_r.
    - destruct Hnl as [[Hnm Hnl1] Hnl2].
      destruct (parse_chunks_some o _ Hr) as [cr Hcr].
      specialize (IH Hnl2 Hr). rewrite Hcr in IH.
      change (concat (ch :: c2 :: r')) with (ch ++ concat (c2 :: r')).
      change (parse_chunks o (ch :: c2 :: r')) with
        (match parse o ch, parse_chunks o (c2 :: r') with
         | Some cs, Some cr => Some (cs ++ map (shift (count_nl ch)) cr) | _, _ => None end).
      rewrite Hcr. destruct (parse o ch) as [cs|] eqn:Ech; [|congruence].
      now apply parse_concat.
  Qed.

  Definition flow_ok (fl : flow) : Prop := fl = FNormal \/ fl = FExit.

  Lemma lines_count_go_nl s : forall p, ends_nl s = true -> lines_count_go s p = count_nl s.
  Proof.
    unfold ends_nl.
    induction s as [|c s IH]; intros p H; [discriminate|].
    cbn [lines_count_go count_nl]. destruct s as [|d s'].
    - cbn in H. rewrite H. reflexivity.
    - change (ends_with_char NL (d :: s') = true) in H.
      destruct (N.eqb c NL); [f_equal|]; now apply IH.
  Qed.

  Lemma count_nl_pos s : ends_nl s = true -> (1 <= count_nl s)%nat.
  Proof.
    unfold ends_nl.
    induction s as [|c s IH]; intros H; [discriminate|].
    cbn [count_nl]. destruct s as [|d s'].
    - cbn in H. rewrite H. lia.
    - change (ends_with_char NL (d :: s') = true) in H. specialize (IH H).
      destruct (N.eqb c NL); lia.
  Qed.

  Lemma line_count_nl s : ends_nl s = true -> line_count s = count_nl s.
  Proof.
    intros H. unfold line_count, lines_count. rewrite lines_count_go_nl by exact H.
    pose proof (count_nl_pos s H). pose proof floor_le_one. lia.
  Qed.

  (** The chunked run equals the run of the recombined program, at any starting offset and
      whatever was parsed before. *)
  Lemma stdin_run_whole o : forall chs h off st cs,
    nonlast (chunk_done o) chs -> parse_chunks o chs = Some cs ->
    flow_ok (snd (run_program cs off st)) ->
    stdin_run h o chs off st = on_exit (fst (run_program cs off st)).
  Proof.
    induction chs as [|ch r IH]; intros h off st cs Hnl Hp Hfl.
    - cbn in Hp. inversion Hp; subst. reflexivity.
    - cbn [parse_chunks] in Hp.
      destruct (parse o ch) as [c1|] eqn:E1; [|discriminate].
      destruct (parse_chunks o r) as [cr|] eqn:Er; [|discriminate].
      inversion Hp; subst cs; clear Hp.
      cbn [stdin_run]. rewrite parse_string_pure, E1. cbn [run_parsed].
      rewrite program_concat in Hfl |- *.
      destruct (run_program c1 off st) as [st1 fl] eqn:R1.
      destruct fl.
      + rewrite run_program_shift in Hfl |- *.
        destruct r as [|c2 r'].
        * cbn in Er. inversion Er; subst cr. reflexivity.
        * destruct Hnl as [[_ Hnl1] Hnl2].
          rewrite (line_count_nl _ Hnl1), (Nat.add_comm off).
          apply IH; auto.
      + reflexivity.
      + cbn in Hfl. destruct Hfl; discriminate.
      + cbn in Hfl. destruct Hfl; discriminate.
  Qed.

  (** The chunks the front-end forms: all but the last are complete and newline-terminated when
      all lines but the last are newline-terminated. *)
  Lemma ends_nl_app a l : l <> [] -> ends_nl (a ++ l) = ends_nl l.
  Proof.
    intros Hl. unfold ends_nl. induction a as [|x a IH]; [reflexivity|].
    cbn [app ends_with_char]. destruct (a ++ l) eqn:E; [|exact IH].
    apply app_eq_nil in E. destruct E; contradiction.
  Qed.

  Lemma ends_nl_nonempty l : ends_nl l = true -> l <> [].
  Proof. intros H ->. discriminate. Qed.

  Lemma nonlast_cons {A} (P : A -> Prop) x r : r <> [] -> nonlast P (x :: r) <-> P x /\ nonlast P r.
  Proof. destruct r; [contradiction|]. intros _. reflexivity. Qed.

  Lemma chunks_of_done o : forall lines acc,
    nonlast (fun l => ends_nl l = true) lines ->
    nonlast (chunk_done o) (chunks_of (needs_more o) acc lines).
  Proof.
    induction lines as [|l ls IH]; intros acc Hl.
    - cbn. destruct acc; exact I.
    - cbn [chunks_of]. destruct (needs_more o (acc ++ l)) eqn:Enm.
      + apply IH. destruct ls; [exact I | apply Hl].
      + destruct ls as [|l2 ls'].
        * cbn. exact I.
        * destruct Hl as [Hl1 Hl2]. specialize (IH [] Hl2).
          remember (chunks_of (needs_more o) [] (l2 :: ls')) as X.
          destruct X as [|x X']; [exact I|].
          split; [|exact IH].
          split; [exact Enm|]. rewrite ends_nl_app; [exact Hl1 | now apply ends_nl_nonempty].
  Qed.

  Lemma chunks_of_concat nm : forall lines acc, concat (chunks_of nm acc lines) = acc ++ concat lines.
  Proof.
    induction lines as [|l ls IH]; intros acc.
    - cbn. destruct acc; cbn; now rewrite ?app_nil_r.
    - cbn [chunks_of]. destruct (nm (acc ++ l)).
      + rewrite IH. cbn. now rewrite app_assoc.
      + cbn. rewrite IH. cbn. now rewrite app_assoc.
  Qed.

  (** ** The theorem *)
  Theorem modes_agree_gen : forall o lines st h,
    nonlast (fun l => ends_nl l = true) lines ->
    Forall (fun ch => parse o ch <> None) (chunks_of (needs_more o) [] lines) ->
    flow_ok (snd (run_parsed (parse o (concat lines)) (concat lines) 0 st)) ->
    let text := concat lines in
    let r := script_frontend o text st in
    dash_c_frontend h o text st = r /\
    eval_delivery h o text st = r /\
    source_delivery o text st = r /\
    stdin_frontend h o lines st = r.
  Proof.
    intros o lines st h Hl Hall Hfl text r. subst r text.
    unfold dash_c_frontend, eval_delivery, eval_builtin, eval_line_delta, source_delivery, dot_builtin, script_frontend.
    cbn [Nat.sub Nat.add].
    rewrite !parse_string_pure.
    split; [reflexivity|]. split; [reflexivity|]. split.
    - destruct (run_parsed (parse o (concat lines)) (concat lines) 0 st) as [st' fl]; reflexivity.
    - unfold stdin_frontend.
      pose proof (chunks_of_done o lines [] Hl) as Hd.
      pose proof (parse_concat_chunks o _ Hd Hall) as Hp.
      rewrite chunks_of_concat in Hp. cbn [app] in Hp.
      destruct (parse_chunks_some o _ Hall) as [cs Hcs].
      rewrite Hcs in Hp. rewrite Hp in Hfl |- *. cbn [run_parsed] in Hfl |- *.
      now apply stdin_run_whole.
  Qed.
End Modes.
