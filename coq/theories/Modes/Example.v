(** A concrete instance of the front-end model satisfying every hypothesis of
    [modes_agree_gen] (non-vacuity): one command per newline-terminated line, a command is the
    line number the parser recorded, executing it appends the line number $LINENO would show. *)
From BV Require Import Base.Prelude Cache.Lru Modes.Classes Modes.Complete Modes.Modes.

Definition t_parse (_ : unit) (t : str) : option (list nat) := Some (seq 1 (count_nl t)).
Definition t_shift (n c : nat) : nat := (n + c)%nat.
Definition t_exec (c base : nat) (st : list nat) : list nat * flow := (st ++ [(c + base)%nat], FNormal).
Definition t_nm (_ : unit) (_ : str) : bool := false.
Definition t_keq (a b : str * unit) : bool := str_eqb (fst a) (fst b).

Lemma t_keq_eq a b : t_keq a b = true <-> a = b.
Proof.
  destruct a as [x []], b as [y []]. unfold t_keq; cbn. rewrite str_eqb_eq.
  split; [intros ->; reflexivity | intros H; now inversion H].
Qed.

Lemma count_nl_app' a b : count_nl (a ++ b) = (count_nl a + count_nl b)%nat.
Proof. induction a as [|c a IH]; cbn; [reflexivity|]. destruct (N.eqb c NL); cbn; now rewrite IH. Qed.

Lemma map_add_seq a : forall s b, map (Nat.add a) (seq s b) = seq (a + s) b.
Proof.
  intros s b; revert s; induction b as [|b IH]; intros s; cbn; [reflexivity|].
  f_equal. rewrite IH. f_equal. lia.
Qed.

Lemma t_parse_concat : forall o t1 t2 cs1 cs2,
  t_nm o t1 = false -> ends_nl t1 = true -> t_parse o t1 = Some cs1 -> t_parse o t2 = Some cs2 ->
  t_parse o (t1 ++ t2) = Some (cs1 ++ map (t_shift (count_nl t1)) cs2).
Proof.
  intros o t1 t2 cs1 cs2 _ _ H1 H2. unfold t_parse in *. inversion H1; inversion H2; subst.
  rewrite count_nl_app', seq_app. do 2 f_equal.
  unfold t_shift. rewrite map_add_seq. f_equal. lia.
Qed.

Definition ex_lines : list str := [[101; 10]; [102; 10]; [103; 10]]%N.

Lemma example_agrees :
  let r := script_frontend (list nat) nat unit t_exec (fun st => st ++ [0%nat]) (fun _ _ st => st) t_parse tt (concat ex_lines) [] in
  r = [1; 2; 3; 0]%nat /\
  stdin_frontend (list nat) nat unit t_exec (fun st => st ++ [0%nat]) (fun _ _ st => st) t_parse t_nm t_keq
      (fun _ s => s) (fun s => firstn 64 s) [] tt ex_lines [] = r.
Proof. vm_compute. split; reflexivity. Qed.

Lemma example_hypotheses :
  (forall a b, t_keq a b = true <-> a = b) /\
  (forall n c base st, t_exec (t_shift n c) base st = t_exec c (n + base) st) /\
  (forall o, t_parse o [] = Some []) /\
  nonlast (fun l => ends_nl l = true) ex_lines /\
  Forall (fun ch => t_parse tt ch <> None) (chunks_of (t_nm tt) [] ex_lines) /\
  flow_ok (snd (run_parsed (list nat) nat t_exec (fun _ _ st => st) (t_parse tt (concat ex_lines)) (concat ex_lines) 0 [])).
Proof.
  split; [exact t_keq_eq|]. split.
  { intros n c base st. unfold t_exec, t_shift. do 3 f_equal. lia. }
  split; [reflexivity|]. split; [cbn; auto|]. split.
  { vm_compute. repeat constructor; discriminate. }
  left. reflexivity.
Qed.

(** Regression example for the repaired finding KF-C15-eval-lineno-base: eval'ed from line 3 of its
    source, a one-line text reports line 3 (the model of the code before fix e4871cd reported 1), and a
    two-line text reports 3 and 4; with a frame offset of 2 (third line of standard input, `eval`
    on the second line of its chunk) the text reports line 4. *)
Example eval_lineno_regression :
  fst (eval_builtin (list nat) nat unit t_exec (fun _ _ st => st) t_parse t_keq (fun _ s => s) (fun s => firstn 64 s)
         [] tt [101; 10]%N 0 3 []) = [3]%nat /\
  fst (eval_builtin (list nat) nat unit t_exec (fun _ _ st => st) t_parse t_keq (fun _ s => s) (fun s => firstn 64 s)
         [] tt [101; 10; 102; 10]%N 0 3 []) = [3; 4]%nat /\
  fst (eval_builtin (list nat) nat unit t_exec (fun _ _ st => st) t_parse t_keq (fun _ s => s) (fun s => firstn 64 s)
         [] tt [101; 10]%N 2 2 []) = [4]%nat.
Proof. vm_compute. repeat split. Qed.
