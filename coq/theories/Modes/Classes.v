(** Shapes of the match arms of [needs_more_input_locked] (brush-interactive/src/completeness.rs)
    recognised by the translator; the arm list itself is regenerated into gen/C15Incomplete.v. *)
Inductive arm_pat :=
| PTokIncomplete   (* Err(ParseError::Tokenizing { inner, .. }) if inner.is_incomplete() *)
| PAtEnd           (* Err(ParseError::ParsingAtEndOfInput) *)
| PNear            (* Err(ParseError::ParsingNear(_)) *)
| PAnyErr          (* Err(_) *)
| POk              (* Ok(_) *)
| PAny.            (* _ *)

Inductive arm_res :=
| RTrue | RFalse
| RCont.           (* ends_with_line_continuation(shell, input) *)
