(** C15 — the completeness decision of the standard-input front-end.

    Model of brush-interactive/src/completeness.rs ([needs_more_input_locked],
    [ends_with_line_continuation]), of [TokenizerError::is_incomplete], of the accumulation loop
    of [MinimalInputBackend::read_program_from] and of the line bookkeeping of
    [InteractiveShell::execute_line].  The parser is an oracle ([parse_class], a [Section]
    variable): what is modelled is how its verdict is *classified* and what the front-end does
    with the classification.  The classification tables are regenerated from the Rust source
    (gen/C15Incomplete.v). *)
From Coq Require Import String.
From BV Require Import Base.Prelude Modes.Classes gen.C15Incomplete.

(** Verdict of [Shell::parse_string] on a text. *)
Inductive pclass :=
| COk
| CTok (variant : string)   (* Err(ParseError::Tokenizing { inner: TokenizerError::<variant>, .. }) *)
| CAtEnd                    (* Err(ParseError::ParsingAtEndOfInput) *)
| CNear.                    (* Err(ParseError::ParsingNear(_)) *)

Definition str_in (v : string) (l : list string) : bool := existsb (String.eqb v) l.

(** [TokenizerError::is_incomplete], from the regenerated variant list. *)
Definition is_incomplete (v : string) : bool := str_in v is_incomplete_variants.

Definition pat_matches (p : arm_pat) (c : pclass) : bool :=
  match p, c with
  | PTokIncomplete, CTok v => is_incomplete v
  | PAtEnd, CAtEnd => true
  | PNear, CNear => true
  | PAnyErr, CTok _ => true
  | PAnyErr, CAtEnd => true
  | PAnyErr, CNear => true
  | POk, COk => true
  | PAny, _ => true
  | _, _ => false
  end.

(** A Rust [match]: the first arm whose pattern (and guard) accepts the value. *)
Fixpoint first_arm (arms : list (arm_pat * arm_res)) (c : pclass) : option arm_res :=
  match arms with
  | [] => None
  | (p, r) :: arms' => if pat_matches p c then Some r else first_arm arms' c
  end.

(** The decision as a function of the verdict on the input and of the continuation test. *)
Definition needs_more_class (c : pclass) (cont : bool) : bool :=
  match first_arm nmi_arms c with
  | Some RTrue => true
  | Some RFalse => false
  | Some RCont => cont
  | None => false   (* unreachable: [nmi_arms_exhaustive] (a non-exhaustive match does not compile) *)
  end.

Fixpoint strip_suffix_char (c : char) (s : str) : option str :=
  match s with
  | [] => None
  | [x] => if N.eqb x c then Some [] else None
  | x :: s' => match strip_suffix_char c s' with Some r => Some (x :: r) | None => None end
  end.

Fixpoint ends_with_char (c : char) (s : str) : bool :=
  match s with
  | [] => false
  | x :: s' => match s' with [] => N.eqb x c | _ => ends_with_char c s' end
  end.

Section Decision.
  Variable parse_class : str -> pclass.

  (** [ends_with_line_continuation] *)
  Definition ends_with_line_continuation (input : str) : bool :=
    match strip_suffix_char cont_suffix input with
    | None => false
    | Some truncated =>
        if ends_with_char cont_last truncated then
          match parse_class truncated with
          | CTok v => String.eqb v cont_variant
          | _ => false
          end
        else false
    end.

  (** [needs_more_input_locked] *)
  Definition needs_more (input : str) : bool :=
    needs_more_class (parse_class input) (ends_with_line_continuation input).
End Decision.

(** [P] holds of every element but the last. *)
Fixpoint nonlast {A} (P : A -> Prop) (l : list A) : Prop :=
  match l with
  | [] => True
  | x :: r => match r with [] => True | _ => P x /\ nonlast P r end
  end.

(** ** The accumulation loop, for any decision function. *)
Section Chunks.
  Variable nm : str -> bool.

  (** [read_program_from], iterated until end of input: lines are appended to the pending text
      until the decision says "complete"; what is pending at end of input is handed over as is
      (and nothing is handed over when nothing is pending). *)
  Fixpoint chunks_of (acc : str) (lines : list str) : list str :=
    match lines with
    | [] => match acc with [] => [] | _ => [acc] end
    | l :: ls => let acc' := acc ++ l in
                 if nm acc' then chunks_of acc' ls else acc' :: chunks_of [] ls
    end.

  (** One call of [read_program_from]: the chunk and the unread lines. *)
  Fixpoint read_program (acc : str) (lines : list str) : str * list str :=
    match lines with
    | [] => (acc, [])
    | l :: ls => let acc' := acc ++ l in
                 if nm acc' then read_program acc' ls else (acc', ls)
    end.
End Chunks.

(** Rust's [str::lines().count()]: newline-terminated segments plus a non-empty remainder. *)
Fixpoint lines_count_go (s : str) (pending : bool) : nat :=
  match s with
  | [] => if pending then 1 else 0
  | c :: s' => if N.eqb c NL then S (lines_count_go s' false) else lines_count_go s' true
  end.
Definition lines_count (s : str) : nat := lines_count_go s false.

(** [execute_line]: [read_result.lines().count().max(1)] *)
Definition line_count (s : str) : nat := Nat.max (lines_count s) line_count_floor.

Fixpoint count_nl (s : str) : nat :=
  match s with
  | [] => 0
  | c :: s' => if N.eqb c NL then S (count_nl s') else count_nl s'
  end.

Definition ends_nl (s : str) : bool := ends_with_char NL s.

(** The chunks paired with the line offset in force when each one runs. *)
Fixpoint with_offsets (off : nat) (chs : list str) : list (nat * str) :=
  match chs with
  | [] => []
  | ch :: r => (off, ch) :: with_offsets (off + line_count ch) r
  end.
