(** C15 — facts about the completeness decision and the accumulation loop. *)
From Coq Require Import String.
From BV Require Import Base.Prelude Modes.Classes Modes.Complete gen.C15Incomplete.

(** ** The classification table *)

(** The match of [needs_more_input_locked] is exhaustive over the parse verdicts. *)
Lemma nmi_arms_exhaustive : forall c, first_arm nmi_arms c <> None.
Proof.
  intros [|v| |]; unfold nmi_arms; cbn [first_arm pat_matches]; try discriminate.
  destruct (is_incomplete v); discriminate.
Qed.

Definition unterminated (v : string) : bool := String.prefix "Unterminated" v.

(** A tokenizer error kind counts as "input may be incomplete" iff it is one of the
    [Unterminated*] kinds (over the regenerated variant list of [TokenizerError]). *)
Lemma incomplete_table_b :
  forallb (fun v => Bool.eqb (is_incomplete v) (unterminated v)) tokenizer_error_variants = true.
Proof. vm_compute. reflexivity. Qed.

Theorem incomplete_table : forall v, In v tokenizer_error_variants -> is_incomplete v = unterminated v.
Proof.
  intros v Hin. pose proof incomplete_table_b as H. rewrite forallb_forall in H.
  apply Bool.eqb_prop, H, Hin.
Qed.

(** Every variant [is_incomplete] lists exists. *)
Lemma incomplete_variants_exist : forallb (fun v => str_in v tokenizer_error_variants) is_incomplete_variants = true.
Proof. vm_compute. reflexivity. Qed.

(** What the arms of [needs_more_input_locked] compute: mid-token errors of an incomplete kind
    and "ran out of tokens" ask for more input; a bad token never does; a clean parse asks for
    more exactly when the text ends in a line continuation. *)
Theorem needs_more_class_spec : forall c cont,
  needs_more_class c cont =
  match c with CTok v => is_incomplete v | CAtEnd => true | CNear => false | COk => cont end.
Proof.
  intros [|v| |] cont; unfold needs_more_class, nmi_arms; cbn [first_arm pat_matches]; try reflexivity.
  destruct (is_incomplete v); reflexivity.
Qed.

Theorem needs_more_tokenizer_errors : forall v cont, In v tokenizer_error_variants ->
  needs_more_class (CTok v) cont = unterminated v.
Proof. intros v cont Hin. rewrite needs_more_class_spec. now apply incomplete_table. Qed.

(** The continuation test looks for the escape-at-end-of-input error after removing one
    trailing newline that follows a backslash. *)
Lemma continuation_literals : cont_suffix = NL /\ cont_last = 92%N /\ cont_variant = "UnterminatedEscapeSequence"%string.
Proof. repeat split. Qed.

(** ** The accumulation loop *)
Section ChunkSpec.
  Variable nm : str -> bool.

  (** [chunks_of] is [read_program] iterated until end of input ([read_line] never returns an
      empty line before end of input). *)
  Lemma chunks_of_read_program : forall lines acc,
    Forall (fun l => l <> []) lines -> lines <> [] ->
    chunks_of nm acc lines =
    (let '(ch, rest) := read_program nm acc lines in ch :: chunks_of nm [] rest).
  Proof.
    induction lines as [|l ls IH]; intros acc Hl Hne; [contradiction|].
    inversion Hl as [|? ? Hl1 Hl2]; subst.
    cbn [chunks_of read_program]. destruct (nm (acc ++ l)) eqn:E; [|reflexivity].
    destruct ls as [|l2 ls'].
    - cbn. destruct (acc ++ l) eqn:Ea; [|reflexivity].
      apply app_eq_nil in Ea. destruct Ea; contradiction.
    - apply IH; [exact Hl2 | discriminate].
  Qed.

  (** A group of lines is handed over as soon as it is complete: no proper non-empty
      line-prefix of it was complete. *)
  Definition minimal (g : list str) : Prop :=
    forall j, (0 < j < length g)%nat -> nm (concat (firstn j g)) = true.
  Definition complete (g : list str) : Prop := nm (concat g) = false.

  Lemma concat_nonempty (g : list str) : g <> [] -> Forall (fun l => l <> []) g -> concat g <> [].
  Proof.
    destruct g as [|x g]; [contradiction|]. intros _ H. inversion H; subst.
    cbn. destruct x; [contradiction | discriminate].
  Qed.

  Lemma chunks_spec_gen : forall lines g0,
    Forall (fun l => l <> []) lines -> Forall (fun l => l <> []) g0 ->
    (forall j, (0 < j <= length g0)%nat -> nm (concat (firstn j g0)) = true) ->
    exists groups,
      concat groups = g0 ++ lines /\
      map (@concat _) groups = chunks_of nm (concat g0) lines /\
      Forall (fun g => g <> [] /\ minimal g) groups /\
      nonlast complete groups.
  Proof.
    induction lines as [|l ls IH]; intros g0 Hls Hg0 Hpre.
    - destruct g0 as [|x g0'].
      + exists []. cbn. repeat split; constructor.
      + exists [x :: g0']. cbn [chunks_of].
        pose proof (concat_nonempty (x :: g0') ltac:(discriminate) Hg0) as Hne.
        destruct (concat (x :: g0')) eqn:E; [contradiction|].
        split; [cbn; rewrite ?app_nil_r; reflexivity|].
        split; [cbn [map]; now rewrite E|].
        split; [|exact I].
        constructor; [|constructor]. split; [discriminate|].
        intros j Hj. apply Hpre. (unfold str, char in *; lia).
    - inversion Hls as [|? ? Hl Hls']; subst.
      cbn [chunks_of].
      assert (Hcat : concat g0 ++ l = concat (g0 ++ [l])) by (rewrite concat_app; cbn; now rewrite app_nil_r).
      assert (Hfirst : forall j, (j <= length g0)%nat -> firstn j (g0 ++ [l]) = firstn j g0).
      { intros j Hj. rewrite firstn_app. replace (j - length g0)%nat with 0%nat by (unfold str, char in *; lia). cbn. now rewrite app_nil_r. }
      destruct (nm (concat g0 ++ l)) eqn:E.
      + destruct (IH (g0 ++ [l]) Hls') as (groups & H1 & H2 & H3 & H4).
        * apply Forall_app; split; [exact Hg0 | constructor; [exact Hl | constructor]].
        * intros j Hj. rewrite app_length in Hj. cbn in Hj.
          destruct (Nat.eq_dec j (S (length g0))) as [->|Hne].
          -- rewrite firstn_all2 by (rewrite app_length; cbn; lia). now rewrite <- Hcat.
          -- rewrite Hfirst by (unfold str, char in *; lia). apply Hpre. (unfold str, char in *; lia).
        * exists groups.
          split; [rewrite H1, <- app_assoc; reflexivity|].
          split; [rewrite H2, Hcat; reflexivity|].
          split; assumption.
      + destruct (IH [] Hls') as (groups & H1 & H2 & H3 & H4).
        * constructor.
        * intros j Hj. cbn in Hj. (unfold str, char in *; lia).
        * exists ((g0 ++ [l]) :: groups).
          split; [cbn [concat]; rewrite H1; cbn; now rewrite <- app_assoc|].
          split; [cbn [map]; rewrite H2, Hcat; reflexivity|].
          split.
          -- constructor; [|exact H3]. split; [destruct g0; discriminate|].
             intros j Hj. rewrite app_length in Hj. cbn in Hj.
             rewrite Hfirst by (unfold str, char in *; lia). apply Hpre. (unfold str, char in *; lia).
          -- cbn [nonlast]. destruct groups; [exact I|]. split; [|exact H4].
             unfold complete. now rewrite <- Hcat.
  Qed.

  (** On standard input a command runs as soon as, and only when, the text read so far forms a
      complete command (relative to the decision [nm]): the chunks partition the lines in
      order; every chunk but the last is complete; no chunk has a complete proper line-prefix.
      The last chunk is what was pending at end of input. *)
  Theorem chunks_spec : forall lines, Forall (fun l => l <> []) lines ->
    exists groups,
      concat groups = lines /\
      map (@concat _) groups = chunks_of nm [] lines /\
      Forall (fun g => g <> [] /\ minimal g) groups /\
      nonlast complete groups.
  Proof.
    intros lines Hl. destruct (chunks_spec_gen lines [] Hl) as (groups & H); [constructor | cbn; intros; lia |].
    exists groups. exact H.
  Qed.
End ChunkSpec.

(** ** Line bookkeeping *)
Lemma count_nl_app a b : count_nl (a ++ b) = (count_nl a + count_nl b)%nat.
Proof. induction a as [|c a IH]; cbn; [reflexivity|]. destruct (N.eqb c NL); cbn; now rewrite IH. Qed.

(** The offset in force for a chunk is the offset at the start plus the line counts of the
    chunks before it. *)
Lemma with_offsets_app off a b :
  with_offsets off (a ++ b) = with_offsets off a ++ with_offsets (off + fold_right (fun ch n => line_count ch + n)%nat 0%nat a) b.
Proof.
  revert off; induction a as [|ch a IH]; intros off; cbn [with_offsets app fold_right]; [now rewrite Nat.add_0_r|].
  rewrite IH. now rewrite Nat.add_assoc.
Qed.

(** ** What is not proved (kept visible): the decision is right for every text.
    [is_program t]: [t] is a syntactically valid program (the parser accepts it and it does not
    end inside a line continuation).  The full completeness statement needs a model of the
    tokenizer and the grammar; it is explored by the correspondence check instead (every
    line-prefix of every generated program, against the generator's own knowledge of where the
    commands end and against `bash -n`).  Proved: how the parser's verdict is classified
    ([needs_more_class_spec], [incomplete_table]) and what the front-end does with the decision
    ([chunks_spec]). *)
Definition completeness_stmt (parse_class : str -> pclass) (is_program : str -> Prop) : Prop :=
  forall t, needs_more parse_class t = true <-> (~ is_program t /\ exists ext, is_program (t ++ ext)).

(** Partial: relative to the parser's verdict. *)
Theorem completeness_partial : forall parse_class t,
  needs_more parse_class t = true <->
  match parse_class t with
  | CTok v => is_incomplete v = true
  | CAtEnd => True
  | CNear => False
  | COk => ends_with_line_continuation parse_class t = true
  end.
Proof.
  intros pc t. unfold needs_more. rewrite needs_more_class_spec.
  destruct (pc t); split; auto; discriminate.
Qed.

Lemma fold_line_count_nl (pre : list str) : Forall (fun ch => ends_nl ch = true) pre ->
  fold_right (fun ch n => line_count ch + n)%nat 0%nat pre = count_nl (concat pre).
Proof.
  induction 1 as [|ch pre Hch _ IH]; cbn [fold_right concat]; [reflexivity|].
  rewrite count_nl_app, IH. f_equal.
  unfold line_count, lines_count.
  assert (Hgo : forall s p, ends_nl s = true -> lines_count_go s p = count_nl s).
  { unfold ends_nl. induction s as [|c s IHs]; intros p H; [discriminate|].
    cbn [lines_count_go count_nl]. destruct s as [|d s'].
    - cbn in H. rewrite H. reflexivity.
    - change (ends_with_char NL (d :: s') = true) in H.
      destruct (N.eqb c NL); [f_equal|]; now apply IHs. }
  rewrite Hgo by exact Hch.
  assert (Hpos : (1 <= count_nl ch)%nat).
  { clear -Hch. unfold ends_nl in Hch. induction ch as [|c s IHs]; [discriminate|].
    cbn [count_nl]. destruct s as [|d s'].
    - cbn in Hch. rewrite Hch. lia.
    - change (ends_with_char NL (d :: s') = true) in Hch. specialize (IHs Hch). destruct (N.eqb c NL); lia. }
  assert (Hf : (line_count_floor <= 1)%nat) by (vm_compute; lia).
  lia.
Qed.

(** $LINENO bookkeeping of the standard-input front-end: the line offset in force when a chunk
    runs is the number of lines read before it (so offset + the position the parser records
    inside the chunk = the line of the whole input). *)
Theorem offsets_are_lines_before : forall off pre ch post,
  Forall (fun c => ends_nl c = true) pre ->
  In ((off + count_nl (concat pre))%nat, ch) (with_offsets off (pre ++ ch :: post)).
Proof.
  intros off pre ch post Hpre. rewrite with_offsets_app, fold_line_count_nl by exact Hpre.
  apply in_or_app. right. cbn [with_offsets]. now left.
Qed.

(** The extractor recognised every shape in the completeness decision (regenerated obligation):
    the model of [ends_with_line_continuation] has exactly the tests the code has. *)
Lemma incomplete_shapes_recognised : incomplete_unrecognised = [].
Proof. reflexivity. Qed.
