(** C15 — the front-end model run on a small command language, for the correspondence with the
    real binary (entry [c15modes]).

    The commands are what the generated probe programs consist of: print a tag with $LINENO,
    set an EXIT trap that prints the status, set the status ((exit n)), leave the shell (exit n).
    The parser is a table supplied with the case (text -> commands with the line recorded by the
    parser, relative to that text; built by the driver from the generator's knowledge of the
    program), the verdict table is the one observed on the real parser (as for [c15chunks]).

    c15modes : rule mode n line*n k (text class)*k p (text m (kind a b line)*m)*p
               -> stdout lines ... "|" status
      rule: code (eval as in the code = as specified) | legacy (eval before fix e4871cd);  mode: file | c | source | eval | stdin *)
From Coq Require Import String.
From BV Require Import Base.Prelude Base.Codec Cache.Lru Modes.Classes Modes.Complete Modes.Modes Modes.Entry.

Inductive tcmd :=
| TPrint (tag suffix : str) (line : nat)   (* echo tag:$LINENO suffix *)
| TEval (tag : str) (line : nat)           (* eval 'echo tag:$LINENO'  on line [line] *)
| TTrap                                    (* trap 'echo bye:$?' EXIT *)
| TStatus (n : Z)                          (* (exit n) *)
| TExit (n : Z).                           (* exit n *)

Record tstate := { t_out : list str; t_status : Z; t_trap : bool }.

(** [legacy = false]: `eval` as in the code ([Modes.eval_builtin]: the text is read at the frame's
    base plus the line of the `eval` word minus one; this is also the specification,
    [Modes.eval_lineno]); [legacy = true]: the behaviour before fix e4871cd (text read at the frame's
    own base), kept only so that the driver can name the defect if it comes back. *)
Definition texec (legacy : bool) (c : tcmd) (base : nat) (st : tstate) : tstate * flow :=
  let print tag suffix n :=
    ({| t_out := t_out st ++ [tag ++ [58%N] ++ enc_nat n ++ suffix]; t_status := 0; t_trap := t_trap st |}, FNormal) in
  match c with
  | TPrint tag suffix line => print tag suffix (base + line)%nat
  | TEval tag line => print tag [] ((if legacy then base else base + eval_line_delta line) + 1)%nat
  | TTrap => ({| t_out := t_out st; t_status := 0; t_trap := true |}, FNormal)
  (* exit statuses are bytes: [exit 300] leaves 44, [exit -1] leaves 255 (ExecutionExitCode::Custom(n as u8)) *)
  | TStatus n => ({| t_out := t_out st; t_status := Z.modulo n 256; t_trap := t_trap st |}, FNormal)
  | TExit n => ({| t_out := t_out st; t_status := Z.modulo n 256; t_trap := t_trap st |}, FExit)
  end.

Definition ton_exit (st : tstate) : tstate :=
  if t_trap st
  then {| t_out := t_out st ++ [lit "bye:" ++ show_Z (t_status st)]; t_status := t_status st; t_trap := false |}
  else st.

Definition tparse_error (_ : str) (_ : nat) (st : tstate) : tstate :=
  {| t_out := t_out st ++ [lit "?parse-error"]; t_status := 2; t_trap := t_trap st |}.

Definition tshift (n : nat) (c : tcmd) : tcmd :=
  match c with TPrint tag s l => TPrint tag s (n + l) | TEval tag l => TEval tag (n + l) | _ => c end.

(** decoding *)
Fixpoint dec_cmds (m : nat) (a : list str) : list tcmd * list str :=
  match m with
  | O => ([], a)
  | S m' =>
      match a with
      | kind :: x :: y :: line :: r =>
          let c := if str_eqb kind (lit "print") then TPrint x y (dec_nat line)
                   else if str_eqb kind (lit "eval") then TEval x (dec_nat line)
                   else if str_eqb kind (lit "trap") then TTrap
                   else if str_eqb kind (lit "status") then TStatus (dec_Z x)
                   else TExit (dec_Z x) in
          let '(cs, r') := dec_cmds m' r in (c :: cs, r')
      | _ => ([], [])
      end
  end.

Fixpoint dec_parse_table (p : nat) (a : list str) : list (str * list tcmd) :=
  match p with
  | O => []
  | S p' =>
      match a with
      | t :: m :: r => let '(cs, r') := dec_cmds (dec_nat m) r in (t, cs) :: dec_parse_table p' r'
      | _ => []
      end
  end.

Fixpoint lookup_parse (tbl : list (str * list tcmd)) (t : str) : option (list tcmd) :=
  match tbl with
  | [] => None
  | (t', cs) :: r => if str_eqb t t' then Some cs else lookup_parse r t
  end.

Definition keq (a b : str * unit) : bool := str_eqb (fst a) (fst b).

Definition run_mode (legacy : bool) (mode : str) (lines : list str) (pc : str -> pclass) (ptbl : list (str * list tcmd)) : tstate :=
  let parse := fun (_ : unit) t => lookup_parse ptbl t in
  let nm := fun (_ : unit) t => needs_more pc t in
  let st0 := {| t_out := []; t_status := 0; t_trap := false |} in
  let text := concat lines in
  let hit := lru_hit (V := option (list tcmd)) keq in
  let ins := lru_insert (K := str * unit) (V := option (list tcmd)) 64 in
  if str_eqb mode (lit "file") then script_frontend _ _ _ (texec legacy) ton_exit tparse_error parse tt text st0
  else if str_eqb mode (lit "c") then dash_c_frontend _ _ _ (texec legacy) ton_exit tparse_error parse keq hit ins [] tt text st0
  else if str_eqb mode (lit "source") then source_delivery _ _ _ (texec legacy) ton_exit tparse_error parse tt text st0
  else if str_eqb mode (lit "eval") then eval_delivery _ _ _ (texec legacy) ton_exit tparse_error parse keq hit ins [] tt text st0
  else stdin_frontend _ _ _ (texec legacy) ton_exit tparse_error parse nm keq hit ins [] tt lines st0.

Definition entry_c15modes (a : list str) : list str :=
  match a with
  | rule :: mode :: n :: r =>
      let '(lines, r1) := take_n (dec_nat n) r in
      match r1 with
      | k :: r2 =>
          let '(ctbl, r3) := take_n (2 * dec_nat k) r2 in
          match r3 with
          | p :: r4 =>
              let st := run_mode (str_eqb rule (lit "legacy")) mode lines (lookup_class (dec_table (dec_nat k) ctbl)) (dec_parse_table (dec_nat p) r4) in
              t_out st ++ [lit "|"; show_Z (t_status st)]
          | [] => [lit "?malformed"]
          end
      | [] => [lit "?malformed"]
      end
  | _ => [lit "?malformed"]
  end.
