(** C15 — the completeness decision on the lexical fragment: quoting, escapes, line
    continuations, comments.

    Model: the tokenizer's quoting state machine (brush-parser/src/tokenizer.rs
    [next_token_until]: [QuoteMode], [in_escape], backslash-newline removal, `#` at the start of a
    token, blanks/newlines delimiting tokens) restricted to texts made of word characters,
    blanks, newlines, quotes, backslashes and `#`: on such texts every token is a word, the
    grammar accepts every token sequence, so the verdict of [parse_string] is decided by how the
    scan ends ([lex_class]).  The decision itself is the *same* [Complete.needs_more] as
    everywhere else (arms table, truncation test).

    Spec, in a different style: a grammar of complete texts ([Prog]): separators, comments
    that start a token and run to the end of the line, escaped characters, line continuations
    that are followed by something, closed single and double quotes.

    Theorem [lex_completeness]: on this fragment the decision says "more input needed" exactly
    when the text is not a complete program but can be extended to one. *)
From Coq Require Import String.
From BV Require Import Base.Prelude Base.Codec Modes.Classes Modes.Complete Modes.CompleteProofs gen.C15Incomplete.

Inductive cc := KNl | KBlank | KSq | KDq | KBs | KHash | KPlain.

Definition cls (c : char) : cc :=
  (if N.eqb c 10 then KNl
   else if N.eqb c 32 || N.eqb c 9 then KBlank
   else if N.eqb c 39 then KSq
   else if N.eqb c 34 then KDq
   else if N.eqb c 92 then KBs
   else if N.eqb c 35 then KHash
   else KPlain)%N.

(** Scanner states: outside quotes at the start of a token / inside a word; inside single /
    double quotes; just after a backslash outside quotes (remembering whether a token had
    started) / inside double quotes; inside a comment. *)
Inductive lst := S0 | SW | SQ | DQ | EN (start : bool) | ED | CMT.

Definition step (s : lst) (c : char) : lst :=
  match s, cls c with
  | S0, KNl | S0, KBlank => S0
  | S0, KSq => SQ | S0, KDq => DQ
  | S0, KBs => EN true
  | S0, KHash => CMT
  | S0, KPlain => SW
  | SW, KNl | SW, KBlank => S0
  | SW, KSq => SQ | SW, KDq => DQ
  | SW, KBs => EN false
  | SW, KHash | SW, KPlain => SW
  | SQ, KSq => SW
  | SQ, _ => SQ
  | DQ, KDq => SW
  | DQ, KBs => ED
  | DQ, _ => DQ
  | EN b, KNl => if b then S0 else SW      (* backslash-newline: both dropped *)
  | EN _, _ => SW
  | ED, _ => DQ
  | CMT, KNl => S0
  | CMT, _ => CMT
  end.

Definition run (s : lst) (t : str) : lst := fold_left step t s.

(** How the scan ends decides the verdict ([next_token_until] at end of input). *)
Definition classify (s : lst) : pclass :=
  match s with
  | S0 | SW | CMT => COk
  | SQ => CTok "UnterminatedSingleQuote"
  | DQ => CTok "UnterminatedDoubleQuote"
  | EN _ | ED => CTok "UnterminatedEscapeSequence"
  end.

Definition class_from (s : lst) (t : str) : pclass := classify (run s t).
Definition lex_class (t : str) : pclass := class_from S0 t.

(** The decision on the fragment: the general [needs_more] with the fragment's verdicts. *)
Definition lex_needs_more (t : str) : bool := needs_more lex_class t.

(** ** Specification: the grammar of complete texts.  [b]: at the start of a token. *)
Definition is_sep (c : char) : bool := match cls c with KNl | KBlank => true | _ => false end.
Definition is_nl (c : char) : bool := match cls c with KNl => true | _ => false end.
Definition word_char (b : bool) (c : char) : bool :=
  match cls c with KPlain => true | KHash => negb b | _ => false end.

Inductive DqBody : str -> Prop :=
| D_nil : DqBody []
| D_char c body : cls c <> KDq -> cls c <> KBs -> DqBody body -> DqBody (c :: body)
| D_esc c body : DqBody body -> DqBody (92%N :: c :: body).

Inductive Prog : bool -> str -> Prop :=
| P_nil b : Prog b []
| P_sep b c t : is_sep c = true -> Prog true t -> Prog b (c :: t)
| P_comment body t : Forall (fun c => is_nl c = false) body ->
    (t = [] \/ exists t', t = 10%N :: t') -> Prog true t -> Prog true (35%N :: body ++ t)
| P_word b c t : word_char b c = true -> Prog false t -> Prog b (c :: t)
| P_esc b c t : is_nl c = false -> Prog false t -> Prog b (92%N :: c :: t)
| P_cont b t : t <> [] -> Prog b t -> Prog b (92%N :: 10%N :: t)
| P_sq b body t : Forall (fun c => cls c <> KSq) body -> Prog false t -> Prog b (39%N :: body ++ 39%N :: t)
| P_dq b body t : DqBody body -> Prog false t -> Prog b (34%N :: body ++ 34%N :: t).

(** ** Acceptance: the scan ends outside quotes and not right after a line continuation. *)
Fixpoint acc (s : lst) (t : str) : bool :=
  match t with
  | [] => match s with S0 | SW | CMT => true | _ => false end
  | c :: t' =>
      match s, t' with
      | EN _, [] => match cls c with KNl => false | _ => acc (step s c) t' end
      | _, _ => acc (step s c) t'
      end
  end.

(** *** the model's decision is [negb acc] *)
Lemma cls_nl : cls 10%N = KNl. Proof. reflexivity. Qed.
Lemma cls_bs : cls 92%N = KBs. Proof. reflexivity. Qed.

Lemma cls_eq_nl c : cls c = KNl <-> c = 10%N.
Proof.
  unfold cls. destruct (N.eqb_spec c 10); [subst; split; auto|].
  split; [|intros; contradiction].
  destruct (N.eqb c 32 || N.eqb c 9)%N; [discriminate|].
  destruct (N.eqb c 39); [discriminate|]. destruct (N.eqb c 34); [discriminate|].
  destruct (N.eqb c 92); [discriminate|]. destruct (N.eqb c 35); discriminate.
Qed.

Lemma cls_eq_bs c : cls c = KBs <-> c = 92%N.
Proof.
  split; [|intros ->; reflexivity]. unfold cls.
  destruct (N.eqb c 10); [discriminate|].
  destruct (N.eqb c 32 || N.eqb c 9)%N; [discriminate|].
  destruct (N.eqb c 39); [discriminate|]. destruct (N.eqb c 34); [discriminate|].
  destruct (N.eqb_spec c 92); [auto|]. destruct (N.eqb c 35); discriminate.
Qed.

Definition is_esc_state (s : lst) : bool := match s with EN _ | ED => true | _ => false end.

Lemma classify_ok s : classify s = COk <-> (s = S0 \/ s = SW \/ s = CMT).
Proof. destruct s; cbn; split; intros H; auto; try discriminate; destruct H as [H|[H|H]]; discriminate. Qed.

(** the continuation test of the decision, from state [s] *)
Definition cont_from (s : lst) (t : str) : bool :=
  match strip_suffix_char cont_suffix t with
  | None => false
  | Some tr => if ends_with_char cont_last tr
               then match class_from s tr with CTok v => String.eqb v cont_variant | _ => false end
               else false
  end.

Definition nm_from (s : lst) (t : str) : bool := needs_more_class (class_from s t) (cont_from s t).

Lemma lex_needs_more_nm_from t : lex_needs_more t = nm_from S0 t.
Proof. reflexivity. Qed.

Lemma nmc_of_state s cont :
  needs_more_class (classify s) cont = match s with S0 | SW | CMT => cont | _ => true end.
Proof. rewrite needs_more_class_spec. destruct s; reflexivity. Qed.

Lemma esc_variant s : match classify s with CTok v => String.eqb v cont_variant | _ => false end = is_esc_state s.
Proof. destruct s; reflexivity. Qed.

Lemma run_cons s c t : run s (c :: t) = run (step s c) t.
Proof. reflexivity. Qed.

Lemma strip_cons c d t : strip_suffix_char cont_suffix (c :: d :: t) =
  match strip_suffix_char cont_suffix (d :: t) with Some r => Some (c :: r) | None => None end.
Proof. reflexivity. Qed.

Lemma cont_from_cons3 s c d e t : cont_from s (c :: d :: e :: t) = cont_from (step s c) (d :: e :: t).
Proof.
  unfold cont_from. rewrite strip_cons. rewrite (strip_cons d e t).
  destruct (strip_suffix_char cont_suffix (e :: t)) as [r'|]; [|reflexivity].
  change (ends_with_char cont_last (c :: d :: r')) with (ends_with_char cont_last (d :: r')).
  unfold class_from. rewrite run_cons. reflexivity.
Qed.

Lemma cont_from_single s c : cont_from s [c] = false.
Proof. unfold cont_from. cbn. destruct (N.eqb c cont_suffix); reflexivity. Qed.

Lemma cont_from_two s c d :
  cont_from s [c; d] = N.eqb d cont_suffix && (N.eqb c cont_last && is_esc_state (step s c)).
Proof.
  unfold cont_from. cbn [strip_suffix_char]. destruct (N.eqb d cont_suffix); [|reflexivity].
  cbn [ends_with_char andb]. destruct (N.eqb c cont_last); [|reflexivity].
  unfold class_from. cbn [run fold_left andb]. apply esc_variant.
Qed.

Lemma eqb_nl_cls d : N.eqb d cont_suffix = match cls d with KNl => true | _ => false end.
Proof.
  change cont_suffix with 10%N. destruct (N.eqb_spec d 10) as [->|Hn]; [reflexivity|].
  destruct (cls d) eqn:E; try reflexivity. apply cls_eq_nl in E. contradiction.
Qed.

Lemma eqb_bs_cls c : N.eqb c cont_last = match cls c with KBs => true | _ => false end.
Proof.
  change cont_last with 92%N. destruct (N.eqb_spec c 92) as [->|Hn]; [reflexivity|].
  destruct (cls c) eqn:E; try reflexivity. apply cls_eq_bs in E. contradiction.
Qed.

(** Generalised over the starting state; a text of one character started right after a backslash
    is excluded (there the continuation would straddle the split, which never happens from [S0]). *)
Theorem nm_from_acc : forall t s, (2 <= length t)%nat \/ is_esc_state s = false ->
  nm_from s t = negb (acc s t).
Proof.
  induction t as [|c t IH]; intros s Hs.
  - unfold nm_from, class_from, cont_from. cbn [run fold_left strip_suffix_char]. rewrite nmc_of_state.
    destruct s; reflexivity.
  - destruct t as [|d t'].
    + (* one character *)
      destruct Hs as [Hs|Hs]; [cbn [length] in Hs; lia|].
      unfold nm_from. rewrite cont_from_single. unfold class_from. cbn [run fold_left]. rewrite nmc_of_state.
      cbn [acc]. unfold step. destruct s as [| | | |b| |], (cls c); try discriminate Hs; reflexivity.
    + destruct t' as [|e t''].
      * (* two characters: the only place where a trailing continuation shows *)
        unfold nm_from. rewrite cont_from_two, eqb_nl_cls, eqb_bs_cls. unfold class_from. cbn [run fold_left].
        rewrite nmc_of_state. cbn [acc]. unfold step.
        destruct s as [| | | |b| |], (cls c), (cls d); try destruct b; reflexivity.
      * assert (Hlen : (2 <= length (d :: e :: t''))%nat) by (cbn [length]; lia).
        assert (IH' := IH (step s c) (or_introl Hlen)).
        assert (Hacc : acc s (c :: d :: e :: t'') = acc (step s c) (d :: e :: t'')) by (destruct s; reflexivity).
        rewrite Hacc, <- IH'. unfold nm_from. rewrite cont_from_cons3. unfold class_from. rewrite run_cons. reflexivity.
Qed.

Corollary lex_needs_more_acc t : lex_needs_more t = negb (acc S0 t).
Proof. rewrite lex_needs_more_nm_from. apply nm_from_acc. now right. Qed.

(** *** acceptance = the grammar *)
Lemma cls_eq_sq c : cls c = KSq <-> c = 39%N.
Proof.
  split; [|intros ->; reflexivity]. unfold cls.
  destruct (N.eqb c 10); [discriminate|].
  destruct (N.eqb c 32 || N.eqb c 9)%N; [discriminate|].
  destruct (N.eqb_spec c 39); [auto|]. destruct (N.eqb c 34); [discriminate|].
  destruct (N.eqb c 92); [discriminate|]. destruct (N.eqb c 35); discriminate.
Qed.

Lemma cls_eq_dq c : cls c = KDq <-> c = 34%N.
Proof.
  split; [|intros ->; reflexivity]. unfold cls.
  destruct (N.eqb c 10); [discriminate|].
  destruct (N.eqb c 32 || N.eqb c 9)%N; [discriminate|].
  destruct (N.eqb c 39); [discriminate|]. destruct (N.eqb_spec c 34); [auto|].
  destruct (N.eqb c 92); [discriminate|]. destruct (N.eqb c 35); discriminate.
Qed.

Lemma cls_eq_hash c : cls c = KHash <-> c = 35%N.
Proof.
  split; [|intros ->; reflexivity]. unfold cls.
  destruct (N.eqb c 10); [discriminate|].
  destruct (N.eqb c 32 || N.eqb c 9)%N; [discriminate|].
  destruct (N.eqb c 39); [discriminate|]. destruct (N.eqb c 34); [discriminate|].
  destruct (N.eqb c 92); [discriminate|]. destruct (N.eqb_spec c 35); [auto | discriminate].
Qed.

Definition not_en (s : lst) : Prop := match s with EN _ => False | _ => True end.

Lemma acc_step s c t : not_en s -> acc s (c :: t) = acc (step s c) t.
Proof. destruct s; cbn; try reflexivity; contradiction. Qed.

Lemma acc_en b c t : acc (EN b) (c :: t) =
  match t with
  | [] => match cls c with KNl => false | _ => true end
  | _ => acc (match cls c with KNl => if b then S0 else SW | _ => SW end) t
  end.
Proof.
  destruct t as [|d t'].
  - cbn [acc]. unfold step. destruct (cls c); reflexivity.
  - cbn [acc]. unfold step. destruct (cls c); reflexivity.
Qed.

Definition st_of (b : bool) : lst := if b then S0 else SW.

(** acceptance implies derivability, for every state *)
Lemma acc_sound : forall n t, (length t <= n)%nat ->
  (forall b, acc (st_of b) t = true -> Prog b t) /\
  (acc SQ t = true -> exists body t', t = body ++ 39%N :: t' /\ Forall (fun c => cls c <> KSq) body /\ Prog false t') /\
  (acc DQ t = true -> exists body t', t = body ++ 34%N :: t' /\ DqBody body /\ Prog false t') /\
  (acc CMT t = true -> exists body t', t = body ++ t' /\ Forall (fun c => is_nl c = false) body /\
                                      (t' = [] \/ exists t'', t' = 10%N :: t'') /\ Prog true t') /\
  (forall b, acc (EN b) t = true -> exists c t', t = c :: t' /\
       ((is_nl c = false /\ Prog false t') \/ (c = 10%N /\ t' <> [] /\ Prog b t'))).
Proof.
  assert (Hnil : forall t, t = [] ->
    (forall b, acc (st_of b) t = true -> Prog b t) /\
    (acc SQ t = true -> exists body t', t = body ++ 39%N :: t' /\ Forall (fun c => cls c <> KSq) body /\ Prog false t') /\
    (acc DQ t = true -> exists body t', t = body ++ 34%N :: t' /\ DqBody body /\ Prog false t') /\
    (acc CMT t = true -> exists body t', t = body ++ t' /\ Forall (fun c => is_nl c = false) body /\
                                        (t' = [] \/ exists t'', t' = 10%N :: t'') /\ Prog true t') /\
    (forall b, acc (EN b) t = true -> exists c t', t = c :: t' /\
         ((is_nl c = false /\ Prog false t') \/ (c = 10%N /\ t' <> [] /\ Prog b t')))).
  { intros t ->. split; [intros b _; constructor|].
    split; [intros H; discriminate H|]. split; [intros H; discriminate H|].
    split; [|intros b H; discriminate H].
    intros _. exists [], []. split; [reflexivity|]. split; [constructor|]. split; [now left | constructor]. }
  induction n as [|n IH]; intros t Hlen.
  { apply Hnil. destruct t; [reflexivity | cbn in Hlen; lia]. }
  destruct t as [|c t']; [now apply Hnil|].
  assert (Hl' : (length t' <= n)%nat) by (cbn in Hlen; lia).
  destruct (IH t' Hl') as (IHw & IHsq & IHdq & IHcmt & IHen).
  split; [|split; [|split; [|split]]].
  - (* unquoted *)
    intros b H. rewrite acc_step in H by (destruct b; exact I).
    unfold step in H. destruct (cls c) eqn:E.
    + apply P_sep; [unfold is_sep; now rewrite E|]. apply (IHw true). destruct b; exact H.
    + apply P_sep; [unfold is_sep; now rewrite E|]. apply (IHw true). destruct b; exact H.
    + apply cls_eq_sq in E; subst c.
      assert (H' : acc SQ t' = true) by (destruct b; exact H).
      destruct (IHsq H') as (body & t'' & -> & Hb & Hp). now apply P_sq.
    + apply cls_eq_dq in E; subst c.
      assert (H' : acc DQ t' = true) by (destruct b; exact H).
      destruct (IHdq H') as (body & t'' & -> & Hb & Hp). now apply P_dq.
    + apply cls_eq_bs in E; subst c.
      assert (H' : acc (EN b) t' = true) by (destruct b; exact H).
      destruct (IHen b H') as (c2 & t'' & -> & [[Hn Hp]|(-> & Hne & Hp)]).
      * now apply P_esc.
      * now apply P_cont.
    + apply cls_eq_hash in E; subst c. destruct b.
      * destruct (IHcmt H) as (body & t'' & -> & Hb & Hr & Hp). now apply P_comment.
      * apply P_word; [reflexivity|]. now apply (IHw false).
    + apply P_word; [unfold word_char; now rewrite E|]. apply (IHw false). destruct b; exact H.
  - (* single quotes *)
    intros H. rewrite acc_step in H by exact I. unfold step in H. destruct (cls c) eqn:E;
      try (destruct (IHsq H) as (body & t'' & -> & Hb & Hp); exists (c :: body), t'';
           split; [reflexivity|]; split; [|exact Hp]; constructor; [rewrite E; discriminate | exact Hb]).
    apply cls_eq_sq in E; subst c. exists [], t'. split; [reflexivity|]. split; [constructor|]. now apply (IHw false).
  - (* double quotes *)
    intros H. rewrite acc_step in H by exact I. unfold step in H. destruct (cls c) eqn:E;
      try (destruct (IHdq H) as (body & t'' & -> & Hb & Hp); exists (c :: body), t'';
           split; [reflexivity|]; split; [|exact Hp]; apply D_char; [rewrite E; discriminate | rewrite E; discriminate | exact Hb]).
    + apply cls_eq_dq in E; subst c. exists [], t'. split; [reflexivity|]. split; [constructor|]. now apply (IHw false).
    + apply cls_eq_bs in E; subst c. destruct t' as [|c2 t'']; [discriminate|].
      rewrite acc_step in H by exact I.
      assert (Hl'' : (length t'' <= n)%nat) by (cbn in Hl'; lia).
      destruct (IH t'' Hl'') as (_ & _ & IHdq' & _).
      replace (step ED c2) with DQ in H by (unfold step; destruct (cls c2); reflexivity).
      destruct (IHdq' H) as (body & t3 & -> & Hb & Hp).
      exists (92%N :: c2 :: body), t3. split; [reflexivity|]. split; [now apply D_esc | exact Hp].
  - (* comment *)
    intros H. rewrite acc_step in H by exact I. unfold step in H. destruct (cls c) eqn:E;
      try (destruct (IHcmt H) as (body & t'' & -> & Hb & Hr & Hp); exists (c :: body), t'';
           split; [reflexivity|]; split; [|split; [exact Hr | exact Hp]]; constructor; [unfold is_nl; now rewrite E | exact Hb]).
    assert (Hc : c = 10%N) by now apply cls_eq_nl. subst c.
    exists [], (10%N :: t'). split; [reflexivity|]. split; [constructor|]. split; [right; eauto|].
    apply P_sep; [reflexivity|]. now apply (IHw true).
  - (* after a backslash *)
    intros b H. rewrite acc_en in H. exists c, t'. split; [reflexivity|].
    destruct t' as [|d t''].
    + destruct (cls c) eqn:E; try discriminate; left; (split; [unfold is_nl; now rewrite E | constructor]).
    + destruct (cls c) eqn:E;
        try (left; split; [unfold is_nl; now rewrite E | now apply (IHw false)]).
      right. split; [now apply cls_eq_nl|]. split; [discriminate|]. apply IHw. exact H.
Qed.

(** derivability implies acceptance *)
Lemma acc_sq_body body t : Forall (fun c => cls c <> KSq) body -> acc SQ (body ++ 39%N :: t) = acc SW t.
Proof.
  induction 1 as [|c body Hc _ IH]; cbn [app].
  - rewrite acc_step by exact I. reflexivity.
  - rewrite acc_step by exact I. unfold step. destruct (cls c); try exact IH. contradiction.
Qed.

Lemma acc_dq_body body : DqBody body -> forall t, acc DQ (body ++ 34%N :: t) = acc SW t.
Proof.
  induction 1 as [|c body H1 H2 _ IH|c body _ IH]; intros t; cbn [app].
  - rewrite acc_step by exact I. reflexivity.
  - rewrite acc_step by exact I. unfold step. destruct (cls c); try apply IH; contradiction.
  - rewrite acc_step by exact I. change (step DQ 92%N) with ED.
    rewrite acc_step by exact I.
    replace (step ED c) with DQ by (unfold step; destruct (cls c); reflexivity). apply IH.
Qed.

Lemma acc_cmt_body body t : Forall (fun c => is_nl c = false) body -> acc CMT (body ++ t) = acc CMT t.
Proof.
  induction 1 as [|c body Hc _ IH]; cbn [app]; [reflexivity|].
  rewrite acc_step by exact I. unfold step. unfold is_nl in Hc. destruct (cls c); try exact IH. discriminate.
Qed.

Lemma acc_complete : forall b t, Prog b t -> acc (st_of b) t = true.
Proof.
  induction 1 as [b|b c t Hc _ IH|body t Hb Hr _ IH|b c t Hc _ IH|b c t Hc _ IH|b t Hne _ IH|b body t Hb _ IH|b body t Hb _ IH].
  - destruct b; reflexivity.
  - rewrite acc_step by (destruct b; exact I). unfold is_sep in Hc. unfold step.
    destruct b, (cls c); try discriminate; exact IH.
  - cbn [st_of]. rewrite acc_step by exact I. change (step S0 35%N) with CMT.
    rewrite acc_cmt_body by exact Hb.
    destruct Hr as [->|[t' ->]]; [reflexivity|].
    rewrite acc_step by exact I. change (step CMT 10%N) with S0.
    cbn [st_of] in IH. rewrite acc_step in IH by exact I. exact IH.
  - rewrite acc_step by (destruct b; exact I). unfold word_char in Hc. unfold step.
    destruct b, (cls c); try discriminate; exact IH.
  - rewrite acc_step by (destruct b; exact I).
    replace (step (st_of b) 92%N) with (EN b) by (destruct b; reflexivity).
    rewrite acc_en. unfold is_nl in Hc. destruct t as [|d t'].
    + destruct (cls c); try reflexivity. discriminate.
    + destruct (cls c); try exact IH. discriminate.
  - rewrite acc_step by (destruct b; exact I).
    replace (step (st_of b) 92%N) with (EN b) by (destruct b; reflexivity).
    rewrite acc_en. destruct t as [|d t']; [contradiction|]. cbn [cls]. exact IH.
  - rewrite acc_step by (destruct b; exact I).
    replace (step (st_of b) 39%N) with SQ by (destruct b; reflexivity).
    rewrite acc_sq_body by exact Hb. exact IH.
  - rewrite acc_step by (destruct b; exact I).
    replace (step (st_of b) 34%N) with DQ by (destruct b; reflexivity).
    rewrite acc_dq_body by exact Hb. exact IH.
Qed.

Theorem acc_iff_prog t : acc S0 t = true <-> Prog true t.
Proof.
  split.
  - intros H. destruct (acc_sound (length t) t (le_n _)) as (Hw & _). now apply (Hw true).
  - apply (acc_complete true).
Qed.

(** *** every text can be completed *)
Lemma acc_app ext : ext <> [] -> forall t s, acc s (t ++ ext) = acc (run s t) ext.
Proof.
  intros Hne. induction t as [|c t IH]; intros s; [reflexivity|].
  cbn [app]. rewrite run_cons, <- IH.
  destruct s; try reflexivity.
  cbn [acc]. destruct (t ++ ext) eqn:E; [|reflexivity].
  apply app_eq_nil in E. destruct E; contradiction.
Qed.

Definition closing (s : lst) : str :=
  match s with
  | S0 | SW | CMT | EN _ => [97%N]
  | SQ => [39%N]
  | DQ => [34%N]
  | ED => [97%N; 34%N]
  end.

Lemma completable t : exists ext, Prog true (t ++ ext).
Proof.
  exists (closing (run S0 t)). apply acc_iff_prog.
  rewrite acc_app by (destruct (run S0 t); discriminate).
  destruct (run S0 t) as [| | | |b| |]; try reflexivity; destruct b; reflexivity.
Qed.

(** ** The completeness decision is right on the fragment: [completeness_stmt] instantiated. *)
Theorem lex_completeness : completeness_stmt lex_class (Prog true).
Proof.
  intros t. change (needs_more lex_class t) with (lex_needs_more t).
  rewrite lex_needs_more_acc. split.
  - intros H. split; [|apply completable].
    intros Hp. apply acc_iff_prog in Hp. rewrite Hp in H. discriminate.
  - intros [Hn _]. destruct (acc S0 t) eqn:E; [|reflexivity].
    exfalso. apply Hn. now apply acc_iff_prog.
Qed.

(** Non-vacuity and sanity: some members and non-members of the grammar, decided by the model. *)
Example lex_examples :
  lex_needs_more (lit "a 'b") = true /\ lex_needs_more (lit "a # 'b") = false /\
  lex_needs_more [97; 92; 10]%N = true /\ lex_needs_more [97; 32; 35; 92; 10]%N = false /\
  lex_needs_more [97; 92; 92; 10]%N = false /\ lex_needs_more [34; 97; 92; 34; 10]%N = true.
Proof. vm_compute. repeat split. Qed.

(** ** Correspondence entries
    c15lex       : text            -> verdict class of the scan, decision
    c15lexchunks : n line*n        -> the chunks the front-end forms with the fragment's decision *)
Definition show_class (c : pclass) : str :=
  match c with
  | COk => lit "ok" | CAtEnd => lit "atend" | CNear => lit "near"
  | CTok v => lit "tok:" ++ lit v
  end.

Definition entry_c15lex (a : list str) : list str :=
  match a with
  | [t] => [show_class (lex_class t); enc_bool (lex_needs_more t)]
  | [] => [show_class (lex_class []); enc_bool (lex_needs_more [])]
  | _ => [lit "?malformed"]
  end.

Definition entry_c15lexchunks (a : list str) : list str :=
  match a with
  | n :: r => chunks_of lex_needs_more [] (firstn (dec_nat n) r)
  | [] => []
  end.
