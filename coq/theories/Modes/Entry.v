(** C15 correspondence entries.
    c15chunks : <opts ignored> n line*n k (text class)*k  ->  per chunk: offset, chunk, needs_more(chunk)
    c15nm     : (text class trunc_class)                  ->  needs_more
    c15lru    : cap key*                                  ->  per call h|m, then "|", then the key order *)
From Coq Require Import String.
From BV Require Import Base.Prelude Base.Codec Cache.Lru Modes.Classes Modes.Complete gen.C15Incomplete.

Fixpoint take_n {A} (n : nat) (l : list A) : list A * list A :=
  match n, l with
  | O, _ => ([], l)
  | S n', x :: l' => let '(a, b) := take_n n' l' in (x :: a, b)
  | S _, [] => ([], [])
  end.

Fixpoint string_of_str (s : str) : string :=
  match s with
  | [] => EmptyString
  | c :: s' => String (Ascii.ascii_of_N c) (string_of_str s')
  end.

(** "ok" | "atend" | "near" | "tok:<Variant>" ; anything else is reported as such *)
Definition dec_class (s : str) : pclass :=
  if str_eqb s (lit "ok") then COk
  else if str_eqb s (lit "atend") then CAtEnd
  else if str_eqb s (lit "near") then CNear
  else match s with
       | 116%N :: 111%N :: 107%N :: 58%N :: v => CTok (string_of_str v)
       | _ => CTok "?undecodable"
       end.

Fixpoint dec_table (fuel : nat) (a : list str) : list (str * pclass) :=
  match fuel with O => [] | S fuel =>
  match a with
  | t :: c :: r => (t, dec_class c) :: dec_table fuel r
  | _ => []
  end end.

(** The parser oracle of a case: the verdicts observed on the real parser for the texts the
    front-end can ask about.  A text outside the table gets a verdict that no arm treats as
    incomplete and that is visible in the output. *)
Fixpoint lookup_class (tbl : list (str * pclass)) (t : str) : pclass :=
  match tbl with
  | [] => CTok "?missing"
  | (t', c) :: r => if str_eqb t t' then c else lookup_class r t
  end.

Definition show_chunk (pc : str -> pclass) (oc : nat * str) : list str :=
  [enc_nat (fst oc); snd oc; enc_bool (needs_more pc (snd oc))].

Definition entry_c15chunks (a : list str) : list str :=
  match a with
  | n :: r =>
      let '(lines, r') := take_n (dec_nat n) r in
      match r' with
      | k :: r'' =>
          let tbl := dec_table (dec_nat k) r'' in
          let pc := lookup_class tbl in
          flat_map (show_chunk pc) (with_offsets 0 (chunks_of (needs_more pc) [] lines))
      | [] => [lit "?malformed"]
      end
  | [] => [lit "?malformed"]
  end.

Definition entry_c15nm (a : list str) : list str :=
  match a with
  | [t; c; ct] =>
      let pc := fun x => if str_eqb x t then dec_class c else dec_class ct in
      [enc_bool (needs_more pc t)]
  | _ => [lit "?malformed"]
  end.

(** LRU store with the values equal to the keys (what matters is hit/miss and the order). *)
Fixpoint lru_trace (cap : nat) (s : list (str * str)) (ks : list str) : list str * list (str * str) :=
  match ks with
  | [] => ([], s)
  | k :: ks' =>
      let hit := match lookup str_eqb k s with Some _ => true | None => false end in
      let s' := snd (lru_call str str str str_eqb cap (fun x => x) (fun x => x) s k) in
      let '(tr, sf) := lru_trace cap s' ks' in
      ((if hit then lit "h" else lit "m") :: tr, sf)
  end.

Definition entry_c15lru (a : list str) : list str :=
  match a with
  | cap :: ks => let '(tr, sf) := lru_trace (dec_nat cap) [] ks in tr ++ [lit "|"] ++ map fst sf
  | [] => [lit "?malformed"]
  end.
