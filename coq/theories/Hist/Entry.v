(** C20 correspondence entry: ops in, the observable state after every op out. *)
From Coq Require Import String.
From BV Require Import Base.Prelude Base.Codec Hist.Model.

(** args: <nlines> line* then ops: A sid now cmd | S sid | X sid | W sid | N | D sid off | C sid | T *)
Fixpoint take_n {A} (n : nat) (l : list A) : list A * list A :=
  match n, l with
  | O, _ => ([], l)
  | S n', x :: l' => let '(a, b) := take_n n' l' in (x :: a, b)
  | S _, [] => ([], [])
  end.

Fixpoint dec_ops (fuel : nat) (a : list str) : list op :=
  match fuel with O => [] | S fuel =>
  match a with
  | [65%N] :: sid :: now :: c :: r => Add (dec_nat sid) c (dec_Z now) :: dec_ops fuel r
  | [83%N] :: sid :: r => Save (dec_nat sid) :: dec_ops fuel r
  | [88%N] :: sid :: r => SaveFail (dec_nat sid) :: dec_ops fuel r
  | [87%N] :: sid :: r => Write (dec_nat sid) :: dec_ops fuel r
  | [78%N] :: r => NewSession :: dec_ops fuel r
  | [68%N] :: sid :: off :: r => Delete (dec_nat sid) (dec_Z off) :: dec_ops fuel r
  | [67%N] :: sid :: r => Clear (dec_nat sid) :: dec_ops fuel r
  | [84%N] :: r => ToggleTs :: dec_ops fuel r
  | _ => []
  end end.

Definition show_item (it : item) : list str := [cmd it; enc_optZ (ts it); enc_bool (dirty it)].
Definition show_hist (h : hist) : list str :=
  enc_nat (length (items h)) :: flat_map show_item (items h).
Definition show_world (w : world) : list str :=
  (lit "F" :: enc_nat (length (file w)) :: file w) ++
  (lit "H" :: enc_nat (length (sessions w)) :: flat_map show_hist (sessions w)).

Fixpoint trace (w : world) (ops : list op) : list str :=
  match ops with
  | [] => []
  | o :: ops' => let w' := step w o in show_world w' ++ trace w' ops'
  end.

Definition entry_c20 (a : list str) : list str :=
  match a with
  | n :: r => let '(f, r') := take_n (dec_nat n) r in
              trace (init_world f) (dec_ops (length r') r')
  | [] => []
  end.
