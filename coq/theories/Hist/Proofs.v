(** C20 — the model refines the abstract specification (Hist/Spec.v), for every op sequence. *)
From BV Require Import Base.Prelude Base.Decimal Hist.Model Hist.Spec.

Definition view_item (it : item) : aitem := (cmd it, ts it, dirty it).
Definition view (h : hist) : list aitem := map view_item (items h).

(** What [import] makes of a list of lines, written as a plain recursion. *)
Definition ts_of_comment (comment : str) : option Z :=
  match parse_i64 (trim comment) with Some z => from_timestamp z | None => None end.

Fixpoint iview (g : list str) (nts : option Z) : list aitem :=
  match g with
  | [] => []
  | l :: g' => match strip_hash l with
               | Some comment => iview g' (ts_of_comment comment)
               | None => (l, nts, false) :: iview g' None
               end
  end.

Fixpoint ipend (g : list str) (nts : option Z) : option Z :=
  match g with
  | [] => nts
  | l :: g' => match strip_hash l with
               | Some comment => ipend g' (ts_of_comment comment)
               | None => ipend g' None
               end
  end.

Definition abs (w : world) : aworld :=
  {| afile := map fst (iview (file w) None); asess := map view (sessions w); ats := tsflag w |}.

Definition ts_ok (t : Z) : Prop := from_timestamp t = Some t.
Definition no_hash (c : str) : Prop := strip_hash c = None.
Definition item_ok (it : item) : Prop :=
  no_hash (cmd it) /\ match ts it with Some t => ts_ok t | None => True end.
Definition WF (w : world) : Prop :=
  ipend (file w) None = None /\ Forall (fun h => Forall item_ok (items h)) (sessions w).
Definition op_ok (o : op) : Prop :=
  match o with Add _ c now => no_hash (trim c) /\ ts_ok now | _ => True end.

Lemma ts_ok_i64 t : ts_ok t -> in_i64 t = true.
Proof.
  unfold ts_ok, from_timestamp, in_i64. destruct (_ && _) eqn:E; [|discriminate]. intros _.
  apply andb_prop in E as [E1 E2]. apply Z.leb_le in E1, E2.
  unfold chrono_min, chrono_max in *. apply andb_true_intro; split; apply Z.leb_le; unfold i64_min, i64_max; lia.
Qed.

Lemma from_timestamp_ok z t : from_timestamp z = Some t -> ts_ok t.
Proof. unfold ts_ok, from_timestamp. destruct (_ && _) eqn:E; [|discriminate]. intros [= <-]. rewrite E. reflexivity. Qed.

(** import as a fold equals the plain recursion, from any starting state. *)
Lemma import_fold g : forall h nts,
  let r := fold_left import_line g (h, nts) in
  view (fst r) = view h ++ iview g nts /\ snd r = ipend g nts /\
  (Forall item_ok (items h) -> match nts with Some t => ts_ok t | None => True end -> Forall item_ok (items (fst r))).
Proof.
  induction g as [|l g IH]; intros h nts; cbn [fold_left iview ipend].
  - cbn. rewrite app_nil_r. auto.
  - assert (Estep : import_line (h, nts) l =
      match strip_hash l with Some comment => (h, ts_of_comment comment) | None => (hadd h l nts false, None) end).
    { unfold import_line, ts_of_comment. destruct (strip_hash l); [destruct (parse_i64 _); reflexivity|reflexivity]. }
    cbv zeta. rewrite Estep. destruct (strip_hash l) as [comment|] eqn:El.
    + destruct (IH h (ts_of_comment comment)) as (H1 & H2 & H3).
      split; [exact H1|]. split; [exact H2|]. intros Hh _. apply H3; [exact Hh|].
      unfold ts_of_comment. destruct (parse_i64 (trim comment)) as [z|]; [|exact I].
      destruct (from_timestamp z) eqn:Ez; [|exact I]. eapply from_timestamp_ok; eassumption.
    + destruct (IH (hadd h l nts false) None) as (H1 & H2 & H3).
      split.
      * rewrite H1. unfold view, hadd. cbn [items]. rewrite map_app. cbn. rewrite <- app_assoc. reflexivity.
      * split; [exact H2|].
        intros Hh Hn. apply H3; [|exact I]. unfold hadd; cbn [items]. apply Forall_app; split; [exact Hh|].
        constructor; [|constructor]. split; assumption.
Qed.

Lemma iview_app f : forall g nts, iview (f ++ g) nts = iview f nts ++ iview g (ipend f nts).
Proof.
  induction f as [|l f IH]; intros g nts; cbn [app iview ipend]; [reflexivity|].
  destruct (strip_hash l); [apply IH|]. rewrite IH. reflexivity.
Qed.

Lemma ipend_app f : forall g nts, ipend (f ++ g) nts = ipend g (ipend f nts).
Proof.
  induction f as [|l f IH]; intros g nts; cbn [app ipend]; [reflexivity|].
  destruct (strip_hash l); apply IH.
Qed.

Lemma strip_hash_cons c : strip_hash (HASH :: c) = Some c.
Proof. reflexivity. Qed.

Lemma ts_line_roundtrip t : ts_ok t -> ts_of_comment (show_Z t) = Some t.
Proof.
  intros Ht. unfold ts_of_comment. rewrite trim_no_ws by apply show_Z_no_ws.
  rewrite parse_show_Z by (apply ts_ok_i64; exact Ht). exact Ht.
Qed.

Definition saved_view (tsf : bool) (it : item) : aitem := (cmd it, if tsf then ts it else None, false).

(** Re-importing what [flush] wrote yields exactly the unsaved items, stamps attached. *)
Lemma iview_flush tsf its : Forall item_ok its ->
  iview (flush_lines tsf its) None = map (saved_view tsf) (filter dirty its) /\
  ipend (flush_lines tsf its) None = None.
Proof.
  induction 1 as [|it its [Hc Ht] _ [IH1 IH2]]; [split; reflexivity|].
  unfold flush_lines in *. cbn [flat_map filter].
  destruct (dirty it) eqn:Ed; [|split; assumption].
  assert (Hblock :
    iview ((match ts it with Some t => if tsf then [HASH :: show_Z t] else [] | None => [] end) ++ [cmd it]) None
      = [saved_view tsf it] /\
    ipend ((match ts it with Some t => if tsf then [HASH :: show_Z t] else [] | None => [] end) ++ [cmd it]) None = None).
  { unfold saved_view. destruct (ts it) as [t|]; [destruct tsf|].
    - cbn [app iview ipend]. rewrite strip_hash_cons, (ts_line_roundtrip t Ht). rewrite Hc. split; reflexivity.
    - cbn [app iview ipend]. rewrite Hc. split; reflexivity.
    - cbn [app iview ipend]. rewrite Hc. destruct tsf; split; reflexivity. }
  destruct Hblock as [Hv Hp]. split.
  - rewrite iview_app, Hv, Hp, IH1. reflexivity.
  - rewrite ipend_app, Hp. exact IH2.
Qed.

Lemma iview_clean g : forall nts x, In x (iview g nts) -> snd x = false.
Proof.
  induction g as [|l g IH]; intros nts x; cbn [iview]; [intros []|].
  destruct (strip_hash l); [apply IH|]. intros [<-|H]; [reflexivity|eapply IH; exact H].
Qed.

Lemma map_update_nth {A B} (f : A -> B) (g : A -> A) (g' : B -> B) n : forall l,
  (forall x, In x l -> f (g x) = g' (f x)) -> map f (update_nth n g l) = update_nth n g' (map f l).
Proof.
  induction n as [|n IH]; intros [|x l] H; cbn; try reflexivity.
  - rewrite H by (left; reflexivity). reflexivity.
  - rewrite IH; [reflexivity|]. intros y Hy. apply H. right. exact Hy.
Qed.

Lemma Forall_update_nth {A} (P : A -> Prop) (g : A -> A) n : forall l,
  Forall P l -> (forall x, P x -> P (g x)) -> Forall P (update_nth n g l).
Proof.
  induction n as [|n IH]; intros [|x l] H Hg; cbn; try exact H; inversion H; subst; constructor; auto.
Qed.

Lemma map_remove_nth {A B} (f : A -> B) n : forall l, map f (remove_nth n l) = remove_nth n (map f l).
Proof. induction n as [|n IH]; intros [|x l]; cbn; try reflexivity. rewrite IH. reflexivity. Qed.

Lemma Forall_remove_nth {A} (P : A -> Prop) n : forall l, Forall P l -> Forall P (remove_nth n l).
Proof. induction n as [|n IH]; intros [|x l] H; cbn; try exact H; inversion H; subst; auto. Qed.

Lemma view_delete h off : view (hdelete h off) = adelete (view h) off.
Proof.
  unfold hdelete, adelete, view. rewrite map_length.
  destruct (off =? 0); [reflexivity|]. destruct (0 <? off); [apply map_remove_nth|].
  destruct (_ <? 0); [reflexivity|]. apply map_remove_nth.
Qed.

Lemma view_flush h : view (hflush h) = a_clear_flags (view h).
Proof. unfold view, hflush, a_clear_flags, mark_saved. cbn [items]. rewrite !map_map. reflexivity. Qed.

Lemma unsaved_view its : a_unsaved (map view_item its) = map view_item (filter dirty its).
Proof.
  unfold a_unsaved. induction its as [|it its IH]; [reflexivity|]. cbn [map filter].
  change (snd (view_item it)) with (dirty it). destruct (dirty it); cbn [map]; rewrite IH; reflexivity.
Qed.

Lemma nth_error_map_view ss sid : nth_error (map view ss) sid = option_map view (nth_error ss sid).
Proof. apply nth_error_map. Qed.

(** One step: the model commutes with the specification and keeps the invariant. *)
Theorem step_refines w o : WF w -> op_ok o -> abs (step w o) = astep (abs w) o /\ WF (step w o).
Proof.
  intros [Hp Hs] Ho. destruct o as [sid c now|sid|sid|sid| |sid off|sid|]; cbn [step astep].
  - (* Add *)
    destruct Ho as [Hnh Hts]. unfold abs; cbn [file sessions tsflag afile asess ats].
    split.
    + destruct (trim c) as [|c0 c'] eqn:Et.
      * rewrite (map_update_nth view _ (fun l => l)).
        { f_equal. clear. generalize (map view (sessions w)). induction sid; intros [|x l]; cbn; congruence. }
        intros h _. unfold add_to_history. rewrite Et. reflexivity.
      * unfold with_sess; cbn [afile asess ats]. f_equal.
        apply map_update_nth. intros h _. unfold add_to_history. rewrite Et.
        unfold view, hadd; cbn [items]. rewrite map_app. reflexivity.
    + split; [exact Hp|]. cbn [sessions]. apply Forall_update_nth; [exact Hs|].
      intros h Hh. unfold add_to_history. destruct (trim c) eqn:Et; [exact Hh|].
      unfold hadd; cbn [items]. apply Forall_app; split; [exact Hh|]. constructor; [|constructor].
      split; cbn [cmd ts]; [exact Hnh|exact Hts].
  - (* Save *)
    unfold abs at 2; cbn [asess]. rewrite nth_error_map_view.
    destruct (nth_error (sessions w) sid) as [h|] eqn:En; cbn [option_map]; [|split; [reflexivity|split; assumption]].
    assert (Hh : Forall item_ok (items h)).
    { rewrite Forall_forall in Hs. apply Hs. eapply nth_error_In; eassumption. }
    destruct (iview_flush (tsflag w) (items h) Hh) as [Hv Hpe].
    split.
    + unfold abs; cbn [file sessions tsflag afile asess ats]. f_equal.
      * rewrite iview_app, Hp, Hv, map_app. f_equal.
        unfold view. rewrite unsaved_view, !map_map. reflexivity.
      * apply map_update_nth. intros x _. apply view_flush.
    + split; cbn [file sessions].
      * rewrite ipend_app, Hp. exact Hpe.
      * apply Forall_update_nth; [exact Hs|]. intros x Hx. unfold hflush, mark_saved; cbn [items].
        rewrite Forall_map. eapply Forall_impl; [|exact Hx]. intros it Hi. exact Hi.
  - (* SaveFail *) split; [reflexivity|split; assumption].
  - (* Write *)
    unfold abs at 2; cbn [asess]. rewrite nth_error_map_view.
    destruct (nth_error (sessions w) sid) as [h|] eqn:En; cbn [option_map]; [|split; [reflexivity|split; assumption]].
    assert (Hh : Forall item_ok (items h)).
    { rewrite Forall_forall in Hs. apply Hs. eapply nth_error_In; eassumption. }
    assert (Hd : Forall item_ok (mark_dirty (items h))).
    { unfold mark_dirty. rewrite Forall_map. eapply Forall_impl; [|exact Hh]. intros it Hi. exact Hi. }
    destruct (iview_flush (tsflag w) (mark_dirty (items h)) Hd) as [Hv Hpe].
    split.
    + unfold abs; cbn [file sessions tsflag afile asess ats]. f_equal.
      unfold write_lines. rewrite Hv. unfold view, mark_dirty. rewrite !map_map.
      assert (Hf : forall l, filter dirty (map (fun it => {| id := id it; cmd := cmd it; ts := ts it; dirty := true |}) l)
                             = map (fun it => {| id := id it; cmd := cmd it; ts := ts it; dirty := true |}) l).
      { induction l as [|x l IH]; [reflexivity|]. cbn. rewrite IH. reflexivity. }
      rewrite Hf, !map_map. reflexivity.
    + split; [exact Hpe|exact Hs].
  - (* NewSession *)
    destruct (import_fold (file w) empty_hist None) as (H1 & H2 & H3). cbv zeta in *.
    split.
    + unfold abs, with_sess; cbn [file sessions tsflag afile asess ats]. f_equal.
      rewrite map_app. f_equal. cbn [map]. f_equal. unfold import. rewrite H1. cbn [view empty_hist items map app].
      rewrite map_map. pose proof (iview_clean (file w) None) as Hcl.
      revert Hcl. generalize (iview (file w) None). intros l.
      induction l as [|[[c t] d] l IH]; intros Hcl; [reflexivity|].
      cbn. f_equal; [|apply IH; intros x Hx; apply Hcl; right; exact Hx].
      specialize (Hcl (c, t, d) (or_introl eq_refl)). cbn in Hcl. subst d. reflexivity.
    + split; [exact Hp|]. cbn [sessions]. apply Forall_app; split; [exact Hs|]. constructor; [|constructor].
      apply H3; [constructor|exact I].
  - (* Delete *)
    split.
    + unfold abs, with_sess; cbn [file sessions tsflag afile asess ats]. f_equal.
      apply map_update_nth. intros h _. apply view_delete.
    + split; [exact Hp|]. cbn [sessions]. apply Forall_update_nth; [exact Hs|]. intros h Hh.
      unfold hdelete. destruct (off =? 0); [exact Hh|]. destruct (0 <? off); [apply Forall_remove_nth, Hh|].
      destruct (_ <? 0); [exact Hh|apply Forall_remove_nth, Hh].
  - (* Clear *)
    split.
    + unfold abs, with_sess; cbn [file sessions tsflag afile asess ats]. f_equal.
      apply map_update_nth. intros h _. reflexivity.
    + split; [exact Hp|]. cbn [sessions]. apply Forall_update_nth; [exact Hs|]. intros; constructor.
  - split; [reflexivity|split; assumption].
Qed.

Theorem run_refines ops : forall w, WF w -> Forall op_ok ops ->
  abs (run w ops) = arun (abs w) ops /\ WF (run w ops).
Proof.
  induction ops as [|o ops IH]; intros w Hw Ho; [split; [reflexivity|exact Hw]|].
  inversion Ho as [|? ? Ho1 Ho2]; subst. destruct (step_refines w o Hw Ho1) as [Ha Hw'].
  unfold run, arun in *. cbn [fold_left]. rewrite <- Ha. apply IH; assumption.
Qed.

Lemma flush_saved tsf its : flush_lines tsf (mark_saved its) = [].
Proof. unfold flush_lines, mark_saved. induction its as [|it its IH]; [reflexivity|]. cbn. exact IH. Qed.

Lemma mark_saved_idem its : mark_saved (mark_saved its) = mark_saved its.
Proof. unfold mark_saved. rewrite map_map. reflexivity. Qed.

Lemma nth_error_update_nth {A} (g : A -> A) n : forall l, nth_error (update_nth n g l) n = option_map g (nth_error l n).
Proof. induction n as [|n IH]; intros [|x l]; cbn; try reflexivity. apply IH. Qed.

Lemma update_nth_twice {A} (g : A -> A) n : forall l, (forall x, g (g x) = g x) ->
  update_nth n g (update_nth n g l) = update_nth n g l.
Proof. induction n as [|n IH]; intros [|x l] H; cbn; try reflexivity; [rewrite H|rewrite IH by exact H]; reflexivity. Qed.

(** Saving again without new commands adds nothing (no hypothesis at all). *)
Theorem save_idempotent w sid : step (step w (Save sid)) (Save sid) = step w (Save sid).
Proof.
  cbn [step]. destruct (nth_error (sessions w) sid) as [h|] eqn:En.
  - cbn [step sessions file tsflag]. rewrite nth_error_update_nth, En. cbn [option_map hflush items].
    rewrite flush_saved, app_nil_r. f_equal. apply update_nth_twice.
    intros x. unfold hflush; cbn [items next_id]. rewrite mark_saved_idem. reflexivity.
  - cbn [step]. rewrite En. reflexivity.
Qed.

(** A save appends to the file exactly the session's unsaved commands, in order, each once,
    with its own timestamp when timestamps are on — and nothing else. *)
Theorem save_appends_exactly_unsaved w sid h : WF w -> nth_error (sessions w) sid = Some h ->
  afile (abs (step w (Save sid))) =
  afile (abs w) ++ map (fun it => (cmd it, if tsflag w then ts it else None)) (filter dirty (items h)).
Proof.
  intros Hw En. destruct (step_refines w (Save sid) Hw I) as [-> _].
  cbn [astep]. unfold abs at 1; cbn [asess]. rewrite nth_error_map_view, En. cbn [option_map afile].
  f_equal. unfold view. rewrite unsaved_view, map_map. reflexivity.
Qed.

(** Reloading yields exactly the commands (and stamps) the file holds. *)
Theorem reload_as_saved w : WF w ->
  map (fun x => fst x) (view (import (file w))) = afile (abs w).
Proof.
  intros _. destruct (import_fold (file w) empty_hist None) as (H1 & _). cbv zeta in H1.
  unfold import. rewrite H1. reflexivity.
Qed.

(** The file only ever grows. *)
Theorem file_append_only w o : is_write o = false -> exists more, file (step w o) = file w ++ more.
Proof.
  intros Hw. destruct o; try discriminate Hw; cbn [step]; try (exists []; rewrite app_nil_r; reflexivity).
  destruct (nth_error (sessions w) sid); [eexists; reflexivity|exists []; rewrite app_nil_r; reflexivity].
Qed.

(** `history -w` leaves exactly the session's items in the file (nothing of the old contents). *)
Theorem write_replaces_file w sid h : WF w -> nth_error (sessions w) sid = Some h ->
  afile (abs (step w (Write sid))) = map (fun it => (cmd it, if tsflag w then ts it else None)) (items h).
Proof.
  intros Hw En. destruct (step_refines w (Write sid) Hw I) as [-> _].
  cbn [astep]. unfold abs at 1; cbn [asess]. rewrite nth_error_map_view, En. cbn [option_map afile].
  unfold view. rewrite map_map. reflexivity.
Qed.

(** Non-vacuity: a concrete history satisfying the hypotheses, evaluated. *)
Definition ex_ops : list op :=
  [NewSession; Add 0 [32;108;115;32]%N 1700000000; ToggleTs; Add 0 [120]%N 1700000001; Save 0; NewSession; Save 0; Delete 1 1; Save 1].
Example ex_wf : WF (init_world [[111;108;100]%N; HASH :: [49;50]%N; [99]%N]) /\ Forall op_ok ex_ops.
Proof. split; [split; [reflexivity|constructor]|repeat constructor]. Qed.
Example ex_result :
  file (run (init_world [[111;108;100]%N; HASH :: [49;50]%N; [99]%N]) ex_ops) =
  [[111;108;100]; HASH :: [49;50]; [99]; HASH :: show_Z 1700000000; [108;115]; HASH :: show_Z 1700000001; [120]]%N.
Proof. vm_compute. reflexivity. Qed.
