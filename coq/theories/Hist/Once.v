(** C20 — "exactly once, in recording order", stated on the abstract machine of Hist/Spec.v with
    ghost tags: every recorded command gets the tag (session, serial number); tags do not influence
    behaviour (erasure theorem), and for every op sequence the tags in the file are duplicate-free,
    ordered per session, and every saved (unflagged) recorded command of a session is in the file. *)
From Coq Require Import Sorting.Sorted.
From BV Require Import Base.Prelude Hist.Model Hist.Spec.

Definition tag := (nat * nat)%type.
Definition titem := (option tag * aitem)%type.
Record tworld := { tfile : list (option tag * (str * option Z)); tsess : list (list titem); tts : bool; tnext : nat }.

Definition t_unsaved (l : list titem) : list titem := filter (fun x => snd (snd x)) l.
Definition t_clear (l : list titem) : list titem := map (fun x => (fst x, (fst (snd x), false))) l.
Definition tdelete (l : list titem) (off : Z) : list titem :=
  if off =? 0 then l
  else if 0 <? off then remove_nth (Z.to_nat (off - 1)) l
  else let idx := Z.of_nat (length l) + off in
       if idx <? 0 then l else remove_nth (Z.to_nat idx) l.

Definition tstep (w : tworld) (o : op) : tworld :=
  match o with
  | Add sid c now =>
      match trim c with
      | [] => w
      | c' => {| tfile := tfile w;
                 tsess := update_nth sid (fun l => l ++ [(Some (sid, tnext w), (c', Some now, true))]) (tsess w);
                 tts := tts w; tnext := S (tnext w) |}
      end
  | Save sid =>
      match nth_error (tsess w) sid with
      | Some l =>
          {| tfile := tfile w ++ map (fun x => (fst x, (fst (fst (snd x)), if tts w then snd (fst (snd x)) else None))) (t_unsaved l);
             tsess := update_nth sid t_clear (tsess w); tts := tts w; tnext := tnext w |}
      | None => w
      end
  | SaveFail _ => w
  | Write _ => w   (* outside the exactly-once statement: see [no_write] *)
  | NewSession =>
      {| tfile := tfile w; tsess := tsess w ++ [map (fun x => (None, (fst (snd x), snd (snd x), false))) (tfile w)];
         tts := tts w; tnext := tnext w |}
  | Delete sid off =>
      {| tfile := tfile w; tsess := update_nth sid (fun l => tdelete l off) (tsess w); tts := tts w; tnext := tnext w |}
  | Clear sid =>
      {| tfile := tfile w; tsess := update_nth sid (fun _ => []) (tsess w); tts := tts w; tnext := tnext w |}
  | ToggleTs => {| tfile := tfile w; tsess := tsess w; tts := negb (tts w); tnext := tnext w |}
  end.

Definition terase (w : tworld) : aworld :=
  {| afile := map snd (tfile w); asess := map (fun l : list titem => map snd l) (tsess w); ats := tts w |}.

(** tags of a list of optional tags *)
Fixpoint somes {A} (l : list (option A)) : list A :=
  match l with [] => [] | Some a :: l' => a :: somes l' | None :: l' => somes l' end.
Definition file_tags (w : tworld) : list tag := somes (map fst (tfile w)).
Definition tags_of (l : list titem) : list tag := somes (map fst l).
Definition serials_of (sid : nat) (ts : list tag) : list nat :=
  map snd (filter (fun t => Nat.eqb (fst t) sid) ts).

(** order-preserving sublists *)
Inductive subl {A} : list A -> list A -> Prop :=
| subl_nil : subl [] []
| subl_skip x l1 l2 : subl l1 l2 -> subl l1 (x :: l2)
| subl_keep x l1 l2 : subl l1 l2 -> subl (x :: l1) (x :: l2).

Lemma subl_refl {A} (l : list A) : subl l l.
Proof. induction l; constructor; assumption. Qed.

Lemma subl_in {A} (l1 l2 : list A) x : subl l1 l2 -> In x l1 -> In x l2.
Proof. induction 1; cbn; intuition. Qed.

Lemma subl_remove_nth {A} n : forall l : list A, subl (remove_nth n l) l.
Proof. induction n as [|n IH]; intros [|x l]; cbn; try (constructor; fail).
  - apply subl_skip, subl_refl.
  - apply subl_keep, IH.
Qed.

Lemma subl_filter {A} (f : A -> bool) (l : list A) : subl (filter f l) l.
Proof. induction l as [|x l IH]; cbn; [constructor|]. destruct (f x); constructor; exact IH. Qed.

Lemma subl_map {A B} (f : A -> B) l1 l2 : subl l1 l2 -> subl (map f l1) (map f l2).
Proof. induction 1; cbn; constructor; assumption. Qed.

Lemma subl_somes {A} (l1 l2 : list (option A)) : subl l1 l2 -> subl (somes l1) (somes l2).
Proof. induction 1 as [|[x|] l1 l2 _ IH|[x|] l1 l2 _ IH]; cbn; try constructor; assumption. Qed.

Lemma subl_sorted {A} (R : A -> A -> Prop) l1 l2 : subl l1 l2 -> StronglySorted R l2 -> StronglySorted R l1.
Proof.
  induction 1 as [| x l1 l2 Hs IH | x l1 l2 Hs IH]; intros H; [constructor| |].
  - inversion H; subst. auto.
  - inversion H as [|? ? Hs2 Hf]; subst. constructor; [auto|].
    rewrite Forall_forall in *. intros y Hy. apply Hf. eapply subl_in; eassumption.
Qed.

Lemma sorted_app (a b : list nat) : StronglySorted lt a -> StronglySorted lt b ->
  (forall x y, In x a -> In y b -> x < y)%nat -> StronglySorted lt (a ++ b).
Proof.
  induction a as [|x a IH]; intros Ha Hb H; cbn; [exact Hb|].
  inversion Ha as [|? ? Ha' Hf]; subst. constructor.
  - apply IH; auto. intros; apply H; cbn; auto.
  - rewrite Forall_forall in *. intros y Hy. apply in_app_or in Hy as [Hy|Hy]; [auto|apply H; cbn; auto].
Qed.

Lemma somes_app {A} (a b : list (option A)) : somes (a ++ b) = somes a ++ somes b.
Proof. induction a as [|[x|] a IH]; cbn; rewrite ?IH; reflexivity. Qed.

Lemma in_somes {A} (l : list (option A)) x : In x (somes l) <-> In (Some x) l.
Proof.
  induction l as [|[y|] l IH]; cbn; [tauto| |].
  - rewrite IH. split; intros [H|H]; auto; [left; congruence|left; congruence].
  - rewrite IH. split; [auto|intros [H|H]; [discriminate|exact H]].
Qed.

Lemma serials_app k a b : serials_of k (a ++ b) = serials_of k a ++ serials_of k b.
Proof. unfold serials_of. rewrite filter_app, map_app. reflexivity. Qed.

Lemma in_serials k ts m : In m (serials_of k ts) <-> In (k, m) ts.
Proof.
  unfold serials_of. rewrite in_map_iff. split.
  - intros [[a b] [<- H]]. apply filter_In in H as [H E]. cbn in E. apply Nat.eqb_eq in E. cbn. subst. exact H.
  - intros H. exists (k, m). split; [reflexivity|]. apply filter_In. split; [exact H|]. cbn. apply Nat.eqb_refl.
Qed.

Lemma serials_other k ts : (forall t, In t ts -> fst t <> k) -> serials_of k ts = [].
Proof.
  unfold serials_of. induction ts as [|t ts IH]; intros H; [reflexivity|]. cbn.
  destruct (Nat.eqb_spec (fst t) k) as [E|E]; [exfalso; eapply H; [left; reflexivity|exact E]|].
  apply IH. intros; apply H; right; assumption.
Qed.

Lemma serials_same k ts : (forall t, In t ts -> fst t = k) -> serials_of k ts = map snd ts.
Proof.
  unfold serials_of. induction ts as [|t ts IH]; intros H; [reflexivity|]. cbn.
  rewrite (proj2 (Nat.eqb_eq _ _) (H t (or_introl eq_refl))). cbn. f_equal. apply IH. intros; apply H; right; assumption.
Qed.

Lemma sorted_serials_nodup ts : (forall k, StronglySorted lt (serials_of k ts)) -> NoDup ts.
Proof.
  induction ts as [|[k m] ts IH]; intros H; constructor.
  - intros Hin. specialize (H k). unfold serials_of in H. cbn in H. rewrite Nat.eqb_refl in H. cbn in H.
    inversion H as [|? ? _ Hf]; subst. rewrite Forall_forall in Hf.
    specialize (Hf m). assert (m < m)%nat; [|lia]. apply Hf. apply (in_serials k ts m). exact Hin.
  - apply IH. intros k'. specialize (H k'). unfold serials_of in *. cbn in H.
    destruct (Nat.eqb k k'); [cbn in H; inversion H; assumption|exact H].
Qed.

Record SessOK (w : tworld) (k : nat) (l : list titem) : Prop := {
  so_own : forall t, In t (tags_of l) -> fst t = k /\ (snd t < tnext w)%nat;
  so_sorted : StronglySorted lt (map snd (tags_of l));
  so_unsaved : forall t a, In (Some t, (a, true)) l -> forall m, In (k, m) (file_tags w) -> (m < snd t)%nat;
  so_saved : forall t a, In (Some t, (a, false)) l -> In t (file_tags w) }.

Record INV (w : tworld) : Prop := {
  inv_bound : forall t, In t (file_tags w) -> (snd t < tnext w)%nat;
  inv_sorted : forall k, StronglySorted lt (serials_of k (file_tags w));
  inv_sess : forall k l, nth_error (tsess w) k = Some l -> SessOK w k l }.

Lemma nth_error_update_nth_eq {A} (g : A -> A) n : forall l, nth_error (update_nth n g l) n = option_map g (nth_error l n).
Proof. induction n as [|n IH]; intros [|x l]; cbn; try reflexivity. apply IH. Qed.

Lemma nth_error_update_nth_ne {A} (g : A -> A) n k : k <> n -> forall l, nth_error (update_nth n g l) k = nth_error l k.
Proof.
  revert k. induction n as [|n IH]; intros [|k] Hne [|x l]; cbn; try reflexivity; try congruence.
  apply IH. congruence.
Qed.

Lemma tags_of_app a b : tags_of (a ++ b) = tags_of a ++ tags_of b.
Proof. unfold tags_of. rewrite map_app, somes_app. reflexivity. Qed.

Lemma in_tags_of l t : In t (tags_of l) <-> exists a, In (Some t, a) l.
Proof.
  unfold tags_of. rewrite in_somes, in_map_iff. split.
  - intros [[o a] [E H]]. cbn in E. subst. eexists; eassumption.
  - intros [a H]. exists (Some t, a). split; [reflexivity|exact H].
Qed.

(** a session untouched by a step that only grows the file by tags of another session / bumps tnext *)
Lemma sess_ok_weaken w w' k l :
  SessOK w k l -> (tnext w <= tnext w')%nat ->
  (forall m, In (k, m) (file_tags w') -> In (k, m) (file_tags w)) ->
  (forall t, In t (file_tags w) -> In t (file_tags w')) -> SessOK w' k l.
Proof.
  intros [H1 H2 H3 H4] Hn Hf Hg. constructor.
  - intros t Ht. destruct (H1 t Ht). split; [assumption|lia].
  - exact H2.
  - intros t a Hin m Hm. eapply H3; eauto.
  - intros t a Hin. apply Hg. eapply H4; eauto.
Qed.

Lemma sess_ok_subl w k l l' : SessOK w k l -> subl l' l -> SessOK w k l'.
Proof.
  intros [H1 H2 H3 H4] Hs. constructor.
  - intros t Ht. apply H1. unfold tags_of in *. eapply subl_in; [|exact Ht]. apply subl_somes, subl_map, Hs.
  - eapply subl_sorted; [|exact H2]. apply subl_map. unfold tags_of. apply subl_somes, subl_map, Hs.
  - intros t a Hin. eapply H3. eapply subl_in; eassumption.
  - intros t a Hin. eapply H4. eapply subl_in; eassumption.
Qed.

Lemma tdelete_subl l off : subl (tdelete l off) l.
Proof.
  unfold tdelete. destruct (off =? 0); [apply subl_refl|]. destruct (0 <? off); [apply subl_remove_nth|].
  destruct (_ <? 0); [apply subl_refl|apply subl_remove_nth].
Qed.

Lemma file_tags_app w more :
  somes (map fst (tfile w ++ more)) = file_tags w ++ somes (map fst more).
Proof. unfold file_tags. rewrite map_app, somes_app. reflexivity. Qed.

Lemma batch_tags (tsf : bool) (l : list titem) :
  somes (map fst (map (fun x : titem => (fst x, (fst (fst (snd x)), if tsf then snd (fst (snd x)) else @None Z))) l)) = tags_of l.
Proof. unfold tags_of. rewrite map_map. reflexivity. Qed.

Lemma in_unsaved l x : In x (t_unsaved l) <-> In x l /\ snd (snd x) = true.
Proof. unfold t_unsaved. apply filter_In. Qed.

Lemma in_clear l t a b : In (Some t, (a, b)) (t_clear l) -> b = false /\ exists b', In (Some t, (a, b')) l.
Proof.
  unfold t_clear. rewrite in_map_iff. intros [[o [a' b']] [E H]]. cbn in E. inversion E; subst.
  split; [reflexivity|]. eexists; eassumption.
Qed.

Lemma tags_clear l : tags_of (t_clear l) = tags_of l.
Proof. unfold tags_of, t_clear. rewrite map_map. reflexivity. Qed.

Theorem tstep_inv w o : INV w -> INV (tstep w o).
Proof.
  intros [Hb Hs Hk]. destruct o as [sid c now|sid|sid|sid| |sid off|sid|]; cbn [tstep].
  - (* Add *)
    destruct (trim c) as [|c0 c'] eqn:Et; [constructor; assumption|].
    constructor; cbn [tfile tsess tnext]; unfold file_tags; cbn [tfile].
    + intros t Ht. specialize (Hb t Ht). lia.
    + exact Hs.
    + intros k l Hn. destruct (Nat.eq_dec k sid) as [->|Hne].
      * rewrite nth_error_update_nth_eq in Hn. destruct (nth_error (tsess w) sid) as [l0|] eqn:E0; [|discriminate].
        cbn in Hn. inversion Hn; subst l. clear Hn. destruct (Hk sid l0 E0) as [H1 H2 H3 H4].
        constructor; cbn [tnext]; unfold file_tags; cbn [tfile].
        -- intros t Ht. rewrite tags_of_app in Ht. apply in_app_or in Ht as [Ht|Ht].
           ++ destruct (H1 t Ht). split; [assumption|lia].
           ++ cbn in Ht. destruct Ht as [<-|[]]. cbn. split; [reflexivity|lia].
        -- rewrite tags_of_app, map_app. apply sorted_app; [exact H2|repeat constructor|].
           intros x y Hx Hy. cbn in Hy. destruct Hy as [<-|[]]. apply in_map_iff in Hx as [t [<- Ht]].
           apply (H1 t Ht).
        -- intros t a Hin m Hm. apply in_app_or in Hin as [Hin|Hin]; [eapply H3; eauto|].
           cbn in Hin. destruct Hin as [Hin|[]]. inversion Hin; subst. cbn. apply (Hb (sid, m) Hm).
        -- intros t a Hin. apply in_app_or in Hin as [Hin|Hin]; [eapply H4; eauto|].
           cbn in Hin. destruct Hin as [Hin|[]]. inversion Hin.
      * rewrite nth_error_update_nth_ne in Hn by exact Hne.
        eapply sess_ok_weaken; [apply Hk; exact Hn| cbn; lia | auto | auto].
  - (* Save *)
    destruct (nth_error (tsess w) sid) as [l0|] eqn:E0; [|constructor; assumption].
    destruct (Hk sid l0 E0) as [H1 H2 H3 H4].
    match goal with |- INV ?W => assert (Hft : file_tags W = file_tags w ++ tags_of (t_unsaved l0)) end.
    { unfold file_tags at 1. cbn [tfile]. rewrite file_tags_app, batch_tags. reflexivity. }
    assert (Hsub : subl (tags_of (t_unsaved l0)) (tags_of l0)).
    { unfold tags_of. apply subl_somes, subl_map, subl_filter. }
    assert (Hun : forall t, In t (tags_of (t_unsaved l0)) -> exists a, In (Some t, (a, true)) l0).
    { intros t Ht. apply in_tags_of in Ht as [[a b] Hin]. apply in_unsaved in Hin as [Hin Hb']. cbn in Hb'. subst b. eauto. }
    constructor; cbn [tnext tsess].
    + intros t Ht. rewrite Hft in Ht. apply in_app_or in Ht as [Ht|Ht]; [auto|].
      apply (H1 t). eapply subl_in; eassumption.
    + intros k. rewrite Hft, serials_app. destruct (Nat.eq_dec k sid) as [->|Hne].
      * apply sorted_app; [apply Hs| |].
        -- rewrite serials_same by (intros t Ht; apply (H1 t); eapply subl_in; eassumption).
           eapply subl_sorted; [apply subl_map, Hsub|exact H2].
        -- intros x y Hx Hy. apply in_serials in Hx, Hy. destruct (Hun _ Hy) as [a Ha].
           apply (H3 _ _ Ha x Hx).
      * rewrite (serials_other k (tags_of (t_unsaved l0))), app_nil_r; [apply Hs|].
        intros t Ht. assert (fst t = sid) by (apply (H1 t); eapply subl_in; eassumption). congruence.
    + intros k l Hn. destruct (Nat.eq_dec k sid) as [->|Hne].
      * rewrite nth_error_update_nth_eq, E0 in Hn. cbn in Hn. inversion Hn; subst l. clear Hn.
        constructor; cbn [tnext]; rewrite ?Hft.
        -- rewrite tags_clear. exact H1.
        -- rewrite tags_clear. exact H2.
        -- intros t a Hin. apply in_clear in Hin as [Hf _]. discriminate.
        -- intros t a Hin. apply in_clear in Hin as [_ [b' Hin]]. apply in_or_app. destruct b'.
           ++ right. apply in_tags_of. exists (a, true). apply in_unsaved. split; [exact Hin|reflexivity].
           ++ left. eapply H4; eauto.
      * rewrite nth_error_update_nth_ne in Hn by exact Hne.
        eapply sess_ok_weaken; [apply Hk; exact Hn| cbn; lia | | ].
        -- intros m Hm. rewrite Hft in Hm. apply in_app_or in Hm as [Hm|Hm]; [exact Hm|].
           exfalso. assert (fst (k, m) = sid) by (apply (H1 (k, m)); eapply subl_in; eassumption). cbn in *. congruence.
        -- intros t Ht. rewrite Hft. apply in_or_app. left. exact Ht.
  - (* SaveFail *) constructor; assumption.
  - (* Write *) constructor; assumption.
  - (* NewSession *)
    constructor; cbn [tfile tsess tnext]; unfold file_tags; cbn [tfile]; try assumption.
    intros k l Hn. destruct (Nat.lt_ge_cases k (length (tsess w))) as [Hlt|Hge].
    + rewrite nth_error_app1 in Hn by exact Hlt. eapply sess_ok_weaken; [apply Hk; exact Hn|cbn; lia|auto|auto].
    + rewrite nth_error_app2 in Hn by exact Hge. destruct (k - length (tsess w))%nat as [|j]; [|destruct j; discriminate].
      cbn in Hn. inversion Hn; subst l. clear Hn.
      assert (Hnone : tags_of (map (fun x : option tag * (str * option Z) => (@None tag, (fst (snd x), snd (snd x), false))) (tfile w)) = []).
      { unfold tags_of. rewrite map_map. cbn. induction (tfile w); [reflexivity|assumption]. }
      constructor.
      * rewrite Hnone. intros t [].
      * rewrite Hnone. constructor.
      * intros t a Hin. apply in_map_iff in Hin as [x [E _]]. inversion E.
      * intros t a Hin. apply in_map_iff in Hin as [x [E _]]. inversion E.
  - (* Delete *)
    constructor; cbn [tfile tsess tnext]; unfold file_tags; cbn [tfile]; try assumption.
    intros k l Hn. destruct (Nat.eq_dec k sid) as [->|Hne].
    + rewrite nth_error_update_nth_eq in Hn. destruct (nth_error (tsess w) sid) as [l0|] eqn:E0; [|discriminate].
      cbn in Hn. inversion Hn; subst l. eapply sess_ok_subl; [|apply tdelete_subl].
      eapply sess_ok_weaken; [apply Hk; exact E0|cbn; lia|auto|auto].
    + rewrite nth_error_update_nth_ne in Hn by exact Hne.
      eapply sess_ok_weaken; [apply Hk; exact Hn|cbn; lia|auto|auto].
  - (* Clear *)
    constructor; cbn [tfile tsess tnext]; unfold file_tags; cbn [tfile]; try assumption.
    intros k l Hn. destruct (Nat.eq_dec k sid) as [->|Hne].
    + rewrite nth_error_update_nth_eq in Hn. destruct (nth_error (tsess w) sid) as [l0|] eqn:E0; [|discriminate].
      cbn in Hn. inversion Hn; subst l. constructor; cbn; try (intros; contradiction). constructor.
    + rewrite nth_error_update_nth_ne in Hn by exact Hne.
      eapply sess_ok_weaken; [apply Hk; exact Hn|cbn; lia|auto|auto].
  - constructor; cbn [tfile tsess tnext]; unfold file_tags; cbn [tfile]; try assumption.
    intros k l Hn. eapply sess_ok_weaken; [apply Hk; exact Hn|cbn; lia|auto|auto].
Qed.

(** Tags are ghosts: erasing them gives exactly the abstract machine of Hist/Spec.v. *)
Lemma map_update_nth' {A B} (f : A -> B) (g : A -> A) (g' : B -> B) n : forall l,
  (forall x, f (g x) = g' (f x)) -> map f (update_nth n g l) = update_nth n g' (map f l).
Proof. induction n as [|n IH]; intros [|x l] H; cbn; try reflexivity; [rewrite H|rewrite IH by exact H]; reflexivity. Qed.

Lemma erase_unsaved l : map snd (t_unsaved l) = a_unsaved (map snd l).
Proof.
  unfold t_unsaved, a_unsaved. induction l as [|x l IH]; [reflexivity|]. simpl.
  destruct x as [o [a b]]; simpl in *. destruct b; simpl; [f_equal|]; exact IH.
Qed.

Lemma erase_delete l off : map snd (tdelete l off) = adelete (map snd l) off.
Proof.
  unfold tdelete, adelete. rewrite map_length. destruct (off =? 0); [reflexivity|].
  assert (R : forall n (l : list titem), map snd (remove_nth n l) = remove_nth n (map snd l)).
  { induction n as [|n IH]; intros [|x l']; cbn; try reflexivity. rewrite IH. reflexivity. }
  destruct (0 <? off); [apply R|]. destruct (_ <? 0); [reflexivity|apply R].
Qed.

Theorem tstep_erase w o : is_write o = false -> terase (tstep w o) = astep (terase w) o.
Proof.
  intros Hnw. destruct o as [sid c now|sid|sid|sid| |sid off|sid|]; try discriminate Hnw; cbn [tstep astep].
  - destruct (trim c) as [|c0 c'] eqn:Et; [reflexivity|].
    unfold terase, with_sess; cbn [tfile tsess tts afile asess ats]. f_equal.
    apply map_update_nth'. intros l. rewrite map_app. reflexivity.
  - unfold terase at 2; cbn [asess]. rewrite nth_error_map.
    destruct (nth_error (tsess w) sid) as [l|]; cbn [option_map]; [|reflexivity].
    unfold terase; cbn [tfile tsess tts afile asess ats]. f_equal.
    + rewrite map_app. f_equal. rewrite <- erase_unsaved, !map_map. reflexivity.
    + apply map_update_nth'. intros l'. unfold t_clear, a_clear_flags. rewrite !map_map. reflexivity.
  - reflexivity.
  - unfold terase, with_sess; cbn [tfile tsess tts afile asess ats]. f_equal.
    rewrite map_app. f_equal. cbn [map]. f_equal. rewrite !map_map. reflexivity.
  - unfold terase, with_sess; cbn [tfile tsess tts afile asess ats]. f_equal.
    apply map_update_nth'. intros l. apply erase_delete.
  - unfold terase, with_sess; cbn [tfile tsess tts afile asess ats]. f_equal.
    apply map_update_nth'. intros l. reflexivity.
  - reflexivity.
Qed.

Definition trun (w : tworld) (ops : list op) : tworld := fold_left tstep ops w.
Definition tinit (f : list (str * option Z)) : tworld :=
  {| tfile := map (fun x => (None, x)) f; tsess := []; tts := false; tnext := 0 |}.

Lemma tinit_inv f : INV (tinit f).
Proof.
  assert (E : file_tags (tinit f) = []).
  { unfold file_tags, tinit; cbn [tfile]. rewrite map_map. cbn. induction f; [reflexivity|assumption]. }
  constructor; rewrite ?E.
  - intros t [].
  - intros k. constructor.
  - intros k l Hn. destruct k; discriminate.
Qed.

Lemma trun_inv ops : forall w, INV w -> INV (trun w ops).
Proof. induction ops as [|o ops IH]; intros w H; [exact H|]. apply IH, tstep_inv, H. Qed.

Definition no_write (ops : list op) : Prop := Forall (fun o => is_write o = false) ops.

Lemma trun_erase ops : forall w, no_write ops -> terase (trun w ops) = arun (terase w) ops.
Proof.
  induction ops as [|o ops IH]; intros w Hn; [reflexivity|]. unfold trun, arun in *. cbn [fold_left].
  inversion Hn; subst. rewrite IH by assumption. rewrite tstep_erase by assumption. reflexivity.
Qed.

(** Exactly once, in recording order, nothing lost — for every history from any initial file. *)
Theorem saved_exactly_once_in_order f ops :
  let w := trun (tinit f) ops in
  NoDup (file_tags w) /\
  (forall k, StronglySorted lt (serials_of k (file_tags w))) /\
  (forall k l t a, nth_error (tsess w) k = Some l -> In (Some t, (a, false)) l -> In t (file_tags w)) /\
  (forall k l t a, nth_error (tsess w) k = Some l -> In (Some t, (a, true)) l -> ~ In t (file_tags w)).
Proof.
  cbv zeta. pose proof (trun_inv ops _ (tinit_inv f)) as [Hb Hs Hk].
  split; [apply sorted_serials_nodup, Hs|]. split; [exact Hs|]. split.
  - intros k l t a Hn Hin. eapply so_saved; [apply Hk; exact Hn|exact Hin].
  - intros k l [k' m] a Hn Hin Hf. destruct (Hk k l Hn) as [H1 _ H3 _].
    assert (k' = k). { apply (H1 (k', m)). apply in_tags_of. eauto. } subst k'.
    specialize (H3 _ _ Hin m Hf). cbn in H3. lia.
Qed.
