(** C20 — model of brush-core/src/history.rs and shell/history.rs.
    [hist] merges the Rust [items] vector and [id_map] (ids are unique keys, so the pair
    is a list of items in order). The file is a list of lines (every line brush writes is
    newline-terminated). *)
From BV Require Import Base.Prelude.

Record item := { id : Z; cmd : str; ts : option Z; dirty : bool }.
Record hist := { items : list item; next_id : Z }.

Definition empty_hist : hist := {| items := []; next_id := 0 |}.

(** [History::add]: the id is overwritten with [next_id]. *)
Definition hadd (h : hist) (c : str) (t : option Z) (d : bool) : hist :=
  {| items := items h ++ [{| id := next_id h; cmd := c; ts := t; dirty := d |}];
     next_id := next_id h + 1 |}.

(** chrono's [DateTime::from_timestamp(secs, 0)] is [None] outside this range. *)
Definition chrono_min : Z := -8334601228800.
Definition chrono_max : Z := 8210266876799.
Definition from_timestamp (z : Z) : option Z :=
  if (chrono_min <=? z) && (z <=? chrono_max) then Some z else None.

(** [line.strip_prefix("#")]. *)
Definition strip_hash (l : str) : option str :=
  match l with
  | c :: r => if N.eqb c HASH then Some r else None
  | [] => None
  end.

(** One step of the loop of [History::import]. *)
Definition import_line (st : hist * option Z) (line : str) : hist * option Z :=
  let '(h, nts) := st in
  match strip_hash line with
  | Some comment =>
      match parse_i64 (trim comment) with
      | Some z => (h, from_timestamp z)
      | None => (h, None)
      end
  | None => (hadd h line nts false, None)
  end.

Definition import (f : list str) : hist := fst (fold_left import_line f (empty_hist, None)).

(** [Shell::add_to_history] (the clock is an input). *)
Definition add_to_history (h : hist) (c : str) (now : Z) : hist :=
  let c' := trim c in
  match c' with
  | [] => h
  | _ => hadd h c' (Some now) true
  end.

(** [History::remove_nth_item]. *)
Fixpoint remove_nth {A} (n : nat) (l : list A) : list A :=
  match l, n with
  | [], _ => []
  | _ :: l', O => l'
  | x :: l', S n' => x :: remove_nth n' l'
  end.
Definition hremove_nth (h : hist) (n : nat) : hist :=
  {| items := remove_nth n (items h); next_id := next_id h |}.

(** [history -d offset] of the builtin: 1-based positive, negative counts from the end. *)
Definition hdelete (h : hist) (off : Z) : hist :=
  if off =? 0 then h
  else if 0 <? off then hremove_nth h (Z.to_nat (off - 1))
  else let idx := Z.of_nat (length (items h)) + off in
       if idx <? 0 then h else hremove_nth h (Z.to_nat idx).

Definition hclear (h : hist) : hist := {| items := []; next_id := next_id h |}.

(** [History::flush] with append = true, unsaved_items_only = true: the lines written. *)
Definition flush_lines (write_ts : bool) (its : list item) : list str :=
  flat_map (fun it =>
    if dirty it then
      (match ts it with
       | Some t => if write_ts then [HASH :: show_Z t] else []
       | None => []
       end) ++ [cmd it]
    else []) its.

Definition mark_saved (its : list item) : list item :=
  map (fun it => {| id := id it; cmd := cmd it; ts := ts it; dirty := false |}) its.

(** [History::flush] with append = false, unsaved_items_only = false (`history -w`): every item
    is written, the file is truncated first, and no dirty flag changes. *)
Definition mark_dirty (its : list item) : list item :=
  map (fun it => {| id := id it; cmd := cmd it; ts := ts it; dirty := true |}) its.
Definition write_lines (write_ts : bool) (its : list item) : list str := flush_lines write_ts (mark_dirty its).

Definition hflush (h : hist) : hist := {| items := mark_saved (items h); next_id := next_id h |}.

(** The world: one history file shared by any number of live sessions. *)
Inductive op :=
| Add (sid : nat) (c : str) (now : Z)
| Save (sid : nat)
| SaveFail (sid : nat)   (* a save whose write fails (full disk): nothing is written *)
| Write (sid : nat)      (* `history -w`: the file is rewritten (truncated) with every item of the session *)
| NewSession
| Delete (sid : nat) (off : Z)
| Clear (sid : nat)
| ToggleTs.

Definition is_write (o : op) : bool := match o with Write _ => true | _ => false end.

Record world := { file : list str; sessions : list hist; tsflag : bool }.

Definition init_world (f : list str) : world := {| file := f; sessions := []; tsflag := false |}.

Fixpoint update_nth {A} (n : nat) (f : A -> A) (l : list A) : list A :=
  match l, n with
  | [], _ => []
  | x :: l', O => f x :: l'
  | x :: l', S n' => x :: update_nth n' f l'
  end.

Definition step (w : world) (o : op) : world :=
  match o with
  | Add sid c now =>
      {| file := file w; sessions := update_nth sid (fun h => add_to_history h c now) (sessions w);
         tsflag := tsflag w |}
  | Save sid =>
      match nth_error (sessions w) sid with
      | Some h => {| file := file w ++ flush_lines (tsflag w) (items h);
                     sessions := update_nth sid hflush (sessions w); tsflag := tsflag w |}
      | None => w
      end
  | SaveFail _ => w   (* [flush] returns the error before any item is marked saved *)
  | Write sid =>
      match nth_error (sessions w) sid with
      | Some h => {| file := write_lines (tsflag w) (items h); sessions := sessions w; tsflag := tsflag w |}
      | None => w
      end
  | NewSession =>
      {| file := file w; sessions := sessions w ++ [import (file w)]; tsflag := tsflag w |}
  | Delete sid off =>
      {| file := file w; sessions := update_nth sid (fun h => hdelete h off) (sessions w);
         tsflag := tsflag w |}
  | Clear sid =>
      {| file := file w; sessions := update_nth sid hclear (sessions w); tsflag := tsflag w |}
  | ToggleTs => {| file := file w; sessions := sessions w; tsflag := negb (tsflag w) |}
  end.

Definition run (w : world) (ops : list op) : world := fold_left step ops w.
