(** C20 — the abstract specification: the file is just the list of saved commands (with the
    timestamp each was saved with); a session is the list of its commands, each flagged
    "not yet saved". Saving appends exactly the unsaved ones, in order, and clears the flags. *)
From BV Require Import Base.Prelude Hist.Model.

Definition aitem := (str * option Z * bool)%type.       (* command, timestamp, unsaved? *)
Record aworld := { afile : list (str * option Z); asess : list (list aitem); ats : bool }.

Definition a_unsaved (l : list aitem) : list aitem := filter (fun x => snd x) l.
Definition a_clear_flags (l : list aitem) : list aitem := map (fun x => (fst x, false)) l.

Definition adelete (l : list aitem) (off : Z) : list aitem :=
  if off =? 0 then l
  else if 0 <? off then remove_nth (Z.to_nat (off - 1)) l
  else let idx := Z.of_nat (length l) + off in
       if idx <? 0 then l else remove_nth (Z.to_nat idx) l.

Definition with_sess (w : aworld) (s : list (list aitem)) : aworld :=
  {| afile := afile w; asess := s; ats := ats w |}.

Definition astep (w : aworld) (o : op) : aworld :=
  match o with
  | Add sid c now =>
      match trim c with
      | [] => w
      | c' => with_sess w (update_nth sid (fun l => l ++ [(c', Some now, true)]) (asess w))
      end
  | Save sid =>
      match nth_error (asess w) sid with
      | Some l =>
          {| afile := afile w ++ map (fun x => (fst (fst x), if ats w then snd (fst x) else None)) (a_unsaved l);
             asess := update_nth sid a_clear_flags (asess w); ats := ats w |}
      | None => w
      end
  | SaveFail _ => w
  | Write sid =>
      match nth_error (asess w) sid with
      | Some l => {| afile := map (fun x => (fst (fst x), if ats w then snd (fst x) else None)) l;
                     asess := asess w; ats := ats w |}
      | None => w
      end
  | NewSession => with_sess w (asess w ++ [map (fun x => (fst x, snd x, false)) (afile w)])
  | Delete sid off => with_sess w (update_nth sid (fun l => adelete l off) (asess w))
  | Clear sid => with_sess w (update_nth sid (fun _ => []) (asess w))
  | ToggleTs => {| afile := afile w; asess := asess w; ats := negb (ats w) |}
  end.

Definition arun (w : aworld) (ops : list op) : aworld := fold_left astep ops w.
