(** C09 — model of brush-core/src/env.rs: [ShellEnvironment] as a stack of scopes.

    The head of the list is the top of the stack (Rust keeps the top at the end of the Vec;
    every Rust loop is [.iter().rev()]). A scope's map is an association list with unique
    keys; iteration order of the Rust [HashMap] is never observable (every consumer sorts or
    builds a set), so dumps are compared sorted by name.

    Not modelled: [entry_count] (capacity hint only), [export_variables_on_modification]
    (`set -a`; assumed off). *)
From Coq Require Import String.
From BV Require Import Base.Prelude Base.Codec Scope.Vars.

Inductive kind := KLocal | KGlobal | KCommand.
Definition kind_eqb (a b : kind) : bool :=
  match a, b with KLocal, KLocal | KGlobal, KGlobal | KCommand, KCommand => true | _, _ => false end.
Definition is_local (k : kind) : bool := kind_eqb k KLocal.

Definition vmap := list (str * var).
Definition scope := (kind * vmap)%type.
Definition env := list scope.

Definition env_new : env := [(KGlobal, [])].

(** ** ShellVariableMap *)
Fixpoint mget (n : str) (m : vmap) : option var :=
  match m with
  | [] => None
  | (k, v) :: m' => if str_eqb n k then Some v else mget n m'
  end.
Fixpoint mset (n : str) (v : var) (m : vmap) : vmap :=
  match m with
  | [] => [(n, v)]
  | (k, v') :: m' => if str_eqb n k then (k, v) :: m' else (k, v') :: mset n v m'
  end.
Fixpoint mdel (n : str) (m : vmap) : vmap :=
  match m with
  | [] => []
  | (k, v') :: m' => if str_eqb n k then m' else (k, v') :: mdel n m'
  end.

(** ** Lookup policies ([get_using_policy] / [get_mut_using_policy] / [get] / [get_mut]) *)
Inductive policy := PAnywhere | POnlyGlobal | POnlyCurLocal | POnlyLocal.

Definition admits (p : policy) (k : kind) (local_count : nat) : bool :=
  match p with
  | PAnywhere => true
  | POnlyGlobal => kind_eqb k KGlobal
  | POnlyCurLocal => is_local k && Nat.eqb local_count 1
  | POnlyLocal => is_local k
  end.
Definition stops_after (p : policy) (k : kind) : bool :=
  match p with POnlyCurLocal => is_local k | _ => false end.

(** index (0 = top) of the scope in which the policy finds the name *)
Fixpoint find_pol (p : policy) (lc : nat) (n : str) (e : env) : option nat :=
  match e with
  | [] => None
  | (k, m) :: e' =>
      let lc' := if is_local k then S lc else lc in
      if admits p k lc' then
        match mget n m with
        | Some _ => Some O
        | None => if stops_after p k then None else option_map S (find_pol p lc' n e')
        end
      else option_map S (find_pol p lc' n e')   (* `continue` *)
  end.

Definition scope_get (i : nat) (n : str) (e : env) : option var :=
  match nth_error e i with Some (_, m) => mget n m | None => None end.
Definition scope_kind (i : nat) (e : env) : option kind :=
  match nth_error e i with Some (k, _) => Some k | None => None end.

Fixpoint scope_upd (i : nat) (f : vmap -> vmap) (e : env) : env :=
  match e, i with
  | [], _ => []
  | (k, m) :: e', O => (k, f m) :: e'
  | s :: e', S i' => s :: scope_upd i' f e'
  end.
Definition scope_set (i : nat) (n : str) (v : var) (e : env) : env := scope_upd i (mset n v) e.
Definition scope_del (i : nat) (n : str) (e : env) : env := scope_upd i (mdel n) e.

Definition get_pol (p : policy) (n : str) (e : env) : option var :=
  match find_pol p O n e with Some i => scope_get i n e | None => None end.
Definition get (n : str) (e : env) : option var := get_pol PAnywhere n e.

(** ** Scope stack *)
Definition push_scope (k : kind) (e : env) : env := (k, []) :: e.
(** [pop_scope]: the scope is popped even when its type is not the expected one *)
Definition pop_scope (k : kind) (e : env) : env * option err :=
  match e with
  | (k', _) :: e' => (e', if kind_eqb k k' then None else Some EScope)
  | [] => ([], Some EScope)
  end.

(** number of Local scopes among the first [S i] scopes *)
Fixpoint locals_upto (i : nat) (e : env) : nat :=
  match e with
  | [] => O
  | (k, _) :: e' =>
      let c := if is_local k then 1%nat else O in
      match i with O => c | S i' => (c + locals_upto i' e')%nat end
  end.
Definition is_cur_local (i : nat) (e : env) : bool :=
  match scope_kind i e with
  | Some k => is_local k && Nat.eqb (locals_upto i e) 1
  | None => false
  end.

Definition tombstone : var := new_var (VUnset UUntyped).

(** [ShellEnvironment::unset] *)
Definition env_unset (n : str) (e : env) : env * res bool :=
  match find_pol PAnywhere O n e with
  | None => (e, Ok false)
  | Some i =>
      match scope_get i n e with
      | Some v =>
          if v_ro v then (e, Err EReadonly)
          else if is_cur_local i e then (scope_set i n tombstone e, Ok true)
          else (scope_del i n e, Ok true)
      | None => (e, Ok false)
      end
  end.

(** [ShellEnvironment::unset_index] *)
Definition env_unset_index (n index : str) (e : env) : env * res bool :=
  match find_pol PAnywhere O n e with
  | None => (e, Ok false)
  | Some i =>
      match scope_get i n e with
      | Some v => match unset_index v index with
                  | Ok (v', b) => (scope_set i n v' e, Ok b)
                  | Err er => (e, Err er)
                  end
      | None => (e, Ok false)
      end
  end.

(** first scope (from the top) of the given kind *)
Fixpoint find_kind (k : kind) (e : env) : option nat :=
  match e with
  | [] => None
  | (k', _) :: e' => if kind_eqb k' k then Some O else option_map S (find_kind k e')
  end.

(** [ShellEnvironment::add] *)
Definition env_add (n : str) (v : var) (target : kind) (e : env) : env * option err :=
  match find_kind target e with
  | Some i => (scope_set i n v e, None)
  | None => (e, Some EScope)
  end.

(** The [updater] closures that occur in the code base. *)
Inductive updater := UpdNone | UpdExport | UpdUnexport.
Definition run_updater (u : updater) (v : var) : var :=
  match u with UpdNone => v | UpdExport => set_exp v true | UpdUnexport => set_exp v false end.

(** [ShellEnvironment::update_or_add] *)
Definition update_or_add (n : str) (l : vlit) (u : updater) (p : policy) (creating : kind) (e : env)
  : env * option err :=
  match find_pol p O n e with
  | Some i =>
      match scope_get i n e with
      | Some v =>
          match assign v l false with
          | (v', None) => (scope_set i n (run_updater u v') e, None)
          | (v', Some er) => (scope_set i n v' e, Some er)
          end
      | None => (e, Some EOther)
      end
  | None =>
      match assign tombstone l false with
      | (v', None) => env_add n (run_updater u v') creating e
      | (_, Some er) => (e, Some er)
      end
  end.

(** [ShellEnvironment::update_or_add_array_element] *)
Definition update_or_add_elem (n index value : str) (p : policy) (creating : kind) (e : env)
  : env * option err :=
  match find_pol p O n e with
  | Some i =>
      match scope_get i n e with
      | Some v =>
          match assign_at_index v index value false with
          | (v', er) => (scope_set i n v' e, er)
          end
      | None => (e, Some EOther)
      end
  | None =>
      match assign tombstone (LArray [(Some index, value)]) false with
      | (v', None) => env_add n v' creating e
      | (_, Some er) => (e, Some er)
      end
  end.

(** ** [iter_exported] and the child environment built by [compose_std_command] *)
Fixpoint exported_of (m : vmap) : vmap :=
  match m with
  | [] => []
  | (k, v) :: m' => if v_exp v then (k, v) :: exported_of m' else exported_of m'
  end.

(** fold the scopes from the top; keep the first exported occurrence of a name *)
Fixpoint merge_new (acc add : vmap) : vmap :=
  match add with
  | [] => acc
  | (k, v) :: add' => match mget k acc with
                      | Some _ => merge_new acc add'
                      | None => merge_new (acc ++ [(k, v)]) add'
                      end
  end.
Fixpoint iter_exported_go (acc : vmap) (e : env) : vmap :=
  match e with
  | [] => acc
  | (_, m) :: e' => iter_exported_go (merge_new acc (exported_of m)) e'
  end.
Definition iter_exported (e : env) : vmap := iter_exported_go [] e.

Fixpoint child_env_of (l : vmap) : list (str * str) :=
  match l with
  | [] => []
  | (k, v) :: l' => if is_set (v_val v) then (k, scalar_view (v_val v)) :: child_env_of l'
                    else child_env_of l'
  end.
Definition child_env (e : env) : list (str * str) := child_env_of (iter_exported e).

(** [ShellEnvironment::is_set] *)
Definition env_is_set (n : str) (e : env) : bool :=
  match get n e with Some v => is_set (v_val v) | None => false end.
