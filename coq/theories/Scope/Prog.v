(** C09 — the writers of the shell, each mapped to the env.rs/variables.rs entry it uses, and
    an interpreter for the property's action grammar.

    Mapping (Rust -> model):
      interp.rs apply_assignment                      -> [apply_assignment]
      interp.rs execute_command (Command scope, guard) + commands.rs SimpleCommand::execute*
        (post_execute pop on builtin / function / external / not found)   -> [exec_cmd]
      commands.rs invoke_shell_function + shell/callstack.rs enter/leave  -> [CFunc] in [exec_cmd]
      declare.rs process_declaration (declare / local / readonly)         -> [do_declare]
      export.rs process_decl                                              -> [do_export]
      unset.rs (name / name[index])                                       -> [env_unset], [env_unset_index]
      for-variable, (( n = z )), ${n:=v}, printf -v, read, read -a, mapfile, getopts targets
         = update_or_add(name, literal, |_| Ok, Anywhere, Global)         -> [ASet] / [BSet]
      (( n[i] = z )), ${n[i]:=v}, mapfile -O = update_or_add_array_element  -> [ASetElem]
      commands.rs compose_std_command                                     -> [child_env]

    Error flow as in the interpreter: an error in a bare assignment, a `for` variable, an
    arithmetic assignment or a `${n:=v}` expansion propagates (Rust `?`) to the enclosing
    function call (or the top level) — [Abort]; an error inside a builtin or in a temporary
    assignment prefix only fails that simple command. *)
From Coq Require Import String.
From BV Require Import Base.Prelude Base.Codec Scope.Vars Scope.Env.

(** ** interp.rs apply_assignment *)
Definition apply_assignment (n : str) (index : option str) (l : vlit) (append export : bool)
    (required : option kind) (creation : kind) (e : env) : env * option err :=
  let create :=
    match
      (match index, l with
       | Some ix, LScalar s => do m <- idx_update [] [(Some ix, s)] ;; Ok (VIdx m)
       | Some _, LArray _ => Err EUnimp
       | None, LScalar s => Ok (VStr s)
       | None, LArray items => do m <- idx_update [] items ;; Ok (VIdx m)
       end)
    with
    | Ok v => env_add n (set_exp (new_var v) export) creation e
    | Err er => (e, Some er)
    end in
  match find_pol PAnywhere O n e with
  | Some i =>
      match scope_get i n e, scope_kind i e with
      | Some v, Some k =>
          if match required with None => true | Some rk => kind_eqb k rk end then
            match index, l with
            | Some ix, LScalar s =>
                match assign_at_index v ix s append with
                | (v', None) => (scope_set i n (if export then set_exp v' true else v') e, None)
                | (v', Some er) => (scope_set i n v' e, Some er)
                end
            | Some _, LArray _ => (e, Some EUnimp)
            | None, _ =>
                match assign v l append with
                | (v', None) => (scope_set i n (if export then set_exp v' true else v') e, None)
                | (v', Some er) => (scope_set i n v' e, Some er)
                end
            end
          else create
      | _, _ => create
      end
  | None => create
  end.

(** ** declare / local / readonly (declare.rs) *)
Inductive dverb := DDeclare | DLocal | DReadonly.

Record dflags := mkFlags {
  f_a : bool; f_A : bool;            (* -a / -A given *)
  f_i : option bool; f_c : option bool; f_l : option bool; f_u : option bool;
  f_x : option bool; f_r : option bool;
  f_g : bool
}.

Inductive decl :=
| DName (n : str)                       (* declare n *)
| DNameIdx (n : str)                    (* declare n[i]   (index ignored) *)
| DScalar (n : str) (v : str)           (* declare n=v *)
| DArray (n : str) (items : list (option str * str))   (* declare n=(...) *)
| DElem (n ix v : str).                 (* declare n[ix]=v *)

Definition decl_name (d : decl) : str :=
  match d with DName n | DNameIdx n | DScalar n _ | DArray n _ | DElem n _ _ => n end.
(** (initial value, assigned_index.is_some(), name_is_array) *)
Definition decl_parts (d : decl) : option vlit * bool * bool :=
  match d with
  | DName _ => (None, false, false)
  | DNameIdx _ => (None, true, true)
  | DScalar _ v => (Some (LScalar v), false, false)
  | DArray _ items => (Some (LArray items), false, true)
  | DElem _ ix v => (Some (LArray [(Some ix, v)]), true, true)
  end.

Definition opt_xf (o : option bool) (t : xform) (x : var) : var :=
  match o with
  | Some true => set_xf x t
  | Some false => match v_xf x, t with
                  | XCap, XCap | XLower, XLower | XUpper, XUpper => set_xf x XNone
                  | _, _ => x
                  end
  | None => x
  end.

(** [apply_attributes_before_update] (integer, capitalize, lowercase, uppercase, exported) *)
Definition attrs_before (f : dflags) (x : var) : var :=
  let x := match f_i f with Some b => set_int x b | None => x end in
  let x := opt_xf (f_c f) XCap x in
  let x := opt_xf (f_l f) XLower x in
  let x := opt_xf (f_u f) XUpper x in
  match f_x f with Some b => set_exp x b | None => x end.

(** [apply_attributes_after_update] *)
Definition attrs_after (f : dflags) (verb : dverb) (x : var) : mres :=
  match verb with
  | DReadonly => mok (set_ro x true)
  | _ => match f_r f with
         | Some true => mok (set_ro x true)
         | Some false => if v_ro x then mfail x EReadonly else mok x
         | None => mok x
         end
  end.

Definition in_function (e : env) : bool := existsb (fun s => is_local (fst s)) e.

(** the steps of [process_declaration] on a variable (existing or fresh) *)
Definition declare_on (f : dflags) (verb : dverb) (init : option vlit) (app : bool) (existing : bool)
    (x : var) : mres :=
  mlift x (if existing && f_A f then to_assoc x else Ok x) (fun x1 =>
  mlift x1 (if existing && f_a f then to_indexed x1 else Ok x1) (fun x2 =>
  let x3 := attrs_before f x2 in
  match (match init with Some l => assign x3 l app | None => mok x3 end) with
  | (x4, Some er) => mfail x4 er
  | (x4, None) => attrs_after f verb x4
  end)).

Definition do_declare (verb : dverb) (f : dflags) (d : decl) (e : env) : env * option err :=
  match verb, in_function e with
  | DLocal, false => (e, Some ENotInFunction)
  | _, inf =>
      let create_local :=
        match verb with
        | DLocal => true
        | DDeclare => inf && negb (f_g f)
        | DReadonly => false
        end in
      let n := decl_name d in
      let '(init, has_index, name_is_array) := decl_parts d in
      let p := if create_local then POnlyCurLocal else PAnywhere in
      match find_pol p O n e with
      | Some i =>
          match scope_get i n e with
          | Some x =>
              let '(x', er) := declare_on f verb init has_index true x in
              (scope_set i n x' e, er)
          | None => (e, Some EOther)
          end
      | None =>
          let ut := if f_a f then UIdx else if f_A f then UAssoc
                    else if name_is_array then UIdx else UUntyped in
          match declare_on f verb init false false (new_var (VUnset ut)) with
          | (x', None) => env_add n x' (if create_local then KLocal else KGlobal) e
          | (_, Some er) => (e, Some er)
          end
      end
  end.

(** ** export (export.rs process_decl) *)
Definition do_export (n : str) (v : option (vlit * bool)) (unexp : bool) (e : env) : env * option err :=
  let mark x := set_exp x (negb unexp) in
  match v with
  | None =>
      match find_pol PAnywhere O n e with
      | Some i => match scope_get i n e with
                  | Some x => (scope_set i n (mark x) e, None)
                  | None => (e, None)
                  end
      | None => (e, None)
      end
  | Some (l, true) =>
      match find_pol PAnywhere O n e with
      | Some i =>
          match scope_get i n e with
          | Some x => match assign x l true with
                      | (x', None) => (scope_set i n (mark x') e, None)
                      | (x', Some er) => (scope_set i n x' e, Some er)
                      end
          | None => (e, Some EOther)
          end
      | None => update_or_add n l (if unexp then UpdUnexport else UpdExport) PAnywhere KGlobal e
      end
  | Some (l, false) => update_or_add n l (if unexp then UpdUnexport else UpdExport) PAnywhere KGlobal e
  end.

(** ** The action grammar *)
Inductive bcmd :=
| BDeclare (verb : dverb) (f : dflags) (d : decl)
| BExport (n : str) (v : option (vlit * bool)) (unexp : bool)
| BUnset (n : str)
| BUnsetElem (n ix : str)
| BSet (n : str) (l : vlit)         (* read n <<< v | printf -v n %s v | read -a n | mapfile n *)
| BProbe (tag : str)               (* harness builtin: dumps the scope stack *)
| BNop.                            (* `:` *)

Definition tassign := (str * option str * vlit * bool)%type.   (* name, index, value, append *)

Inductive action :=
| AAssign (n : str) (ix : option str) (l : vlit) (app : bool)   (* n=v n+=v n=(..) n[i]=v *)
| ASet (n : str) (l : vlit)             (* for n in v | (( n = z )) : update_or_add Anywhere Global *)
| ASetElem (n ix v : str)              (* (( n[ix] = z )) *)
| ADefault (n v : str)                 (* : ${n:=v} *)
| AReturn
| ACmd (temps : list tassign) (c : cmd)
with cmd :=
| CBuiltin (b : bcmd)
| CFunc (body : list action)
| CExternal                            (* /usr/bin/env *)
| CNotFound.

Inductive obs :=
| OState (tag : str) (e : env)         (* a probe: the whole scope stack *)
| OEnv (l : list (str * str)).         (* the environment a child process received *)

Inductive flow := Normal | Abort | Return.

Definition exec_builtin (b : bcmd) (e : env) : env * list obs :=
  match b with
  | BDeclare verb f d => (fst (do_declare verb f d e), [])
  | BExport n v u => (fst (do_export n v u e), [])
  | BUnset n => (fst (env_unset n e), [])
  | BUnsetElem n ix => (fst (env_unset_index n ix e), [])
  | BSet n l => (fst (update_or_add n l UpdNone PAnywhere KGlobal e), [])
  | BProbe t => (e, [OState t e])
  | BNop => (e, [])
  end.

(** prefix assignments of [execute_command]: exported, required and created in the Command scope *)
Fixpoint apply_temps (ts : list tassign) (e : env) : env * option err :=
  match ts with
  | [] => (e, None)
  | (n, ix, l, app) :: ts' =>
      match apply_assignment n ix l app true (Some KCommand) KCommand e with
      | (e', None) => apply_temps ts' e'
      | (e', Some er) => (e', Some er)
      end
  end.

Fixpoint exec (a : action) (e : env) {struct a} : env * list obs * flow :=
  match a with
  | AAssign n ix l app =>
      match apply_assignment n ix l app false None KGlobal e with
      | (e', None) => (e', [], Normal)
      | (e', Some _) => (e', [], Abort)
      end
  | ASet n l =>
      match update_or_add n l UpdNone PAnywhere KGlobal e with
      | (e', None) => (e', [], Normal)
      | (e', Some _) => (e', [], Abort)
      end
  | ASetElem n ix v =>
      match update_or_add_elem n ix v PAnywhere KGlobal e with
      | (e', None) => (e', [], Normal)
      | (e', Some _) => (e', [], Abort)
      end
  | ADefault n v =>
      let null := match get n e with
                  | Some x => match v_val x with
                              | VUnset _ => true
                              | w => match scalar_view w with [] => true | _ => false end
                              end
                  | None => true
                  end in
      if null then
        match update_or_add n (LScalar v) UpdNone PAnywhere KGlobal e with
        | (e', None) => (e', [], Normal)
        | (e', Some _) => (e', [], Abort)
        end
      else (e, [], Normal)
  | AReturn => (e, [], Return)
  | ACmd temps c =>
      let e1 := push_scope KCommand e in
      match apply_temps temps e1 with
      | (e2, Some _) => (fst (pop_scope KCommand e2), [], Normal)     (* ScopeGuard drop *)
      | (e2, None) =>
          match c with
          | CBuiltin b =>
              let '(e3, o) := exec_builtin b e2 in
              (fst (pop_scope KCommand e3), o, Normal)
          | CFunc body =>
              let e3 := push_scope KLocal e2 in
              let '(e4, o, _) :=
                (fix run (l : list action) (e : env) : env * list obs * flow :=
                   match l with
                   | [] => (e, [], Normal)
                   | a :: l' =>
                       let '(e', o1, fl) := exec a e in
                       match fl with
                       | Normal => let '(e'', o2, fl2) := run l' e' in (e'', o1 ++ o2, fl2)
                       | _ => (e', o1, fl)
                       end
                   end) body e3 in
              let e5 := fst (pop_scope KLocal e4) in                   (* leave_function *)
              (fst (pop_scope KCommand e5), o, Normal)                 (* post_execute *)
          | CExternal => (fst (pop_scope KCommand e2), [OEnv (child_env e2)], Normal)
          | CNotFound => (fst (pop_scope KCommand e2), [], Normal)
          end
      end
  end.

Fixpoint exec_list (l : list action) (e : env) : env * list obs * flow :=
  match l with
  | [] => (e, [], Normal)
  | a :: l' =>
      let '(e', o1, fl) := exec a e in
      match fl with
      | Normal => let '(e'', o2, fl2) := exec_list l' e' in (e'', o1 ++ o2, fl2)
      | _ => (e', o1, fl)
      end
  end.

(** a program is a list of top-level steps, each run on its own; the state is observed after
    every step *)
Fixpoint run_steps (steps : list action) (e : env) : list (list obs * env) :=
  match steps with
  | [] => []
  | a :: r => let '(e', o, _) := exec a e in (o, e') :: run_steps r e'
  end.
