(** C09 — model of brush-core/src/variables.rs: [ShellVariable], [ShellValue], [assign],
    [assign_at_index], [unset_index], the array conversions and the update transforms.

    Rust mutators work on [&mut self] and may fail half-way; a mutator is therefore modelled
    as returning the variable *as left behind* together with the error, if any ([mres]).

    Not modelled: [ShellValue::Dynamic], the [trace]/[nameref]/[enumerable] flags (never
    consulted by the writers), non-ASCII case mapping (values with cased non-ASCII letters are
    outside the generated alphabet; non-ASCII characters pass through the model unchanged). *)
From Coq Require Import String.
From BV Require Import Base.Prelude Base.Codec.

(** * Results *)
Inductive err :=
| EReadonly        (* ErrorKind::ReadonlyVariable *)
| EUnimp           (* error::unimp(..) *)
| EIdxRange        (* ArrayIndexOutOfRange *)
| EAssocToIdx      (* ConvertingAssociativeArrayToIndexedArray *)
| EIdxToAssoc      (* ConvertingIndexedArrayToAssociativeArray *)
| ENotArray        (* NotArray *)
| EPanic           (* debug-build panic: integer overflow, non-boundary replace_range *)
| EScope           (* UnexpectedScopeType / MissingScope / MissingScopeForNewVariable *)
| ENotInFunction   (* `local` outside a function *)
| EOther.

Inductive res (A : Type) := Ok (a : A) | Err (e : err).
Arguments Ok {A} a.
Arguments Err {A} e.

Definition bind {A B} (r : res A) (f : A -> res B) : res B :=
  match r with Ok a => f a | Err e => Err e end.
Notation "'do' x <- r ;; k" := (bind r (fun x => k)) (at level 200, x pattern, r at level 100, k at level 200).

(** * Values *)
Inductive uty := UUntyped | UAssoc | UIdx.

Inductive value :=
| VUnset (t : uty)
| VStr (s : str)
| VAssoc (m : list (str * str))     (* BTreeMap<String,String>: sorted by key *)
| VIdx (m : list (Z * str)).        (* BTreeMap<u64,String>: sorted by key *)

Inductive xform := XNone | XLower | XUpper | XCap.

Record var := mkVar {
  v_val : value;
  v_exp : bool;      (* exported *)
  v_ro  : bool;      (* readonly *)
  v_int : bool;      (* treat_as_integer *)
  v_xf  : xform      (* transform_on_update *)
}.

Definition new_var (v : value) : var := mkVar v false false false XNone.
Definition set_val (x : var) (v : value) : var := mkVar v (v_exp x) (v_ro x) (v_int x) (v_xf x).
Definition set_exp (x : var) (b : bool) : var := mkVar (v_val x) b (v_ro x) (v_int x) (v_xf x).
Definition set_ro (x : var) (b : bool) : var := mkVar (v_val x) (v_exp x) b (v_int x) (v_xf x).
Definition set_int (x : var) (b : bool) : var := mkVar (v_val x) (v_exp x) (v_ro x) b (v_xf x).
Definition set_xf (x : var) (t : xform) : var := mkVar (v_val x) (v_exp x) (v_ro x) (v_int x) t.

(** A mutator's result: the variable as left behind, and the error if it failed. *)
Definition mres := (var * option err)%type.
Definition mok (x : var) : mres := (x, None).
Definition mfail (x : var) (e : err) : mres := (x, Some e).
(** lift a pure computation that can only fail without having touched [x] *)
Definition mlift {A} (x : var) (r : res A) (k : A -> mres) : mres :=
  match r with Ok a => k a | Err e => mfail x e end.

Inductive vlit :=
| LScalar (s : str)
| LArray (l : list (option str * str)).

Definition is_set (v : value) : bool := match v with VUnset _ => false | _ => true end.
Definition is_idx_array (v : value) : bool := match v with VIdx _ | VUnset UIdx => true | _ => false end.
Definition is_assoc_array (v : value) : bool := match v with VAssoc _ | VUnset UAssoc => true | _ => false end.
Definition is_array (v : value) : bool := is_idx_array v || is_assoc_array v.

(** * Ordered maps (BTreeMap) as sorted association lists *)
Fixpoint str_ltb (a b : str) : bool :=
  match a, b with
  | [], [] => false
  | [], _ :: _ => true
  | _ :: _, [] => false
  | x :: a', y :: b' => if (x <? y)%N then true else if (y <? x)%N then false else str_ltb a' b'
  end.

Fixpoint sm_insert (k v : str) (m : list (str * str)) : list (str * str) :=
  match m with
  | [] => [(k, v)]
  | (k', v') :: m' =>
      if str_eqb k k' then (k, v) :: m'
      else if str_ltb k k' then (k, v) :: m
      else (k', v') :: sm_insert k v m'
  end.
Fixpoint sm_get (k : str) (m : list (str * str)) : option str :=
  match m with
  | [] => None
  | (k', v') :: m' => if str_eqb k k' then Some v' else sm_get k m'
  end.
Fixpoint sm_remove (k : str) (m : list (str * str)) : list (str * str) :=
  match m with
  | [] => []
  | (k', v') :: m' => if str_eqb k k' then m' else (k', v') :: sm_remove k m'
  end.

Fixpoint zm_insert (k : Z) (v : str) (m : list (Z * str)) : list (Z * str) :=
  match m with
  | [] => [(k, v)]
  | (k', v') :: m' =>
      if k =? k' then (k, v) :: m'
      else if k <? k' then (k, v) :: m
      else (k', v') :: zm_insert k v m'
  end.
Fixpoint zm_get (k : Z) (m : list (Z * str)) : option str :=
  match m with
  | [] => None
  | (k', v') :: m' => if k =? k' then Some v' else zm_get k m'
  end.
Fixpoint zm_remove (k : Z) (m : list (Z * str)) : list (Z * str) :=
  match m with
  | [] => []
  | (k', v') :: m' => if k =? k' then m' else (k', v') :: zm_remove k m'
  end.
Fixpoint zm_last_key (m : list (Z * str)) : option Z :=
  match m with
  | [] => None
  | [(k, _)] => Some k
  | _ :: m' => zm_last_key m'
  end.

(** * Machine integers *)
Definition u64_max : Z := 2 ^ 64 - 1.

(** Rust's [str::parse::<u64>]: optional '+', at least one ASCII digit, no overflow. *)
Definition parse_u64 (s : str) : option Z :=
  let ds := match s with 43%N :: r => r | _ => s end in
  match ds with
  | [] => None
  | _ => match digits_val 0 ds with
         | Some v => if v <=? u64_max then Some v else None
         | None => None
         end
  end.

Definition or0 (o : option Z) : Z := match o with Some z => z | None => 0 end.

(** [a + b] on i64 in a build with overflow checks. *)
Definition add_i64 (a b : Z) : res Z := if in_i64 (a + b) then Ok (a + b) else Err EPanic.

(** * Update transforms ([apply_value_transforms]); ASCII case mapping *)
Definition lower_c (c : char) : char := if ((65 <=? c) && (c <=? 90))%N then (c + 32)%N else c.
Definition upper_c (c : char) : char := if ((97 <=? c) && (c <=? 122))%N then (c - 32)%N else c.

Definition xform_str (i : bool) (t : xform) (s : str) : res str :=
  if i then Ok (show_Z (or0 (parse_i64 s)))
  else match t with
       | XNone => Ok s
       | XLower => Ok (map lower_c s)
       | XUpper => Ok (map upper_c s)
       | XCap => match map lower_c s with
                 | [] => Ok []
                 | c :: r => if (c <? 128)%N then Ok (upper_c c :: r) else Err EPanic
                 end
       end.

Definition conv_str (x : var) (s : str) : res str := xform_str (v_int x) (v_xf x) s.

Fixpoint conv_items (x : var) (l : list (option str * str)) : res (list (option str * str)) :=
  match l with
  | [] => Ok []
  | (k, v) :: l' => do v' <- conv_str x v ;; do r <- conv_items x l' ;; Ok ((k, v') :: r)
  end.

Definition conv_lit (x : var) (l : vlit) : res vlit :=
  match l with
  | LScalar s => do s' <- conv_str x s ;; Ok (LScalar s')
  | LArray items => do items' <- conv_items x items ;; Ok (LArray items')
  end.

(** * Array literal application *)
(** [update_indexed_array_from_literals] *)
Fixpoint idx_update_go (next : Z) (l : list (option str * str)) (m : list (Z * str)) : res (list (Z * str)) :=
  match l with
  | [] => Ok m
  | (k, v) :: l' =>
      let key := match k with Some ks => or0 (parse_u64 ks) | None => next end in
      if key =? u64_max then Err EPanic (* new_key += 1 overflows *)
      else idx_update_go (key + 1) l' (zm_insert key v m)
  end.
Definition idx_update (m : list (Z * str)) (l : list (option str * str)) : res (list (Z * str)) :=
  match zm_last_key m with
  | Some k => if k =? u64_max then Err EPanic else idx_update_go (k + 1) l m
  | None => idx_update_go 0 l m
  end.

(** [update_associative_array_from_literals]. (On the "misaligned" error the Rust code leaves
    the entries inserted so far; the model reports the error only — such literals are outside
    the generated grammar.) *)
Fixpoint assoc_update_go (cur : option str) (l : list (option str * str)) (m : list (str * str))
  : res (list (str * str)) :=
  match l with
  | [] => match cur with Some c => Ok (sm_insert c [] m) | None => Ok m end
  | (k, v) :: l' =>
      match cur with
      | Some c => match k with
                  | Some _ => Err EUnimp
                  | None => assoc_update_go None l' (sm_insert c v m)
                  end
      | None => match k with
                | Some ks => assoc_update_go None l' (sm_insert ks v m)
                | None => assoc_update_go (Some v) l' m
                end
      end
  end.
Definition assoc_update (m : list (str * str)) (l : list (option str * str)) := assoc_update_go None l m.

(** * Conversions *)
Definition scalar_view (v : value) : str :=   (* to_cow_str_without_dynamic_support *)
  match v with
  | VUnset _ => []
  | VStr s => s
  | VAssoc m => match sm_get (lit "0") m with Some s => s | None => [] end
  | VIdx m => match zm_get 0 m with Some s => s | None => [] end
  end.

Definition to_indexed (x : var) : res var :=
  match v_val x with
  | VIdx _ => Ok x
  | VAssoc _ => Err EAssocToIdx
  | v => Ok (set_val x (VIdx [(0, scalar_view v)]))
  end.

Definition to_assoc (x : var) : res var :=
  match v_val x with
  | VAssoc _ => Ok x
  | VIdx _ => Err EIdxToAssoc
  | v => Ok (set_val x (VAssoc [(lit "0", scalar_view v)]))
  end.

(** [get_key_for_indexed_array] *)
Definition idx_key (m : list (Z * str)) (i : str) : res Z :=
  let v := or0 (parse_i64 i) in
  if v <? 0 then
    let v' := v + Z.of_nat (length m) in
    if v' <? 0 then Err EIdxRange else Ok v'
  else Ok v.

(** [self.assign(Array([]), false)] on an unset value (used by [assign] and [assign_at_index]):
    this inner call is where the only readonly test on the element path sits. *)
Definition init_empty (x : var) : res var :=
  if v_ro x then Err EReadonly
  else match v_val x with
       | VUnset UAssoc => Ok (set_val x (VAssoc []))
       | VUnset _ => Ok (set_val x (VIdx []))
       | _ => Ok x
       end.

Definition append_elem (i : bool) (old new : str) : res str :=
  if i then do z <- add_i64 (or0 (parse_i64 old)) (or0 (parse_i64 new)) ;; Ok (show_Z z)
  else Ok (old ++ new).

(** [ShellVariable::assign_at_index] *)
Definition assign_at_index (x : var) (index value : str) (append : bool) : mres :=
  if v_ro x then mfail x EReadonly else
  mlift x (match v_val x with
           | VUnset _ => init_empty x
           | VStr _ => to_indexed x
           | _ => Ok x
           end) (fun x1 =>
  mlift x1 (conv_str x1 value) (fun value' =>
  match v_val x1 with
  | VIdx m =>
      mlift x1 (idx_key m index) (fun key =>
      if append then
        mlift x1 (append_elem (v_int x1) (match zm_get key m with Some s => s | None => [] end) value')
          (fun nv => mok (set_val x1 (VIdx (zm_insert key nv m))))
      else mok (set_val x1 (VIdx (zm_insert key value' m))))
  | VAssoc m =>
      if append then
        mlift x1 (append_elem (v_int x1) (match sm_get index m with Some s => s | None => [] end) value')
          (fun nv => mok (set_val x1 (VAssoc (sm_insert index nv m))))
      else mok (set_val x1 (VAssoc (sm_insert index value' m)))
  | _ => mfail x1 EUnimp
  end)).

(** [ShellVariable::assign] *)
Definition assign (x : var) (l : vlit) (append : bool) : mres :=
  if v_ro x then mfail x EReadonly else
  mlift x (conv_lit x l) (fun l' =>
  if append then
    mlift x (match v_val x, l' with
             | VUnset _, LArray _ => init_empty x
             | VUnset (UIdx | UAssoc), _ => init_empty x
             | VUnset _, LScalar _ => do e <- conv_str x [] ;; Ok (set_val x (VStr e))
             | VStr _, LArray _ => to_indexed x
             | _, _ => Ok x
             end) (fun x1 =>
    match v_val x1, l' with
    | VStr base, LScalar suffix =>
        if v_int x1 then
          mlift x1 (add_i64 (or0 (parse_i64 base)) (or0 (parse_i64 suffix)))
            (fun z => mok (set_val x1 (VStr (show_Z z))))
        else
          mlift x1 (xform_str false (v_xf x1) (base ++ suffix)) (fun s => mok (set_val x1 (VStr s)))
    | VStr _, LArray _ => mok x1
    | VIdx _, LScalar s => assign_at_index x1 (lit "0") s true
    | VIdx m, LArray items => mlift x1 (idx_update m items) (fun m' => mok (set_val x1 (VIdx m')))
    | VAssoc _, LScalar s => assign_at_index x1 (lit "0") s true
    | VAssoc m, LArray items => mlift x1 (assoc_update m items) (fun m' => mok (set_val x1 (VAssoc m')))
    | VUnset _, _ => mfail x1 EPanic (* unreachable!() *)
    end)
  else
    match v_val x, l' with
    | (VIdx _ | VAssoc _ | VUnset UAssoc | VUnset UIdx), LScalar s => assign_at_index x (lit "0") s false
    | (VIdx _ | VUnset UIdx | VUnset UUntyped | VStr _), LArray items =>
        mlift x (idx_update [] items) (fun m => mok (set_val x (VIdx m)))
    | (VAssoc _ | VUnset UAssoc), LArray items =>
        mlift x (assoc_update [] items) (fun m => mok (set_val x (VAssoc m)))
    | (VStr _ | VUnset UUntyped), LScalar s => mok (set_val x (VStr s))
    end).

(** [ShellVariable::unset_index]. Fails before touching the value. *)
Definition unset_index (x : var) (index : str) : res (var * bool) :=
  if v_ro x then Err EReadonly else
  match v_val x with
  | VUnset UUntyped => Err ENotArray
  | VUnset _ => Ok (x, false)
  | VStr _ => Err ENotArray
  | VAssoc m => Ok (set_val x (VAssoc (sm_remove index m)),
                    match sm_get index m with Some _ => true | None => false end)
  | VIdx m => do key <- idx_key m index ;;
              Ok (set_val x (VIdx (zm_remove key m)),
                  match zm_get key m with Some _ => true | None => false end)
  end.

(** The observable content of a value as an element map (a scalar is its element 0): the
    notion under which `declare -a`/`-A` of a set scalar keeps the content. *)
Definition content (v : value) : list (str * str) :=
  match v with
  | VUnset _ => []
  | VStr s => [(lit "0", s)]
  | VAssoc m => m
  | VIdx m => map (fun kv => (show_Z (fst kv), snd kv)) m
  end.
