(** C09 correspondence entries.
    [entry_c09api]: op sequences on ShellEnvironment/ShellVariable (API level).
    [entry_c09sh] : programs of the action grammar (shell level).
    Both print the scope stack (bottom first, bindings sorted by name) after every step. *)
From Coq Require Import String.
From BV Require Import Base.Prelude Base.Codec Scope.Vars Scope.Env Scope.Prog.

(** ** Printing *)
Fixpoint ins_sorted {A} (n : str) (a : A) (l : list (str * A)) : list (str * A) :=
  match l with
  | [] => [(n, a)]
  | (k, b) :: l' => if str_ltb n k then (n, a) :: l else (k, b) :: ins_sorted n a l'
  end.
Fixpoint sort_by_name {A} (l : list (str * A)) : list (str * A) :=
  match l with [] => [] | (k, a) :: l' => ins_sorted k a (sort_by_name l') end.

Definition show_attrs (x : var) : str :=
  (if v_exp x then lit "x" else []) ++ (if v_ro x then lit "r" else []) ++
  (if v_int x then lit "i" else []) ++
  match v_xf x with XNone => [] | XLower => lit "l" | XUpper => lit "u" | XCap => lit "c" end.

Definition show_value (v : value) : list str :=
  match v with
  | VUnset UUntyped => [lit "U"; lit "0"]
  | VUnset UIdx => [lit "Ua"; lit "0"]
  | VUnset UAssoc => [lit "UA"; lit "0"]
  | VStr s => [lit "S"; lit "1"; lit "0"; s]
  | VIdx m => lit "I" :: enc_nat (length m) :: flat_map (fun kv => [show_Z (fst kv); snd kv]) m
  | VAssoc m => lit "A" :: enc_nat (length m) :: flat_map (fun kv => [fst kv; snd kv]) m
  end.

Definition show_binding (b : str * var) : list str :=
  fst b :: show_attrs (snd b) :: show_value (v_val (snd b)).

Definition show_kind (k : kind) : str :=
  match k with KLocal => lit "L" | KGlobal => lit "G" | KCommand => lit "C" end.

Definition show_scope (s : scope) : list str :=
  show_kind (fst s) :: enc_nat (length (snd s)) :: flat_map show_binding (sort_by_name (snd s)).

Definition show_env (e : env) : list str :=
  enc_nat (length e) :: flat_map show_scope (rev e).

Definition show_err (o : option err) : str :=
  match o with
  | None => lit "ok"
  | Some EReadonly => lit "readonly"
  | Some EUnimp => lit "unimp"
  | Some EIdxRange => lit "range"
  | Some EAssocToIdx => lit "a2i"
  | Some EIdxToAssoc => lit "i2a"
  | Some ENotArray => lit "notarray"
  | Some EPanic => lit "panic"
  | Some EScope => lit "scope"
  | Some ENotInFunction => lit "notinfn"
  | Some EOther => lit "other"
  end.

Definition show_obs (o : obs) : list str :=
  match o with
  | OState t e => lit "P" :: t :: show_env e
  | OEnv l => lit "E" :: enc_nat (length l) :: flat_map (fun kv => [fst kv; snd kv]) (sort_by_name l)
  end.

(** ** Decoding helpers: a decoder consumes tokens and returns the rest *)
Definition tok_is (t : str) (s : string) : bool := str_eqb t (lit s).

Fixpoint dec_items (n : nat) (a : list str) : list (option str * str) * list str :=
  match n with
  | O => ([], a)
  | S n' =>
      match a with
      | t :: r =>
          if tok_is t "k" then
            match r with
            | k :: v :: r' => let '(l, r'') := dec_items n' r' in ((Some k, v) :: l, r'')
            | _ => ([], [])
            end
          else
            match r with
            | v :: r' => let '(l, r'') := dec_items n' r' in ((None, v) :: l, r'')
            | _ => ([], [])
            end
      | [] => ([], [])
      end
  end.

(** vlit := "s" v | "a" n item*    item := "k" key v | "n" v *)
Definition dec_lit (a : list str) : vlit * list str :=
  match a with
  | t :: r =>
      if tok_is t "s" then match r with v :: r' => (LScalar v, r') | [] => (LScalar [], []) end
      else match r with
           | n :: r' => let '(l, r'') := dec_items (dec_nat n) r' in (LArray l, r'')
           | [] => (LArray [], [])
           end
  | [] => (LScalar [], [])
  end.

(** optional index: "i" ix | "n" *)
Definition dec_oix (a : list str) : option str * list str :=
  match a with
  | t :: r => if tok_is t "i" then match r with ix :: r' => (Some ix, r') | [] => (None, []) end
              else (None, r)
  | [] => (None, [])
  end.

Definition dec_kind (t : str) : kind :=
  if tok_is t "L" then KLocal else if tok_is t "C" then KCommand else KGlobal.
Definition dec_policy (t : str) : policy :=
  if tok_is t "g" then POnlyGlobal else if tok_is t "c" then POnlyCurLocal
  else if tok_is t "l" then POnlyLocal else PAnywhere.
Definition dec_updater (t : str) : updater :=
  if tok_is t "x" then UpdExport else if tok_is t "u" then UpdUnexport else UpdNone.

(** flags: a string over pairs sign/letter, e.g. "-i+x-r" and "g" *)
Fixpoint dec_flags_go (s : str) (f : dflags) : dflags :=
  match s with
  | sg :: c :: r =>
      let on := N.eqb sg 45 in   (* '-' sets, '+' clears *)
      let f' :=
        if N.eqb c 97 then mkFlags true (f_A f) (f_i f) (f_c f) (f_l f) (f_u f) (f_x f) (f_r f) (f_g f)
        else if N.eqb c 65 then mkFlags (f_a f) true (f_i f) (f_c f) (f_l f) (f_u f) (f_x f) (f_r f) (f_g f)
        else if N.eqb c 105 then mkFlags (f_a f) (f_A f) (Some on) (f_c f) (f_l f) (f_u f) (f_x f) (f_r f) (f_g f)
        else if N.eqb c 99 then mkFlags (f_a f) (f_A f) (f_i f) (Some on) (f_l f) (f_u f) (f_x f) (f_r f) (f_g f)
        else if N.eqb c 108 then mkFlags (f_a f) (f_A f) (f_i f) (f_c f) (Some on) (f_u f) (f_x f) (f_r f) (f_g f)
        else if N.eqb c 117 then mkFlags (f_a f) (f_A f) (f_i f) (f_c f) (f_l f) (Some on) (f_x f) (f_r f) (f_g f)
        else if N.eqb c 120 then mkFlags (f_a f) (f_A f) (f_i f) (f_c f) (f_l f) (f_u f) (Some on) (f_r f) (f_g f)
        else if N.eqb c 114 then mkFlags (f_a f) (f_A f) (f_i f) (f_c f) (f_l f) (f_u f) (f_x f) (Some on) (f_g f)
        else if N.eqb c 103 then mkFlags (f_a f) (f_A f) (f_i f) (f_c f) (f_l f) (f_u f) (f_x f) (f_r f) true
        else f in
      dec_flags_go r f'
  | _ => f
  end.
Definition no_flags : dflags := mkFlags false false None None None None None None false.
Definition dec_flags (s : str) : dflags := dec_flags_go s no_flags.

Definition dec_verb (t : str) : dverb :=
  if tok_is t "l" then DLocal else if tok_is t "r" then DReadonly else DDeclare.

(** decl := "n" name | "x" name | "s" name v | "a" name cnt item* | "e" name ix v *)
Definition dec_decl (a : list str) : decl * list str :=
  match a with
  | t :: n :: r =>
      if tok_is t "n" then (DName n, r)
      else if tok_is t "x" then (DNameIdx n, r)
      else if tok_is t "s" then match r with v :: r' => (DScalar n v, r') | [] => (DName n, []) end
      else if tok_is t "a" then
        match r with c :: r' => let '(l, r'') := dec_items (dec_nat c) r' in (DArray n l, r'')
                   | [] => (DName n, []) end
      else match r with ix :: v :: r' => (DElem n ix v, r') | _ => (DName n, []) end
  | _ => (DName [], [])
  end.

(** bcmd := "d" verb flags decl | "e" name ("v" vlit app | "n") unexp | "u" name | "ue" name ix
          | "s" name vlit | "p" tag | ":" *)
Definition dec_bcmd (a : list str) : bcmd * list str :=
  match a with
  | t :: r =>
      if tok_is t "d" then
        match r with
        | vb :: fl :: r' => let '(d, r'') := dec_decl r' in (BDeclare (dec_verb vb) (dec_flags fl) d, r'')
        | _ => (BNop, [])
        end
      else if tok_is t "e" then
        match r with
        | n :: t2 :: r' =>
            if tok_is t2 "v" then
              let '(l, r'') := dec_lit r' in
              match r'' with
              | app :: un :: r3 => (BExport n (Some (l, dec_bool app)) (dec_bool un), r3)
              | _ => (BNop, [])
              end
            else match r' with un :: r3 => (BExport n None (dec_bool un), r3) | [] => (BNop, []) end
        | _ => (BNop, [])
        end
      else if tok_is t "u" then match r with n :: r' => (BUnset n, r') | [] => (BNop, []) end
      else if tok_is t "ue" then match r with n :: ix :: r' => (BUnsetElem n ix, r') | _ => (BNop, []) end
      else if tok_is t "s" then
        match r with n :: r' => let '(l, r'') := dec_lit r' in (BSet n l, r'') | [] => (BNop, []) end
      else if tok_is t "p" then match r with tg :: r' => (BProbe tg, r') | [] => (BNop, []) end
      else (BNop, r)
  | [] => (BNop, [])
  end.

(** temps: name oix vlit app *)
Fixpoint dec_temps (n : nat) (a : list str) : list tassign * list str :=
  match n with
  | O => ([], a)
  | S n' =>
      match a with
      | nm :: r =>
          let '(ix, r1) := dec_oix r in
          let '(l, r2) := dec_lit r1 in
          match r2 with
          | app :: r3 => let '(ts, r4) := dec_temps n' r3 in ((nm, ix, l, dec_bool app) :: ts, r4)
          | [] => ([], [])
          end
      | [] => ([], [])
      end
  end.

(** action := "=" name oix vlit app | "S" name vlit | "Se" name ix v | "D" name v | "R"
            | "C" ntemps temps cmd
    cmd    := "b" bcmd | "f" nbody action* | "x" | "nf" *)
Fixpoint dec_action (fuel : nat) (a : list str) : action * list str :=
  match fuel with
  | O => (AReturn, [])
  | S fuel =>
      match a with
      | t :: r =>
          if tok_is t "=" then
            match r with
            | n :: r0 =>
                let '(ix, r1) := dec_oix r0 in
                let '(l, r2) := dec_lit r1 in
                match r2 with app :: r3 => (AAssign n ix l (dec_bool app), r3) | [] => (AReturn, []) end
            | [] => (AReturn, [])
            end
          else if tok_is t "S" then
            match r with n :: r0 => let '(l, r1) := dec_lit r0 in (ASet n l, r1) | [] => (AReturn, []) end
          else if tok_is t "Se" then
            match r with n :: ix :: v :: r' => (ASetElem n ix v, r') | _ => (AReturn, []) end
          else if tok_is t "D" then
            match r with n :: v :: r' => (ADefault n v, r') | _ => (AReturn, []) end
          else if tok_is t "C" then
            match r with
            | nt :: r0 =>
                let '(ts, r1) := dec_temps (dec_nat nt) r0 in
                match r1 with
                | c :: r2 =>
                    if tok_is c "b" then let '(b, r3) := dec_bcmd r2 in (ACmd ts (CBuiltin b), r3)
                    else if tok_is c "f" then
                      match r2 with
                      | nb :: r3 =>
                          let '(body, r4) :=
                            (fix go (k : nat) (a : list str) : list action * list str :=
                               match k with
                               | O => ([], a)
                               | S k' => let '(x, a') := dec_action fuel a in
                                         let '(xs, a'') := go k' a' in (x :: xs, a'')
                               end) (dec_nat nb) r3 in
                          (ACmd ts (CFunc body), r4)
                      | [] => (AReturn, [])
                      end
                    else if tok_is c "x" then (ACmd ts CExternal, r2)
                    else (ACmd ts CNotFound, r2)
                | [] => (AReturn, [])
                end
            | [] => (AReturn, [])
            end
          else (AReturn, r)
      | [] => (AReturn, [])
      end
  end.

Fixpoint dec_steps (fuel : nat) (a : list str) : list action :=
  match fuel with
  | O => []
  | S fuel' =>
      match a with
      | [] => []
      | _ => let '(x, r) := dec_action (length a) a in x :: dec_steps fuel' r
      end
  end.

(** ** Shell-level entry: the observations of each step, then "T" and the state after it *)
Definition show_step (r : list obs * env) : list str :=
  flat_map show_obs (fst r) ++ lit "T" :: show_env (snd r).

Definition entry_c09sh (a : list str) : list str :=
  flat_map show_step (run_steps (dec_steps (length a) a) env_new).

(** ** API-level entry.
    op := "push" kind | "pop" kind | "uoa" name vlit updater policy kind
        | "uoae" name ix v policy kind | "add" name kind attrs... (via "new")
        | "unset" name | "unsetix" name ix | "get" name policy | "child"
        | "asg" name vlit app            (get_mut(name) then assign)
        | "asgix" name ix v app         (get_mut(name) then assign_at_index)
        | "ro" name | "int" name b | "xf" name t | "toidx" name | "toassoc" name
    After every op: the op's result class, then the state. *)
Definition dec_xform (t : str) : xform :=
  if tok_is t "l" then XLower else if tok_is t "u" then XUpper else if tok_is t "c" then XCap else XNone.

Definition on_visible (n : str) (e : env) (f : var -> mres) : env * option err :=
  match find_pol PAnywhere O n e with
  | Some i => match scope_get i n e with
              | Some x => let '(x', er) := f x in (scope_set i n x' e, er)
              | None => (e, Some EOther)
              end
  | None => (e, Some EOther)
  end.

Definition res_err {A} (r : res A) : option err := match r with Ok _ => None | Err e => Some e end.

Definition show_ovar (o : option var) : list str :=
  match o with
  | Some x => lit "some" :: show_attrs x :: show_value (v_val x)
  | None => [lit "none"]
  end.

Definition api_step (a : list str) (e : env) : env * list str * list str :=
  match a with
  | t :: r =>
      if tok_is t "push" then
        match r with k :: r' => (push_scope (dec_kind k) e, [lit "ok"], r') | [] => (e, [], []) end
      else if tok_is t "pop" then
        match r with k :: r' => let '(e', er) := pop_scope (dec_kind k) e in (e', [show_err er], r')
                   | [] => (e, [], []) end
      else if tok_is t "uoa" then
        match r with
        | n :: r0 =>
            let '(l, r1) := dec_lit r0 in
            match r1 with
            | u :: p :: k :: r2 =>
                let '(e', er) := update_or_add n l (dec_updater u) (dec_policy p) (dec_kind k) e in
                (e', [show_err er], r2)
            | _ => (e, [], [])
            end
        | [] => (e, [], [])
        end
      else if tok_is t "uoae" then
        match r with
        | n :: ix :: v :: p :: k :: r2 =>
            let '(e', er) := update_or_add_elem n ix v (dec_policy p) (dec_kind k) e in
            (e', [show_err er], r2)
        | _ => (e, [], [])
        end
      else if tok_is t "add" then
        match r with
        | n :: k :: r' => let '(e', er) := env_add n tombstone (dec_kind k) e in (e', [show_err er], r')
        | _ => (e, [], [])
        end
      else if tok_is t "unset" then
        match r with
        | n :: r' => let '(e', b) := env_unset n e in
                     (e', [match b with Ok true => lit "some" | Ok false => lit "none" | Err x => show_err (Some x) end], r')
        | _ => (e, [], [])
        end
      else if tok_is t "unsetix" then
        match r with
        | n :: ix :: r' => let '(e', b) := env_unset_index n ix e in
                     (e', [match b with Ok true => lit "true" | Ok false => lit "false" | Err x => show_err (Some x) end], r')
        | _ => (e, [], [])
        end
      else if tok_is t "get" then
        match r with
        | n :: p :: r' => (e, show_ovar (get_pol (dec_policy p) n e), r')
        | _ => (e, [], [])
        end
      else if tok_is t "child" then
        (e, show_obs (OEnv (child_env e)), r)
      else if tok_is t "asg" then
        match r with
        | n :: r0 =>
            let '(l, r1) := dec_lit r0 in
            match r1 with
            | app :: r2 => let '(e', er) := on_visible n e (fun x => assign x l (dec_bool app)) in
                           (e', [show_err er], r2)
            | [] => (e, [], [])
            end
        | [] => (e, [], [])
        end
      else if tok_is t "asgix" then
        match r with
        | n :: ix :: v :: app :: r2 =>
            let '(e', er) := on_visible n e (fun x => assign_at_index x ix v (dec_bool app)) in
            (e', [show_err er], r2)
        | _ => (e, [], [])
        end
      else if tok_is t "ro" then
        match r with n :: r' => let '(e', er) := on_visible n e (fun x => mok (set_ro x true)) in
                               (e', [show_err er], r') | [] => (e, [], []) end
      else if tok_is t "exp" then
        match r with n :: b :: r' => let '(e', er) := on_visible n e (fun x => mok (set_exp x (dec_bool b))) in
                               (e', [show_err er], r') | _ => (e, [], []) end
      else if tok_is t "int" then
        match r with n :: b :: r' => let '(e', er) := on_visible n e (fun x => mok (set_int x (dec_bool b))) in
                               (e', [show_err er], r') | _ => (e, [], []) end
      else if tok_is t "xf" then
        match r with n :: x :: r' => let '(e', er) := on_visible n e (fun y => mok (set_xf y (dec_xform x))) in
                               (e', [show_err er], r') | _ => (e, [], []) end
      else if tok_is t "toidx" then
        match r with n :: r' =>
          let '(e', er) := on_visible n e (fun x => match to_indexed x with Ok y => mok y | Err z => mfail x z end) in
          (e', [show_err er], r') | [] => (e, [], []) end
      else if tok_is t "toassoc" then
        match r with n :: r' =>
          let '(e', er) := on_visible n e (fun x => match to_assoc x with Ok y => mok y | Err z => mfail x z end) in
          (e', [show_err er], r') | [] => (e, [], []) end
      else (e, [lit "?"], [])
  | [] => (e, [], [])
  end.

Fixpoint api_run (fuel : nat) (a : list str) (e : env) : list str :=
  match fuel with
  | O => []
  | S fuel' =>
      match a with
      | [] => []
      | _ => let '(e', out, r) := api_step a e in
             out ++ lit "T" :: show_env e' ++ api_run fuel' r e'
      end
  end.

Definition entry_c09api (a : list str) : list str := api_run (length a) a env_new.
