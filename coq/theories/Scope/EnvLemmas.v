(** C09 — basic facts about maps, scope updates and the interpreter's shape. *)
From Coq Require Import String.
From BV Require Import Base.Prelude Base.Codec Scope.Vars Scope.Env Scope.Prog.

(** ** an induction principle for the nested action type *)
Section ActionInd.
  Variable P : action -> Prop.
  Hypothesis Hassign : forall n ix l app, P (AAssign n ix l app).
  Hypothesis Hset : forall n l, P (ASet n l).
  Hypothesis Hsetelem : forall n ix v, P (ASetElem n ix v).
  Hypothesis Hdefault : forall n v, P (ADefault n v).
  Hypothesis Hreturn : P AReturn.
  Hypothesis Hb : forall ts b, P (ACmd ts (CBuiltin b)).
  Hypothesis Hf : forall ts body, Forall P body -> P (ACmd ts (CFunc body)).
  Hypothesis Hx : forall ts, P (ACmd ts CExternal).
  Hypothesis Hn : forall ts, P (ACmd ts CNotFound).

  Fixpoint action_ind' (a : action) : P a :=
    match a with
    | AAssign n ix l app => Hassign n ix l app
    | ASet n l => Hset n l
    | ASetElem n ix v => Hsetelem n ix v
    | ADefault n v => Hdefault n v
    | AReturn => Hreturn
    | ACmd ts c =>
        match c with
        | CBuiltin b => Hb ts b
        | CFunc body =>
            Hf ts body ((fix go (l : list action) : Forall P l :=
                           match l with
                           | [] => Forall_nil _
                           | x :: r => Forall_cons _ (action_ind' x) (go r)
                           end) body)
        | CExternal => Hx ts
        | CNotFound => Hn ts
        end
    end.
End ActionInd.

(** ** unfolding of a function call *)
Lemma run_is_exec_list : forall l e,
  (fix run (l : list action) (e : env) : env * list obs * flow :=
     match l with
     | [] => (e, [], Normal)
     | a :: l' =>
         let '(e', o1, fl) := exec a e in
         match fl with
         | Normal => let '(e'', o2, fl2) := run l' e' in (e'', o1 ++ o2, fl2)
         | _ => (e', o1, fl)
         end
     end) l e = exec_list l e.
Proof.
  induction l as [|a l IH]; intros e; [reflexivity|].
  cbn [exec_list]. destruct (exec a e) as [[e' o1] fl]. destruct fl; reflexivity.
Qed.

Definition env_of (r : env * list obs * flow) : env := fst (fst r).

Lemma exec_func_eq ts body e :
  exec (ACmd ts (CFunc body)) e =
  let e1 := push_scope KCommand e in
  match apply_temps ts e1 with
  | (e2, Some _) => (fst (pop_scope KCommand e2), [], Normal)
  | (e2, None) =>
      let '(e4, o, _) := exec_list body (push_scope KLocal e2) in
      (fst (pop_scope KCommand (fst (pop_scope KLocal e4))), o, Normal)
  end.
Proof.
  cbn [exec]. cbv zeta. destruct (apply_temps ts (push_scope KCommand e)) as [e2 [er|]]; [reflexivity|].
  rewrite run_is_exec_list. reflexivity.
Qed.

(** ** maps *)
Lemma str_eqb_sym a b : str_eqb a b = str_eqb b a.
Proof.
  destruct (str_eqb a b) eqn:H1, (str_eqb b a) eqn:H2; try reflexivity.
  - apply str_eqb_eq in H1. subst. rewrite str_eqb_refl in H2. discriminate.
  - apply str_eqb_eq in H2. subst. rewrite str_eqb_refl in H1. discriminate.
Qed.

Lemma str_eqb_neq a b : a <> b -> str_eqb a b = false.
Proof. intros H. destruct (str_eqb a b) eqn:E; [apply str_eqb_eq in E; contradiction | reflexivity]. Qed.

Lemma mget_mset_same n v m : mget n (mset n v m) = Some v.
Proof.
  induction m as [|[k x] m IH]; cbn; [rewrite str_eqb_refl; reflexivity|].
  destruct (str_eqb n k) eqn:E; cbn; rewrite E; [reflexivity | exact IH].
Qed.

Lemma mget_mset_other n n' v m : n' <> n -> mget n' (mset n v m) = mget n' m.
Proof.
  intros Hne. induction m as [|[k x] m IH]; cbn.
  - rewrite (str_eqb_neq _ _ Hne). reflexivity.
  - destruct (str_eqb n k) eqn:E; cbn.
    + apply str_eqb_eq in E. subst k. rewrite (str_eqb_neq _ _ Hne). reflexivity.
    + destruct (str_eqb n' k); [reflexivity | exact IH].
Qed.

Lemma mget_mdel_other n n' m : n' <> n -> mget n' (mdel n m) = mget n' m.
Proof.
  intros Hne. induction m as [|[k x] m IH]; cbn; [reflexivity|].
  destruct (str_eqb n k) eqn:E; cbn.
  - apply str_eqb_eq in E. subst k. rewrite (str_eqb_neq _ _ Hne). reflexivity.
  - destruct (str_eqb n' k); [reflexivity | exact IH].
Qed.

(** ** scope updates *)
Lemma scope_upd_kinds i f e : map fst (scope_upd i f e) = map fst e.
Proof.
  revert i; induction e as [|[k m] e IH]; intros [|i]; cbn; try reflexivity.
  rewrite IH. reflexivity.
Qed.

Lemma scope_upd_length i f e : length (scope_upd i f e) = length e.
Proof.
  revert i; induction e as [|[k m] e IH]; intros [|i]; cbn; try reflexivity.
  rewrite IH. reflexivity.
Qed.

Lemma scope_get_upd_other_scope i j f n e : i <> j -> scope_get j n (scope_upd i f e) = scope_get j n e.
Proof.
  unfold scope_get. revert i j; induction e as [|[k m] e IH]; intros [|i] [|j] Hne; cbn; try reflexivity; try congruence.
  apply IH. congruence.
Qed.

Lemma scope_get_set_other_name i j n n' v e : n' <> n -> scope_get j n' (scope_set i n v e) = scope_get j n' e.
Proof.
  intros Hne. unfold scope_get, scope_set.
  revert i j; induction e as [|[k m] e IH]; intros [|i] [|j]; cbn; try reflexivity.
  - apply mget_mset_other. exact Hne.
  - apply IH.
Qed.

Lemma scope_get_del_other_name i j n n' e : n' <> n -> scope_get j n' (scope_del i n e) = scope_get j n' e.
Proof.
  intros Hne. unfold scope_get, scope_del.
  revert i j; induction e as [|[k m] e IH]; intros [|i] [|j]; cbn; try reflexivity.
  - apply mget_mdel_other. exact Hne.
  - apply IH.
Qed.

Lemma scope_get_set_same i n v e : (i < length e)%nat -> scope_get i n (scope_set i n v e) = Some v.
Proof.
  unfold scope_get, scope_set.
  revert i; induction e as [|[k m] e IH]; intros [|i] Hlt; cbn in *; try lia.
  - apply mget_mset_same.
  - apply IH. lia.
Qed.

Lemma scope_kind_upd i j f e : scope_kind j (scope_upd i f e) = scope_kind j e.
Proof.
  unfold scope_kind. revert i j; induction e as [|[k m] e IH]; intros [|i] [|j]; cbn; try reflexivity.
  apply IH.
Qed.

(** ** where the policies look *)
Lemma find_pol_lt p lc n e i : find_pol p lc n e = Some i -> (i < length e)%nat.
Proof.
  revert lc i; induction e as [|[k m] e IH]; intros lc i H; cbn in *; [discriminate|].
  destruct (admits p k _).
  - destruct (mget n m); [inversion H; lia|].
    destruct (stops_after p k); [discriminate|].
    destruct (find_pol p _ n e) eqn:F; cbn in H; [|discriminate]. inversion H. apply IH in F. lia.
  - destruct (find_pol p _ n e) eqn:F; cbn in H; [|discriminate]. inversion H. apply IH in F. lia.
Qed.

Lemma find_pol_bound p lc n e i : find_pol p lc n e = Some i -> scope_get i n e <> None.
Proof.
  unfold scope_get.
  revert lc i; induction e as [|[k m] e IH]; intros lc i H; cbn in *; [discriminate|].
  destruct (admits p k _).
  - destruct (mget n m) eqn:G; [inversion H; cbn; rewrite G; discriminate|].
    destruct (stops_after p k); [discriminate|].
    destruct (find_pol p _ n e) eqn:F; cbn in H; [|discriminate]. inversion H. cbn. eapply IH. exact F.
  - destruct (find_pol p _ n e) eqn:F; cbn in H; [|discriminate]. inversion H. cbn. eapply IH. exact F.
Qed.

Lemma find_kind_lt k e i : find_kind k e = Some i -> (i < length e)%nat.
Proof.
  revert i; induction e as [|[k' m] e IH]; intros i H; cbn in *; [discriminate|].
  destruct (kind_eqb k' k); [inversion H; lia|].
  destruct (find_kind k e) eqn:F; cbn in H; [|discriminate]. inversion H. specialize (IH _ eq_refl). lia.
Qed.

(** ** every primitive keeps the list of scope kinds *)
Definition kinds (e : env) : list kind := map fst e.

Lemma env_add_kinds n v k e : kinds (fst (env_add n v k e)) = kinds e.
Proof. unfold env_add. destruct (find_kind k e); cbn; [apply scope_upd_kinds | reflexivity]. Qed.

Lemma update_or_add_kinds n l u p k e : kinds (fst (update_or_add n l u p k e)) = kinds e.
Proof.
  unfold update_or_add. destruct (find_pol p 0 n e).
  - destruct (scope_get _ n e); [|reflexivity].
    destruct (assign v l false) as [v' [er|]]; cbn; apply scope_upd_kinds.
  - destruct (assign tombstone l false) as [v' [er|]]; [reflexivity | apply env_add_kinds].
Qed.

Lemma update_or_add_elem_kinds n ix v p k e : kinds (fst (update_or_add_elem n ix v p k e)) = kinds e.
Proof.
  unfold update_or_add_elem. destruct (find_pol p 0 n e).
  - destruct (scope_get _ n e); [|reflexivity].
    destruct (assign_at_index _ ix v false) as [v' er]; cbn; apply scope_upd_kinds.
  - destruct (assign tombstone _ false) as [v' [er|]]; [reflexivity | apply env_add_kinds].
Qed.

Lemma env_unset_kinds n e : kinds (fst (env_unset n e)) = kinds e.
Proof.
  unfold env_unset. destruct (find_pol _ 0 n e); [|reflexivity].
  destruct (scope_get _ n e); [|reflexivity]. destruct (v_ro v); [reflexivity|].
  destruct (is_cur_local _ e); cbn; apply scope_upd_kinds.
Qed.

Lemma env_unset_index_kinds n ix e : kinds (fst (env_unset_index n ix e)) = kinds e.
Proof.
  unfold env_unset_index. destruct (find_pol _ 0 n e); [|reflexivity].
  destruct (scope_get _ n e); [|reflexivity]. destruct (unset_index v ix) as [[v' b]|er]; [|reflexivity].
  cbn. apply scope_upd_kinds.
Qed.

Lemma apply_assignment_kinds n ix l app ex rq cr e :
  kinds (fst (apply_assignment n ix l app ex rq cr e)) = kinds e.
Proof.
  unfold apply_assignment.
  set (create := match _ with Ok v => env_add n _ cr e | Err er => (e, Some er) end).
  assert (Hc : kinds (fst create) = kinds e).
  { subst create. destruct (match ix with Some _ => _ | None => _ end); [apply env_add_kinds | reflexivity]. }
  destruct (find_pol PAnywhere 0 n e); [|exact Hc].
  destruct (scope_get _ n e); [|exact Hc]. destruct (scope_kind _ e); [|exact Hc].
  destruct (match rq with Some rk => _ | None => true end); [|exact Hc].
  destruct ix as [ix|].
  - destruct l; [|reflexivity]. destruct (assign_at_index _ _ _ _) as [v' [er|]]; cbn; apply scope_upd_kinds.
  - destruct (assign _ _ _) as [v' [er|]]; cbn; apply scope_upd_kinds.
Qed.

Lemma do_declare_kinds verb f d e : kinds (fst (do_declare verb f d e)) = kinds e.
Proof.
  unfold do_declare.
  destruct verb; destruct (in_function e); try reflexivity;
    cbv zeta; destruct (decl_parts d) as [[init hi] nia];
    (destruct (find_pol _ 0 _ e);
     [ destruct (scope_get _ _ e); [|reflexivity];
       destruct (declare_on _ _ _ _ _ _) as [x' er]; cbn; apply scope_upd_kinds
     | destruct (declare_on _ _ _ _ _ _) as [x' [er|]]; [reflexivity | apply env_add_kinds] ]).
Qed.

Lemma do_export_kinds n v u e : kinds (fst (do_export n v u e)) = kinds e.
Proof.
  unfold do_export. destruct v as [[l [|]]|].
  - destruct (find_pol _ 0 n e).
    + destruct (scope_get _ n e); [|reflexivity]. destruct (assign _ _ _) as [x' [er|]]; cbn; apply scope_upd_kinds.
    + apply update_or_add_kinds.
  - apply update_or_add_kinds.
  - destruct (find_pol _ 0 n e); [|reflexivity]. destruct (scope_get _ n e); [|reflexivity]. cbn. apply scope_upd_kinds.
Qed.

Lemma exec_builtin_kinds b e : kinds (fst (exec_builtin b e)) = kinds e.
Proof.
  destruct b; cbn [exec_builtin fst].
  - apply do_declare_kinds.
  - apply do_export_kinds.
  - apply env_unset_kinds.
  - apply env_unset_index_kinds.
  - apply update_or_add_kinds.
  - reflexivity.
  - reflexivity.
Qed.

Lemma apply_temps_kinds ts : forall e, kinds (fst (apply_temps ts e)) = kinds e.
Proof.
  induction ts as [|[[[n ix] l] app] ts IH]; intros e; [reflexivity|].
  cbn [apply_temps].
  pose proof (apply_assignment_kinds n ix l app true (Some KCommand) KCommand e) as H.
  destruct (apply_assignment _ _ _ _ _ _ _ e) as [e' [er|]]; cbn in *; [exact H|].
  rewrite IH. exact H.
Qed.

Lemma pop_after_kinds k ks e : kinds e = k :: ks -> kinds (fst (pop_scope k e)) = ks.
Proof. destruct e as [|[k' m] e]; cbn; intros H; [discriminate | inversion H; reflexivity]. Qed.

(** [exec] returns with exactly the scopes it was entered with: the Command scope is popped on
    every dispatch path (builtin, function, external, not found, failed prefix assignment), the
    Local scope on normal completion, `return` and error alike. *)
Lemma exec_kinds : forall a e, kinds (env_of (exec a e)) = kinds e.
Proof.
  intros a. induction a using action_ind'; intros e.
  - cbn [exec]. pose proof (apply_assignment_kinds n ix l app false None KGlobal e) as H.
    destruct (apply_assignment _ _ _ _ _ _ _ e) as [e' [er|]]; exact H.
  - cbn [exec]. pose proof (update_or_add_kinds n l UpdNone PAnywhere KGlobal e) as H.
    destruct (update_or_add _ _ _ _ _ e) as [e' [er|]]; exact H.
  - cbn [exec]. pose proof (update_or_add_elem_kinds n ix v PAnywhere KGlobal e) as H.
    destruct (update_or_add_elem _ _ _ _ _ e) as [e' [er|]]; exact H.
  - cbn [exec]. destruct (match get n e with Some _ => _ | None => true end); [|reflexivity].
    pose proof (update_or_add_kinds n (LScalar v) UpdNone PAnywhere KGlobal e) as H.
    destruct (update_or_add _ _ _ _ _ e) as [e' [er|]]; exact H.
  - reflexivity.
  - cbn [exec]. pose proof (apply_temps_kinds ts (push_scope KCommand e)) as H.
    destruct (apply_temps ts _) as [e2 [er|]]; cbn [fst] in H.
    + unfold env_of. cbn [fst]. apply pop_after_kinds. exact H.
    + pose proof (exec_builtin_kinds b e2) as Hb. destruct (exec_builtin b e2) as [e3 o].
      unfold env_of. cbn [fst] in *. apply pop_after_kinds. rewrite Hb. exact H.
  - rewrite exec_func_eq. cbv zeta.
    pose proof (apply_temps_kinds ts (push_scope KCommand e)) as Ht.
    destruct (apply_temps ts _) as [e2 [er|]]; cbn [fst] in Ht.
    + unfold env_of. cbn [fst]. apply pop_after_kinds. exact Ht.
    + assert (Hl : forall l e0, Forall (fun a => forall e, kinds (env_of (exec a e)) = kinds e) l ->
                 kinds (env_of (exec_list l e0)) = kinds e0).
      { clear. induction l as [|a l IH]; intros e0 HF; [reflexivity|].
        inversion HF as [|? ? Ha Hr]; subst. cbn [exec_list].
        specialize (Ha e0). destruct (exec a e0) as [[e' o1] fl]. unfold env_of in Ha. cbn [fst] in Ha.
        destruct fl; try exact Ha.
        specialize (IH e' Hr). destruct (exec_list l e') as [[e'' o2] fl2]. unfold env_of in *. cbn [fst] in *.
        rewrite IH. exact Ha. }
      specialize (Hl body (push_scope KLocal e2) H).
      destruct (exec_list body _) as [[e4 o] fl]. unfold env_of in *. cbn [fst] in *.
      apply pop_after_kinds. apply pop_after_kinds. rewrite Hl. cbn. f_equal. exact Ht.
  - cbn [exec]. pose proof (apply_temps_kinds ts (push_scope KCommand e)) as H.
    destruct (apply_temps ts _) as [e2 [er|]]; cbn [fst] in H; unfold env_of; cbn [fst]; apply pop_after_kinds; exact H.
  - cbn [exec]. pose proof (apply_temps_kinds ts (push_scope KCommand e)) as H.
    destruct (apply_temps ts _) as [e2 [er|]]; cbn [fst] in H; unfold env_of; cbn [fst]; apply pop_after_kinds; exact H.
Qed.
