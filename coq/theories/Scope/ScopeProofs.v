(** C09 — dynamic scoping: a binding in a Local or Command scope shields everything below it
    from every writer of the grammar except `unset`; corollaries [local_restores],
    [temp_func_restores], [temp_assign_undone], [unset_local_tombstone], [callee_sees_local]. *)
From Coq Require Import String.
From BV Require Import Base.Prelude Base.Codec Scope.Vars Scope.Env Scope.Prog Scope.EnvLemmas Scope.ReadonlyProofs.

Definition has_local_upto (d : nat) (e : env) : bool := existsb is_local (firstn (S d) (kinds e)).

(** [n] is bound in scope [d] (0 = top) and a Local scope exists at or above [d] *)
Definition shielded (n : str) (d : nat) (e : env) : Prop :=
  scope_get d n e <> None /\ has_local_upto d e = true.

(** all bindings of [n] strictly below scope [d] are as before *)
Definition below_eq (n : str) (d : nat) (e e' : env) : Prop :=
  forall j, (d < j)%nat -> scope_get j n e' = scope_get j n e.

Definition ok_step (n : str) (d : nat) (e e' : env) : Prop :=
  shielded n d e -> kinds e' = kinds e /\ shielded n d e' /\ below_eq n d e e'.

Lemma ok_refl n d e : ok_step n d e e.
Proof. intros S. repeat split; try apply S. Qed.

Lemma ok_trans n d e1 e2 e3 : ok_step n d e1 e2 -> ok_step n d e2 e3 -> ok_step n d e1 e3.
Proof.
  intros A B S. destruct (A S) as (K1 & S1 & B1). destruct (B S1) as (K2 & S2 & B2).
  repeat split; try apply S2; [congruence|]. intros j Hj. rewrite B2, B1 by exact Hj. reflexivity.
Qed.

Lemma shielded_lt n d e : shielded n d e -> (d < length e)%nat.
Proof.
  intros [B _]. unfold scope_get in B. destruct (nth_error e d) eqn:N; [|congruence].
  apply nth_error_Some. congruence.
Qed.

Lemma name_dec (m n : str) : m = n \/ m <> n.
Proof. destruct (str_eqb m n) eqn:E; [left; apply str_eqb_eq; exact E | right; intros ->; rewrite str_eqb_refl in E; discriminate]. Qed.

Lemma ok_set n d m i x e : (m <> n \/ (i <= d)%nat) -> ok_step n d e (scope_set i m x e).
Proof.
  intros H S. pose proof (shielded_lt _ _ _ S) as Hlt. destruct S as [B L].
  split; [apply scope_upd_kinds|]. split; [split|].
  - destruct (name_dec m n) as [->|Hne].
    + destruct H as [H|H]; [congruence|]. destruct (Nat.eq_dec i d) as [->|Hd].
      * rewrite scope_get_set_same by exact Hlt. discriminate.
      * unfold scope_set. rewrite scope_get_upd_other_scope by exact Hd. exact B.
    + rewrite scope_get_set_other_name by congruence. exact B.
  - unfold has_local_upto, scope_set. rewrite (scope_upd_kinds i _ e : kinds _ = kinds e). exact L.
  - intros j Hj. destruct (name_dec m n) as [->|Hne].
    + destruct H as [H|H]; [congruence|]. unfold scope_set. apply scope_get_upd_other_scope. lia.
    + apply scope_get_set_other_name. congruence.
Qed.

Lemma ok_del n d m i e : (m <> n \/ (i < d)%nat) -> ok_step n d e (scope_del i m e).
Proof.
  intros H S. destruct S as [B L].
  split; [apply scope_upd_kinds|]. split; [split|].
  - destruct (name_dec m n) as [->|Hne].
    + destruct H as [H|H]; [congruence|]. unfold scope_del. rewrite scope_get_upd_other_scope by lia. exact B.
    + rewrite scope_get_del_other_name by congruence. exact B.
  - unfold has_local_upto, scope_del. rewrite (scope_upd_kinds i _ e : kinds _ = kinds e). exact L.
  - intros j Hj. destruct (name_dec m n) as [->|Hne].
    + destruct H as [H|H]; [congruence|]. unfold scope_del. apply scope_get_upd_other_scope. lia.
    + apply scope_get_del_other_name. congruence.
Qed.

Lemma ok_add n d m x k e :
  (m <> n \/ forall j, find_kind k e = Some j -> (j <= d)%nat) -> ok_step n d e (fst (env_add m x k e)).
Proof.
  intros H. unfold env_add. destruct (find_kind k e) as [j|] eqn:K; cbn [fst]; [|apply ok_refl].
  apply ok_set. destruct H as [H|H]; [left; exact H | right; apply H; reflexivity].
Qed.

(** ** where the lookups land when [n] is shielded at depth [d] *)
Lemma any_le n d e i : shielded n d e -> find_pol PAnywhere 0 n e = Some i -> (i <= d)%nat.
Proof.
  intros [B _] F. destruct (le_lt_dec i d) as [Hle|Hgt]; [exact Hle|].
  exfalso. apply B. eapply find_any_first; eassumption.
Qed.

Lemma any_some n d e : shielded n d e -> find_pol PAnywhere 0 n e <> None.
Proof. intros [B _] F. apply B. eapply find_any_none. exact F. Qed.

Lemma first_local_le d : forall e j, has_local_upto d e = true -> find_kind KLocal e = Some j -> (j <= d)%nat.
Proof.
  unfold has_local_upto, kinds. induction d as [|d IH]; intros [|[k m] e] j H K; cbn in *; try discriminate.
  - destruct k; cbn in *; try discriminate. inversion K. lia.
  - destruct k; cbn in *; try (inversion K; lia);
      destruct (find_kind KLocal e) eqn:F; cbn in K; try discriminate; inversion K; subst;
      specialize (IH e n H F); lia.
Qed.

Lemma curlocal_is_first m : forall e i, find_pol POnlyCurLocal 0 m e = Some i -> find_kind KLocal e = Some i.
Proof.
  induction e as [|[k mp] e IH]; intros i H; cbn in *; [discriminate|].
  destruct k; cbn in *.
  - destruct (mget m mp); [inversion H; reflexivity | discriminate].
  - destruct (find_pol POnlyCurLocal 0 m e) eqn:F; cbn in H; [|discriminate]. inversion H; subst.
    rewrite (IH _ eq_refl). reflexivity.
  - destruct (find_pol POnlyCurLocal 0 m e) eqn:F; cbn in H; [|discriminate]. inversion H; subst.
    rewrite (IH _ eq_refl). reflexivity.
Qed.

(** ** the primitive writers *)
Lemma update_or_add_ok n d m l u e : ok_step n d e (fst (update_or_add m l u PAnywhere KGlobal e)).
Proof.
  intros S. revert S. change (ok_step n d e (fst (update_or_add m l u PAnywhere KGlobal e))).
  unfold update_or_add. destruct (find_pol PAnywhere 0 m e) as [i|] eqn:F.
  - destruct (scope_get i m e); [|apply ok_refl].
    assert (Hi : m <> n \/ (i <= d)%nat -> True) by auto.
    destruct (assign v l false) as [v' [er|]]; cbn [fst]; intros S; apply ok_set; try exact S;
      (destruct (name_dec m n) as [->|Hne]; [right; eapply any_le; eassumption | left; exact Hne]).
  - destruct (assign tombstone l false) as [v' [er|]]; cbn [fst]; [apply ok_refl|].
    intros S. apply ok_add; [|exact S]. destruct (name_dec m n) as [->|Hne]; [|left; exact Hne].
    exfalso. eapply any_some; eassumption.
Qed.

Lemma update_or_add_elem_ok n d m ix v e : ok_step n d e (fst (update_or_add_elem m ix v PAnywhere KGlobal e)).
Proof.
  intros S. revert S. change (ok_step n d e (fst (update_or_add_elem m ix v PAnywhere KGlobal e))).
  unfold update_or_add_elem. destruct (find_pol PAnywhere 0 m e) as [i|] eqn:F.
  - destruct (scope_get i m e) as [x|]; [|apply ok_refl].
    destruct (assign_at_index x ix v false) as [v' er]; cbn [fst]; intros S; apply ok_set; try exact S.
    destruct (name_dec m n) as [->|Hne]; [right; eapply any_le; eassumption | left; exact Hne].
  - destruct (assign tombstone _ false) as [v' [er|]]; cbn [fst]; [apply ok_refl|].
    intros S. apply ok_add; [|exact S]. destruct (name_dec m n) as [->|Hne]; [|left; exact Hne].
    exfalso. eapply any_some; eassumption.
Qed.

Lemma env_unset_ok n d m e : m <> n -> ok_step n d e (fst (env_unset m e)).
Proof.
  intros Hne. unfold env_unset. destruct (find_pol PAnywhere 0 m e) as [i|]; [|apply ok_refl].
  destruct (scope_get i m e) as [x|]; [|apply ok_refl]. destruct (v_ro x); [apply ok_refl|].
  destruct (is_cur_local i e); cbn [fst]; [apply ok_set | apply ok_del]; left; exact Hne.
Qed.

Lemma env_unset_index_ok n d m ix e : ok_step n d e (fst (env_unset_index m ix e)).
Proof.
  intros S. revert S. change (ok_step n d e (fst (env_unset_index m ix e))).
  unfold env_unset_index. destruct (find_pol PAnywhere 0 m e) as [i|] eqn:F; [|apply ok_refl].
  destruct (scope_get i m e) as [x|]; [|apply ok_refl].
  destruct (unset_index x ix) as [[x' b]|er]; cbn [fst]; [|apply ok_refl].
  intros S. apply ok_set; [|exact S].
  destruct (name_dec m n) as [->|Hne]; [right; eapply any_le; eassumption | left; exact Hne].
Qed.

Lemma do_export_ok n d m v u e : ok_step n d e (fst (do_export m v u e)).
Proof.
  intros S. revert S. change (ok_step n d e (fst (do_export m v u e))).
  unfold do_export. destruct v as [[l [|]]|].
  - destruct (find_pol PAnywhere 0 m e) as [i|] eqn:F; [|apply update_or_add_ok].
    destruct (scope_get i m e) as [x|]; [|apply ok_refl].
    destruct (assign x l true) as [x' [er|]]; cbn [fst]; intros S; apply ok_set; try exact S;
      (destruct (name_dec m n) as [->|Hne]; [right; eapply any_le; eassumption | left; exact Hne]).
  - apply update_or_add_ok.
  - destruct (find_pol PAnywhere 0 m e) as [i|] eqn:F; [|apply ok_refl].
    destruct (scope_get i m e) as [x|]; [|apply ok_refl]. cbn [fst].
    intros S. apply ok_set; [|exact S].
    destruct (name_dec m n) as [->|Hne]; [right; eapply any_le; eassumption | left; exact Hne].
Qed.

Lemma do_declare_ok n d verb f dc e : ok_step n d e (fst (do_declare verb f dc e)).
Proof.
  intros S. revert S. change (ok_step n d e (fst (do_declare verb f dc e))).
  unfold do_declare.
  assert (G : forall cl : bool,
     ok_step n d e (fst (
      let '(init, has_index, name_is_array) := decl_parts dc in
      match find_pol (if cl then POnlyCurLocal else PAnywhere) 0 (decl_name dc) e with
      | Some i => match scope_get i (decl_name dc) e with
                  | Some x => let '(x', er) := declare_on f verb init has_index true x in
                              (scope_set i (decl_name dc) x' e, er)
                  | None => (e, Some EOther)
                  end
      | None =>
          match declare_on f verb init false false
                  (new_var (VUnset (if f_a f then UIdx else if f_A f then UAssoc
                                    else if name_is_array then UIdx else UUntyped))) with
          | (x', None) => env_add (decl_name dc) x' (if cl then KLocal else KGlobal) e
          | (_, Some er) => (e, Some er)
          end
      end))).
  { intros cl. destruct (decl_parts dc) as [[init hi] nia]. set (m := decl_name dc).
    destruct (find_pol _ 0 m e) as [i|] eqn:F.
    - destruct (scope_get i m e) as [x|]; [|apply ok_refl].
      destruct (declare_on f verb init hi true x) as [x' er]. cbn [fst].
      intros S. apply ok_set; [|exact S].
      destruct (name_dec m n) as [Hn|Hne]; [right | left; exact Hne].
      destruct cl.
      + eapply first_local_le; [apply S | eapply curlocal_is_first; exact F].
      + rewrite Hn in F. eapply any_le; eassumption.
    - destruct (declare_on _ _ _ _ _ _) as [x' [er|]]; cbn [fst]; [apply ok_refl|].
      intros S. apply ok_add; [|exact S].
      destruct (name_dec m n) as [Hn|Hne]; [right | left; exact Hne].
      destruct cl.
      + intros j K. eapply first_local_le; [apply S | exact K].
      + exfalso. rewrite Hn in F. eapply any_some; eassumption. }
  destruct verb; destruct (in_function e) eqn:IF; cbv zeta; try apply ok_refl.
  - destruct (f_g f); cbn [negb andb]; [apply (G false) | apply (G true)].
  - apply (G false).
  - apply (G true).
  - apply (G false).
  - apply (G false).
Qed.

Lemma apply_assignment_ok n d m ix l app ex rq cr e :
  (rq = None /\ cr = KGlobal) \/ (rq = Some KCommand /\ cr = KCommand /\ exists mp e0, e = (KCommand, mp) :: e0) ->
  ok_step n d e (fst (apply_assignment m ix l app ex rq cr e)).
Proof.
  intros Hrq S. revert S. change (ok_step n d e (fst (apply_assignment m ix l app ex rq cr e))).
  unfold apply_assignment.
  match goal with |- context [match find_pol _ _ _ _ with Some _ => _ | None => ?c end] => set (create := c) end.
  assert (HC : (m <> n \/ rq = Some KCommand) -> ok_step n d e (fst create)).
  { intros Hm. subst create.
    destruct (match ix with Some _ => _ | None => _ end) as [v|er]; cbn [fst]; [|apply ok_refl].
    intros S. apply ok_add; [|exact S]. destruct Hm as [Hm|Hm]; [left; exact Hm|].
    right. destruct Hrq as [[Hq _]|(_ & -> & mp & e0 & ->)]; [congruence|].
    intros j K. cbn in K. inversion K. lia. }
  destruct (find_pol PAnywhere 0 m e) as [i|] eqn:F.
  - pose proof (find_pol_bound _ _ _ _ _ F) as HB.
    destruct (scope_get i m e) as [x|] eqn:G; [|congruence].
    destruct (scope_kind i e) as [k|] eqn:K.
    2:{ exfalso. unfold scope_kind, scope_get, scope, vmap in *. destruct (nth_error e i) as [[? ?]|]; discriminate. }
    destruct (match rq with Some rk => kind_eqb k rk | None => true end) eqn:Q.
    + assert (Hi : forall S : shielded n d e, m <> n \/ (i <= d)%nat).
      { intros S. destruct (name_dec m n) as [->|Hne]; [right; eapply any_le; eassumption | left; exact Hne]. }
      destruct ix as [ixs|].
      * destruct l; [|apply ok_refl].
        destruct (assign_at_index x ixs s app) as [x' [er|]]; cbn [fst]; intros S; apply ok_set; auto.
      * destruct (assign x l app) as [x' [er|]]; cbn [fst]; intros S; apply ok_set; auto.
    + intros S. apply HC; [|exact S]. destruct rq; [right|discriminate].
      destruct Hrq as [[? _]|(-> & _)]; [discriminate | reflexivity].
  - intros S. apply HC; [|exact S]. destruct (name_dec m n) as [->|Hne]; [|left; exact Hne].
    exfalso. eapply any_some; eassumption.
Qed.

(** ** the interpreter *)
(** no `unset n` anywhere inside the action *)
Fixpoint nu (n : str) (a : action) : bool :=
  match a with
  | ACmd _ c =>
      match c with
      | CBuiltin (BUnset m) => negb (str_eqb m n)
      | CFunc body => (fix all (l : list action) : bool :=
                         match l with [] => true | x :: r => nu n x && all r end) body
      | _ => true
      end
  | _ => true
  end.

Lemma nu_body_forall n body :
  (fix all (l : list action) : bool := match l with [] => true | x :: r => nu n x && all r end) body = true ->
  Forall (fun a => nu n a = true) body.
Proof.
  induction body as [|a l IH]; intros H; constructor; apply andb_true_iff in H; destruct H; auto.
Qed.

Lemma shielded_push n d k e : shielded n d e -> shielded n (S d) (push_scope k e).
Proof.
  intros [B L]. split; [exact B|]. unfold has_local_upto in *.
  change (kinds (push_scope k e)) with (k :: kinds e).
  change (firstn (S (S d)) (k :: kinds e)) with (k :: firstn (S d) (kinds e)).
  cbn [existsb]. rewrite L. apply orb_true_r.
Qed.

Lemma ok_push_pop n d k e e1 :
  ok_step n (S d) (push_scope k e) e1 -> ok_step n d e (fst (pop_scope k e1)).
Proof.
  intros H Sh. destruct (H (shielded_push _ _ k _ Sh)) as (K & [B1 L1] & B).
  destruct e1 as [|[k1 m1] e1]; [discriminate|]. cbn in K. inversion K as [[Hk K']]. cbn [pop_scope fst].
  split; [exact K'|]. split; [split|].
  - exact B1.
  - destruct Sh as [_ L]. unfold has_local_upto in *. unfold kinds in *. rewrite K'. exact L.
  - intros j Hj. specialize (B (S j) ltac:(lia)). exact B.
Qed.

Lemma exec_builtin_ok n d b e :
  match b with BUnset m => negb (str_eqb m n) | _ => true end = true ->
  ok_step n d e (fst (exec_builtin b e)).
Proof.
  destruct b; cbn [exec_builtin fst]; intros H.
  - apply do_declare_ok.
  - apply do_export_ok.
  - apply env_unset_ok. intros ->. rewrite str_eqb_refl in H. discriminate.
  - apply env_unset_index_ok.
  - apply update_or_add_ok.
  - apply ok_refl.
  - apply ok_refl.
Qed.

Lemma apply_temps_ok n d ts : forall mp e0,
  ok_step n d ((KCommand, mp) :: e0) (fst (apply_temps ts ((KCommand, mp) :: e0))).
Proof.
  induction ts as [|[[[m ix] l] app] ts IH]; intros mp e0; [apply ok_refl|].
  cbn [apply_temps].
  pose proof (apply_assignment_ok n d m ix l app true (Some KCommand) KCommand ((KCommand, mp) :: e0)
                (or_intror (conj eq_refl (conj eq_refl (ex_intro _ mp (ex_intro _ e0 eq_refl)))))) as H.
  pose proof (apply_assignment_kinds m ix l app true (Some KCommand) KCommand ((KCommand, mp) :: e0)) as HK.
  destruct (apply_assignment _ _ _ _ _ _ _ _) as [e' [er|]]; cbn [fst] in *; [exact H|].
  destruct e' as [|[k' m'] e0']; [discriminate|]. cbn in HK. inversion HK; subst k'.
  eapply ok_trans; [exact H | apply IH].
Qed.

Lemma apply_temps_ok_push n d ts e :
  ok_step n d (push_scope KCommand e) (fst (apply_temps ts (push_scope KCommand e))).
Proof. apply apply_temps_ok. Qed.

(** The shield: if [n] is bound in scope [d] and a Local scope exists at or above it, no action
    without `unset n` touches any binding of [n] below scope [d], and [n] stays bound there. *)
Theorem exec_shield n : forall a, nu n a = true -> forall e d, ok_step n d e (env_of (exec a e)).
Proof.
  intros a. induction a using action_ind'; intros U e d; cbn [nu] in U.
  - cbn [exec].
    pose proof (apply_assignment_ok n d n0 ix l app false None KGlobal e (or_introl (conj eq_refl eq_refl))) as H.
    destruct (apply_assignment _ _ _ _ _ _ _ e) as [e' [er|]]; exact H.
  - cbn [exec]. pose proof (update_or_add_ok n d n0 l UpdNone e) as H.
    destruct (update_or_add _ _ _ _ _ e) as [e' [er|]]; exact H.
  - cbn [exec]. pose proof (update_or_add_elem_ok n d n0 ix v e) as H.
    destruct (update_or_add_elem _ _ _ _ _ e) as [e' [er|]]; exact H.
  - cbn [exec]. destruct (match get n0 e with Some _ => _ | None => true end); [|apply ok_refl].
    pose proof (update_or_add_ok n d n0 (LScalar v) UpdNone e) as H.
    destruct (update_or_add _ _ _ _ _ e) as [e' [er|]]; exact H.
  - apply ok_refl.
  - cbn [exec]. pose proof (apply_temps_ok_push n (S d) ts e) as HT.
    destruct (apply_temps ts (push_scope KCommand e)) as [e2 [er|]]; cbn [fst] in HT.
    + unfold env_of; cbn [fst]. apply ok_push_pop. exact HT.
    + pose proof (exec_builtin_ok n (S d) b e2 U) as HB. destruct (exec_builtin b e2) as [e3 o]. cbn [fst] in HB.
      unfold env_of; cbn [fst]. apply ok_push_pop. eapply ok_trans; eassumption.
  - apply nu_body_forall in U. rewrite exec_func_eq. cbv zeta.
    pose proof (apply_temps_ok_push n (S d) ts e) as HT.
    destruct (apply_temps ts (push_scope KCommand e)) as [e2 [er|]]; cbn [fst] in HT.
    + unfold env_of; cbn [fst]. apply ok_push_pop. exact HT.
    + assert (Hl : forall l e0 d0,
                 Forall (fun a => nu n a = true -> forall e d, ok_step n d e (env_of (exec a e))) l ->
                 Forall (fun a => nu n a = true) l -> ok_step n d0 e0 (env_of (exec_list l e0))).
      { clear. induction l as [|a l IH]; intros e0 d0 HF HS; [apply ok_refl|].
        inversion HF as [|? ? Ha Hr]; subst. inversion HS as [|? ? Sa Sr]; subst. cbn [exec_list].
        specialize (Ha Sa e0 d0). destruct (exec a e0) as [[e' o1] fl]. unfold env_of in Ha. cbn [fst] in Ha.
        destruct fl; try exact Ha.
        specialize (IH e' d0 Hr Sr). destruct (exec_list l e') as [[e'' o2] fl2]. unfold env_of in *. cbn [fst] in *.
        eapply ok_trans; eassumption. }
      specialize (Hl body (push_scope KLocal e2) (S (S d)) H U).
      destruct (exec_list body _) as [[e4 o] fl]. unfold env_of in *. cbn [fst] in *.
      apply ok_push_pop. eapply ok_trans; [exact HT|]. apply ok_push_pop. exact Hl.
  - cbn [exec]. pose proof (apply_temps_ok_push n (S d) ts e) as HT.
    destruct (apply_temps ts (push_scope KCommand e)) as [e2 [er|]]; cbn [fst] in HT;
      unfold env_of; cbn [fst]; apply ok_push_pop; exact HT.
  - cbn [exec]. pose proof (apply_temps_ok_push n (S d) ts e) as HT.
    destruct (apply_temps ts (push_scope KCommand e)) as [e2 [er|]]; cbn [fst] in HT;
      unfold env_of; cbn [fst]; apply ok_push_pop; exact HT.
Qed.

Lemma exec_list_shield n : forall l e d, Forall (fun a => nu n a = true) l ->
  ok_step n d e (env_of (exec_list l e)).
Proof.
  induction l as [|a l IH]; intros e d HS; [apply ok_refl|].
  inversion HS as [|? ? Sa Sr]; subst. cbn [exec_list].
  pose proof (exec_shield n a Sa e d) as Ha. destruct (exec a e) as [[e' o1] fl]. unfold env_of in Ha. cbn [fst] in Ha.
  destruct fl; try exact Ha.
  specialize (IH e' d Sr). destruct (exec_list l e') as [[e'' o2] fl2]. unfold env_of in *. cbn [fst] in *.
  eapply ok_trans; eassumption.
Qed.

(** lookups only depend on the per-scope bindings of the name *)
Lemma find_any_ext n : forall e1 e2 lc1 lc2, length e1 = length e2 ->
  (forall j, scope_get j n e1 = scope_get j n e2) ->
  find_pol PAnywhere lc1 n e1 = find_pol PAnywhere lc2 n e2.
Proof.
  induction e1 as [|[k1 m1] e1 IH]; intros [|[k2 m2] e2] lc1 lc2 HL H; cbn in *; try discriminate; [reflexivity|].
  pose proof (H O) as H0. unfold scope_get in H0. cbn in H0. rewrite H0.
  destruct (mget n m2); [reflexivity|]. f_equal. apply IH; [lia|].
  intros j. apply (H (S j)).
Qed.

Lemma get_ext n e1 e2 : length e1 = length e2 ->
  (forall j, scope_get j n e1 = scope_get j n e2) -> get n e1 = get n e2.
Proof.
  intros HL H. unfold get, get_pol. rewrite (find_any_ext n e1 e2 0 0 HL H).
  destruct (find_pol PAnywhere 0 n e2); [apply H | reflexivity].
Qed.

Lemma kinds_length e1 e2 : kinds e1 = kinds e2 -> length e1 = length e2.
Proof. unfold kinds. intros H. apply (f_equal (@length kind)) in H. rewrite !map_length in H. exact H. Qed.

(** ** locals *)
(** Whatever the body does (nested calls, prefix assignments, exports, `return`, errors …) short
    of `unset n`, once [n] is bound in the function's Local scope every binding of [n] below is
    untouched, so after the return the caller sees what it saw before. *)
Theorem local_restores : forall n body m rest,
  mget n m <> None -> Forall (fun a => nu n a = true) body ->
  let e' := fst (pop_scope KLocal (env_of (exec_list body ((KLocal, m) :: rest)))) in
  kinds e' = kinds rest /\ (forall j, scope_get j n e' = scope_get j n rest) /\ get n e' = get n rest.
Proof.
  intros n body m rest Hb HS.
  assert (S0 : shielded n 0 ((KLocal, m) :: rest)) by (split; [exact Hb | reflexivity]).
  destruct (exec_list_shield n body ((KLocal, m) :: rest) 0 HS S0) as (K & _ & B).
  destruct (env_of (exec_list body ((KLocal, m) :: rest))) as [|[k1 m1] e1]; [discriminate|].
  cbn in K. inversion K as [[Hk K']]. cbn [pop_scope fst].
  assert (HJ : forall j, scope_get j n e1 = scope_get j n rest) by (intros j; apply (B (S j)); lia).
  split; [exact K'|]. split; [exact HJ|]. apply get_ext; [apply kinds_length; exact K' | exact HJ].
Qed.

(** `local n[=v]` (run as a command inside a function) does bind [n] in the function's scope *)
Lemma local_binds : forall f d m rest e' ,
  do_declare DLocal f d ((KCommand, []) :: (KLocal, m) :: rest) = (e', None) ->
  exists m', e' = (KCommand, []) :: (KLocal, m') :: rest /\ mget (decl_name d) m' <> None.
Proof.
  intros f d m rest e'. unfold do_declare. cbn [in_function existsb fst is_local kind_eqb orb].
  cbv zeta. destruct (decl_parts d) as [[init hi] nia].
  cbn [find_pol is_local kind_eqb admits andb Nat.eqb mget stops_after option_map].
  destruct (mget (decl_name d) m) as [x|] eqn:G; cbn [option_map].
  - unfold scope_get. cbn [nth_error]. rewrite G.
    destruct (declare_on f DLocal init hi true x) as [x' er]. intros H. inversion H; subst.
    eexists. split; [reflexivity|]. rewrite mget_mset_same. discriminate.
  - destruct (declare_on _ _ _ _ _ _) as [x' [er|]]; [discriminate|].
    unfold env_add. cbn. intros H. inversion H; subst.
    eexists. split; [reflexivity|]. rewrite mget_mset_same. discriminate.
Qed.

(** dynamic scoping: a callee (any number of frames deeper) sees the caller's local *)
Theorem callee_sees_local : forall n frames m rest x,
  mget n m = Some x -> Forall (fun s => snd s = []) frames ->
  get n (frames ++ (KLocal, m) :: rest) = Some x.
Proof.
  intros n frames m rest x G HF. unfold get, get_pol.
  assert (H : forall lc, find_pol PAnywhere lc n (frames ++ (KLocal, m) :: rest) = Some (length frames)).
  { induction HF as [|[k mp] fr Hs _ IH]; intros lc; cbn.
    - rewrite G. reflexivity.
    - cbn in Hs. subst mp. cbn. rewrite IH. reflexivity. }
  rewrite H. unfold scope_get. rewrite nth_error_app2 by lia. rewrite Nat.sub_diag. cbn. exact G.
Qed.

(** `unset n` on a local of the current function leaves a tombstone: the name reads as unset,
    the shadowed binding is not revealed, later assignments stay local *)
Theorem unset_local_tombstone : forall n m rest x,
  mget n m = Some x -> v_ro x = false ->
  env_of (exec (ACmd [] (CBuiltin (BUnset n))) ((KLocal, m) :: rest)) = (KLocal, mset n tombstone m) :: rest.
Proof.
  intros n m rest x G R. unfold env_of. cbn [exec apply_temps push_scope exec_builtin fst].
  unfold env_unset, push_scope. cbn [find_pol is_local kind_eqb admits stops_after].
  change (mget n []) with (@None var). cbn [option_map]. rewrite G. cbn [option_map].
  unfold scope_get. cbn [nth_error]. rewrite G, R.
  unfold is_cur_local, scope_kind. cbn. reflexivity.
Qed.

Corollary unset_local_reads_unset : forall n m rest x,
  mget n m = Some x -> v_ro x = false ->
  get n (env_of (exec (ACmd [] (CBuiltin (BUnset n))) ((KLocal, m) :: rest))) = Some tombstone.
Proof.
  intros n m rest x G R. rewrite (unset_local_tombstone n m rest x G R).
  unfold get, get_pol. cbn. rewrite mget_mset_same. unfold scope_get. cbn. apply mget_mset_same.
Qed.

(** ** temporary assignments *)
Definition temp_name (t : tassign) : str := match t with (m, _, _, _) => m end.

(** the prefix name is not currently provided by an enclosing prefix assignment *)
Definition not_nested (e : env) (t : tassign) : Prop :=
  match find_pol PAnywhere 0 (temp_name t) e with
  | Some i => scope_kind i e <> Some KCommand
  | None => True
  end.

Lemma apply_temps_top_only ts : forall mp e, Forall (not_nested e) ts ->
  exists mp', fst (apply_temps ts ((KCommand, mp) :: e)) = (KCommand, mp') :: e /\
    (snd (apply_temps ts ((KCommand, mp) :: e)) = None ->
     forall t, In t ts -> mget (temp_name t) mp' <> None) /\
    (forall n, mget n mp <> None -> mget n mp' <> None).
Proof.
  induction ts as [|[[[m ix] l] app] ts IH]; intros mp e HF.
  - exists mp. cbn. split; [reflexivity|]. split; [intros _ t [] | auto].
  - inversion HF as [|? ? Hn Hr]; subst. cbn [apply_temps].
    assert (HA : exists mp1, apply_assignment m ix l app true (Some KCommand) KCommand ((KCommand, mp) :: e)
                             = ((KCommand, mp1) :: e, snd (apply_assignment m ix l app true (Some KCommand) KCommand ((KCommand, mp) :: e)))
                 /\ (snd (apply_assignment m ix l app true (Some KCommand) KCommand ((KCommand, mp) :: e)) = None -> mget m mp1 <> None)
                 /\ (forall n, mget n mp <> None -> mget n mp1 <> None)).
    { unfold apply_assignment.
      match goal with |- context [match find_pol _ _ _ _ with Some _ => _ | None => ?c end] => set (create := c) end.
      assert (HC : exists mp1, create = ((KCommand, mp1) :: e, snd create) /\ (snd create = None -> mget m mp1 <> None)
                               /\ (forall n, mget n mp <> None -> mget n mp1 <> None)).
      { subst create. destruct (match ix with Some _ => _ | None => _ end) as [v|er].
        - unfold env_add. cbn. eexists. split; [reflexivity|]. split.
          + intros _. rewrite mget_mset_same. discriminate.
          + intros n Hn'. destruct (name_dec n m) as [->|Hne]; [rewrite mget_mset_same; discriminate|].
            rewrite mget_mset_other by exact Hne. exact Hn'.
        - exists mp. cbn. split; [reflexivity|]. split; [discriminate | auto]. }
      cbn [find_pol is_local kind_eqb admits stops_after].
      destruct (mget m mp) as [x|] eqn:G.
      - unfold scope_get, scope_kind. cbn [nth_error]. rewrite G. cbn [kind_eqb].
        assert (HS : forall x' (er : option err), exists mp1,
                   (scope_set 0 m x' ((KCommand, mp) :: e), er) = ((KCommand, mp1) :: e, er)
                   /\ (er = None -> mget m mp1 <> None) /\ (forall n, mget n mp <> None -> mget n mp1 <> None)).
        { intros x' er. eexists. split; [reflexivity|]. split.
          - intros _. rewrite mget_mset_same. discriminate.
          - intros n Hn'. destruct (name_dec n m) as [->|Hne]; [rewrite mget_mset_same; discriminate|].
            rewrite mget_mset_other by exact Hne. exact Hn'. }
        destruct ix as [ixs|].
        + destruct l.
          * destruct (assign_at_index x ixs s app) as [x' [er|]]; cbn [snd]; apply HS.
          * exists mp. cbn. split; [reflexivity|]. split; [discriminate | auto].
        + destruct (assign x l app) as [x' [er|]]; cbn [snd]; apply HS.
      - unfold not_nested in Hn. cbn [temp_name] in Hn.
        destruct (find_pol PAnywhere 0 m e) as [i|] eqn:F; cbn [option_map]; [|exact HC].
        pose proof (find_pol_bound _ _ _ _ _ F) as HB.
        change (scope_get (S i) m ((KCommand, mp) :: e)) with (scope_get i m e).
        change (scope_kind (S i) ((KCommand, mp) :: e)) with (scope_kind i e).
        destruct (scope_get i m e) as [x|]; [|exact HC].
        destruct (scope_kind i e) as [k|]; [|exact HC].
        destruct k; cbn [kind_eqb]; try exact HC. congruence. }
    destruct HA as (mp1 & EQ & Hb1 & Hk1). rewrite EQ.
    destruct (snd (apply_assignment m ix l app true (Some KCommand) KCommand ((KCommand, mp) :: e))) as [er|] eqn:E.
    + exists mp1. cbn. split; [reflexivity|]. split; [discriminate | exact Hk1].
    + destruct (IH mp1 e Hr) as (mp2 & EQ2 & Hb2 & Hk2). exists mp2. split; [exact EQ2|]. split.
      * intros Hs t [<-|Hin]; [cbn; apply Hk2; apply Hb1; reflexivity | apply Hb2; assumption].
      * intros n Hn'. apply Hk2, Hk1, Hn'.
Qed.

Lemma apply_temps_top_only_push ts e : Forall (not_nested e) ts ->
  exists mp' : vmap, apply_temps ts (push_scope KCommand e) =
                     pair ((KCommand, mp') :: e) (snd (apply_temps ts (push_scope KCommand e))) /\
    (snd (apply_temps ts (push_scope KCommand e)) = None -> forall t, In t ts -> mget (temp_name t) mp' <> None).
Proof.
  intros HF. destruct (apply_temps_top_only ts [] e HF) as (mp' & EQ & Hb & _).
  exists mp'.
  assert (EQ' : fst (apply_temps ts (push_scope KCommand e)) = (KCommand, mp') :: e) by exact EQ.
  split; [|exact Hb].
  destruct (apply_temps ts (push_scope KCommand e)) as [e2 er]. cbn [fst snd] in *. subst e2. reflexivity.
Qed.

Definition noop_cmd (c : cmd) : bool :=
  match c with
  | CExternal | CNotFound | CBuiltin BNop | CBuiltin (BProbe _) => true
  | _ => false
  end.

(** `n=v cmd` for a command that does not itself write variables (external, not found, `:`,
    probe) leaves the environment exactly as it was: the Command scope is popped on every
    dispatch path, and the prefix assignments touched nothing else. *)
Theorem temp_assign_undone : forall ts c e,
  noop_cmd c = true -> Forall (not_nested e) ts -> env_of (exec (ACmd ts c) e) = e.
Proof.
  intros ts c e Hc HF. destruct (apply_temps_top_only_push ts e HF) as (mp' & EQ & _).
  cbn [exec]. rewrite EQ. destruct (snd (apply_temps ts (push_scope KCommand e))) as [er|].
  - reflexivity.
  - destruct c as [b| | |]; try discriminate; try reflexivity.
    destruct b; try discriminate; reflexivity.
Qed.

(** `n=v f`: whatever the function body does short of `unset n`, the caller's [n] is as before *)
Theorem temp_func_restores : forall n ts body e,
  In n (map temp_name ts) -> Forall (not_nested e) ts -> Forall (fun a => nu n a = true) body ->
  let e' := env_of (exec (ACmd ts (CFunc body)) e) in
  kinds e' = kinds e /\ (forall j, scope_get j n e' = scope_get j n e) /\ get n e' = get n e.
Proof.
  intros n ts body e Hin HF HS.
  assert (G : kinds (env_of (exec (ACmd ts (CFunc body)) e)) = kinds e /\
              forall j, scope_get j n (env_of (exec (ACmd ts (CFunc body)) e)) = scope_get j n e).
  { rewrite exec_func_eq. cbv zeta.
    destruct (apply_temps_top_only_push ts e HF) as (mp' & EQ & Hb).
    rewrite EQ. destruct (snd (apply_temps ts (push_scope KCommand e))) as [er|].
    - unfold env_of. cbn. auto.
    - apply in_map_iff in Hin. destruct Hin as (t & <- & Hin).
      assert (S0 : shielded (temp_name t) 1 (push_scope KLocal ((KCommand, mp') :: e))).
      { split; [|reflexivity]. unfold scope_get. cbn. apply (Hb eq_refl t Hin). }
      destruct (exec_list_shield (temp_name t) body _ 1 HS S0) as (K & _ & B).
      destruct (exec_list body (push_scope KLocal ((KCommand, mp') :: e))) as [[e4 o] fl]. unfold env_of in *. cbn [fst] in *.
      destruct e4 as [|[k1 m1] [|[k2 m2] e4]]; try discriminate. cbn in K. inversion K as [[Hk1 Hk2 K']].
      cbn. split; [exact K'|]. intros j. apply (B (S (S j))). lia. }
  destruct G as [K HJ]. split; [exact K|]. split; [exact HJ|].
  apply get_ext; [apply kinds_length; exact K | exact HJ].
Qed.

(** the unrestricted statement is false: a prefix assignment nested inside a call that was
    itself invoked with a prefix assignment of the same name overwrites the outer binding *)
Lemma temp_assign_undone_refuted :
  exists ts c e, noop_cmd c = true /\ env_of (exec (ACmd ts c) e) <> e.
Proof.
  exists [(va, None, LScalar [50%N], false)], (CBuiltin BNop),
         [(KLocal, []); (KCommand, [(va, mkVar (VStr [49%N]) true false false XNone)]); (KGlobal, [])].
  split; [reflexivity|]. vm_compute. discriminate.
Qed.
