(** C09 — the readonly invariant: no writer that goes through [assign] / [try_unset_in_map]
    changes the content or the readonly flag of a readonly variable, or removes it; the
    element paths ([assign_at_index], [unset_index]) do (refutations). *)
From Coq Require Import String.
From BV Require Import Base.Prelude Base.Codec Scope.Vars Scope.Env Scope.Prog Scope.EnvLemmas.

(** ** the invariant *)
Definition var_ro_pres (x x' : var) : Prop :=
  v_ro x = true -> v_ro x' = true /\ content (v_val x') = content (v_val x).

Definition map_ro_pres (m m' : vmap) : Prop :=
  forall n x, mget n m = Some x -> v_ro x = true ->
    exists x', mget n m' = Some x' /\ v_ro x' = true /\ content (v_val x') = content (v_val x).

Definition scope_ro_pres (s s' : scope) : Prop := fst s = fst s' /\ map_ro_pres (snd s) (snd s').

(** scope by scope: every readonly variable is still there, still readonly, same content *)
Definition ro_pres (e e' : env) : Prop := Forall2 scope_ro_pres e e'.

Lemma map_ro_pres_refl m : map_ro_pres m m.
Proof. intros n x H R. exists x. auto. Qed.

Lemma ro_pres_refl e : ro_pres e e.
Proof. induction e; constructor; [split; [reflexivity | apply map_ro_pres_refl] | assumption]. Qed.

Lemma map_ro_pres_trans m1 m2 m3 : map_ro_pres m1 m2 -> map_ro_pres m2 m3 -> map_ro_pres m1 m3.
Proof.
  intros H12 H23 n x G R. destruct (H12 n x G R) as (x2 & G2 & R2 & C2).
  destruct (H23 n x2 G2 R2) as (x3 & G3 & R3 & C3). exists x3. repeat split; congruence.
Qed.

Lemma ro_pres_trans e1 e2 e3 : ro_pres e1 e2 -> ro_pres e2 e3 -> ro_pres e1 e3.
Proof.
  intros H12; revert e3; induction H12 as [|s1 s2 e1 e2 [K M] _ IH]; intros e3 H23; inversion H23; subst; constructor.
  - destruct H1 as [K' M']. split; [congruence | eapply map_ro_pres_trans; eassumption].
  - apply IH. assumption.
Qed.

Lemma ro_pres_push k e e' : ro_pres e e' -> ro_pres (push_scope k e) (push_scope k e').
Proof. intros H. constructor; [split; [reflexivity | apply map_ro_pres_refl] | exact H]. Qed.

Lemma ro_pres_pop_r k k' m e e' : ro_pres ((k, m) :: e) e' -> ro_pres e (fst (pop_scope k' e')).
Proof. intros H. inversion H; subst. destruct y as [k2 m2]. cbn. assumption. Qed.

Lemma mset_ro_pres n x' m :
  (forall x, mget n m = Some x -> var_ro_pres x x') -> map_ro_pres m (mset n x' m).
Proof.
  intros H n0 x G R. destruct (str_eqb n0 n) eqn:E.
  - apply str_eqb_eq in E. subst n0. exists x'. rewrite mget_mset_same. destruct (H x G R). auto.
  - exists x. rewrite mget_mset_other; [auto|]. intros ->. rewrite str_eqb_refl in E. discriminate.
Qed.

Lemma mdel_ro_pres n m :
  (forall x, mget n m = Some x -> v_ro x = false) -> map_ro_pres m (mdel n m).
Proof.
  intros H n0 x G R. destruct (str_eqb n0 n) eqn:E.
  - apply str_eqb_eq in E. subst n0. rewrite (H x G) in R. discriminate.
  - exists x. rewrite mget_mdel_other; [auto|]. intros ->. rewrite str_eqb_refl in E. discriminate.
Qed.

Lemma scope_upd_ro_pres i f e :
  (forall k m, nth_error e i = Some (k, m) -> map_ro_pres m (f m)) -> ro_pres e (scope_upd i f e).
Proof.
  revert i; induction e as [|[k m] e IH]; intros [|i] H; cbn; try constructor.
  - split; [reflexivity | apply (H k m eq_refl)].
  - apply ro_pres_refl.
  - split; [reflexivity | apply map_ro_pres_refl].
  - apply IH. intros k' m' Hn. apply (H k' m'). exact Hn.
Qed.

Lemma scope_set_ro_pres i n x' e :
  (forall x, scope_get i n e = Some x -> var_ro_pres x x') -> ro_pres e (scope_set i n x' e).
Proof.
  intros H. apply scope_upd_ro_pres. intros k m Hn. apply mset_ro_pres. intros x G. apply H.
  unfold scope_get, scope, vmap in *. rewrite Hn. exact G.
Qed.

Lemma scope_del_ro_pres i n e :
  (forall x, scope_get i n e = Some x -> v_ro x = false) -> ro_pres e (scope_del i n e).
Proof.
  intros H. apply scope_upd_ro_pres. intros k m Hn. apply mdel_ro_pres. intros x G. apply H.
  unfold scope_get, scope, vmap in *. rewrite Hn. exact G.
Qed.

(** ** variable level *)
Lemma assign_readonly x l app : v_ro x = true -> assign x l app = (x, Some EReadonly).
Proof. intros R. unfold assign. rewrite R. reflexivity. Qed.

Lemma assign_ro_pres x l app : var_ro_pres x (fst (assign x l app)).
Proof. intros R. rewrite assign_readonly by exact R. cbn. auto. Qed.

Lemma assign_at_index_readonly x ix v app : v_ro x = true -> assign_at_index x ix v app = (x, Some EReadonly).
Proof. intros R. unfold assign_at_index. rewrite R. reflexivity. Qed.

Lemma assign_at_index_ro_pres x ix v app : var_ro_pres x (fst (assign_at_index x ix v app)).
Proof. intros R. rewrite assign_at_index_readonly by exact R. cbn. auto. Qed.

Lemma unset_index_readonly x ix : v_ro x = true -> unset_index x ix = Err EReadonly.
Proof. intros R. unfold unset_index. rewrite R. reflexivity. Qed.

Lemma var_ro_pres_refl x : var_ro_pres x x.
Proof. intros R; auto. Qed.

Lemma var_ro_pres_trans x y z : var_ro_pres x y -> var_ro_pres y z -> var_ro_pres x z.
Proof. intros A B R. destruct (A R) as [R1 C1]. destruct (B R1) as [R2 C2]. split; congruence. Qed.

Lemma run_updater_ro_pres u x : var_ro_pres x (run_updater u x).
Proof. destruct u; intros R; cbn; auto. Qed.

Lemma opt_xf_ro o t x : v_ro (opt_xf o t x) = v_ro x /\ v_val (opt_xf o t x) = v_val x.
Proof. destruct o as [[|]|]; cbn; auto. destruct (v_xf x), t; cbn; auto. Qed.

Lemma attrs_before_ro f x : v_ro (attrs_before f x) = v_ro x /\ v_val (attrs_before f x) = v_val x.
Proof.
  unfold attrs_before.
  set (x1 := match f_i f with Some b => set_int x b | None => x end).
  assert (H1 : v_ro x1 = v_ro x /\ v_val x1 = v_val x) by (subst x1; destruct (f_i f); cbn; auto).
  destruct (opt_xf_ro (f_c f) XCap x1) as [A1 A2].
  destruct (opt_xf_ro (f_l f) XLower (opt_xf (f_c f) XCap x1)) as [B1 B2].
  destruct (opt_xf_ro (f_u f) XUpper (opt_xf (f_l f) XLower (opt_xf (f_c f) XCap x1))) as [C1 C2].
  destruct H1 as [H1 H2].
  destruct (f_x f); cbn; split; congruence.
Qed.

(** `declare`/`local`/`readonly` on an existing variable, without -a/-A *)
Lemma declare_on_ro_pres f verb init app x :
  f_a f = false -> f_A f = false -> var_ro_pres x (fst (declare_on f verb init app true x)).
Proof.
  intros Ha HA R. unfold declare_on. rewrite Ha, HA. cbn [andb mlift].
  destruct (attrs_before_ro f x) as [B1 B2].
  assert (R3 : v_ro (attrs_before f x) = true) by congruence.
  destruct init as [l|].
  - rewrite assign_readonly by exact R3. cbn. split; congruence.
  - cbn [mok]. unfold attrs_after.
    destruct verb; cbn; try (split; congruence);
      destruct (f_r f) as [[|]|]; cbn; try rewrite R3; cbn; split; congruence.
Qed.

(** ** finding *)
Lemma find_any_none n : forall e lc, find_pol PAnywhere lc n e = None -> forall j, scope_get j n e = None.
Proof.
  unfold scope_get. induction e as [|[k m] e IH]; intros lc H j; cbn in *.
  - destruct j; reflexivity.
  - destruct (mget n m) eqn:G; [discriminate|].
    destruct (find_pol PAnywhere _ n e) eqn:F; [discriminate|].
    destruct j; cbn; [exact G | eapply IH; exact F].
Qed.

Lemma find_any_first n : forall e lc i, find_pol PAnywhere lc n e = Some i ->
  forall j, (j < i)%nat -> scope_get j n e = None.
Proof.
  unfold scope_get. induction e as [|[k m] e IH]; intros lc i H j Hlt; cbn in *; [discriminate|].
  destruct (mget n m) eqn:G; [inversion H; lia|].
  destruct (find_pol PAnywhere _ n e) eqn:F; cbn in H; [|discriminate]. inversion H; subst.
  destruct j; cbn; [exact G | eapply IH; [exact F | lia]].
Qed.

(** under OnlyInCurrentLocal: not found means the first Local scope does not bind the name *)
Lemma find_curlocal_none n : forall e, find_pol POnlyCurLocal 0 n e = None ->
  forall j, find_kind KLocal e = Some j -> scope_get j n e = None.
Proof.
  unfold scope_get. induction e as [|[k m] e IH]; intros H j Hk; cbn in *; [discriminate|].
  destruct k; cbn in *.
  - inversion Hk; subst. cbn. destruct (mget n m); [discriminate | reflexivity].
  - destruct (find_pol POnlyCurLocal 0 n e) eqn:F; [discriminate|].
    destruct (find_kind KLocal e) eqn:K; cbn in Hk; [|discriminate]. inversion Hk; subst. cbn. apply IH; reflexivity.
  - destruct (find_pol POnlyCurLocal 0 n e) eqn:F; [discriminate|].
    destruct (find_kind KLocal e) eqn:K; cbn in Hk; [|discriminate]. inversion Hk; subst. cbn. apply IH; reflexivity.
Qed.

Lemma env_add_unbound_ro_pres n v k e :
  (forall j, find_kind k e = Some j -> scope_get j n e = None) -> ro_pres e (fst (env_add n v k e)).
Proof.
  intros H. unfold env_add. destruct (find_kind k e) as [j|] eqn:K; cbn; [|apply ro_pres_refl].
  apply scope_set_ro_pres. intros x G. rewrite (H j eq_refl) in G. discriminate.
Qed.

(** ** the primitive writers *)
Lemma update_or_add_ro_pres n l u e : ro_pres e (fst (update_or_add n l u PAnywhere KGlobal e)).
Proof.
  unfold update_or_add. destruct (find_pol PAnywhere 0 n e) as [i|] eqn:F.
  - destruct (scope_get i n e) as [x|] eqn:G; [|apply ro_pres_refl].
    pose proof (assign_ro_pres x l false) as HA.
    destruct (assign x l false) as [x' [er|]]; cbn [fst] in *; apply scope_set_ro_pres; intros x0 G0;
      rewrite G in G0; inversion G0; subst x0; [exact HA|].
    eapply var_ro_pres_trans; [exact HA | apply run_updater_ro_pres].
  - destruct (assign tombstone l false) as [x' [er|]]; cbn [fst]; [apply ro_pres_refl|].
    apply env_add_unbound_ro_pres. intros j _. eapply find_any_none. exact F.
Qed.

Lemma update_or_add_elem_ro_pres n ix v e : ro_pres e (fst (update_or_add_elem n ix v PAnywhere KGlobal e)).
Proof.
  unfold update_or_add_elem. destruct (find_pol PAnywhere 0 n e) as [i|] eqn:F.
  - destruct (scope_get i n e) as [x|] eqn:G; [|apply ro_pres_refl].
    pose proof (assign_at_index_ro_pres x ix v false) as HA.
    destruct (assign_at_index x ix v false) as [x' er]; cbn [fst] in *. apply scope_set_ro_pres; intros x0 G0.
    rewrite G in G0; inversion G0; subst x0. exact HA.
  - destruct (assign tombstone _ false) as [x' [er|]]; cbn [fst]; [apply ro_pres_refl|].
    apply env_add_unbound_ro_pres. intros j _. eapply find_any_none. exact F.
Qed.

Lemma env_unset_index_ro_pres n ix e : ro_pres e (fst (env_unset_index n ix e)).
Proof.
  unfold env_unset_index. destruct (find_pol PAnywhere 0 n e) as [i|]; [|apply ro_pres_refl].
  destruct (scope_get i n e) as [x|] eqn:G; [|apply ro_pres_refl].
  destruct (unset_index x ix) as [[x' b]|er] eqn:U; cbn [fst]; [|apply ro_pres_refl].
  apply scope_set_ro_pres. intros x0 G0. rewrite G in G0. inversion G0; subst x0.
  intros R. rewrite (unset_index_readonly x ix R) in U. discriminate.
Qed.

Lemma env_unset_ro_pres n e : ro_pres e (fst (env_unset n e)).
Proof.
  unfold env_unset. destruct (find_pol PAnywhere 0 n e) as [i|]; [|apply ro_pres_refl].
  destruct (scope_get i n e) as [x|] eqn:G; [|apply ro_pres_refl].
  destruct (v_ro x) eqn:R; [apply ro_pres_refl|].
  destruct (is_cur_local i e); cbn [fst].
  - apply scope_set_ro_pres. intros x0 G0. rewrite G in G0. inversion G0; subst. intros R'. congruence.
  - apply scope_del_ro_pres. intros x0 G0. rewrite G in G0. inversion G0; subst. exact R.
Qed.

Lemma do_export_ro_pres n v u e : ro_pres e (fst (do_export n v u e)).
Proof.
  unfold do_export. destruct v as [[l [|]]|].
  - destruct (find_pol PAnywhere 0 n e) as [i|] eqn:F; [|apply update_or_add_ro_pres].
    destruct (scope_get i n e) as [x|] eqn:G; [|apply ro_pres_refl].
    pose proof (assign_ro_pres x l true) as HA.
    destruct (assign x l true) as [x' [er|]]; cbn [fst] in *; apply scope_set_ro_pres; intros x0 G0;
      rewrite G in G0; inversion G0; subst x0; [exact HA|].
    intros R. destruct (HA R). cbn. auto.
  - apply update_or_add_ro_pres.
  - destruct (find_pol PAnywhere 0 n e) as [i|]; [|apply ro_pres_refl].
    destruct (scope_get i n e) as [x|] eqn:G; [|apply ro_pres_refl]. cbn [fst].
    apply scope_set_ro_pres. intros x0 G0. rewrite G in G0. inversion G0; subst. intros R. cbn. auto.
Qed.

Lemma in_function_find_local e : in_function e = true -> exists j, find_kind KLocal e = Some j.
Proof.
  unfold in_function. induction e as [|[k m] e IH]; cbn; [discriminate|].
  destruct k; cbn; eauto; intros H; destruct (IH H) as [j ->]; cbn; eauto.
Qed.

Lemma do_declare_ro_pres verb f d e :
  f_a f = false -> f_A f = false -> ro_pres e (fst (do_declare verb f d e)).
Proof.
  intros Ha HA. unfold do_declare.
  assert (G : forall cl : bool, (cl = true -> in_function e = true) ->
     ro_pres e (fst (
      let '(init, has_index, name_is_array) := decl_parts d in
      match find_pol (if cl then POnlyCurLocal else PAnywhere) 0 (decl_name d) e with
      | Some i => match scope_get i (decl_name d) e with
                  | Some x => let '(x', er) := declare_on f verb init has_index true x in
                              (scope_set i (decl_name d) x' e, er)
                  | None => (e, Some EOther)
                  end
      | None =>
          match declare_on f verb init false false
                  (new_var (VUnset (if f_a f then UIdx else if f_A f then UAssoc
                                    else if name_is_array then UIdx else UUntyped))) with
          | (x', None) => env_add (decl_name d) x' (if cl then KLocal else KGlobal) e
          | (_, Some er) => (e, Some er)
          end
      end))).
  { intros cl Hcl. destruct (decl_parts d) as [[init hi] nia].
    destruct (find_pol _ 0 (decl_name d) e) as [i|] eqn:F.
    - destruct (scope_get i (decl_name d) e) as [x|] eqn:Gx; [|apply ro_pres_refl].
      pose proof (declare_on_ro_pres f verb init hi x Ha HA) as HD.
      destruct (declare_on f verb init hi true x) as [x' er]. cbn [fst] in *.
      apply scope_set_ro_pres. intros x0 G0. rewrite Gx in G0. inversion G0; subst. exact HD.
    - destruct (declare_on _ _ _ _ _ _) as [x' [er|]]; cbn [fst]; [apply ro_pres_refl|].
      apply env_add_unbound_ro_pres. intros j K. destruct cl.
      + eapply find_curlocal_none; eassumption.
      + eapply find_any_none. exact F. }
  destruct verb; destruct (in_function e) eqn:IF; cbv zeta; try apply ro_pres_refl.
  - destruct (f_g f); cbn [negb andb]; [apply (G false) | apply (G true)]; intros; congruence.
  - apply (G false). discriminate.
  - apply (G true). reflexivity.
  - apply (G false). discriminate.
  - apply (G false). discriminate.
Qed.

(** [apply_assignment] without a subscript. For prefix assignments ([required = Command]) the
    caller has just pushed the Command scope. *)
Lemma apply_assignment_ro_pres n l app ex rq cr e :
  (rq = None /\ cr = KGlobal) \/ (rq = Some KCommand /\ cr = KCommand /\ exists m e0, e = (KCommand, m) :: e0) ->
  forall ix, ro_pres e (fst (apply_assignment n ix l app ex rq cr e)).
Proof.
  intros Hrq ix. unfold apply_assignment.
  match goal with |- context [match find_pol _ _ _ _ with Some _ => _ | None => ?c end] => set (create := c) end.
  destruct (find_pol PAnywhere 0 n e) as [i|] eqn:F.
  - pose proof (find_pol_bound _ _ _ _ _ F) as HB.
    destruct (scope_get i n e) as [x|] eqn:G; [|congruence].
    destruct (scope_kind i e) as [k|] eqn:K.
    2:{ unfold scope_kind, scope_get, scope, vmap in *. destruct (nth_error e i) as [[? ?]|]; discriminate. }
    destruct (match rq with Some rk => kind_eqb k rk | None => true end) eqn:Q.
    + destruct ix as [ixs|].
      * destruct l as [s|items]; [|apply ro_pres_refl].
        pose proof (assign_at_index_ro_pres x ixs s app) as HA.
        destruct (assign_at_index x ixs s app) as [x' [er|]]; cbn [fst] in *; apply scope_set_ro_pres; intros x0 G0;
          rewrite G in G0; inversion G0; subst x0; [exact HA|].
        intros R. destruct (HA R). destruct ex; cbn; auto.
      * pose proof (assign_ro_pres x l app) as HA.
        destruct (assign x l app) as [x' [er|]]; cbn [fst] in *; apply scope_set_ro_pres; intros x0 G0;
          rewrite G in G0; inversion G0; subst x0; [exact HA|].
        intros R. destruct (HA R). destruct ex; cbn; auto.
    + subst create. destruct Hrq as [[-> _]|(-> & -> & m & e0 & ->)]; [discriminate|].
      destruct (match ix with Some _ => _ | None => _ end) as [v|er]; cbn [fst]; [|apply ro_pres_refl].
      apply env_add_unbound_ro_pres. intros j Hj. cbn in Hj. inversion Hj; subst j.
      destruct i as [|i].
      * unfold scope_kind in K. cbn in K. inversion K; subst k. discriminate.
      * eapply find_any_first; [exact F | lia].
  - subst create.
    destruct (match ix with Some _ => _ | None => _ end) as [v|er]; cbn [fst]; [|apply ro_pres_refl].
    apply env_add_unbound_ro_pres. intros j _. eapply find_any_none. exact F.
Qed.

(** ** the remaining class: `declare -a/-A` (conversion of an unset readonly name) *)
Definition tassign_safe (t : tassign) : bool := true.

Definition bcmd_ro_safe (b : bcmd) : bool :=
  match b with
  | BDeclare _ f _ => negb (f_a f) && negb (f_A f)
  | _ => true
  end.

Fixpoint ro_safe (a : action) : bool :=
  match a with
  | ACmd ts c =>
      forallb tassign_safe ts &&
      match c with
      | CBuiltin b => bcmd_ro_safe b
      | CFunc body => (fix all (l : list action) : bool :=
                         match l with [] => true | x :: r => ro_safe x && all r end) body
      | _ => true
      end
  | _ => true
  end.

Lemma ro_safe_body_forall body :
  (fix all (l : list action) : bool := match l with [] => true | x :: r => ro_safe x && all r end) body = true ->
  Forall (fun a => ro_safe a = true) body.
Proof.
  induction body as [|a l IH]; intros H; constructor; apply andb_true_iff in H; destruct H; auto.
Qed.

Lemma exec_builtin_ro_pres b e : bcmd_ro_safe b = true -> ro_pres e (fst (exec_builtin b e)).
Proof.
  destruct b; cbn [bcmd_ro_safe exec_builtin fst]; intros S; try discriminate.
  - apply andb_true_iff in S. destruct S as [S1 S2]. apply negb_true_iff in S1, S2. apply do_declare_ro_pres; assumption.
  - apply do_export_ro_pres.
  - apply env_unset_ro_pres.
  - apply env_unset_index_ro_pres.
  - apply update_or_add_ro_pres.
  - apply ro_pres_refl.
  - apply ro_pres_refl.
Qed.

Lemma apply_temps_ro_pres ts : forall m e0, forallb tassign_safe ts = true ->
  ro_pres ((KCommand, m) :: e0) (fst (apply_temps ts ((KCommand, m) :: e0))).
Proof.
  induction ts as [|[[[n ix] l] app] ts IH]; intros m e0 S; [apply ro_pres_refl|].
  cbn [forallb] in S. apply andb_true_iff in S. destruct S as [S1 S2].
  cbn [apply_temps].
  pose proof (apply_assignment_ro_pres n l app true (Some KCommand) KCommand ((KCommand, m) :: e0)
                (or_intror (conj eq_refl (conj eq_refl (ex_intro _ m (ex_intro _ e0 eq_refl))))) ix) as H.
  pose proof (apply_assignment_kinds n ix l app true (Some KCommand) KCommand ((KCommand, m) :: e0)) as HK.
  destruct (apply_assignment _ _ _ _ _ _ _ _) as [e' [er|]]; cbn [fst] in *; [exact H|].
  destruct e' as [|[k' m'] e0']; [discriminate|]. cbn in HK. inversion HK; subst k'.
  eapply ro_pres_trans; [exact H | apply IH; exact S2].
Qed.

Lemma apply_temps_ro_pres_push ts e : forallb tassign_safe ts = true ->
  ro_pres (push_scope KCommand e) (fst (apply_temps ts (push_scope KCommand e))).
Proof. apply apply_temps_ro_pres. Qed.

(** ** the invariant for the interpreter *)
Theorem readonly_invariant_exec : forall a e, ro_safe a = true -> ro_pres e (env_of (exec a e)).
Proof.
  intros a. induction a using action_ind'; intros e S; cbn [ro_safe] in S.
  - cbn [exec].
    pose proof (apply_assignment_ro_pres n l app false None KGlobal e (or_introl (conj eq_refl eq_refl)) ix) as H.
    destruct (apply_assignment _ _ _ _ _ _ _ e) as [e' [er|]]; exact H.
  - cbn [exec]. pose proof (update_or_add_ro_pres n l UpdNone e) as H.
    destruct (update_or_add _ _ _ _ _ e) as [e' [er|]]; exact H.
  - cbn [exec]. pose proof (update_or_add_elem_ro_pres n ix v e) as H.
    destruct (update_or_add_elem _ _ _ _ _ e) as [e' [er|]]; exact H.
  - cbn [exec]. destruct (match get n e with Some _ => _ | None => true end); [|apply ro_pres_refl].
    pose proof (update_or_add_ro_pres n (LScalar v) UpdNone e) as H.
    destruct (update_or_add _ _ _ _ _ e) as [e' [er|]]; exact H.
  - apply ro_pres_refl.
  - apply andb_true_iff in S. destruct S as [St Sb]. cbn [exec].
    pose proof (apply_temps_ro_pres_push ts e St) as HT.
    destruct (apply_temps ts (push_scope KCommand e)) as [e2 [er|]]; cbn [fst] in HT.
    + unfold env_of; cbn [fst]. eapply ro_pres_pop_r. exact HT.
    + pose proof (exec_builtin_ro_pres b e2 Sb) as HB. destruct (exec_builtin b e2) as [e3 o]. cbn [fst] in HB.
      unfold env_of; cbn [fst]. eapply ro_pres_pop_r. eapply ro_pres_trans; eassumption.
  - apply andb_true_iff in S. destruct S as [St Sb]. apply ro_safe_body_forall in Sb.
    rewrite exec_func_eq. cbv zeta.
    pose proof (apply_temps_ro_pres_push ts e St) as HT.
    destruct (apply_temps ts (push_scope KCommand e)) as [e2 [er|]]; cbn [fst] in HT.
    + unfold env_of; cbn [fst]. eapply ro_pres_pop_r. exact HT.
    + assert (Hl : forall l e0, Forall (fun a => forall e, ro_safe a = true -> ro_pres e (env_of (exec a e))) l ->
                   Forall (fun a => ro_safe a = true) l -> ro_pres e0 (env_of (exec_list l e0))).
      { clear. induction l as [|a l IH]; intros e0 HF HS; [apply ro_pres_refl|].
        inversion HF as [|? ? Ha Hr]; subst. inversion HS as [|? ? Sa Sr]; subst. cbn [exec_list].
        specialize (Ha e0 Sa). destruct (exec a e0) as [[e' o1] fl]. unfold env_of in Ha. cbn [fst] in Ha.
        destruct fl; try exact Ha.
        specialize (IH e' Hr Sr). destruct (exec_list l e') as [[e'' o2] fl2]. unfold env_of in *. cbn [fst] in *.
        eapply ro_pres_trans; eassumption. }
      specialize (Hl body (push_scope KLocal e2) H Sb).
      destruct (exec_list body _) as [[e4 o] fl]. unfold env_of in *. cbn [fst] in *.
      eapply ro_pres_pop_r with (k := KCommand) (m := []).
      assert (H2 : ro_pres ((KLocal, []) :: (KCommand, []) :: e) e4).
      { eapply ro_pres_trans; [|exact Hl]. unfold push_scope. constructor; [split; [reflexivity|apply map_ro_pres_refl]|exact HT]. }
      inversion H2; subst. destruct y as [k2 m2]. cbn. assumption.
  - apply andb_true_iff in S. destruct S as [St _]. cbn [exec].
    pose proof (apply_temps_ro_pres_push ts e St) as HT.
    destruct (apply_temps ts (push_scope KCommand e)) as [e2 [er|]]; cbn [fst] in HT;
      unfold env_of; cbn [fst]; eapply ro_pres_pop_r; exact HT.
  - apply andb_true_iff in S. destruct S as [St _]. cbn [exec].
    pose proof (apply_temps_ro_pres_push ts e St) as HT.
    destruct (apply_temps ts (push_scope KCommand e)) as [e2 [er|]]; cbn [fst] in HT;
      unfold env_of; cbn [fst]; eapply ro_pres_pop_r; exact HT.
Qed.

(** ** what is left of the refutation: `readonly n; declare -a n` gives the unset name an element *)
Definition va : str := [118; 97]%N.
Definition no_fl0 : dflags := mkFlags false false None None None None None None false.

Lemma readonly_invariant_refuted :
  exists a e, ~ ro_pres e (env_of (exec a e)).
Proof.
  exists (ACmd [] (CBuiltin (BDeclare DDeclare (mkFlags true false None None None None None None false) (DName va)))).
  exists (env_of (exec (ACmd [] (CBuiltin (BDeclare DReadonly no_fl0 (DName va)))) env_new)).
  vm_compute. intros H. inversion H as [|? ? ? ? [_ M] _]; subst.
  destruct (M va (mkVar (VUnset UUntyped) false true false XNone) eq_refl eq_refl) as (x' & G & _ & C).
  vm_compute in G. inversion G; subst x'. vm_compute in C. discriminate.
Qed.

(** shadowing: the *visible* value of a readonly name changes under `local` and under a prefix
    assignment although the readonly variable itself is intact *)
Definition no_fl : dflags := mkFlags false false None None None None None None false.
Definition ro_scalar_env : env :=
  env_of (exec (ACmd [] (CBuiltin (BDeclare DReadonly no_fl (DScalar va [49%N])))) env_new).

Lemma readonly_local_shadow_refuted :
  exists body, match exec (ACmd [] (CFunc body)) ro_scalar_env with
               | (_, [OState _ e], _) =>
                   (exists x, get va ro_scalar_env = Some x /\ v_ro x = true) /\ get va e <> get va ro_scalar_env
               | _ => False
               end.
Proof.
  exists [ACmd [] (CBuiltin (BDeclare DLocal no_fl (DScalar va [53%N]))); ACmd [] (CBuiltin (BProbe []))].
  vm_compute. split; [eexists; split; reflexivity | discriminate].
Qed.

Lemma readonly_temp_shadow_refuted :
  match exec (ACmd [(va, None, LScalar [50%N], false)] (CBuiltin (BProbe []))) ro_scalar_env with
  | (_, [OState _ e], _) => get va e <> get va ro_scalar_env
  | _ => False
  end.
Proof. vm_compute. discriminate. Qed.
