(** C09 — the environment handed to child processes ([iter_exported] + [compose_std_command])
    against the specification "visible, exported and set"; well-formedness of the scope maps;
    the attribute transforms. *)
From Coq Require Import String.
From BV Require Import Base.Prelude Base.Codec Scope.Vars Scope.Env Scope.Prog Scope.EnvLemmas
  Scope.ReadonlyProofs Scope.ScopeProofs.

(** ** specification *)
(** what a child process must see for name [n]: the visible variable, if exported and set *)
Definition spec_child (n : str) (e : env) : option str :=
  match get n e with
  | Some x => if v_exp x && is_set (v_val x) then Some (scalar_view (v_val x)) else None
  | None => None
  end.

(** ** maps with unique keys (what a HashMap is) *)
Definition wf_map (m : vmap) : Prop := NoDup (map fst m).
Definition wf_env (e : env) : Prop := Forall (fun s => wf_map (snd s)) e.

Lemma mget_none_notin n m : mget n m = None -> ~ In n (map fst m).
Proof.
  induction m as [|[k v] m IH]; cbn; [tauto|]. destruct (str_eqb n k) eqn:E; [discriminate|].
  intros H [->|Hin]; [rewrite str_eqb_refl in E; discriminate | exact (IH H Hin)].
Qed.

Lemma notin_mget_none n m : ~ In n (map fst m) -> mget n m = None.
Proof.
  induction m as [|[k v] m IH]; cbn; [reflexivity|]. intros H.
  destruct (str_eqb n k) eqn:E; [apply str_eqb_eq in E; subst; tauto | apply IH; tauto].
Qed.

Lemma nodup_snoc {A} (l : list A) (a : A) : NoDup l -> ~ In a l -> NoDup (l ++ [a]).
Proof.
  induction l as [|b l IH]; cbn; intros H N; [constructor; [tauto | constructor]|].
  inversion H; subst. constructor.
  - rewrite in_app_iff. cbn. intros [X|[X|[]]]; [tauto | subst; tauto].
  - apply IH; tauto.
Qed.

Lemma mset_keys n v m :
  map fst (mset n v m) = map fst m \/ (mget n m = None /\ map fst (mset n v m) = map fst m ++ [n]).
Proof.
  induction m as [|[k x] m IH]; cbn; [right; split; reflexivity|].
  destruct (str_eqb n k) eqn:E; cbn; [left; reflexivity|].
  destruct IH as [->|[G ->]]; [left; reflexivity | right; split; [exact G | reflexivity]].
Qed.

Lemma wf_mset n v m : wf_map m -> wf_map (mset n v m).
Proof.
  unfold wf_map. intros H. destruct (mset_keys n v m) as [->|[G ->]]; [exact H|].
  apply nodup_snoc; [exact H | apply mget_none_notin; exact G].
Qed.

Lemma mdel_keys_incl n m k : In k (map fst (mdel n m)) -> In k (map fst m).
Proof.
  induction m as [|[k' x] m IH]; cbn; [tauto|]. destruct (str_eqb n k'); cbn; [tauto|]. intros [H|H]; [tauto | right; exact (IH H)].
Qed.

Lemma wf_mdel n m : wf_map m -> wf_map (mdel n m).
Proof.
  unfold wf_map. induction m as [|[k x] m IH]; cbn; intros H; [constructor|].
  inversion H; subst. destruct (str_eqb n k); cbn; [assumption|].
  constructor; [intros X; apply mdel_keys_incl in X; tauto | apply IH; assumption].
Qed.

(** ** a generic closure principle: any property of environments that is kept by the four
    structural operations is kept by the whole interpreter *)
Section Closed.
  Variable P : env -> Prop.
  Hypothesis Pupd : forall i f e, (forall m, wf_map m -> wf_map (f m)) -> P e -> P (scope_upd i f e).
  Hypothesis Ppush : forall k e, P e -> P (push_scope k e).
  Hypothesis Ppop : forall k e, P e -> P (fst (pop_scope k e)).

  Lemma Pset i n v e : P e -> P (scope_set i n v e).
  Proof. apply Pupd. intros m. apply wf_mset. Qed.
  Lemma Pdel i n e : P e -> P (scope_del i n e).
  Proof. apply Pupd. intros m. apply wf_mdel. Qed.

  Lemma P_env_add n v k e : P e -> P (fst (env_add n v k e)).
  Proof. unfold env_add. destruct (find_kind k e); cbn [fst]; [apply Pset | auto]. Qed.

  Lemma P_update_or_add n l u p k e : P e -> P (fst (update_or_add n l u p k e)).
  Proof.
    intros H. unfold update_or_add. destruct (find_pol p 0 n e).
    - destruct (scope_get _ n e); [|exact H]. destruct (assign v l false) as [v' [er|]]; cbn [fst]; apply Pset; exact H.
    - destruct (assign tombstone l false) as [v' [er|]]; [exact H | apply P_env_add; exact H].
  Qed.

  Lemma P_update_or_add_elem n ix v p k e : P e -> P (fst (update_or_add_elem n ix v p k e)).
  Proof.
    intros H. unfold update_or_add_elem. destruct (find_pol p 0 n e).
    - destruct (scope_get _ n e); [|exact H]. destruct (assign_at_index _ ix v false) as [v' er]; cbn [fst]; apply Pset; exact H.
    - destruct (assign tombstone _ false) as [v' [er|]]; [exact H | apply P_env_add; exact H].
  Qed.

  Lemma P_env_unset n e : P e -> P (fst (env_unset n e)).
  Proof.
    intros H. unfold env_unset. destruct (find_pol _ 0 n e); [|exact H].
    destruct (scope_get _ n e); [|exact H]. destruct (v_ro v); [exact H|].
    destruct (is_cur_local _ e); cbn [fst]; [apply Pset | apply Pdel]; exact H.
  Qed.

  Lemma P_env_unset_index n ix e : P e -> P (fst (env_unset_index n ix e)).
  Proof.
    intros H. unfold env_unset_index. destruct (find_pol _ 0 n e); [|exact H].
    destruct (scope_get _ n e); [|exact H]. destruct (unset_index v ix) as [[v' b]|er]; [|exact H].
    cbn [fst]. apply Pset; exact H.
  Qed.

  Lemma P_apply_assignment n ix l app ex rq cr e : P e -> P (fst (apply_assignment n ix l app ex rq cr e)).
  Proof.
    intros H. unfold apply_assignment.
    match goal with |- context [match find_pol _ _ _ _ with Some _ => _ | None => ?c end] => set (create := c) end.
    assert (Hc : P (fst create)).
    { subst create. destruct (match ix with Some _ => _ | None => _ end); [apply P_env_add; exact H | exact H]. }
    destruct (find_pol PAnywhere 0 n e); [|exact Hc].
    destruct (scope_get _ n e); [|exact Hc]. destruct (scope_kind _ e); [|exact Hc].
    destruct (match rq with Some rk => _ | None => true end); [|exact Hc].
    destruct ix as [ix|].
    - destruct l; [|exact H]. destruct (assign_at_index _ _ _ _) as [v' [er|]]; cbn [fst]; apply Pset; exact H.
    - destruct (assign _ _ _) as [v' [er|]]; cbn [fst]; apply Pset; exact H.
  Qed.

  Lemma P_do_declare verb f d e : P e -> P (fst (do_declare verb f d e)).
  Proof.
    intros H. unfold do_declare.
    destruct verb; destruct (in_function e); try exact H;
      cbv zeta; destruct (decl_parts d) as [[init hi] nia];
      (destruct (find_pol _ 0 _ e);
       [ destruct (scope_get _ _ e); [|exact H];
         destruct (declare_on _ _ _ _ _ _) as [x' er]; cbn [fst]; apply Pset; exact H
       | destruct (declare_on _ _ _ _ _ _) as [x' [er|]]; [exact H | apply P_env_add; exact H] ]).
  Qed.

  Lemma P_do_export n v u e : P e -> P (fst (do_export n v u e)).
  Proof.
    intros H. unfold do_export. destruct v as [[l [|]]|].
    - destruct (find_pol _ 0 n e).
      + destruct (scope_get _ n e); [|exact H]. destruct (assign _ _ _) as [x' [er|]]; cbn [fst]; apply Pset; exact H.
      + apply P_update_or_add; exact H.
    - apply P_update_or_add; exact H.
    - destruct (find_pol _ 0 n e); [|exact H]. destruct (scope_get _ n e); [|exact H]. cbn [fst]. apply Pset; exact H.
  Qed.

  Lemma P_exec_builtin b e : P e -> P (fst (exec_builtin b e)).
  Proof.
    intros H. destruct b; cbn [exec_builtin fst]; try exact H.
    - apply P_do_declare; exact H.
    - apply P_do_export; exact H.
    - apply P_env_unset; exact H.
    - apply P_env_unset_index; exact H.
    - apply P_update_or_add; exact H.
  Qed.

  Lemma P_apply_temps ts : forall e, P e -> P (fst (apply_temps ts e)).
  Proof.
    induction ts as [|[[[n ix] l] app] ts IH]; intros e H; [exact H|].
    cbn [apply_temps].
    pose proof (P_apply_assignment n ix l app true (Some KCommand) KCommand e H) as H1.
    destruct (apply_assignment _ _ _ _ _ _ _ e) as [e' [er|]]; cbn [fst] in *; [exact H1 | apply IH; exact H1].
  Qed.

  Theorem exec_closed : forall a e, P e -> P (env_of (exec a e)).
  Proof.
    intros a. induction a using action_ind'; intros e He.
    - cbn [exec]. pose proof (P_apply_assignment n ix l app false None KGlobal e He) as H.
      destruct (apply_assignment _ _ _ _ _ _ _ e) as [e' [er|]]; exact H.
    - cbn [exec]. pose proof (P_update_or_add n l UpdNone PAnywhere KGlobal e He) as H.
      destruct (update_or_add _ _ _ _ _ e) as [e' [er|]]; exact H.
    - cbn [exec]. pose proof (P_update_or_add_elem n ix v PAnywhere KGlobal e He) as H.
      destruct (update_or_add_elem _ _ _ _ _ e) as [e' [er|]]; exact H.
    - cbn [exec]. destruct (match get n e with Some _ => _ | None => true end); [|exact He].
      pose proof (P_update_or_add n (LScalar v) UpdNone PAnywhere KGlobal e He) as H.
      destruct (update_or_add _ _ _ _ _ e) as [e' [er|]]; exact H.
    - exact He.
    - cbn [exec]. pose proof (P_apply_temps ts _ (Ppush KCommand e He)) as HT.
      destruct (apply_temps ts _) as [e2 [er|]]; cbn [fst] in HT.
      + unfold env_of; cbn [fst]. apply Ppop. exact HT.
      + pose proof (P_exec_builtin b e2 HT) as HB. destruct (exec_builtin b e2) as [e3 o].
        unfold env_of; cbn [fst] in *. apply Ppop. exact HB.
    - rewrite exec_func_eq. cbv zeta. pose proof (P_apply_temps ts _ (Ppush KCommand e He)) as HT.
      destruct (apply_temps ts _) as [e2 [er|]]; cbn [fst] in HT.
      + unfold env_of; cbn [fst]. apply Ppop. exact HT.
      + assert (Hl : forall l e0, Forall (fun a => forall e, P e -> P (env_of (exec a e))) l -> P e0 ->
                     P (env_of (exec_list l e0))).
        { clear -P. induction l as [|a l IH]; intros e0 HF H0; [exact H0|].
          inversion HF as [|? ? Ha Hr]; subst. cbn [exec_list].
          specialize (Ha e0 H0). destruct (exec a e0) as [[e' o1] fl]. unfold env_of in Ha. cbn [fst] in Ha.
          destruct fl; try exact Ha.
          specialize (IH e' Hr Ha). destruct (exec_list l e') as [[e'' o2] fl2]. exact IH. }
        specialize (Hl body _ H (Ppush KLocal e2 HT)).
        destruct (exec_list body _) as [[e4 o] fl]. unfold env_of in *. cbn [fst] in *.
        apply Ppop. apply Ppop. exact Hl.
    - cbn [exec]. pose proof (P_apply_temps ts _ (Ppush KCommand e He)) as HT.
      destruct (apply_temps ts _) as [e2 [er|]]; cbn [fst] in HT; unfold env_of; cbn [fst]; apply Ppop; exact HT.
    - cbn [exec]. pose proof (P_apply_temps ts _ (Ppush KCommand e He)) as HT.
      destruct (apply_temps ts _) as [e2 [er|]]; cbn [fst] in HT; unfold env_of; cbn [fst]; apply Ppop; exact HT.
  Qed.
End Closed.

Lemma wf_scope_upd i f e : (forall m, wf_map m -> wf_map (f m)) -> wf_env e -> wf_env (scope_upd i f e).
Proof.
  intros Hf. revert i; induction e as [|[k m] e IH]; intros [|i] H; cbn; try assumption; inversion H; subst; constructor; cbn in *; auto.
  apply IH. assumption.
Qed.

(** every state the interpreter can reach from the initial environment has unique keys *)
Theorem exec_wf : forall a e, wf_env e -> wf_env (env_of (exec a e)).
Proof.
  apply exec_closed.
  - intros i f e Hf. apply wf_scope_upd. exact Hf.
  - intros k e H. constructor; [constructor | exact H].
  - intros k [|[k' m] e] H; cbn; [constructor | inversion H; assumption].
Qed.

Lemma wf_env_new : wf_env env_new.
Proof. constructor; [constructor | constructor]. Qed.

(** ** [iter_exported] computes "first exported binding from the top" *)
Fixpoint first_exported (n : str) (e : env) : option var :=
  match e with
  | [] => None
  | (_, m) :: e' => match mget n (exported_of m) with Some x => Some x | None => first_exported n e' end
  end.

Lemma mget_app n a b : mget n (a ++ b) = match mget n a with Some x => Some x | None => mget n b end.
Proof. induction a as [|[k v] a IH]; cbn; [reflexivity|]. destruct (str_eqb n k); [reflexivity | exact IH]. Qed.

Lemma mget_merge_new n add : forall acc,
  mget n (merge_new acc add) = match mget n acc with Some x => Some x | None => mget n add end.
Proof.
  induction add as [|[k v] add IH]; intros acc; cbn [merge_new mget].
  - destruct (mget n acc); reflexivity.
  - destruct (mget k acc) eqn:K.
    + rewrite IH. destruct (mget n acc) eqn:A; [reflexivity|].
      destruct (str_eqb n k) eqn:E; [apply str_eqb_eq in E; subst; congruence | reflexivity].
    + rewrite IH, mget_app. cbn [mget]. destruct (mget n acc); [reflexivity|].
      destruct (str_eqb n k); reflexivity.
Qed.

Lemma mget_iter n : forall e acc,
  mget n (iter_exported_go acc e) = match mget n acc with Some x => Some x | None => first_exported n e end.
Proof.
  induction e as [|[k m] e IH]; intros acc; cbn [iter_exported_go first_exported].
  - destruct (mget n acc); reflexivity.
  - rewrite IH, mget_merge_new. destruct (mget n acc); [reflexivity|].
    destruct (mget n (exported_of m)); reflexivity.
Qed.

Lemma merge_new_nodup add : forall acc, NoDup (map fst acc) -> NoDup (map fst (merge_new acc add)).
Proof.
  induction add as [|[k v] add IH]; intros acc H; cbn [merge_new]; [exact H|].
  destruct (mget k acc) eqn:K; [apply IH; exact H|].
  apply IH. rewrite map_app. cbn. apply nodup_snoc; [exact H | apply mget_none_notin; exact K].
Qed.

Lemma iter_exported_nodup : forall e acc, NoDup (map fst acc) -> NoDup (map fst (iter_exported_go acc e)).
Proof.
  induction e as [|[k m] e IH]; intros acc H; cbn [iter_exported_go]; [exact H|].
  apply IH. apply merge_new_nodup. exact H.
Qed.

Lemma mget_exported_of n m : wf_map m ->
  mget n (exported_of m) = match mget n m with Some x => if v_exp x then Some x else None | None => None end.
Proof.
  unfold wf_map. induction m as [|[k v] m IH]; cbn [exported_of mget map fst]; intros H; [reflexivity|].
  inversion H as [|? ? Hn Hd]; subst.
  destruct (str_eqb n k) eqn:E.
  - apply str_eqb_eq in E. subst k. destruct (v_exp v) eqn:X.
    + cbn [mget]. rewrite str_eqb_refl. reflexivity.
    + rewrite (IH Hd). rewrite (notin_mget_none _ _ Hn). reflexivity.
  - destruct (v_exp v); [cbn [mget]; rewrite E|]; apply IH; exact Hd.
Qed.

Lemma child_lookup n l : NoDup (map fst l) ->
  sm_get n (child_env_of l) =
  match mget n l with Some x => if is_set (v_val x) then Some (scalar_view (v_val x)) else None | None => None end.
Proof.
  induction l as [|[k v] l IH]; cbn [child_env_of mget map fst]; intros H; [reflexivity|].
  inversion H as [|? ? Hn Hd]; subst.
  destruct (str_eqb n k) eqn:E.
  - apply str_eqb_eq in E. subst k. destruct (is_set (v_val v)).
    + cbn [sm_get]. rewrite str_eqb_refl. reflexivity.
    + rewrite (IH Hd). rewrite (notin_mget_none _ _ Hn). reflexivity.
  - destruct (is_set (v_val v)); [cbn [sm_get]; rewrite E|]; apply IH; exact Hd.
Qed.

Lemma find_any_lc n : forall e lc1 lc2, find_pol PAnywhere lc1 n e = find_pol PAnywhere lc2 n e.
Proof. intros e lc1 lc2. apply find_any_ext; auto. Qed.

Lemma get_cons n k m e : get n ((k, m) :: e) = match mget n m with Some x => Some x | None => get n e end.
Proof.
  unfold get, get_pol. cbn [find_pol admits]. destruct (mget n m) eqn:G.
  - unfold scope_get. cbn. exact G.
  - cbn [stops_after]. rewrite (find_any_lc n e _ 0). destruct (find_pol PAnywhere 0 n e); reflexivity.
Qed.

(** the known class's complement: at the top-most binding of [n], either that binding is
    exported or no binding below it is *)
Fixpoint no_shine (n : str) (e : env) : Prop :=
  match e with
  | [] => True
  | (_, m) :: e' => match mget n m with
                    | Some x => v_exp x = true \/ first_exported n e' = None
                    | None => no_shine n e'
                    end
  end.

Lemma first_exported_visible n : forall e, wf_env e -> no_shine n e ->
  first_exported n e = match get n e with Some x => if v_exp x then Some x else None | None => None end.
Proof.
  induction e as [|[k m] e IH]; intros W N; [reflexivity|].
  inversion W as [|? ? Wm We]; subst. cbn [first_exported no_shine] in *. rewrite get_cons.
  rewrite (mget_exported_of n m Wm). destruct (mget n m) as [x|].
  - destruct (v_exp x) eqn:X; [reflexivity|]. destruct N as [N|N]; [congruence | exact N].
  - apply IH; assumption.
Qed.

Theorem exported_env_outside_known : forall e n, wf_env e -> no_shine n e ->
  sm_get n (child_env e) = spec_child n e.
Proof.
  intros e n W N. unfold child_env, spec_child.
  rewrite child_lookup by (apply iter_exported_nodup; constructor).
  unfold iter_exported. rewrite mget_iter. cbn [mget].
  rewrite (first_exported_visible n e W N).
  destruct (get n e) as [x|]; [|reflexivity]. destruct (v_exp x); reflexivity.
Qed.

(** the statement without the class is false on the code as it is *)
Definition shadow_env : env :=
  [(KLocal, [(va, mkVar (VStr [50%N]) false false false XNone)]);
   (KGlobal, [(va, mkVar (VStr [49%N]) true false false XNone)])].

Lemma exported_env_refuted : exists e n, wf_env e /\ sm_get n (child_env e) <> spec_child n e.
Proof.
  exists shadow_env, va. split.
  - repeat constructor; cbn; tauto.
  - vm_compute. discriminate.
Qed.

(** ** attribute tables: what a later plain assignment stores *)
Lemma assign_scalar_table x s old :
  v_ro x = false -> v_val x = VStr old ->
  assign x (LScalar s) false =
  match xform_str (v_int x) (v_xf x) s with
  | Ok s' => (set_val x (VStr s'), None)
  | Err er => (x, Some er)
  end.
Proof.
  intros R V. unfold assign. rewrite R. unfold conv_lit, conv_str.
  destruct (xform_str (v_int x) (v_xf x) s) as [s'|er]; cbn [bind mlift mfail]; [|reflexivity].
  rewrite V. reflexivity.
Qed.

Lemma xform_lower s : xform_str false XLower s = Ok (map lower_c s).
Proof. reflexivity. Qed.
Lemma xform_upper s : xform_str false XUpper s = Ok (map upper_c s).
Proof. reflexivity. Qed.
Lemma xform_integer t s : xform_str true t s = Ok (show_Z (or0 (parse_i64 s))).
Proof. reflexivity. Qed.

(** `declare -i x; x=1+2` stores 0 (bash: 3) *)
Lemma integer_attr_witness :
  xform_str true XNone [49; 43; 50]%N = Ok [48%N].
Proof. vm_compute. reflexivity. Qed.

(** ** the hypotheses of the theorems are satisfiable by non-trivial states *)
Definition ex_body : list action :=
  [ACmd [] (CBuiltin (BExport va (Some (LScalar [55%N], false)) false));
   ACmd [(va, None, LScalar [56%N], false)] (CFunc [AAssign va None (LScalar [57%N]) false; AReturn]);
   AAssign va None (LScalar [57%N]) true].

Lemma ex_nonvacuous :
  Forall (fun a => nu va a = true) ex_body /\
  Forall (fun a => ro_safe a = true) ex_body /\
  (exists x, get va ro_scalar_env = Some x /\ v_ro x = true) /\
  Forall (not_nested ro_scalar_env) [(va, None, LScalar [50%N], false)] /\
  wf_env shadow_env /\ no_shine va (tl shadow_env) /\ ~ no_shine va shadow_env.
Proof.
  repeat split.
  - repeat constructor.
  - repeat constructor.
  - eexists. split; vm_compute; reflexivity.
  - repeat constructor. vm_compute. discriminate.
  - repeat constructor; cbn; tauto.
  - vm_compute. left. reflexivity.
  - vm_compute. intros [H|H]; discriminate.
Qed.
