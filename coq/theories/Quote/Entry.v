(** C13 correspondence entries. *)
From Coq Require Import String.
From BV Require Import Base.Prelude Base.Codec gen.C13EscapeTables Quote.Quote Quote.Reader Quote.AnsiC Quote.Decl.

(** args: <mode> <s>; mode = two letters: f|n (force / if needed) then s|d|b.
    Uses the regenerated flag [positional_escaping]. *)
Definition dec_qmode (c : char) : qmode :=
  if N.eqb c 100 then QDouble else if N.eqb c 98 then QBackslash else QSingle.

Definition entry_c13_quote (a : list str) : list str :=
  match a with
  | [f; m] :: s :: _ =>
      [quote positional_escaping {| always_quote := N.eqb f 102; preferred := dec_qmode m; avoid_nl := false |} s]
  | [[f; m]] =>
      [quote positional_escaping {| always_quote := N.eqb f 102; preferred := dec_qmode m; avoid_nl := false |} []]
  | _ => [lit "?args"]
  end.

(** args: <position a|v> <text> -> S <value> | N *)
Definition entry_c13_read (a : list str) : list str :=
  match a with
  | [p] :: r =>
      let w := match r with w :: _ => w | [] => [] end in
      match read_word (if N.eqb p 97 then Arg else Assign) w with
      | Some v => [lit "S"; v]
      | None => [lit "N"]
      end
  | _ => [lit "?args"]
  end.

(** args: <text>.  [expand_backslash_escapes] in ANSI-C mode with the regenerated digit count:
    O <bytes as lowercase hex> | E (integer parse error) | U (outside the modelled escapes) *)
Definition hexdigit (n : N) : N := if N.ltb n 10 then (48 + n)%N else (87 + n)%N.
Definition hex_of_bytes (b : list N) : str := flat_map (fun x => [hexdigit (x / 16); hexdigit (x mod 16)])%N b.
Definition entry_c13_decode (a : list str) : list str :=
  let s := match a with s :: _ => s | [] => [] end in
  match decode zero_octal_digits_ansic s with
  | DOk b => [lit "O"; hex_of_bytes b]
  | DErr => [lit "E"]
  | DUnsupported => [lit "U"]
  end.

(** args: <kind i|h> (key value)* -> the DeclarePrint text of the array (regenerated flag) *)
Fixpoint pairs (l : list str) : list (str * str) :=
  match l with k :: v :: r => (k, v) :: pairs r | _ => [] end.
Definition entry_c13_fmt (a : list str) : list str :=
  match a with
  | [k] :: r => if N.eqb k 105 then [fmt_indexed positional_escaping (pairs r)]
                else [fmt_assoc positional_escaping (pairs r)]
  | _ => [lit "?args"]
  end.
(** args: <text> -> S k v k v ... | N   (the compound-assignment reader specification) *)
Definition entry_c13_readc (a : list str) : list str :=
  match a with
  | s :: _ => match read_compound s with
              | Some kvs => lit "S" :: flat_map (fun kv => [fst kv; snd kv]) kvs
              | None => [lit "N"]
              end
  | [] => [lit "N"]
  end.
