(** C13 model, read side: brush-core/src/escape.rs [expand_backslash_escapes] in
    [EscapeExpansionMode::AnsiCQuotes] (the decoder behind dollar-single-quoted words and the E
    transform), at byte level, as a character-at-a-time machine.

    Modelled: the one-letter escapes (regenerated tables), a backslash followed by 0 and up to [zd]
    further octal digits ([zd] regenerated: the unchanged tree takes 3, the echo rule; bash takes
    2), a backslash followed by 1-7 and up to two further octal digits, a backslash before any other
    character that is not one of x u U c (kept literally), a trailing backslash, the cut at the
    first NUL.  [Unsupported]: the x u U c escapes (the correspondence skips those inputs).
    [Err]: an octal value above 255 (the Rust code returns the integer parse error). *)
From BV Require Import Base.Prelude gen.C13EscapeTables Quote.Quote.
Open Scope N_scope.

Definition utf8 (c : char) : list N :=
  if c <? 128 then [c]
  else if c <? 2048 then [192 + c / 64; 128 + c mod 64]
  else if c <? 65536 then [224 + c / 4096; 128 + (c / 64) mod 64; 128 + c mod 64]
  else [240 + c / 262144; 128 + (c / 4096) mod 64; 128 + (c / 64) mod 64; 128 + c mod 64].

Inductive dres := DOk (bytes : list N) | DErr | DUnsupported.

Inductive dstate :=
| SNormal
| SEsc                              (* after a backslash *)
| SOct (v : N) (more : nat).        (* octal value so far, how many more digits may follow *)

Definition is_octd (c : char) : bool := (48 <=? c) && (c <=? 55).
Definition unsupported_letter (c : char) : bool := (c =? 120) || (c =? 117) || (c =? 85) || (c =? 99).

Definition emit_oct (v : N) : option (list N) := if v <=? 255 then Some [v] else None.

(** one character; [None] = integer parse error, [Some (None, _)] = unsupported *)
Inductive stepres := ROk (out : list N) (st : dstate) | RErr | RUnsupported.

Definition step_normal (c : char) : stepres :=
  if c =? 92 then ROk [] SEsc else ROk (utf8 c) SNormal.

Definition step (zd : nat) (st : dstate) (c : char) : stepres :=
  match st with
  | SNormal => step_normal c
  | SEsc =>
      match assoc c (decode_simple ++ decode_ansic_only) with
      | Some v => ROk [v] SNormal
      | None =>
          if c =? 48 then (match zd with O => ROk [0] SNormal | S k => ROk [] (SOct 0 zd) end)
          else if is_octd c then ROk [] (SOct (c - 48) 2)
          else if unsupported_letter c then RUnsupported
          else ROk (92 :: utf8 c) SNormal
      end
  | SOct v more =>
      match more with
      | O => RErr   (* never constructed: a state with no digits left is flushed at once *)
      | S k =>
          if is_octd c then
            let v' := v * 8 + (c - 48) in
            match k with
            | O => match emit_oct v' with Some b => ROk b SNormal | None => RErr end
            | S _ => ROk [] (SOct v' k)
            end
          else
            match emit_oct v with
            | Some b => match step_normal c with ROk o s => ROk (b ++ o) s | r => r end
            | None => RErr
            end
      end
  end.

Definition flush (st : dstate) : option (list N) :=
  match st with
  | SNormal => Some []
  | SEsc => Some [92]
  | SOct v _ => emit_oct v
  end.

Fixpoint run (zd : nat) (st : dstate) (s : str) : dres :=
  match s with
  | [] => match flush st with Some b => DOk b | None => DErr end
  | c :: r =>
      match step zd st c with
      | ROk o st' => match run zd st' r with DOk b => DOk (o ++ b) | e => e end
      | RErr => DErr
      | RUnsupported => DUnsupported
      end
  end.

Fixpoint cut_nul (b : list N) : list N :=
  match b with [] => [] | x :: r => if x =? 0 then [] else x :: cut_nul r end.

Definition decode (zd : nat) (s : str) : dres :=
  match run zd SNormal s with DOk b => DOk (cut_nul b) | e => e end.

(** the text between the quotes of [ansi_c_quote] *)
Definition ansi_body (s : str) : str := flat_map ac_char s.

(** * The decoder inverts the quoter when a 0 escape takes at most two further digits *)

Definition utf8s (s : str) : list N := flat_map utf8 s.

Definition named_dec_ok (ke : N * list N) : bool :=
  match snd ke with
  | [b; l] => (b =? 92) && (fst ke <? 128) &&
              match assoc l (decode_simple ++ decode_ansic_only) with Some v => v =? fst ke | None => false end
  | _ => false
  end.
Lemma named_dec_table : forallb named_dec_ok ansi_c_named = true.
Proof. vm_compute. reflexivity. Qed.

Lemma named_covers_bs : assoc 92 ansi_c_named <> None.
Proof. vm_compute. discriminate. Qed.

(** the octal text of a control character decodes to it and leaves the machine in [SNormal] *)
Definition oct_dec_ok (c : N) : bool :=
  match oct3 c with
  | [b; d1; d2; d3] =>
      match step 2 SNormal b with
      | ROk [] s1 => match step 2 s1 d1 with
                     | ROk [] s2 => match step 2 s2 d2 with
                                    | ROk [] s3 => match step 2 s3 d3 with
                                                   | ROk [v] SNormal => v =? c
                                                   | _ => false end
                                    | _ => false end
                     | _ => false end
      | _ => false end
  | _ => false
  end.
Lemma oct_dec_all : forallb oct_dec_ok (map N.of_nat (seq 1 127)) = true.
Proof. vm_compute. reflexivity. Qed.

Lemma run_app_ok zd st s1 s2 o st' :
  (forall r, run zd st (s1 ++ r) = match run zd st' r with DOk b => DOk (o ++ b) | e => e end) ->
  run zd st (s1 ++ s2) = match run zd st' s2 with DOk b => DOk (o ++ b) | e => e end.
Proof. intros H. apply H. Qed.

Lemma ctrl_lt128 c : needs_ansi_c_quoting c = true -> c < 128.
Proof.
  unfold needs_ansi_c_quoting. intros H. apply orb_true_iff in H.
  destruct H as [H|H]; [apply N.ltb_lt in H | apply N.eqb_eq in H]; lia.
Qed.

Lemma ctrl_in_range c : needs_ansi_c_quoting c = true -> c <> 0 -> In c (map N.of_nat (seq 1 127)).
Proof.
  intros H Hz. pose proof (ctrl_lt128 c H) as Hlt.
  apply in_map_iff. exists (N.to_nat c). split; [lia|]. apply in_seq. lia.
Qed.

Lemma assoc_In' {A} c (l : list (N * A)) e : assoc c l = Some e -> In (c, e) l.
Proof.
  induction l as [|[k v] l IH]; cbn [assoc]; [discriminate|].
  destruct (N.eqb c k) eqn:E.
  - intros H. inversion H. subst. apply N.eqb_eq in E. subst. left. reflexivity.
  - intros H. right. auto.
Qed.

Lemma run_body s : Forall (fun c => c <> 0) s -> forall r,
  run 2 SNormal (ansi_body s ++ r) = match run 2 SNormal r with DOk b => DOk (utf8s s ++ b) | e => e end.
Proof.
  induction 1 as [|c s Hc Hs IH]; intros r.
  - cbn [ansi_body flat_map utf8s app]. destruct (run 2 SNormal r); reflexivity.
  - unfold ansi_body, utf8s in *. cbn [flat_map]. rewrite <- !app_assoc. unfold ac_char at 1.
    destruct (assoc c ansi_c_named) as [e|] eqn:Ea.
    + apply assoc_In' in Ea. pose proof named_dec_table as Hall. rewrite forallb_forall in Hall.
      specialize (Hall _ Ea). unfold named_dec_ok in Hall. cbn [fst snd] in Hall.
      destruct e as [|b [|l [|x e']]]; try discriminate.
      apply andb_true_iff in Hall. destruct Hall as [Hall Hl]. apply andb_true_iff in Hall. destruct Hall as [Hb Hlt].
      apply N.eqb_eq in Hb. subst b.
      destruct (assoc l (decode_simple ++ decode_ansic_only)) as [v|] eqn:El; [|discriminate].
      apply N.eqb_eq in Hl. subst v.
      cbn [app run step step_normal N.eqb Pos.eqb]. rewrite El. rewrite IH.
      unfold utf8. rewrite Hlt. destruct (run 2 SNormal r); reflexivity.
    + destruct (needs_ansi_c_quoting c) eqn:Ec.
      * pose proof oct_dec_all as Hall. rewrite forallb_forall in Hall.
        specialize (Hall c (ctrl_in_range c Ec Hc)). unfold oct_dec_ok in Hall.
        destruct (oct3 c) as [|b [|d1 [|d2 [|d3 [|x e']]]]]; try discriminate.
        cbn [app run].
        destruct (step 2 SNormal b) as [[|? ?] s1| |] eqn:E1; try discriminate.
        destruct (step 2 s1 d1) as [[|? ?] s2| |] eqn:E2; try discriminate.
        destruct (step 2 s2 d2) as [[|? ?] s3| |] eqn:E3; try discriminate.
        destruct (step 2 s3 d3) as [[|v [|? ?]] [| |]| |] eqn:E4; try discriminate.
        apply N.eqb_eq in Hall. subst v. rewrite IH.
        unfold utf8. pose proof (ctrl_lt128 c Ec) as Hlt. apply N.ltb_lt in Hlt. rewrite Hlt.
        destruct (run 2 SNormal r); reflexivity.
      * assert (N92 : (c =? 92) = false).
        { apply N.eqb_neq. intros ->. apply named_covers_bs. exact Ea. }
        cbn [app run step]. unfold step_normal. rewrite N92, IH.
        destruct (run 2 SNormal r) as [b| |]; [|reflexivity|reflexivity].
        rewrite <- app_assoc. reflexivity.
Qed.

Lemma add_nonzero a b : a <> 0 -> a + b <> 0.
Proof. intros Ha H. apply N.eq_add_0 in H. destruct H. contradiction. Qed.

Lemma utf8_nonzero c : c <> 0 -> Forall (fun b => b <> 0) (utf8 c).
Proof.
  intros Hc. unfold utf8.
  destruct (c <? 128) eqn:E1; [apply Forall_cons; [exact Hc | apply Forall_nil]|].
  destruct (c <? 2048); [|destruct (c <? 65536)];
    repeat (apply Forall_cons; [apply add_nonzero; discriminate|]); apply Forall_nil.
Qed.

Lemma cut_nul_id b : Forall (fun x => x <> 0) b -> cut_nul b = b.
Proof.
  induction 1 as [|x r Hx Hr IH]; [reflexivity|].
  cbn [cut_nul]. apply N.eqb_neq in Hx. rewrite Hx, IH. reflexivity.
Qed.

Lemma utf8s_nonzero s : Forall (fun c => c <> 0) s -> Forall (fun b => b <> 0) (utf8s s).
Proof.
  induction 1 as [|c s Hc Hs IH]; [constructor|].
  unfold utf8s. cbn [flat_map]. apply Forall_app. split; [apply utf8_nonzero; exact Hc | exact IH].
Qed.

(** with the repaired digit count, decoding what [ansi_c_quote] wrote between the quotes gives
    back the UTF-8 encoding of the string *)
Theorem decode_ansi_body s : Forall (fun c => c <> 0) s -> decode 2 (ansi_body s) = DOk (utf8s s).
Proof.
  intros Hs. unfold decode. rewrite <- (app_nil_r (ansi_body s)), (run_body s Hs []).
  cbn [run flush]. rewrite app_nil_r, cut_nul_id by (apply utf8s_nonzero; exact Hs). reflexivity.
Qed.

(** with three digits behind the 0 (the unchanged tree) a control character followed by an octal digit
    is read back as one other byte *)
Theorem decode_ansi_body_refuted :
  exists s, Forall (fun c => c <> 0) s /\ decode 3 (ansi_body s) <> DOk (utf8s s).
Proof. exists [1; 55]. split; [repeat constructor; discriminate | vm_compute; discriminate]. Qed.

Example decode_examples :
  decode 2 (ansi_body [1; 55; 233; 10; 39; 127]) = DOk [1; 55; 195; 169; 10; 39; 127] /\
  decode 3 (ansi_body [1; 55]) = DOk [15] /\
  ansi_body [1; 55] = [92; 48; 48; 49; 55].
Proof. vm_compute. repeat split; reflexivity. Qed.

(** the decoder as it is now (regenerated digit count) *)
Theorem decode_ansi_body_current s : Forall (fun c => c <> 0) s ->
  decode zero_octal_digits_ansic (ansi_body s) = DOk (utf8s s).
Proof. change zero_octal_digits_ansic with 2%nat. apply decode_ansi_body. Qed.
