(** C13 spec: how a POSIX/bash shell reads ONE word of program text back into a value.

    [read_word p w = Some v]: the text [w], standing in argument position ([Arg]) or as the
    right-hand side of an assignment ([Assign]) in a non-interactive shell, is a single word
    whose value after quote removal is exactly [v], with no expansion of any kind taking part.
    [None]: the text is not such a word (an unquoted metacharacter, blank, expansion or glob
    character, a tilde in a tilde-prefix position, a comment, an unterminated quote, or an
    escape outside the fragment described below).

    The rules are the ones of the bash manual (QUOTING, Tilde Expansion, Comments), written as a
    one-pass scanner; nothing here is taken from brush.  Deliberately conservative ([None]) on:
      - ~ at the start of the word and directly after an unquoted : or = (bash expands these in
        assignments and in assignment-like arguments);
      - $ unless it opens $'…'; backquote; * ? [ { (globs, brace expansion);
      - inside $'…': \x \u \U \c escapes and octal escapes denoting 0 or a byte above 127
        (values are code points here; a lone high byte is not a character). *)
From BV Require Import Base.Prelude.
Open Scope N_scope.

Inductive position := Arg | Assign.

Definition ocons (c : char) (o : option str) : option str :=
  match o with Some r => Some (c :: r) | None => None end.

(** characters that end or change a word when unquoted:
    | & ; ( ) < > space tab newline $ ` * ? [ { *)
Definition unq_special_chars : list N := [124; 38; 59; 40; 41; 60; 62; 32; 9; 10; 36; 96; 42; 63; 91; 123].
Definition unq_special (c : char) : bool := existsb (N.eqb c) unq_special_chars.

(** inside double quotes a backslash quotes only these: backslash, dollar, backquote, double quote
    (and removes a newline) *)
Definition dq_escapable (c : char) : bool := (c =? 92) || (c =? 36) || (c =? 96) || (c =? 34).

(** one-letter escapes of bash inside dollar-single-quotes: a b e E f n r t v, backslash, both quotes, ? *)
Definition ansi_named (c : char) : option char :=
  if c =? 97 then Some 7 else if c =? 98 then Some 8 else if c =? 101 then Some 27
  else if c =? 69 then Some 27 else if c =? 102 then Some 12 else if c =? 110 then Some 10
  else if c =? 114 then Some 13 else if c =? 116 then Some 9 else if c =? 118 then Some 11
  else if c =? 92 then Some 92 else if c =? 39 then Some 39 else if c =? 34 then Some 34
  else if c =? 63 then Some 63 else None.
Definition is_oct (c : char) : bool := (48 <=? c) && (c <=? 55).
(** \x \u \U \c : outside the fragment *)
Definition ansi_unsupported (c : char) : bool := (c =? 120) || (c =? 117) || (c =? 85) || (c =? 99).

(** an octal escape denotes the character [v] when 0 < v < 128 *)
Definition oct_fin (v : N) (k : option str) : option str :=
  if (v =? 0) || (128 <=? v) then None else ocons v k.

Inductive mode :=
| MU (tilde_pos : bool)   (* unquoted; is a ~ here in a tilde-prefix position? *)
| MS                      (* inside '…' *)
| MD                      (* inside double quotes *)
| MA.                     (* inside $'…' *)

Fixpoint rd (m : mode) (s : str) : option str :=
  match s with
  | [] => match m with MU _ => Some [] | _ => None end
  | c :: r =>
    match m with
    | MU tp =>
        if c =? 39 then rd MS r
        else if c =? 34 then rd MD r
        else if c =? 92 then
          match r with
          | [] => None
          | d :: r' => if d =? 10 then rd (MU tp) r' else ocons d (rd (MU false) r')
          end
        else if c =? 36 then
          match r with
          | d :: r' => if d =? 39 then rd MA r' else None
          | [] => None
          end
        else if c =? 126 then (if tp then None else ocons c (rd (MU false) r))
        else if unq_special c then None
        else ocons c (rd (MU ((c =? 58) || (c =? 61))) r)
    | MS => if c =? 39 then rd (MU false) r else ocons c (rd MS r)
    | MD =>
        if c =? 34 then rd (MU false) r
        else if c =? 92 then
          match r with
          | [] => None
          | d :: r' => if dq_escapable d then ocons d (rd MD r')
                       else if d =? 10 then rd MD r'
                       else ocons c (rd MD r)
          end
        else if (c =? 36) || (c =? 96) then None
        else ocons c (rd MD r)
    | MA =>
        if c =? 39 then rd (MU false) r
        else if c =? 92 then
          match r with
          | [] => None
          | d :: r' =>
            match ansi_named d with
            | Some v => ocons v (rd MA r')
            | None =>
              if is_oct d then
                match r' with
                | d2 :: r2 =>
                  if is_oct d2 then
                    match r2 with
                    | d3 :: r3 =>
                      if is_oct d3 then oct_fin ((d - 48) * 64 + (d2 - 48) * 8 + (d3 - 48)) (rd MA r3)
                      else oct_fin ((d - 48) * 8 + (d2 - 48)) (rd MA r2)
                    | [] => oct_fin ((d - 48) * 8 + (d2 - 48)) (rd MA r2)
                    end
                  else oct_fin (d - 48) (rd MA r')
                | [] => oct_fin (d - 48) (rd MA r')
                end
              else if ansi_unsupported d then None
              else ocons c (ocons d (rd MA r'))
            end
          end
        else ocons c (rd MA r)
    end
  end.

Definition read_word (p : position) (w : str) : option str :=
  match w with
  | [] => match p with Assign => Some [] | Arg => None end
  | c :: _ =>
    match p with
    | Arg => if c =? 35 then None else rd (MU true) w
    | Assign => rd (MU true) w
    end
  end.
