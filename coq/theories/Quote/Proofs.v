(** C13 theorems: every quoting style of escape.rs, read back by the reader of Reader.v, gives
    the original string. *)
From BV Require Import Base.Prelude gen.C13EscapeTables Quote.Quote Quote.Reader.
Open Scope N_scope.

(** * Small facts *)

Lemma mem_true_In c l : mem c l = true -> In c l.
Proof.
  unfold mem. intros H. apply existsb_exists in H. destruct H as [x [Hin Heq]].
  apply N.eqb_eq in Heq. subst. exact Hin.
Qed.

Lemma mem_false_neq c k l : mem c l = false -> mem k l = true -> c <> k.
Proof. intros Hc Hk Heq. subst. congruence. Qed.

Lemma forallb_mem (P : N -> bool) l c : forallb P l = true -> mem c l = true -> P c = true.
Proof. intros Hall Hm. apply mem_true_In in Hm. rewrite forallb_forall in Hall. auto. Qed.

Lemma assoc_In {A} c (l : list (N * A)) e : assoc c l = Some e -> In (c, e) l.
Proof.
  induction l as [|[k v] l IH]; cbn [assoc]; [discriminate|].
  destruct (N.eqb c k) eqn:E.
  - intros H. inversion H. subst. apply N.eqb_eq in E. subst. left. reflexivity.
  - intros H. right. auto.
Qed.

Definition no_nul (s : str) : Prop := Forall (fun c => c <> 0) s.

(** where reading a non-empty text in either position starts *)
Lemma read_word_start p (c : char) (w : str) : c <> 35 -> read_word p (c :: w) = rd (MU true) (c :: w).
Proof.
  intros Hc. unfold read_word. destruct p; [|reflexivity].
  apply N.eqb_neq in Hc. rewrite Hc. reflexivity.
Qed.

(** * Single quotes *)

Lemma rd_single_both s :
  rd MS (sq_in s) = Some s /\ (forall tp, rd (MU tp) (sq_out s) = Some s).
Proof.
  induction s as [|c r [IHin IHout]].
  - split; [reflexivity | intros tp; reflexivity].
  - split.
    + cbn [sq_in]. unfold SQT, BSL. destruct (c =? 39) eqn:E.
      * apply N.eqb_eq in E. subst c. cbn [rd]. cbn [N.eqb Pos.eqb]. rewrite IHout. reflexivity.
      * cbn [rd]. rewrite E. rewrite IHin. reflexivity.
    + intros tp. cbn [sq_out]. unfold SQT, BSL. destruct (c =? 39) eqn:E.
      * apply N.eqb_eq in E. subst c. cbn [rd]. cbn [N.eqb Pos.eqb]. rewrite IHout. reflexivity.
      * cbn [rd]. cbn [N.eqb Pos.eqb]. rewrite E. rewrite IHin. reflexivity.
Qed.

Theorem read_single p s : read_word p (single_quote s) = Some s.
Proof.
  destruct s as [|c r].
  - destruct p; reflexivity.
  - unfold single_quote.
    assert (H : exists d w, sq_out (c :: r) = d :: w /\ d <> 35).
    { cbn [sq_out]. destruct (c =? SQT); eexists; eexists; (split; [reflexivity|]); unfold BSL, SQT; discriminate. }
    destruct H as [d [w [Heq Hd]]].
    rewrite Heq, (read_word_start p d w Hd), <- Heq.
    apply rd_single_both.
Qed.

(** * Double quotes *)

Lemma dq_table_escapable : forallb dq_escapable dq_escaped_chars = true.
Proof. vm_compute. reflexivity. Qed.

Lemma dq_table_covers :
  mem 34 dq_escaped_chars = true /\ mem 92 dq_escaped_chars = true /\
  mem 36 dq_escaped_chars = true /\ mem 96 dq_escaped_chars = true.
Proof. vm_compute. repeat split; reflexivity. Qed.

Lemma rd_double_body s : rd MD (flat_map dq_char s ++ [DQT]) = Some s.
Proof.
  induction s as [|c r IH].
  - reflexivity.
  - cbn [flat_map]. unfold dq_char at 1. destruct (mem c dq_escaped_chars) eqn:Em.
    + pose proof (forallb_mem _ _ _ dq_table_escapable Em) as Hesc.
      unfold BSL. cbn [app rd]. cbn [N.eqb Pos.eqb]. rewrite Hesc, IH. reflexivity.
    + destruct dq_table_covers as [H34 [H92 [H36 H96]]].
      pose proof (mem_false_neq _ _ _ Em H34) as N34. pose proof (mem_false_neq _ _ _ Em H92) as N92.
      pose proof (mem_false_neq _ _ _ Em H36) as N36. pose proof (mem_false_neq _ _ _ Em H96) as N96.
      apply N.eqb_neq in N34, N92, N36, N96.
      cbn [app rd]. rewrite N34, N92, N36, N96. cbn [orb]. rewrite IH. reflexivity.
Qed.

Theorem read_double p s : read_word p (double_quote s) = Some s.
Proof.
  unfold double_quote, DQT. rewrite read_word_start by discriminate.
  cbn [rd]. cbn [N.eqb Pos.eqb]. apply rd_double_body.
Qed.

(** * ANSI-C quotes *)

Definition named_entry_ok (ke : N * list N) : bool :=
  match snd ke with
  | [b; l] => (b =? 92) && match ansi_named l with Some v => v =? fst ke | None => false end
  | _ => false
  end.

Lemma ansi_named_table_ok : forallb named_entry_ok ansi_c_named = true.
Proof. vm_compute. reflexivity. Qed.

Lemma ansi_named_covers : assoc 39 ansi_c_named <> None /\ assoc 92 ansi_c_named <> None.
Proof. vm_compute. split; discriminate. Qed.

Definition oct_ok (c : N) : bool :=
  match oct3 c with
  | [b; d1; d2; d3] =>
      (b =? 92) && match ansi_named d1 with None => true | Some _ => false end
      && is_oct d1 && is_oct d2 && is_oct d3
      && (((d1 - 48) * 64 + (d2 - 48) * 8 + (d3 - 48)) =? c)
  | _ => false
  end.

Lemma oct_ok_all : forallb oct_ok (map N.of_nat (seq 1 127)) = true.
Proof. vm_compute. reflexivity. Qed.

Lemma ctrl_range c : needs_ansi_c_quoting c = true -> c <> 0 -> In c (map N.of_nat (seq 1 127)).
Proof.
  unfold needs_ansi_c_quoting. intros H Hz.
  assert (Hlt : c < 128).
  { apply orb_true_iff in H. destruct H as [H|H]; [apply N.ltb_lt in H | apply N.eqb_eq in H]; lia. }
  apply in_map_iff. exists (N.to_nat c). split; [lia|]. apply in_seq. lia.
Qed.

Lemma rd_ansi_body s : no_nul s -> rd MA (flat_map ac_char s ++ [SQT]) = Some s.
Proof.
  induction 1 as [|c r Hc Hr IH].
  - reflexivity.
  - cbn [flat_map]. rewrite <- app_assoc. unfold ac_char at 1.
    destruct (assoc c ansi_c_named) as [e|] eqn:Ea.
    + apply assoc_In in Ea. pose proof ansi_named_table_ok as Hall. rewrite forallb_forall in Hall.
      specialize (Hall _ Ea). unfold named_entry_ok in Hall. cbn [fst snd] in Hall.
      destruct e as [|b [|l [|x e']]]; try discriminate.
      apply andb_true_iff in Hall. destruct Hall as [Hb Hl]. apply N.eqb_eq in Hb. subst b.
      destruct (ansi_named l) as [v|] eqn:El; [|discriminate]. apply N.eqb_eq in Hl. subst v.
      cbn [app rd]. cbn [N.eqb Pos.eqb]. rewrite El, IH. reflexivity.
    + destruct (needs_ansi_c_quoting c) eqn:Ec.
      * pose proof oct_ok_all as Hall. rewrite forallb_forall in Hall.
        specialize (Hall c (ctrl_range c Ec Hc)). unfold oct_ok in Hall.
        destruct (oct3 c) as [|b [|d1 [|d2 [|d3 [|x e']]]]]; try discriminate.
        repeat (apply andb_true_iff in Hall; destruct Hall as [Hall ?H]).
        apply N.eqb_eq in Hall. subst b.
        destruct (ansi_named d1) eqn:En; [discriminate|].
        apply N.eqb_eq in H.
        cbn [app rd]. cbn [N.eqb Pos.eqb]. rewrite En, H2, H1, H0, H, IH.
        unfold oct_fin.
        assert (Hz : (c =? 0) = false) by (apply N.eqb_neq; exact Hc).
        assert (Hs : (128 <=? c) = false).
        { apply N.leb_gt. unfold needs_ansi_c_quoting in Ec. apply orb_true_iff in Ec.
          destruct Ec as [E|E]; [apply N.ltb_lt in E | apply N.eqb_eq in E]; lia. }
        rewrite Hz, Hs. reflexivity.
      * destruct ansi_named_covers as [H39 H92].
        assert (N39 : (c =? 39) = false).
        { apply N.eqb_neq. intros ->. congruence. }
        assert (N92 : (c =? 92) = false).
        { apply N.eqb_neq. intros ->. congruence. }
        cbn [app rd]. rewrite N39, N92, IH. reflexivity.
Qed.

Theorem read_ansi_c p s : no_nul s -> read_word p (ansi_c_quote s) = Some s.
Proof.
  intros Hs. unfold ansi_c_quote, DOLLAR, SQT. rewrite read_word_start by discriminate.
  cbn [rd]. cbn [N.eqb Pos.eqb]. apply rd_ansi_body. exact Hs.
Qed.

(** * Backslash escaping and unquoted pass-through *)

Definition trig (prev : option char) : bool :=
  match prev with None => true | Some p => (p =? COLON) || (p =? EQUALS) end.

Definition no_ctrl (s : str) : Prop := Forall (fun c => needs_ansi_c_quoting c = false) s.

Lemma needs_table_covers :
  mem 39 needs_escaping_chars = true /\ mem 34 needs_escaping_chars = true /\
  mem 92 needs_escaping_chars = true /\ mem 36 needs_escaping_chars = true.
Proof. vm_compute. repeat split; reflexivity. Qed.

Lemma needs_table_no_nl_colon_eq :
  mem 10 needs_escaping_chars = false /\ mem 58 needs_escaping_chars = false /\
  mem 61 needs_escaping_chars = false.
Proof. vm_compute. repeat split; reflexivity. Qed.

Lemma specials_covered :
  forallb (fun k => needs_escaping k || needs_ansi_c_quoting k) unq_special_chars = true.
Proof. vm_compute. reflexivity. Qed.

Lemma unq_special_covered c :
  unq_special c = true -> needs_escaping c = false -> needs_ansi_c_quoting c = true.
Proof.
  intros Hs Hn. pose proof (forallb_mem _ _ _ specials_covered Hs) as H. cbn beta in H.
  rewrite Hn in H. exact H.
Qed.

Lemma rd_bs_body s : forall prev tp,
  no_ctrl s -> (tp = true -> trig prev = true) ->
  rd (MU tp) (bs_body true prev s) = Some s.
Proof.
  induction s as [|c r IH]; intros prev tp Hctl Htp.
  - reflexivity.
  - inversion Hctl as [|? ? Hc Hr]; subst.
    assert (N10 : (c =? 10) = false).
    { apply N.eqb_neq. intros ->. vm_compute in Hc. discriminate. }
    cbn [bs_body]. destruct (esc_here true prev c) eqn:Ee.
    + unfold BSL. cbn [app rd]. cbn [N.eqb Pos.eqb]. rewrite N10.
      rewrite (IH (Some c) false Hr) by discriminate. reflexivity.
    + unfold esc_here in Ee. apply orb_false_iff in Ee. destruct Ee as [En Ep]. cbn [andb] in Ep.
      destruct needs_table_covers as [H39 [H34 [H92 H36]]]. unfold needs_escaping in En.
      pose proof (mem_false_neq _ _ _ En H39) as N39. pose proof (mem_false_neq _ _ _ En H34) as N34.
      pose proof (mem_false_neq _ _ _ En H92) as N92. pose proof (mem_false_neq _ _ _ En H36) as N36.
      apply N.eqb_neq in N39, N34, N92, N36.
      cbn [app rd]. rewrite N39, N34, N92, N36.
      destruct (c =? 126) eqn:E126.
      * unfold needs_escaping_at, TILDE in Ep. rewrite E126 in Ep.
        assert (Htf : tp = false).
        { destruct tp; [|reflexivity]. specialize (Htp eq_refl). unfold trig in Htp.
          destruct prev; congruence. }
        subst tp. rewrite (IH (Some c) false Hr) by discriminate. reflexivity.
      * destruct (unq_special c) eqn:Es.
        { pose proof (unq_special_covered c Es En). congruence. }
        rewrite (IH (Some c) ((c =? 58) || (c =? 61)) Hr); [reflexivity|].
        intros H. unfold trig, COLON, EQUALS. exact H.
Qed.

Lemma bs_body_head prev c r :
  prev = None -> exists d w, bs_body true prev (c :: r) = d :: w /\ d <> 35.
Proof.
  intros ->. cbn [bs_body]. destruct (esc_here true None c) eqn:Ee.
  - eexists; eexists; split; [reflexivity|]. unfold BSL. discriminate.
  - eexists; eexists; split; [reflexivity|]. intros ->.
    unfold esc_here in Ee. apply orb_false_iff in Ee. destruct Ee as [_ Ep].
    vm_compute in Ep. discriminate.
Qed.

Lemma bs_body_id pos s : forall prev, any_needs pos prev s = false -> bs_body pos prev s = s.
Proof.
  induction s as [|c r IH]; intros prev H; [reflexivity|].
  cbn [any_needs] in H. apply orb_false_iff in H. destruct H as [He Hr].
  cbn [bs_body]. rewrite He, (IH _ Hr). reflexivity.
Qed.

Theorem read_bs_body p s : s <> [] -> no_ctrl s -> read_word p (bs_body true None s) = Some s.
Proof.
  intros Hne Hctl. destruct s as [|c r]; [congruence|].
  destruct (bs_body_head None c r eq_refl) as [d [w [Heq Hd]]].
  rewrite Heq, (read_word_start p d w Hd), <- Heq.
  apply rd_bs_body; [exact Hctl | reflexivity].
Qed.

Theorem read_backslash p s : no_ctrl s -> read_word p (backslash_escape true s) = Some s.
Proof.
  intros Hctl. destruct s as [|c r].
  - destruct p; reflexivity.
  - unfold backslash_escape. destruct (any_needs true None (c :: r)) eqn:Ea.
    + apply read_bs_body; [discriminate | exact Hctl].
    + rewrite <- (bs_body_id true (c :: r) None Ea) at 1. apply read_bs_body; [discriminate | exact Hctl].
Qed.

(** * [quote] *)

Lemma use_ansi_c_false o s : avoid_nl o = false -> use_ansi_c o s = false -> no_ctrl s.
Proof.
  intros Ha. unfold use_ansi_c. rewrite Ha. induction s as [|c r IH]; intros H.
  - constructor.
  - cbn [existsb] in H. apply orb_false_iff in H. destruct H as [Hc Hr].
    cbn [negb orb] in Hc. rewrite andb_true_r in Hc. constructor; [exact Hc | exact (IH Hr)].
Qed.

(** Main theorem: with the position-dependent test in place, every option set reachable through
    [force_quote]/[quote_if_needed] (i.e. [avoid_nl = false]) round-trips every NUL-free string in
    both positions. *)
Theorem read_quote p o s : avoid_nl o = false -> no_nul s -> read_word p (quote true o s) = Some s.
Proof.
  intros Ha Hn. unfold quote. destruct (use_ansi_c o s) eqn:Eu.
  - apply read_ansi_c. exact Hn.
  - pose proof (use_ansi_c_false o s Ha Eu) as Hctl.
    destruct (always_quote o || is_nil s || any_needs true None s) eqn:Eq.
    + destruct (preferred o).
      * apply read_single.
      * apply read_double.
      * apply read_backslash. exact Hctl.
    + apply orb_false_iff in Eq. destruct Eq as [Eq Ean]. apply orb_false_iff in Eq. destruct Eq as [_ Enil].
      destruct s as [|c r]; [discriminate|].
      rewrite <- (bs_body_id true (c :: r) None Ean) at 1. apply read_bs_body; [discriminate | exact Hctl].
Qed.

(** Forced single/double quoting never consults [needs_escaping]: it round-trips whether or not the
    code has the position-dependent test. *)
Theorem read_force_quote pos p m s : m <> QBackslash -> no_nul s ->
  read_word p (force_quote pos m s) = Some s.
Proof.
  intros Hm Hn. unfold force_quote, quote. cbn [always_quote preferred orb].
  destruct (use_ansi_c _ s).
  - apply read_ansi_c. exact Hn.
  - destruct m; [apply read_single | apply read_double | congruence].
Qed.

(** * Without the position-dependent test (the unchanged tree) *)

(** the decidable class of strings on which the position matters *)
Fixpoint has_pos_trigger (prev : option char) (s : str) : bool :=
  match s with
  | [] => false
  | c :: r => needs_escaping_at prev c || has_pos_trigger (Some c) r
  end.
Definition Known (s : str) : Prop := has_pos_trigger None s = true.

Lemma no_trigger_same s : forall prev, has_pos_trigger prev s = false ->
  any_needs false prev s = any_needs true prev s /\ bs_body false prev s = bs_body true prev s.
Proof.
  induction s as [|c r IH]; intros prev H; [split; reflexivity|].
  cbn [has_pos_trigger] in H. apply orb_false_iff in H. destruct H as [Hc Hr].
  destruct (IH _ Hr) as [IH1 IH2].
  cbn [any_needs bs_body]. unfold esc_here. rewrite Hc, IH1, IH2. cbn [andb].
  split; reflexivity.
Qed.

Lemma quote_outside_known o s : ~ Known s -> quote false o s = quote true o s.
Proof.
  intros Hk. unfold Known in Hk. apply not_true_is_false in Hk.
  destruct (no_trigger_same s None Hk) as [H1 H2].
  unfold quote, backslash_escape. rewrite H1, H2. reflexivity.
Qed.

Theorem read_quote_outside_known p o s : avoid_nl o = false -> no_nul s -> ~ Known s ->
  read_word p (quote false o s) = Some s.
Proof. intros Ha Hn Hk. rewrite quote_outside_known by exact Hk. apply read_quote; assumption. Qed.

(** refutations: a lone tilde is printed unquoted by the backslash style (printf %q) and by every
    if-needed style (set, declare, the xtrace line, associative keys); # likewise in argument
    position. *)
Theorem backslash_mode_refuted :
  exists s, no_nul s /\ forall p, read_word p (quote_if_needed false QBackslash s) <> Some s.
Proof. exists [TILDE]. split; [repeat constructor; discriminate|]. intros p. destruct p; vm_compute; discriminate. Qed.

Theorem if_needed_refuted : forall m,
  exists s, no_nul s /\ forall p, read_word p (quote_if_needed false m s) <> Some s.
Proof. intros m. exists [TILDE]. split; [repeat constructor; discriminate|]. intros p. destruct p, m; vm_compute; discriminate. Qed.

Theorem hash_refuted :
  exists s, no_nul s /\ read_word Arg (quote_if_needed false QBackslash s) <> Some s.
Proof. exists [HASH; 120]. split; [repeat constructor; discriminate|]. vm_compute. discriminate. Qed.

Theorem colon_tilde_refuted :
  exists s, no_nul s /\ read_word Assign (quote_if_needed false QBackslash s) <> Some s.
Proof. exists [97; COLON; TILDE]. split; [repeat constructor; discriminate|]. vm_compute. discriminate. Qed.

(** [avoid_nl = true] is not reachable through the public functions; were it used with the
    if-needed styles, a newline would be printed raw and unquoted. *)
Theorem avoid_nl_refuted :
  exists o s, avoid_nl o = true /\ no_nul s /\ read_word Assign (quote true o s) <> Some s.
Proof.
  exists {| always_quote := false; preferred := QSingle; avoid_nl := true |}, [97; NL; 98].
  split; [reflexivity|]. split; [repeat constructor; discriminate|]. vm_compute. discriminate.
Qed.

(** non-vacuity: a string using every style *)
Example read_quote_example :
  read_word Arg (quote_if_needed true QBackslash [TILDE; 97; 32; 39; 36]) = Some [TILDE; 97; 32; 39; 36]
  /\ quote_if_needed true QBackslash [TILDE; 97; 32; 39; 36] = [92; TILDE; 97; 92; 32; 92; 39; 92; 36]
  /\ quote_if_needed true QSingle [97; 39; 98] = [39; 97; 39; 92; 39; 39; 98; 39]
  /\ force_quote true QDouble [97; 34; 9] = [36; 39; 97; 34; 92; 116; 39].
Proof. vm_compute. repeat split; reflexivity. Qed.

(** * The code as it is now (regenerated flag): unconditional *)
Lemma positional_now : positional_escaping = true.
Proof. reflexivity. Qed.

Theorem read_quote_current p o s : avoid_nl o = false -> no_nul s ->
  read_word p (quote positional_escaping o s) = Some s.
Proof. rewrite positional_now. apply read_quote. Qed.
