(** C13 model: brush-core/src/escape.rs, the quoting side.
    [quote], [force_quote], [quote_if_needed], [backslash_escape], [single_quote],
    [double_quote], [ansi_c_quote] over the regenerated tables of gen/C13EscapeTables.v.

    The functions that consult [needs_escaping] take a flag [pos]: whether the code also has the
    position-dependent test [needs_escaping_at] (a leading ~ or #, a ~ after : or =).  The
    unchanged tree has no such test ([C13EscapeTables.positional_escaping = false]); the repaired tree
    has it.  The entry points instantiate [pos] with the regenerated flag, the theorems are
    stated for both values. *)
From BV Require Import Base.Prelude gen.C13EscapeTables.
Open Scope N_scope.

Definition mem (c : char) (l : list N) : bool := existsb (N.eqb c) l.

Fixpoint assoc {A} (c : char) (l : list (N * A)) : option A :=
  match l with
  | [] => None
  | (k, v) :: l' => if N.eqb c k then Some v else assoc c l'
  end.

Definition BSL : char := 92.   (* backslash *)
Definition SQT : char := 39.   (* ' *)
Definition DQT : char := 34.   (* double quote *)
Definition DOLLAR : char := 36.
Definition TILDE : char := 126.
Definition COLON : char := 58.
Definition EQUALS : char := 61.

(** [needs_escaping]. *)
Definition needs_escaping (c : char) : bool := mem c needs_escaping_chars.

(** [needs_escaping_at] of the repaired code. *)
Definition needs_escaping_at (prev : option char) (c : char) : bool :=
  if c =? TILDE then match prev with None => true | Some p => (p =? COLON) || (p =? EQUALS) end
  else if c =? HASH then match prev with None => true | Some _ => false end
  else false.

Definition esc_here (pos : bool) (prev : option char) (c : char) : bool :=
  needs_escaping c || (pos && needs_escaping_at prev c).

(** does the string contain a character that needs escaping ([s.contains(needs_escaping)],
    extended with the position test when [pos]). *)
Fixpoint any_needs (pos : bool) (prev : option char) (s : str) : bool :=
  match s with
  | [] => false
  | c :: r => esc_here pos prev c || any_needs pos (Some c) r
  end.

Fixpoint bs_body (pos : bool) (prev : option char) (s : str) : str :=
  match s with
  | [] => []
  | c :: r => (if esc_here pos prev c then [BSL; c] else [c]) ++ bs_body pos (Some c) r
  end.

Definition backslash_escape (pos : bool) (s : str) : str :=
  match s with
  | [] => [SQT; SQT]
  | _ => if any_needs pos None s then bs_body pos None s else s
  end.

(** [single_quote]: the parts between single quotes each in '…', a backslash-quote between parts;
    written as two mutually recursive scanners: inside / outside an open quote. *)
Fixpoint sq_in (s : str) : str :=
  match s with
  | [] => [SQT]
  | c :: r => if c =? SQT then SQT :: BSL :: SQT :: sq_out r else c :: sq_in r
  end
with sq_out (s : str) : str :=
  match s with
  | [] => []
  | c :: r => if c =? SQT then BSL :: SQT :: sq_out r else SQT :: c :: sq_in r
  end.

Definition single_quote (s : str) : str :=
  match s with [] => [SQT; SQT] | _ => sq_out s end.

Definition dq_char (c : char) : str := if mem c dq_escaped_chars then [BSL; c] else [c].
Definition double_quote (s : str) : str := DQT :: flat_map dq_char s ++ [DQT].

(** the format [{:03o}] of [c as u8] behind a backslash *)
Definition oct3 (c : N) : str :=
  let b := c mod 256 in [BSL; 48 + b / 64; 48 + (b / 8) mod 8; 48 + b mod 8].

Definition ac_char (c : char) : str :=
  match assoc c ansi_c_named with
  | Some e => e
  | None => if needs_ansi_c_quoting c then oct3 c else [c]
  end.
Definition ansi_c_quote (s : str) : str := DOLLAR :: SQT :: flat_map ac_char s ++ [SQT].

Inductive qmode := QSingle | QDouble | QBackslash.
Record qopts := { always_quote : bool; preferred : qmode; avoid_nl : bool }.

Definition use_ansi_c (o : qopts) (s : str) : bool :=
  existsb (fun c => needs_ansi_c_quoting c && (negb (avoid_nl o) || negb (c =? NL))) s.

Definition is_nil {A} (l : list A) : bool := match l with [] => true | _ => false end.

(** [quote]. *)
Definition quote (pos : bool) (o : qopts) (s : str) : str :=
  if use_ansi_c o s then ansi_c_quote s
  else if always_quote o || is_nil s || any_needs pos None s then
    match preferred o with
    | QBackslash => backslash_escape pos s
    | QSingle => single_quote s
    | QDouble => double_quote s
    end
  else s.

Definition force_quote (pos : bool) (m : qmode) (s : str) : str :=
  quote pos {| always_quote := true; preferred := m; avoid_nl := false |} s.
Definition quote_if_needed (pos : bool) (m : qmode) (s : str) : str :=
  quote pos {| always_quote := false; preferred := m; avoid_nl := false |} s.
