(** C13: the compound values printed by declare -p / the A transform.

    Model: brush-core/src/variables.rs [ShellValue::format] with [FormatStyle::DeclarePrint] for
    indexed and associative arrays (scalars are [force_quote DoubleQuote], covered by Proofs.v).
    Spec: [read_compound], how bash reads a compound assignment value [( [key]=word ... )]: elements
    are split at unquoted blanks, a key ends at the first unquoted closing bracket, keys and values
    are read by the word reader of Reader.v.  Theorems: reading what [fmt_*] prints gives back the
    keys and values. *)
From BV Require Import Base.Prelude gen.C13EscapeTables Quote.Quote Quote.Reader Quote.Proofs.
Open Scope N_scope.

Definition LPAR : char := 40.
Definition RPAR : char := 41.
Definition LBR : char := 91.
Definition RBR : char := 93.
Definition SPC : char := 32.

Section Fmt.
Variable pos : bool.

(** [ShellValue::IndexedArray]: ([k]=v [k]=v) with single blanks between, keys printed in decimal *)
Fixpoint fmt_indexed_items (vs : list (str * str)) : str :=
  match vs with
  | [] => []
  | [(k, v)] => LBR :: k ++ [RBR; EQUALS] ++ force_quote pos QDouble v
  | (k, v) :: r => LBR :: k ++ [RBR; EQUALS] ++ force_quote pos QDouble v ++ SPC :: fmt_indexed_items r
  end.
Definition fmt_indexed (vs : list (str * str)) : str := LPAR :: fmt_indexed_items vs ++ [RPAR].

(** [ShellValue::AssociativeArray]: ([k]=v [k]=v ) with a blank after every element *)
Definition fmt_assoc_item (kv : str * str) : str :=
  LBR :: quote_if_needed pos QDouble (fst kv) ++ [RBR; EQUALS] ++ force_quote pos QDouble (snd kv) ++ [SPC].
Definition fmt_assoc (kvs : list (str * str)) : str := LPAR :: flat_map fmt_assoc_item kvs ++ [RPAR].
End Fmt.

(** * Reading a compound value *)

(** scan to the first unquoted character satisfying [stop]; quoting as in Reader.v *)
Inductive smode := QU | QS | QD | QA.

Fixpoint scan (stop : char -> bool) (m : smode) (s : str) : option (str * str) :=
  match s with
  | [] => None
  | c :: r =>
    match m with
    | QU =>
        if stop c then Some ([], s)
        else if c =? 92 then
          match r with
          | d :: r' => match scan stop QU r' with Some (a, b) => Some (c :: d :: a, b) | None => None end
          | [] => None
          end
        else if c =? 39 then match scan stop QS r with Some (a, b) => Some (c :: a, b) | None => None end
        else if c =? 34 then match scan stop QD r with Some (a, b) => Some (c :: a, b) | None => None end
        else if c =? 36 then
          match r with
          | d :: r' => if d =? 39 then match scan stop QA r' with Some (a, b) => Some (c :: d :: a, b) | None => None end
                       else match scan stop QU r with Some (a, b) => Some (c :: a, b) | None => None end
          | [] => None
          end
        else match scan stop QU r with Some (a, b) => Some (c :: a, b) | None => None end
    | QS =>
        if c =? 39 then match scan stop QU r with Some (a, b) => Some (c :: a, b) | None => None end
        else match scan stop QS r with Some (a, b) => Some (c :: a, b) | None => None end
    | QD =>
        if c =? 34 then match scan stop QU r with Some (a, b) => Some (c :: a, b) | None => None end
        else if c =? 92 then
          match r with
          | d :: r' => match scan stop QD r' with Some (a, b) => Some (c :: d :: a, b) | None => None end
          | [] => None
          end
        else match scan stop QD r with Some (a, b) => Some (c :: a, b) | None => None end
    | QA =>
        if c =? 39 then match scan stop QU r with Some (a, b) => Some (c :: a, b) | None => None end
        else if c =? 92 then
          match r with
          | d :: r' => match scan stop QA r' with Some (a, b) => Some (c :: d :: a, b) | None => None end
          | [] => None
          end
        else match scan stop QA r with Some (a, b) => Some (c :: a, b) | None => None end
    end
  end.

Definition is_rbr (c : char) : bool := c =? RBR.
Definition is_end (c : char) : bool := (c =? SPC) || (c =? RPAR).

(** elements [key]=value separated by blanks, up to the closing parenthesis *)
Fixpoint read_elems (fuel : nat) (s : str) : option (list (str * str)) :=
  match fuel with O => None | S f =>
  match s with
  | c :: r =>
      if c =? RPAR then (match r with [] => Some [] | _ => None end)
      else if c =? SPC then read_elems f r
      else if c =? LBR then
        match scan is_rbr QU r with
        | Some (kt, _ :: e :: r1) =>
            if e =? EQUALS then
              match scan is_end QU r1 with
              | Some (vt, r2) =>
                  match rd (MU false) kt, read_word Assign vt, read_elems f r2 with
                  | Some k, Some v, Some rest => Some ((k, v) :: rest)
                  | _, _, _ => None
                  end
              | None => None
              end
            else None
        | _ => None
        end
      else None
  | [] => None
  end end.

Definition read_compound (s : str) : option (list (str * str)) :=
  match s with
  | c :: r => if c =? LPAR then read_elems (S (length r)) r else None
  | [] => None
  end.

(** * Scanning what the quoters print *)

Lemma scan_cons stop m c r a b : scan stop m r = Some (a, b) ->
  (match scan stop m r with Some (a, b) => Some (c :: a, b) | None => None end) = Some (c :: a, b).
Proof. intros ->. reflexivity. Qed.

(** inside double quotes: the body of [double_quote] then the closing quote, then unquoted again *)
Lemma scan_dq_body stop s rest a b : scan stop QU rest = Some (a, b) ->
  scan stop QD (flat_map dq_char s ++ DQT :: rest) = Some (flat_map dq_char s ++ DQT :: a, b).
Proof.
  intros Hr. induction s as [|c r IH].
  - cbn [flat_map app scan]. unfold DQT. cbn [N.eqb Pos.eqb]. rewrite Hr. reflexivity.
  - cbn [flat_map]. rewrite <- !app_assoc. unfold dq_char at 1 3.
    destruct (mem c dq_escaped_chars) eqn:Em.
    + unfold BSL. cbn [app scan]. cbn [N.eqb Pos.eqb]. rewrite IH. reflexivity.
    + destruct dq_table_covers as [H34 [H92 _]].
      pose proof (mem_false_neq _ _ _ Em H34) as N34. pose proof (mem_false_neq _ _ _ Em H92) as N92.
      apply N.eqb_neq in N34, N92. cbn [app scan]. rewrite N34, N92, IH. reflexivity.
Qed.

Lemma scan_double stop s rest a b : stop DQT = false -> scan stop QU rest = Some (a, b) ->
  scan stop QU (double_quote s ++ rest) = Some (double_quote s ++ a, b).
Proof.
  intros Hs Hr. unfold double_quote. cbn [app scan]. rewrite Hs. unfold DQT at 1 2. cbn [N.eqb Pos.eqb].
  rewrite <- !app_assoc. cbn [app]. rewrite (scan_dq_body stop s rest a b Hr). reflexivity.
Qed.

(** inside dollar-single-quotes: every text of [ac_char] keeps the scanner in [QA] *)
Lemma scan_ac_char stop c rest a b : c <> 0 -> scan stop QA rest = Some (a, b) ->
  scan stop QA (ac_char c ++ rest) = Some (ac_char c ++ a, b).
Proof.
  intros Hc Hr. unfold ac_char.
  destruct (assoc c ansi_c_named) as [e|] eqn:Ea.
  - apply assoc_In in Ea. pose proof ansi_named_table_ok as Hall. rewrite forallb_forall in Hall.
    specialize (Hall _ Ea). unfold named_entry_ok in Hall. cbn [fst snd] in Hall.
    destruct e as [|x [|l [|y e']]]; try discriminate.
    apply andb_true_iff in Hall. destruct Hall as [Hb _]. apply N.eqb_eq in Hb. subst x.
    cbn [app scan]. cbn [N.eqb Pos.eqb]. rewrite Hr. reflexivity.
  - destruct (needs_ansi_c_quoting c) eqn:Ec.
    + pose proof oct_ok_all as Hall. rewrite forallb_forall in Hall.
      specialize (Hall c (ctrl_range c Ec Hc)). unfold oct_ok in Hall.
      destruct (oct3 c) as [|x [|d1 [|d2 [|d3 [|y e']]]]]; try discriminate.
      repeat (apply andb_true_iff in Hall; destruct Hall as [Hall ?H]).
      apply N.eqb_eq in Hall. subst x.
      assert (Hd : forall d, is_oct d = true -> (d =? 39) = false /\ (d =? 92) = false).
      { intros d Hd. unfold is_oct in Hd. apply andb_true_iff in Hd. destruct Hd as [H48 H55].
        apply N.leb_le in H48, H55. split; apply N.eqb_neq; lia. }
      destruct (Hd d2 H1) as [A2 B2]. destruct (Hd d3 H0) as [A3 B3].
      cbn [app scan]. cbn [N.eqb Pos.eqb]. rewrite A2, B2, A3, B3, Hr. reflexivity.
    + destruct ansi_named_covers as [H39 H92].
      assert (N39 : (c =? 39) = false) by (apply N.eqb_neq; intros ->; congruence).
      assert (N92 : (c =? 92) = false) by (apply N.eqb_neq; intros ->; congruence).
      cbn [app scan]. rewrite N39, N92, Hr. reflexivity.
Qed.

Lemma scan_ansi stop s rest a b : no_nul s -> stop DOLLAR = false -> scan stop QU rest = Some (a, b) ->
  scan stop QU (ansi_c_quote s ++ rest) = Some (ansi_c_quote s ++ a, b).
Proof.
  intros Hn Hs Hr.
  assert (Hbody : scan stop QA (flat_map ac_char s ++ SQT :: rest) = Some (flat_map ac_char s ++ SQT :: a, b)).
  { induction Hn as [|c r Hc Hr' IH].
    - cbn [flat_map app scan]. unfold SQT. cbn [N.eqb Pos.eqb]. rewrite Hr. reflexivity.
    - cbn [flat_map]. rewrite <- !app_assoc. apply scan_ac_char; [exact Hc | exact IH]. }
  unfold ansi_c_quote, DOLLAR, SQT in *. cbn [app]. rewrite <- !app_assoc. cbn [app]. cbn [scan]. rewrite Hs.
  cbn [N.eqb Pos.eqb]. rewrite Hbody. reflexivity.
Qed.

(** forced double quoting (double or ANSI-C quotes) is scanned as one piece *)
Lemma scan_force_double pos stop v rest a b : no_nul v -> stop DQT = false -> stop DOLLAR = false ->
  scan stop QU rest = Some (a, b) ->
  scan stop QU (force_quote pos QDouble v ++ rest) = Some (force_quote pos QDouble v ++ a, b).
Proof.
  intros Hn H1 H2 Hr. unfold force_quote, quote. cbn [always_quote preferred orb].
  destruct (use_ansi_c _ v); [apply scan_ansi | apply scan_double]; assumption.
Qed.

(** a raw key (nothing to escape, no control character) is scanned character by character *)
Lemma scan_raw stop k rest a b :
  any_needs true None k = false -> no_ctrl k -> (forall c, In c k -> stop c = false) ->
  scan stop QU rest = Some (a, b) -> scan stop QU (k ++ rest) = Some (k ++ a, b).
Proof.
  intros Hn _ Hst Hr. revert Hn Hst. generalize (@None char) as prev.
  induction k as [|c r IH]; intros prev Hn Hst; [exact Hr|].
  cbn [any_needs] in Hn. apply orb_false_iff in Hn. destruct Hn as [He Hn].
  unfold esc_here in He. apply orb_false_iff in He. destruct He as [En _].
  destruct needs_table_covers as [H39 [H34 [H92 H36]]]. unfold needs_escaping in En.
  pose proof (mem_false_neq _ _ _ En H39) as N39. pose proof (mem_false_neq _ _ _ En H34) as N34.
  pose proof (mem_false_neq _ _ _ En H92) as N92. pose proof (mem_false_neq _ _ _ En H36) as N36.
  apply N.eqb_neq in N39, N34, N92, N36.
  cbn [app scan]. rewrite (Hst c (or_introl eq_refl)), N92, N39, N34, N36.
  rewrite (IH (Some c) Hn (fun x Hx => Hst x (or_intror Hx))). reflexivity.
Qed.

(** * Reading back what [fmt_indexed] / [fmt_assoc] print *)

Lemma rd_start_double tp s r : rd (MU tp) (double_quote s ++ r) = rd MD (flat_map dq_char s ++ DQT :: r).
Proof. unfold double_quote, DQT. cbn [app rd]. cbn [N.eqb Pos.eqb]. rewrite <- app_assoc. reflexivity. Qed.
Lemma rd_start_ansi tp s r : rd (MU tp) (ansi_c_quote s ++ r) = rd MA (flat_map ac_char s ++ SQT :: r).
Proof. unfold ansi_c_quote, DOLLAR, SQT. cbn [app rd]. cbn [N.eqb Pos.eqb]. rewrite <- app_assoc. reflexivity. Qed.

Lemma rd_key_double s : rd (MU false) (double_quote s) = Some s.
Proof. rewrite <- (app_nil_r (double_quote s)), rd_start_double. apply rd_double_body. Qed.
Lemma rd_key_ansi s : no_nul s -> rd (MU false) (ansi_c_quote s) = Some s.
Proof. intros H. rewrite <- (app_nil_r (ansi_c_quote s)), rd_start_ansi. apply rd_ansi_body. exact H. Qed.
Lemma rd_key_raw s : any_needs true None s = false -> no_ctrl s -> rd (MU false) s = Some s.
Proof.
  intros Ha Hc. rewrite <- (bs_body_id true s None Ha) at 1. apply rd_bs_body; [exact Hc | discriminate].
Qed.

Lemma any_needs_chars pos s : forall prev, any_needs pos prev s = false -> forall c, In c s -> needs_escaping c = false.
Proof.
  induction s as [|x r IH]; intros prev H c Hin; [contradiction|].
  cbn [any_needs] in H. apply orb_false_iff in H. destruct H as [He Hr].
  destruct Hin as [->|Hin]; [|exact (IH _ Hr c Hin)].
  unfold esc_here in He. apply orb_false_iff in He. exact (proj1 He).
Qed.

Lemma rbr_needs : needs_escaping RBR = true. Proof. vm_compute. reflexivity. Qed.

(** the key text of an associative element: read back, and scanned up to the bracket *)
Lemma key_text k : no_nul k ->
  rd (MU false) (quote_if_needed true QDouble k) = Some k /\
  forall rest, scan is_rbr QU (quote_if_needed true QDouble k ++ RBR :: rest) = Some (quote_if_needed true QDouble k, RBR :: rest).
Proof.
  intros Hn.
  assert (Hbase : forall rest, scan is_rbr QU (RBR :: rest) = Some ([], RBR :: rest)) by (intros; reflexivity).
  unfold quote_if_needed, quote. cbn [always_quote preferred orb].
  destruct (use_ansi_c _ k) eqn:Eu.
  - split; [apply rd_key_ansi; exact Hn|]. intros rest.
    rewrite (scan_ansi is_rbr k _ [] (RBR :: rest) Hn eq_refl (Hbase rest)), app_nil_r. reflexivity.
  - pose proof (use_ansi_c_false {| always_quote := false; preferred := QDouble; avoid_nl := false |} k eq_refl Eu) as Hctl.
    destruct (is_nil k || any_needs true None k) eqn:Eq.
    + split; [apply rd_key_double|]. intros rest.
      rewrite (scan_double is_rbr k _ [] (RBR :: rest) eq_refl (Hbase rest)), app_nil_r. reflexivity.
    + apply orb_false_iff in Eq. destruct Eq as [_ Ean].
      split; [apply rd_key_raw; assumption|]. intros rest.
      rewrite (scan_raw is_rbr k _ [] (RBR :: rest) Ean Hctl); [rewrite app_nil_r; reflexivity| |apply Hbase].
      intros c Hin. unfold is_rbr. apply N.eqb_neq. intros ->.
      pose proof (any_needs_chars true k None Ean _ Hin) as H. rewrite rbr_needs in H. discriminate.
Qed.

Lemma digits_no_needs : forallb (fun d => negb (needs_escaping d) && negb (needs_ansi_c_quoting d)
                                          && negb (d =? TILDE) && negb (d =? HASH) && negb (d =? RBR))
                          [48;49;50;51;52;53;54;55;56;57] = true.
Proof. vm_compute. reflexivity. Qed.

Lemma digit_facts d : is_digit d = true ->
  needs_escaping d = false /\ needs_ansi_c_quoting d = false /\ (d =? TILDE) = false /\ (d =? HASH) = false /\ (d =? RBR) = false.
Proof.
  intros H. unfold is_digit in H. apply andb_true_iff in H. destruct H as [H1 H2]. apply N.leb_le in H1, H2.
  pose proof digits_no_needs as Hall. rewrite forallb_forall in Hall.
  assert (Hin : In d [48;49;50;51;52;53;54;55;56;57]).
  { assert (Hn : In (N.to_nat d) (seq 48 10)) by (apply in_seq; lia).
    apply (in_map N.of_nat) in Hn. rewrite N2Nat.id in Hn. exact Hn. }
  specialize (Hall d Hin). repeat (apply andb_true_iff in Hall; destruct Hall as [Hall ?H]).
  repeat split; apply negb_true_iff; assumption.
Qed.

Lemma digits_any_needs k : forallb is_digit k = true -> forall prev, any_needs true prev k = false.
Proof.
  induction k as [|d r IH]; intros Hd prev; [reflexivity|].
  cbn [forallb] in Hd. apply andb_true_iff in Hd. destruct Hd as [H1 H2].
  destruct (digit_facts d H1) as [F1 [_ [F3 [F4 _]]]].
  cbn [any_needs]. unfold esc_here, needs_escaping_at. rewrite F1, F3, F4, (IH H2). reflexivity.
Qed.

Lemma digits_no_ctrl k : forallb is_digit k = true -> no_ctrl k.
Proof.
  induction k as [|d r IH]; intros Hd; [constructor|].
  cbn [forallb] in Hd. apply andb_true_iff in Hd. destruct Hd as [H1 H2].
  constructor; [exact (proj1 (proj2 (digit_facts d H1))) | exact (IH H2)].
Qed.

(** the key text of an indexed element: digits *)
Lemma index_text k : forallb is_digit k = true ->
  rd (MU false) k = Some k /\ forall rest, scan is_rbr QU (k ++ RBR :: rest) = Some (k, RBR :: rest).
Proof.
  intros Hd. pose proof (digits_any_needs k Hd) as Ha. pose proof (digits_no_ctrl k Hd) as Hc.
  split; [apply rd_key_raw; [apply Ha | exact Hc]|]. intros rest.
  rewrite (scan_raw is_rbr k _ [] (RBR :: rest) (Ha None) Hc); [rewrite app_nil_r; reflexivity| |reflexivity].
  intros c Hin. rewrite forallb_forall in Hd. exact (proj2 (proj2 (proj2 (proj2 (digit_facts c (Hd c Hin)))))).
Qed.

Lemma read_one f (ktext k vtext v rest : str) restv :
  scan is_rbr QU (ktext ++ RBR :: EQUALS :: vtext ++ rest) = Some (ktext, RBR :: EQUALS :: vtext ++ rest) ->
  rd (MU false) ktext = Some k ->
  scan is_end QU (vtext ++ rest) = Some (vtext, rest) ->
  read_word Assign vtext = Some v ->
  read_elems f rest = Some restv ->
  read_elems (S f) (LBR :: ktext ++ RBR :: EQUALS :: vtext ++ rest) = Some ((k, v) :: restv).
Proof.
  intros H1 H2 H3 H4 H5. cbn [read_elems]. unfold LBR at 1 2 3, RPAR at 1, SPC at 1. cbn [N.eqb Pos.eqb].
  rewrite H1. unfold EQUALS at 1 2. cbn [N.eqb Pos.eqb]. rewrite H3, H2, H4, H5. reflexivity.
Qed.

Lemma scan_value pos v (c0 : char) r0 : no_nul v -> is_end c0 = true ->
  scan is_end QU (force_quote pos QDouble v ++ c0 :: r0) = Some (force_quote pos QDouble v, c0 :: r0).
Proof.
  intros Hn Hc.
  assert (Hb : scan is_end QU (c0 :: r0) = Some ([], c0 :: r0)) by (cbn [scan]; rewrite Hc; reflexivity).
  rewrite (scan_force_double pos is_end v _ [] (c0 :: r0) Hn eq_refl eq_refl Hb), app_nil_r. reflexivity.
Qed.

Definition kv_ok_indexed (kv : str * str) : Prop := forallb is_digit (fst kv) = true /\ no_nul (snd kv).
Definition kv_ok_assoc (kv : str * str) : Prop := no_nul (fst kv) /\ no_nul (snd kv).

Lemma read_elems_skip f (r : str) : read_elems (S f) (SPC :: r) = read_elems f r.
Proof. reflexivity. Qed.

Lemma assoc_item_shape (k v : str) (rest : str) :
  fmt_assoc_item true (k, v) ++ rest =
  LBR :: quote_if_needed true QDouble k ++ RBR :: EQUALS :: force_quote true QDouble v ++ (SPC :: rest).
Proof. unfold fmt_assoc_item. cbn [fst snd app]. rewrite <- !app_assoc. cbn [app]. rewrite <- !app_assoc. reflexivity. Qed.

Theorem read_assoc_items kvs : Forall kv_ok_assoc kvs -> forall fuel,
  (2 * length kvs < fuel)%nat ->
  read_elems fuel (flat_map (fmt_assoc_item true) kvs ++ [RPAR]) = Some kvs.
Proof.
  induction 1 as [|[k v] r [Hk Hv] Hr IH]; intros fuel Hlen.
  - destruct fuel as [|f]; [cbn in Hlen; lia | reflexivity].
  - cbn [fst snd] in Hk, Hv. cbn [flat_map]. rewrite <- app_assoc, assoc_item_shape.
    destruct (key_text k Hk) as [Hrd Hscan].
    cbn [length] in Hlen. destruct fuel as [|[|f']]; try lia.
    apply read_one.
    + apply Hscan.
    + exact Hrd.
    + apply scan_value; [exact Hv | reflexivity].
    + apply read_force_quote; [discriminate | exact Hv].
    + rewrite read_elems_skip. apply IH. lia.
Qed.

Lemma assoc_items_len kvs : (2 * length kvs <= length (flat_map (fmt_assoc_item true) kvs))%nat.
Proof.
  induction kvs as [|kv r IH]; [cbn; lia|].
  cbn [flat_map length]. rewrite app_length. unfold fmt_assoc_item at 1. cbn [length]. rewrite !app_length. cbn [length]. lia.
Qed.

Theorem read_assoc kvs : Forall kv_ok_assoc kvs -> read_compound (fmt_assoc true kvs) = Some kvs.
Proof.
  intros H. unfold fmt_assoc, read_compound, LPAR. cbn [N.eqb Pos.eqb]. apply read_assoc_items; [exact H|].
  rewrite app_length. pose proof (assoc_items_len kvs). cbn [length]. lia.
Qed.

Lemma indexed_one_shape pos (k v : str) :
  fmt_indexed_items pos [(k, v)] ++ [RPAR] = LBR :: k ++ RBR :: EQUALS :: force_quote pos QDouble v ++ [RPAR].
Proof. cbn [fmt_indexed_items app]. rewrite <- !app_assoc. reflexivity. Qed.
Lemma indexed_more_shape pos (k v : str) kv2 r :
  fmt_indexed_items pos ((k, v) :: kv2 :: r) ++ [RPAR] =
  LBR :: k ++ RBR :: EQUALS :: force_quote pos QDouble v ++ (SPC :: fmt_indexed_items pos (kv2 :: r) ++ [RPAR]).
Proof. destruct kv2. cbn [fmt_indexed_items app]. rewrite <- !app_assoc. cbn [app]. rewrite <- !app_assoc. reflexivity. Qed.

Theorem read_indexed_items pos vs : Forall kv_ok_indexed vs -> forall fuel,
  (2 * length vs < fuel)%nat ->
  read_elems fuel (fmt_indexed_items pos vs ++ [RPAR]) = Some vs.
Proof.
  induction 1 as [|[k v] r [Hk Hv] Hr IH]; intros fuel Hlen.
  - destruct fuel as [|f]; [cbn in Hlen; lia | reflexivity].
  - cbn [fst snd] in Hk, Hv. destruct (index_text k Hk) as [Hrd Hscan].
    cbn [length] in Hlen. destruct fuel as [|[|f']]; try lia.
    destruct r as [|kv2 r'].
    + rewrite indexed_one_shape.
      apply read_one; [apply Hscan | exact Hrd | apply scan_value; [exact Hv | reflexivity]
                      | apply read_force_quote; [discriminate | exact Hv] | reflexivity].
    + rewrite indexed_more_shape.
      apply read_one; [apply Hscan | exact Hrd | apply scan_value; [exact Hv | reflexivity]
                      | apply read_force_quote; [discriminate | exact Hv] |].
      rewrite read_elems_skip. apply IH. cbn [length] in *. lia.
Qed.

Lemma indexed_items_len pos vs : (2 * length vs <= length (fmt_indexed_items pos vs ++ [RPAR]))%nat.
Proof.
  induction vs as [|[k v] r IH]; [cbn; lia|].
  destruct r as [|kv2 r'].
  - rewrite indexed_one_shape. cbn [length]. rewrite !app_length. cbn [length]. lia.
  - rewrite indexed_more_shape. cbn [length] in *. rewrite !app_length. cbn [length]. rewrite !app_length in *. cbn [length] in *.
    unfold str, char in *. rewrite ?app_length. cbn [length]. lia.
Qed.

Theorem read_indexed pos vs : Forall kv_ok_indexed vs -> read_compound (fmt_indexed pos vs) = Some vs.
Proof.
  intros H. unfold fmt_indexed, read_compound, LPAR. cbn [N.eqb Pos.eqb]. apply read_indexed_items; [exact H|].
  pose proof (indexed_items_len pos vs). lia.
Qed.

(** without the position test a raw key may keep a tilde behind a colon: not read back by the
    (conservative) reader *)
Theorem read_assoc_refuted :
  exists kvs, Forall kv_ok_assoc kvs /\ read_compound (fmt_assoc false kvs) <> Some kvs.
Proof.
  exists [([97; COLON; TILDE], [120])]. split.
  - repeat constructor; discriminate.
  - vm_compute. discriminate.
Qed.

Example decl_examples :
  fmt_indexed false [([48], [97; 32; 98]); ([53], [10])] =
    [40; 91; 48; 93; 61; 34; 97; 32; 98; 34; 32; 91; 53; 93; 61; 36; 39; 92; 110; 39; 41] /\
  fmt_assoc false [([97; 93], [120])] = [40; 91; 34; 97; 93; 34; 93; 61; 34; 120; 34; 32; 41] /\
  read_compound (fmt_assoc true [([97; 93], [120]); ([126], [])]) = Some [([97; 93], [120]); ([126], [])].
Proof. vm_compute. repeat split; reflexivity. Qed.

(** the formatter as it is now (regenerated flag) *)
Theorem read_assoc_current kvs : Forall kv_ok_assoc kvs -> read_compound (fmt_assoc positional_escaping kvs) = Some kvs.
Proof. rewrite positional_now. apply read_assoc. Qed.
