(** C06 — operator recognition order of the parameter grammar (regenerated table
    gen/C06ParamOps.v): rust-peg's ordered choice takes the first alternative that matches, so
    no operator literal may be tried before a longer literal it is a proper prefix of
    ([%] before [%%] would parse [${x%%p}] as [%] with pattern [%p]; the [:] of a substring
    before [:-] would parse [${x:-w}] as a substring with offset [-w]). *)
From Coq Require Import String.
From BV Require Import Base.Prelude Base.Codec gen.C06ParamOps.

Definition proper_prefix (a b : str) : bool := starts_with a b && negb (str_eqb a b).

Fixpoint longest_first (l : list str) : bool :=
  match l with
  | [] => true
  | a :: l' => forallb (fun b => negb (proper_prefix a b)) l' && longest_first l'
  end.

Lemma longest_first_spec l : longest_first l = true ->
  forall i j a b, (i < j)%nat -> nth_error l i = Some a -> nth_error l j = Some b -> proper_prefix a b = false.
Proof.
  induction l as [|x l IH]; intros H i j a b Hij Ha Hb; [destruct i; discriminate|].
  cbn in H. apply andb_prop in H as [H1 H2].
  destruct i as [|i], j as [|j]; try lia; cbn in Ha, Hb.
  - inversion Ha; subst x. rewrite forallb_forall in H1.
    apply nth_error_In in Hb. specialize (H1 _ Hb). destruct (proper_prefix a b); [discriminate|reflexivity].
  - apply (IH H2 i j a b); [lia|assumption|assumption].
Qed.

Theorem ops_longest_first : forall i j a b, (i < j)%nat ->
  nth_error param_ops i = Some a -> nth_error param_ops j = Some b -> proper_prefix a b = false.
Proof. apply longest_first_spec. vm_compute. reflexivity. Qed.

(** every operator the model covers is recognised by the grammar *)
Definition modelled_ops : list str :=
  [lit ":-"; lit "-"; lit ":="; lit "="; lit ":?"; lit "?"; lit ":+"; lit "+";
   lit "%%"; lit "%"; lit "##"; lit "#"; lit ":"].
Theorem modelled_ops_recognised : forallb (fun o => existsb (str_eqb o) param_ops) modelled_ops = true.
Proof. vm_compute. reflexivity. Qed.
