(** C06 — parameter-expansion operators: a Gallina twin of the parts of
    brush-core/src/expansion.rs that decide what [${v<op>operand}] yields:
    [expand_parameter_without_indirect] (variable state -> [Expansion]), [Expansion::classify],
    the four [:-]-family arms, [ParameterLength]/[polymorphic_len_old], the [Substring] arm with
    [polymorphic_subslice] (array and string branches, machine arithmetic checked), and the
    double-quoted rendering of the result ([process_double_quoted_pieces], one piece).

    Oracles (inputs of the model, not modelled here): the value of arithmetic operands
    (C07), the expansion of the operand word (C04/C05), the matcher (C08; see Remove.v). *)
From BV Require Import Base.Prelude ParamExp.Remove.

(** * Variables and parameter references *)
Inductive value :=
| VNone                              (* the name is not in the environment *)
| VUnset                             (* declared, no value: [ShellValue::Unset(_)] *)
| VStr (s : str)
| VIdx (l : list (Z * str))          (* [IndexedArray(BTreeMap<u64,String>)], ascending keys *)
| VAssoc (l : list (str * str)).     (* [AssociativeArray(BTreeMap<String,String>)], ascending keys *)

Inductive pref :=
| RNamed                             (* ${x…} *)
| RIndex (i : str)                   (* ${x[i]…}: [i] is the index string after [expand_array_index] *)
| RAll (concat : bool)               (* ${x[*]…} / ${x[@]…} *)
| RPos (n : nat)                     (* ${n…}, n >= 1 *)
| RArgs (concat : bool).             (* ${*…} / ${@…} *)

Record shell := { var : value; args : list str; nounset : bool; shell_name : str }.

(** [Expansion]: every field produced by a parameter has exactly one piece, so a field is a
    string. *)
Record expansion := { fields : list str; concatenate : bool; from_array : bool; undefined : bool }.

Definition of_string (s : str) : expansion :=
  {| fields := [s]; concatenate := true; from_array := false; undefined := false |}.
Definition undefined_exp : expansion :=
  {| fields := [[]]; concatenate := true; from_array := false; undefined := true |}.

(** Results: [Fail] is any error return of the expander (unbound variable, [:?], bad
    substring); [Panic] stands for a Rust panic in a debug build (arithmetic overflow on
    [usize], slice out of range). *)
Inductive res (A : Type) := Ok (a : A) | Fail | Panic.
Arguments Ok {A} a. Arguments Fail {A}. Arguments Panic {A}.

Definition undefined_expansion (sh : shell) (allow_unset : bool) : res expansion :=
  if allow_unset || negb (nounset sh) then Ok undefined_exp else Fail.

Fixpoint assoc_get (k : str) (l : list (str * str)) : option str :=
  match l with [] => None | (k', v) :: l' => if str_eqb k k' then Some v else assoc_get k l' end.
Fixpoint idx_get (k : Z) (l : list (Z * str)) : option str :=
  match l with [] => None | (k', v) :: l' => if k =? k' then Some v else idx_get k l' end.

(** [str::parse::<u64>().unwrap_or(0) == 0] *)
Definition parses_to_zero_u64 (i : str) : bool :=
  match i with
  | 43%N :: ds => match ds with [] => true | _ => match digits_val 0 ds with Some v => (v =? 0) || (2 ^ 64 <=? v) | None => true end end
  | [] => true
  | _ => match digits_val 0 i with Some v => (v =? 0) || (2 ^ 64 <=? v) | None => true end
  end.

(** [ShellValue::get_at] ([None] = no such element, or [ArrayIndexOutOfRange]). *)
Definition get_at (v : value) (i : str) : option str :=
  match v with
  | VNone | VUnset => None
  | VStr s => if parses_to_zero_u64 i then Some s else None
  | VAssoc l => assoc_get i l
  | VIdx l =>
      let iv := match parse_i64 i with Some z => z | None => 0 end in
      let iv' := if iv <? 0 then iv + Z.of_nat (length l) else iv in
      if iv' <? 0 then None else idx_get iv' l
  end.

Definition zero_str : str := [48%N].

Definition expand_parameter (sh : shell) (r : pref) (allow_unset : bool) : res expansion :=
  match r with
  | RPos p =>
      match nth_error (args sh) (p - 1) with
      | Some a => Ok (of_string a)
      | None => undefined_expansion sh allow_unset
      end
  | RArgs c => Ok {| fields := args sh; concatenate := c; from_array := true; undefined := false |}
  | RNamed =>
      match var sh with
      | VNone | VUnset => undefined_expansion sh allow_unset
      | VStr s => Ok (of_string s)
      | VIdx l => match idx_get 0 l with Some s => Ok (of_string s) | None => undefined_expansion sh allow_unset end
      | VAssoc l => match assoc_get zero_str l with Some s => Ok (of_string s) | None => undefined_expansion sh allow_unset end
      end
  | RIndex i =>
      match get_at (var sh) i with
      | Some s => Ok (of_string s)
      | None => undefined_expansion sh allow_unset
      end
  | RAll c =>
      let vals := match var sh with
                  | VNone | VUnset => []
                  | VStr s => [s]
                  | VIdx l => map snd l
                  | VAssoc l => map snd l
                  end in
      Ok {| fields := vals; concatenate := c; from_array := true; undefined := false |}
  end.

(** * [classify] and the four conditional operators *)
Inductive pstate := Undefined | DefinedEmptyString | NonZeroLength.

Definition is_nil {A} (l : list A) : bool := match l with [] => true | _ => false end.

Definition classify (e : expansion) : pstate :=
  let non_empty := existsb (fun f => negb (is_nil f)) (fields e) in
  if undefined e then Undefined
  else if non_empty then NonZeroLength
  else if is_nil (fields e) then Undefined
  else DefinedEmptyString.

Inductive cop := OpDefault | OpAssign | OpError | OpAlt.       (* - = ? + *)

(** What an arm does: *)
Inductive action :=
| UseParameter                       (* the parameter's own expansion *)
| UseWord                            (* the expansion of the operand word *)
| AssignWord                         (* assign the operand (joined) and yield it *)
| ErrorWord                          (* fatal [CheckedExpansionError] *)
| UseEmpty.                          (* [Expansion::from(String::new())] *)

(** The [match (test_type, expanded_parameter.classify())] of the four arms:
    first alternative [(_, NonZeroLength) | (Unset, DefinedEmptyString)], second [_]. *)
Definition first_alternative (colon : bool) (st : pstate) : bool :=
  match st with
  | NonZeroLength => true
  | DefinedEmptyString => negb colon
  | Undefined => false
  end.

Definition arm_action (op : cop) (colon : bool) (st : pstate) : action :=
  match op with
  | OpDefault => if first_alternative colon st then UseParameter else UseWord
  | OpAssign => if first_alternative colon st then UseParameter else AssignWord
  | OpError => if first_alternative colon st then UseParameter else ErrorWord
  | OpAlt => if first_alternative colon st then UseWord else UseEmpty
  end.

(** [fields_to_string] with the default IFS. *)
Fixpoint join_with (sep : str) (l : list str) : str :=
  match l with
  | [] => []
  | [x] => x
  | x :: l' => x ++ sep ++ join_with sep l'
  end.
Definition SP : str := [32%N].

(** Result of a conditional arm: the expansion, and the new value of a scalar variable when
    the arm assigned.  [word] is the expansion of the operand word. *)
Definition conditional (sh : shell) (r : pref) (op : cop) (colon : bool) (word : expansion)
  : res (expansion * option str) :=
  match expand_parameter sh r true with
  | Ok e =>
      match arm_action op colon (classify e) with
      | UseParameter => Ok (e, None)
      | UseWord => Ok (word, None)
      | UseEmpty => Ok (of_string [], None)
      | ErrorWord => Fail
      | AssignWord =>
          match r with
          | RNamed | RIndex _ =>
              let v := join_with SP (fields word) in
              Ok (of_string v, Some v)
          | _ => Fail                       (* CannotAssignToSpecialParameter *)
          end
      end
  | Fail => Fail
  | Panic => Panic
  end.

(** * Length *)
Definition utf8_len (c : char) : nat :=
  if (c <? 128)%N then 1 else if (c <? 2048)%N then 2 else if (c <? 65536)%N then 3 else 4.
Definition byte_len (s : str) : nat := fold_left (fun a c => (a + utf8_len c)%nat) s 0%nat.

(** [polymorphic_len_old] on the unchanged tree: element count for arrays, else the sum of the
    *byte* lengths ([String::len]) of the fields. *)
Definition polymorphic_len_old (e : expansion) : nat :=
  if from_array e then length (fields e)
  else fold_left (fun a f => (a + byte_len f)%nat) (fields e) 0%nat.

(** after the repair: characters. *)
Definition polymorphic_len (e : expansion) : nat :=
  if from_array e then length (fields e)
  else fold_left (fun a f => (a + length f)%nat) (fields e) 0%nat.

Definition var_exists (sh : shell) : bool := match var sh with VNone => false | _ => true end.

Definition parameter_length_with (plen : expansion -> nat) (sh : shell) (r : pref) : res nat :=
  let allow_unset := match r with RIndex _ | RAll _ => var_exists sh | _ => false end in
  match expand_parameter sh r allow_unset with
  | Ok e => Ok (plen e)
  | Fail => Fail
  | Panic => Panic
  end.
Definition parameter_length_old := parameter_length_with polymorphic_len_old.
Definition parameter_length := parameter_length_with polymorphic_len.

(** * Substring *)
Definition two64 : Z := 2 ^ 64.
(** [x as usize] for an [i64] *)
Definition as_usize (z : Z) : Z := z mod two64.

(** the string branch of [polymorphic_subslice]: [dist] = characters still to skip,
    [left] = characters still to copy ([usize], may be astronomically large). *)
Fixpoint sub_fields (fs : list str) (dist : Z) (left : Z) : list str :=
  match fs with
  | [] => []
  | f :: fs' =>
      if left =? 0 then sub_fields fs' dist left
      else
        let n := Z.of_nat (length f) in
        if n <=? dist then sub_fields fs' (dist - n) left
        else
          let take := Z.min left (n - dist) in
          firstn (Z.to_nat take) (skipn (Z.to_nat dist) f) :: sub_fields fs' 0 (left - take)
  end.

Definition with_fields (e : expansion) (fs : list str) : expansion :=
  {| fields := fs; concatenate := concatenate e; from_array := from_array e; undefined := undefined e |}.

(** [polymorphic_subslice(index, end)], both already [usize]. *)
Definition polymorphic_subslice (e : expansion) (index end_ : Z) : res expansion :=
  if end_ <? index then Panic                       (* [end - index] overflows *)
  else
    let len := end_ - index in
    if from_array e then
      let n := Z.of_nat (length (fields e)) in
      if n <? index then Panic                      (* [self.fields.len() - index] *)
      else
        let actual_len := Z.min len (n - index) in
        (* [self.fields[index..index+actual_len]]: in range by construction *)
        Ok (with_fields e (firstn (Z.to_nat actual_len) (skipn (Z.to_nat index) (fields e))))
    else Ok (with_fields e (sub_fields (fields e) index len)).

Definition is_args (r : pref) : bool := match r with RArgs _ => true | _ => false end.

(** [${@:…}]: $0 is inserted in front. *)
Definition with_shell_name (sh : shell) (r : pref) (e : expansion) : expansion :=
  if is_args r then with_fields e (shell_name sh :: fields e) else e.

(** The [Substring] arm as it was before commit 1f6bbbf (kept for the regression examples). [off], [olen]: values of the arithmetic
    operands (i64). No i64 overflow is possible in the arm (shown in ParamProofs). *)
Definition substring_bounds_old (plen off : Z) (olen : option Z) : Z * Z :=
  let off1 := if off <? 0 then (let o := off + plen in if o <? 0 then plen else o) else off in
  let off2 := Z.min off1 plen in
  let end_ := match olen with
              | Some l =>
                  let l1 := if l <? 0 then l + plen else l in
                  let l2 := Z.min l1 (plen - off2) in
                  off2 + l2
              | None => plen
              end in
  (off2, end_).

Definition substring_old (sh : shell) (r : pref) (off : Z) (olen : option Z) : res expansion :=
  match expand_parameter sh r false with
  | Ok e0 =>
      let e := with_shell_name sh r e0 in
      let plen := Z.of_nat (polymorphic_len_old e) in
      let '(o, en) := substring_bounds_old plen off olen in
      polymorphic_subslice e (as_usize o) (as_usize en)
  | Fail => Fail
  | Panic => Panic
  end.

(** The [Substring] arm (after the repair 1f6bbbf; see notes/C06.md for the Rust text):
    character length; an unset parameter (or an array without elements) yields itself; an offset outside [0, len] yields the
    empty slice before the length is looked at; a negative length is an end offset from the
    end, an error for arrays and when it ends before the start. *)
Inductive pkind := PScalar | PArray | PArgs.
Definition substring_bounds (k : pkind) (plen off : Z) (olen : option Z) : option (Z * Z) :=
  let off1 := if off <? 0 then off + plen else off in
  if (off1 <? 0) || (plen <? off1) || (match k with PArray => plen <=? off1 | _ => false end) then Some (plen, plen)
  else
    match olen with
    | None => Some (off1, plen)
    | Some l =>
        if l <? 0 then
          match k with
          | PScalar => let en := plen + l in if en <? off1 then None else Some (off1, en)
          | _ => None
          end
        else Some (off1, off1 + Z.min l (plen - off1))
    end.

Definition substring (sh : shell) (r : pref) (off : Z) (olen : option Z) : res expansion :=
  match expand_parameter sh r false with
  | Ok e0 =>
      let e := with_shell_name sh r e0 in
      if undefined e || is_nil (fields e) then Ok e
      else
        let plen := Z.of_nat (polymorphic_len e) in
        match substring_bounds (if is_args r then PArgs else if from_array e then PArray else PScalar) plen off olen with
        | Some (o, en) => polymorphic_subslice e (as_usize o) (as_usize en)
        | None => Fail
        end
  | Fail => Fail
  | Panic => Panic
  end.

(** ** Order of evaluation of the operands.  An arithmetic operand is a value, an error flag
    (division by zero …: evaluating it fails the expansion) and a side effect (what it adds to
    a counter variable, [i++], [i+=10]).  The arm evaluates the offset only when the parameter
    has something to slice, and the length only when the offset lies inside the value; the
    second component is the counter after the expansion. *)
Record operand := { oval : Z; oerr : bool; oinc : Z }.

Definition offset_out_of_range (k : pkind) (plen off : Z) : bool :=
  let off1 := if off <? 0 then off + plen else off in
  (off1 <? 0) || (plen <? off1) || (match k with PArray => plen <=? off1 | _ => false end).

Definition substring_ev (sh : shell) (r : pref) (off : operand) (olen : option operand) : res expansion * Z :=
  match expand_parameter sh r false with
  | Ok e0 =>
      let e := with_shell_name sh r e0 in
      if undefined e || is_nil (fields e) then (Ok e, 0)
      else if oerr off then (Fail, 0)
      else
        let plen := Z.of_nat (polymorphic_len e) in
        let k := if is_args r then PArgs else if from_array e then PArray else PScalar in
        if offset_out_of_range k plen (oval off) then (substring sh r (oval off) None, oinc off)
        else match olen with
             | None => (substring sh r (oval off) None, oinc off)
             | Some l => if oerr l then (Fail, oinc off)
                         else (substring sh r (oval off) (Some (oval l)), oinc off + oinc l)
             end
  | Fail => (Fail, 0)
  | Panic => (Panic, 0)
  end.

(** * Removal operators: [transform_expansion] maps the loop over the fields. *)
Inductive rop := RmSmallestPrefix | RmLargestPrefix | RmSmallestSuffix | RmLargestSuffix.

Definition remove_with (repaired : bool) (m : str -> bool) (o : rop) (s : str) : str :=
  match o with
  | RmSmallestPrefix => if repaired then remove_smallest_prefix m s else remove_smallest_prefix_old m s
  | RmLargestPrefix => remove_largest_prefix m s
  | RmSmallestSuffix => if repaired then remove_smallest_suffix m s else remove_smallest_suffix_old m s
  | RmLargestSuffix => remove_largest_suffix m s
  end.

(** [pattern = None] (no operand at all, [${x#}]) leaves every field unchanged. *)
Definition removal (repaired : bool) (sh : shell) (r : pref) (o : rop) (m : option (str -> bool)) : res expansion :=
  match expand_parameter sh r false with
  | Ok e =>
      match m with
      | Some mm => Ok (with_fields e (map (remove_with repaired mm o) (fields e)))
      | None => Ok e
      end
  | Fail => Fail
  | Panic => Panic
  end.

(** * [${!a[@]}] / [${!a[*]}] ([MemberKeys]): [element_keys] of the variable. *)
Definition member_keys (sh : shell) (concat : bool) : expansion :=
  let keys := match var sh with
              | VNone | VUnset => []
              | VStr _ => [zero_str]
              | VIdx l => map (fun kv => show_Z (fst kv)) l
              | VAssoc l => map fst l
              end in
  {| fields := keys; concatenate := concat; from_array := true; undefined := false |}.

(** * What ["${…}"] hands to the command: [process_double_quoted_pieces] for a single piece,
    default IFS. *)
Definition dq_args (e : expansion) : list str :=
  if concatenate e then [join_with SP (fields e)] else fields e.
