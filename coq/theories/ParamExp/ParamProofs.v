(** C06 — the operator arms against the specification of ParamSpec.v. *)
From BV Require Import Base.Prelude ParamExp.Remove ParamExp.RemoveProofs ParamExp.Param ParamExp.ParamSpec.

(** Observation of a model result: the words handed to the command by ["${…}"]. *)
Definition obs (r : res expansion) : res (list str * option str) :=
  match r with Ok e => Ok (dq_args e, None) | Fail => Fail | Panic => Panic end.
Definition obs2 (r : res (expansion * option str)) : res (list str * option str) :=
  match r with Ok (e, a) => Ok (dq_args e, a) | Fail => Fail | Panic => Panic end.

(** * The parameter's expansion and its denotation *)
Definition is_list (r : pref) : bool := match r with RAll _ | RArgs _ => true | _ => false end.
Definition conc_of (r : pref) : bool := match r with RAll c | RArgs c => c | _ => true end.

Lemma expand_list sh r au : is_list r = true ->
  expand_parameter sh r au =
  Ok {| fields := match words sh r with Some l => l | None => [] end;
        concatenate := conc_of r; from_array := true; undefined := false |}.
Proof.
  destruct r as [| |c| |c]; try discriminate; intros _; cbn.
  - destruct (var sh) as [| |s|l|l]; cbn; try reflexivity;
      destruct (map snd l) eqn:E; reflexivity.
  - destruct (args sh); reflexivity.
Qed.

Lemma expand_scalar sh r au : is_list r = false ->
  expand_parameter sh r au =
  match words sh r with
  | Some l => Ok (of_string (join_with SP l))
  | None => undefined_expansion sh au
  end.
Proof.
  destruct r as [|i| |n|]; try discriminate; intros _; cbn.
  - destruct (var sh) as [| |s|l|l]; cbn; try reflexivity.
    + destruct (idx_get 0 l); reflexivity.
    + destruct (assoc_get zero_str l); reflexivity.
  - destruct (get_at (var sh) i); reflexivity.
  - destruct (nth_error (args sh) (n - 1)); reflexivity.
Qed.

Lemma words_scalar_single sh r l : is_list r = false -> words sh r = Some l -> exists a, l = [a].
Proof.
  destruct r as [|i| |n|]; try discriminate; intros _; cbn.
  - destruct (get_at _ _); intros H; inversion H; eauto.
  - destruct (get_at _ _); intros H; inversion H; eauto.
  - destruct (nth_error _ _); intros H; inversion H; eauto.
Qed.

Lemma words_list_nonempty sh r : is_list r = true -> words sh r <> Some [].
Proof.
  destruct r as [| |c| |c]; try discriminate; intros _; cbn.
  - destruct (elems (var sh)); congruence.
  - destruct (args sh); congruence.
Qed.

(** * unset / null / set *)
Definition all_empty (l : list str) : bool := forallb (fun f => is_nil f) l.

Lemma existsb_nonempty_all_empty l : existsb (fun f => negb (is_nil f)) l = negb (all_empty l).
Proof. induction l as [|f l IH]; cbn; [reflexivity|]. rewrite IH. destruct (is_nil f); reflexivity. Qed.

Lemma join_nil_iff l : is_nil (join_with SP l) = true <-> l = [] \/ l = [[]].
Proof.
  destruct l as [|a [|b l]]; cbn.
  - tauto.
  - destruct a; cbn; split; intros H; auto; try discriminate; destruct H as [H|H]; congruence.
  - split; [|intros [H|H]; congruence]. destruct a; cbn; discriminate.
Qed.

Lemma join_not_nil_of_nonempty l : all_empty l = false -> is_nil (join_with SP l) = false.
Proof.
  intros H. destruct (is_nil (join_with SP l)) eqn:E; [|reflexivity].
  apply join_nil_iff in E as [->| ->]; discriminate.
Qed.

(** The class of the open finding KF-C06-multi-empty-null: a list parameter all of whose
    (two or more) words are empty — bash joins them to a non-empty string. *)
Definition multi_empty (ws : option (list str)) : bool :=
  match ws with Some (a :: b :: l) => all_empty (a :: b :: l) | _ => false end.

Definition tr (st : pstate) : bstate :=
  match st with Undefined => BUnset | DefinedEmptyString => BNull | NonZeroLength => BSet end.

(** The finite table: the [match] of the four arms is the POSIX table (24 entries). *)
Theorem arms_are_posix_table : forall op colon st, arm_action op colon st = posix_table op colon (tr st).
Proof. intros [] [] []; reflexivity. Qed.

Lemma classify_list sh r au e : is_list r = true -> expand_parameter sh r au = Ok e ->
  multi_empty (words sh r) = false -> tr (classify e) = bstate_of (words sh r).
Proof.
  intros Hl He Hk. rewrite expand_list in He by assumption. inversion He; subst e; clear He.
  unfold classify; cbn. rewrite existsb_nonempty_all_empty.
  destruct (words sh r) as [l|] eqn:W; cbn; [|reflexivity].
  destruct (all_empty l) eqn:A; cbn.
  - destruct l as [|a [|b l]]; cbn.
    + exfalso; eapply words_list_nonempty; eassumption.
    + cbn in A. rewrite andb_true_r in A. destruct a; [reflexivity|discriminate].
    + cbn in Hk. cbn in A. congruence.
  - rewrite join_not_nil_of_nonempty by assumption. reflexivity.
Qed.

Lemma classify_scalar sh r e : is_list r = false -> expand_parameter sh r true = Ok e ->
  tr (classify e) = bstate_of (words sh r).
Proof.
  intros Hl He. rewrite expand_scalar in He by assumption.
  destruct (words sh r) as [l|] eqn:W.
  - destruct (words_scalar_single _ _ _ Hl W) as [a ->]. inversion He; subst e. cbn.
    destruct a; reflexivity.
  - unfold undefined_expansion in He. cbn in He. inversion He; subst e. reflexivity.
Qed.

(** Classes of the two open findings of the conditional operators. *)
Definition known_cond (sh : shell) (r : pref) (op : cop) (colon : bool) : bool :=
  (colon && multi_empty (words sh r)) ||
  (match op, shape_of r, words sh r with OpAlt, ListAt, None => true | _, _, _ => false end).

Lemma render_dq sh r au e l : expand_parameter sh r au = Ok e -> words sh r = Some l ->
  dq_args e = render (shape_of r) l.
Proof.
  intros He W. destruct (is_list r) eqn:Hl.
  - rewrite expand_list in He by assumption. inversion He; subst e. rewrite W. unfold dq_args; cbn.
    destruct r as [| |c| |c]; try discriminate; destruct c; reflexivity.
  - rewrite expand_scalar, W in He by assumption. inversion He; subst e.
    destruct (words_scalar_single _ _ _ Hl W) as [a ->].
    destruct r; try discriminate; reflexivity.
Qed.

(** ** unset_null_table: outside the two known classes every conditional operator yields what
    the POSIX table yields over bash's unset/null/set, for scalars, positional parameters,
    [$@]/[$*] and arrays through [[@]]/[[*]], with and without nounset. *)
Theorem unset_null_table : forall sh r op colon w, known_cond sh r op colon = false ->
  obs2 (conditional sh r op colon (of_string w)) = conditional_spec sh r op colon w.
Proof.
  intros sh r op colon w Hk. unfold known_cond in Hk. apply orb_false_iff in Hk as [Hk1 Hk2].
  unfold conditional, conditional_spec.
  destruct (is_list r) eqn:Hl.
  - (* list parameters *)
    pose proof (expand_list sh r true Hl) as He. rewrite He.
    set (e := {| fields := _ |}) in *.
    destruct (multi_empty (words sh r)) eqn:Hm.
    + (* two or more empty words, no colon: null and set are not told apart by the operators without colon *)
      rewrite andb_true_r in Hk1. subst colon.
      destruct (words sh r) as [[|a [|b l]]|] eqn:W; try discriminate. cbn in Hm.
      assert (Hc : classify e = DefinedEmptyString).
      { unfold classify, e; cbn -[existsb]. rewrite existsb_nonempty_all_empty. cbn in Hm |- *. rewrite Hm. reflexivity. }
      rewrite Hc. assert (Hb : bstate_of (Some (a :: b :: l)) = BSet).
      { unfold bstate_of. destruct a; reflexivity. }
      rewrite Hb. pose proof (render_dq sh r true e _ He W) as Hr.
      destruct op; cbn; rewrite ?Hr; try reflexivity.
    + pose proof (classify_list sh r true e Hl He Hm) as Hc.
      rewrite arms_are_posix_table, Hc.
      destruct (words sh r) as [l|] eqn:W.
      * pose proof (render_dq sh r true e _ He W) as Hr.
        destruct (posix_table op colon (bstate_of (Some l))) eqn:Ha; cbn; rewrite ?Hr; try reflexivity.
        destruct r as [| |c| |c]; try discriminate; reflexivity.
      * cbn [bstate_of]. destruct op, colon; cbn; try reflexivity;
          destruct r as [| |c| |c]; try discriminate; destruct c; cbn in Hk2 |- *; try reflexivity; try discriminate.
  - (* scalar parameters *)
    rewrite expand_scalar by assumption.
    destruct (words sh r) as [l|] eqn:W.
    + destruct (words_scalar_single _ _ _ Hl W) as [a ->].
      assert (He : expand_parameter sh r true = Ok (of_string a)) by (rewrite expand_scalar, W by assumption; reflexivity).
      pose proof (classify_scalar sh r _ Hl He) as Hc. rewrite W in Hc.
      cbn [join_with]. rewrite arms_are_posix_table, Hc.
      assert (Hs : shape_of r = Scalar) by (destruct r; try discriminate; reflexivity).
      destruct (posix_table op colon (bstate_of (Some [a]))) eqn:Ha; cbn; rewrite ?Hs; try reflexivity;
        destruct r; try discriminate; reflexivity.
    + unfold undefined_expansion; cbn [orb]. rewrite arms_are_posix_table. cbn [classify undefined_exp undefined tr bstate_of].
      assert (Hs : shape_of r = Scalar) by (destruct r; try discriminate; reflexivity).
      destruct op, colon; cbn; rewrite ?Hs; try reflexivity; destruct r; try discriminate; reflexivity.
Qed.

(** * Length *)
Lemma fold_len_single (f : str -> nat) (a : str) : fold_left (fun acc x => (acc + f x)%nat) [a] 0%nat = f a.
Proof. reflexivity. Qed.

(** class of KF-C06-length-nounset-array: [${#x[@]}] of a name that does not exist, under nounset *)
Definition known_len (sh : shell) (r : pref) : bool :=
  nounset sh && match r, var sh with RAll _, VNone => true | _, _ => false end.

Theorem length_repaired_eq_spec : forall sh r, known_len sh r = false ->
  parameter_length sh r = length_spec sh r.
Proof.
  intros sh r Hk. unfold parameter_length, parameter_length_with, length_spec.
  destruct r as [|i|c|n|c].
  - rewrite expand_scalar by reflexivity. destruct (words sh RNamed) as [l|] eqn:W.
    + reflexivity.
    + unfold undefined_expansion. cbn [orb]. destruct (nounset sh); reflexivity.
  - rewrite expand_scalar by reflexivity. destruct (words sh (RIndex i)) as [l|] eqn:W.
    + reflexivity.
    + unfold undefined_expansion. destruct (var_exists sh), (nounset sh); reflexivity.
  - rewrite expand_list by reflexivity. unfold polymorphic_len; cbn [from_array fields].
    unfold known_len in Hk. cbn [words].
    destruct (var sh) as [| |s|l|l]; cbn in *.
    + rewrite andb_true_r in Hk. rewrite Hk. reflexivity.
    + reflexivity.
    + reflexivity.
    + destruct (map snd l) eqn:E; reflexivity.
    + destruct (map snd l) eqn:E; reflexivity.
  - rewrite expand_scalar by reflexivity. destruct (words sh (RPos n)) as [l|] eqn:W.
    + reflexivity.
    + unfold undefined_expansion. cbn [orb]. destruct (nounset sh); reflexivity.
  - rewrite expand_list by reflexivity. unfold polymorphic_len; cbn [from_array fields words].
    destruct (args sh); reflexivity.
Qed.

(** length_chars: the characters of a scalar word, the number of words of a list. *)
Theorem length_chars : forall sh r,
  (forall w, is_list r = false -> words sh r = Some [w] -> parameter_length sh r = Ok (length w)) /\
  (forall l, is_list r = true -> words sh r = Some l -> parameter_length sh r = Ok (length l)).
Proof.
  intros sh r. split.
  - intros w Hl W. unfold parameter_length, parameter_length_with. rewrite expand_scalar, W by assumption. reflexivity.
  - intros l Hl W. unfold parameter_length, parameter_length_with. rewrite expand_list, W by assumption. reflexivity.
Qed.

Definition ascii (s : str) : bool := forallb (fun c => (c <? 128)%N) s.

Lemma byte_len_ascii s : ascii s = true -> byte_len s = length s.
Proof.
  unfold byte_len. assert (G : forall a, ascii s = true -> fold_left (fun a c => (a + utf8_len c)%nat) s a = (a + length s)%nat).
  { induction s as [|c s IH]; intros a H; cbn in *; [lia|].
    apply andb_prop in H as [Hc Hs]. rewrite IH by assumption. unfold utf8_len. rewrite Hc. lia. }
  intros H. rewrite G by assumption. reflexivity.
Qed.

(** The unchanged code counts bytes: right for ASCII words (class of KF-C06-length-bytes =
    a scalar word with a non-ASCII character). *)
Theorem length_outside_known : forall sh r,
  (forall w, is_list r = false -> words sh r = Some [w] -> ascii w = true) ->
  parameter_length_old sh r = parameter_length sh r.
Proof.
  intros sh r H. unfold parameter_length_old, parameter_length, parameter_length_with.
  destruct (is_list r) eqn:Hl.
  - rewrite expand_list by assumption. reflexivity.
  - rewrite expand_scalar by assumption. destruct (words sh r) as [l|] eqn:W.
    + destruct (words_scalar_single _ _ _ Hl W) as [a ->]. cbn [join_with].
      unfold polymorphic_len_old, polymorphic_len, of_string; cbn [from_array fields].
      rewrite !fold_len_single. rewrite byte_len_ascii; [reflexivity|]. apply H; reflexivity.
    + unfold undefined_expansion. destruct (_ || negb (nounset sh)); reflexivity.
Qed.

Definition sh_scalar (s : str) : shell := {| var := VStr s; args := []; nounset := false; shell_name := [] |}.

Theorem length_refuted : exists sh r, parameter_length_old sh r <> length_spec sh r.
Proof. exists (sh_scalar [233%N]), RNamed. vm_compute. discriminate. Qed.

(** * Substring *)
Definition kind_rel (k : pkind) (k' : skind) : Prop :=
  match k, k' with PScalar, KScalar | PArray, KArray | PArgs, KArgs => True | _, _ => False end.

Lemma bounds_rel k k' n off olen : 0 <= n -> kind_rel k k' ->
  match substring_bounds k n off olen, bash_bounds k' n off olen with
  | Some (a, b), Empty => a = n /\ b = n
  | Some (a, b), Range a' b' => a = a' /\ b = b' /\ 0 <= a /\ a <= b /\ b <= n
  | None, BadLength => True
  | _, _ => False
  end.
Proof.
  intros Hn Hk. unfold substring_bounds, bash_bounds.
  destruct olen as [l|]; destruct k, k'; try contradiction; clear Hk;
  repeat (match goal with
          | |- context [?a <? ?b] => destruct (Z.ltb_spec a b)
          | |- context [?a <=? ?b] => destruct (Z.leb_spec a b)
          end; cbn [orb]);
  try exact I; try lia; repeat split; try lia.
Qed.

Lemma as_usize_small z : 0 <= z < two64 -> as_usize z = z.
Proof. intros H. unfold as_usize. apply Z.mod_small; exact H. Qed.

Lemma sub_fields_single a idx len : 0 <= idx -> 0 <= len -> idx + len <= Z.of_nat (length a) ->
  join_with SP (sub_fields [a] idx len) = firstn (Z.to_nat len) (skipn (Z.to_nat idx) a).
Proof.
  intros Hi Hl Hb. cbn [sub_fields].
  destruct (Z.eqb_spec len 0) as [->|Hne]; [reflexivity|].
  destruct (Z.leb_spec (Z.of_nat (length a)) idx) as [Hge|Hlt].
  - cbn. rewrite skipn_all2 by lia. destruct (Z.to_nat len); reflexivity.
  - rewrite Z.min_l by lia. reflexivity.
Qed.

(** the size assumption under which [usize]/[i64] arithmetic of the arm is exact *)
Definition fits (sh : shell) (r : pref) : Prop :=
  forall e0, expand_parameter sh r false = Ok e0 ->
  Z.of_nat (polymorphic_len (with_shell_name sh r e0)) < two64.

Definition list_words (sh : shell) (r : pref) : list str :=
  match r with RArgs _ => shell_name sh :: args sh | _ => elems (var sh) end.

Lemma with_name_list sh r : is_list r = true ->
  with_shell_name sh r {| fields := match words sh r with Some l => l | None => [] end;
                          concatenate := conc_of r; from_array := true; undefined := false |}
  = {| fields := list_words sh r; concatenate := conc_of r; from_array := true; undefined := false |}.
Proof.
  destruct r as [| |c| |c]; try discriminate; intros _; cbn.
  - destruct (elems (var sh)); reflexivity.
  - destruct (args sh); reflexivity.
Qed.

Lemma dq_list r fs fa u : is_list r = true ->
  dq_args {| fields := fs; concatenate := conc_of r; from_array := fa; undefined := u |} = render (shape_of r) fs.
Proof. destruct r as [| |c| |c]; try discriminate; destruct c; reflexivity. Qed.

Definition substring_spec_list (sh : shell) (r : pref) (off : Z) (olen : option Z) : res (list str * option str) :=
  let sp := shape_of r in
  let ws := list_words sh r in
  if is_nil ws then Ok (render sp [], None)
  else match bash_bounds (match r with RArgs _ => KArgs | _ => KArray end) (Z.of_nat (length ws)) off olen with
       | Empty => Ok (render sp [], None)
       | Range a b => Ok (render sp (slice ws a b), None)
       | BadLength => Fail
       end.

Lemma substring_spec_is_list sh r off olen : is_list r = true ->
  substring_spec sh r off olen = substring_spec_list sh r off olen.
Proof. destruct r as [| |c| |c]; try discriminate; destruct c; reflexivity. Qed.

(** ** substring_bounds_eq_bash (repaired arm) *)
Theorem substring_repaired_eq_spec : forall sh r off olen, fits sh r ->
  obs (substring sh r off olen) = substring_spec sh r off olen.
Proof.
  intros sh r off olen Hfit. unfold substring.
  destruct (is_list r) eqn:Hl.
  - (* lists *)
    rewrite substring_spec_is_list by assumption. unfold substring_spec_list.
    pose proof (expand_list sh r false Hl) as He. specialize (Hfit _ He). rewrite He.
    rewrite with_name_list in * by assumption.
    set (ws := list_words sh r) in *.
    unfold polymorphic_len in *. cbn [undefined fields orb from_array] in *.
    destruct (is_nil ws) eqn:Hnil.
    + cbn [obs]. rewrite dq_list by assumption. destruct ws; [reflexivity|discriminate].
    + set (k := if is_args r then PArgs else PArray).
      set (k' := match r with RArgs _ => KArgs | _ => KArray end).
      assert (Hk : kind_rel k k') by (unfold k, k'; destruct r; try discriminate; exact I).
      pose proof (bounds_rel k k' (Z.of_nat (length ws)) off olen ltac:(lia) Hk) as Hb.
      destruct (substring_bounds k _ off olen) as [[a b]|], (bash_bounds k' _ off olen) as [|a' b'|];
        try contradiction; try reflexivity.
      * destruct Hb as [-> ->]. unfold polymorphic_subslice. rewrite !as_usize_small by lia.
        rewrite Z.ltb_irrefl. cbn [from_array fields].
        destruct (Z.ltb_spec (Z.of_nat (length ws)) (Z.of_nat (length ws))); [lia|].
        cbn [obs]. unfold with_fields; cbn [concatenate from_array undefined]. rewrite dq_list by assumption.
        rewrite Z.sub_diag, Z.min_id. reflexivity.
      * destruct Hb as (-> & -> & H0 & Hab & Hbn). unfold polymorphic_subslice. rewrite !as_usize_small by lia.
        destruct (Z.ltb_spec b' a'); [lia|]. cbn [from_array fields].
        destruct (Z.ltb_spec (Z.of_nat (length ws)) a'); [lia|].
        cbn [obs]. unfold with_fields; cbn [concatenate from_array undefined]. rewrite dq_list by assumption.
        rewrite Z.min_l by lia. reflexivity.
  - (* scalars *)
    unfold substring_spec.
    assert (Hs : shape_of r = Scalar) by (destruct r; try discriminate; reflexivity). rewrite Hs.
    pose proof (expand_scalar sh r false Hl) as He. rewrite He.
    destruct (words sh r) as [l|] eqn:W.
    + destruct (words_scalar_single _ _ _ Hl W) as [w ->]. cbn [join_with] in *.
      specialize (Hfit _ He).
      assert (Hna : with_shell_name sh r (of_string w) = of_string w) by (destruct r; try discriminate; reflexivity).
      rewrite Hna in *. cbn [undefined of_string fields is_nil orb from_array].
      assert (Hlen : polymorphic_len (of_string w) = length w) by reflexivity. rewrite Hlen in *.
      assert (Hia : is_args r = false) by (destruct r; try discriminate; reflexivity). rewrite Hia.
      pose proof (bounds_rel PScalar KScalar (Z.of_nat (length w)) off olen ltac:(lia) I) as Hb.
      destruct (substring_bounds PScalar _ off olen) as [[a b]|], (bash_bounds KScalar _ off olen) as [|a' b'|]; try contradiction; try reflexivity.
      * destruct Hb as [-> ->]. unfold polymorphic_subslice. rewrite !as_usize_small by lia.
        rewrite Z.ltb_irrefl. cbn [from_array of_string obs]. f_equal. f_equal. unfold dq_args; cbn [concatenate with_fields of_string fields].
        rewrite Z.sub_diag. cbn. reflexivity.
      * destruct Hb as (-> & -> & H0 & Hab & Hbn). unfold polymorphic_subslice. rewrite !as_usize_small by lia.
        destruct (Z.ltb_spec b' a'); [lia|]. cbn [from_array of_string obs]. f_equal. f_equal.
        unfold dq_args; cbn [concatenate with_fields of_string fields]. rewrite sub_fields_single by lia. reflexivity.
    + unfold undefined_expansion. cbn [orb]. destruct (nounset sh); cbn; [reflexivity|].
      destruct r; try discriminate; reflexivity.
Qed.

Lemma substring_spec_not_panic sh r off olen : substring_spec sh r off olen <> Panic.
Proof.
  unfold substring_spec.
  destruct (shape_of r); cbv zeta;
  repeat match goal with
         | |- context [match ?x with _ => _ end] => destruct x
         | |- context [if ?x then _ else _] => destruct x
         end; discriminate.
Qed.

(** substring_no_panic (repaired arm): no operand makes the arm panic. *)
Theorem substring_no_panic : forall sh r off olen, fits sh r -> substring sh r off olen <> Panic.
Proof.
  intros sh r off olen Hf H. pose proof (substring_repaired_eq_spec sh r off olen Hf) as E.
  rewrite H in E. cbn [obs] in E. symmetry in E. exact (substring_spec_not_panic _ _ _ _ E).
Qed.

(** ** The unchanged arm outside the known classes (KF-C06-substring-negative-length: a negative
    length; KF-C06-substring-bytes: a scalar word with a non-ASCII character). *)
Lemma cur_bounds_rel k' n off olen : 0 <= n -> (forall l, olen = Some l -> 0 <= l) ->
  let '(a, b) := substring_bounds_old n off olen in
  0 <= a /\ a <= b /\ b <= n /\
  match bash_bounds k' n off olen with
  | Empty => a = b
  | Range a' b' => (a = a' /\ b = b') \/ (a = b /\ a' = b')
  | BadLength => False
  end.
Proof.
  intros Hn Hl. unfold substring_bounds_old, bash_bounds.
  destruct olen as [l|]; [specialize (Hl l eq_refl)|]; destruct k';
  repeat (match goal with
          | |- context [?a <? ?b] => destruct (Z.ltb_spec a b)
          | |- context [?a <=? ?b] => destruct (Z.leb_spec a b)
          end; cbn [orb]);
  try lia; repeat split; try lia.
Qed.

Lemma slice_empty {A} (l : list A) a : slice l a a = [].
Proof. unfold slice. rewrite Z.sub_diag. reflexivity. Qed.

Theorem substring_outside_known : forall sh r off olen, fits sh r ->
  (forall l, olen = Some l -> 0 <= l) ->
  (forall w, is_list r = false -> words sh r = Some [w] -> ascii w = true) ->
  obs (substring_old sh r off olen) = substring_spec sh r off olen.
Proof.
  intros sh r off olen Hfit Hpos Hasc. unfold substring_old.
  destruct (is_list r) eqn:Hl.
  - rewrite substring_spec_is_list by assumption. unfold substring_spec_list.
    pose proof (expand_list sh r false Hl) as He. specialize (Hfit _ He). rewrite He.
    rewrite with_name_list in * by assumption.
    set (ws := list_words sh r) in *.
    unfold polymorphic_len_old, polymorphic_len in *. cbn [fields from_array] in *.
    set (k' := match r with RArgs _ => KArgs | _ => KArray end).
    pose proof (cur_bounds_rel k' (Z.of_nat (length ws)) off olen ltac:(lia) Hpos) as Hb.
    destruct (substring_bounds_old _ off olen) as [a b]. destruct Hb as (H0 & Hab & Hbn & Hb).
    unfold polymorphic_subslice. rewrite !as_usize_small by lia.
    destruct (Z.ltb_spec b a); [lia|]. cbn [from_array fields].
    destruct (Z.ltb_spec (Z.of_nat (length ws)) a); [lia|].
    cbn [obs]. unfold with_fields; cbn [concatenate from_array undefined]. rewrite dq_list by assumption.
    rewrite Z.min_l by lia.
    destruct (is_nil ws) eqn:Hnil.
    + destruct ws; [|discriminate]. cbn. rewrite skipn_nil, firstn_nil. reflexivity.
    + destruct (bash_bounds k' _ off olen) as [|a' b'|]; try contradiction.
      * subst b. fold (slice ws a a). rewrite slice_empty. reflexivity.
      * fold (slice ws a b). destruct Hb as [[-> ->]|[-> ->]]; [reflexivity|]. rewrite !slice_empty. reflexivity.
  - unfold substring_spec.
    assert (Hs : shape_of r = Scalar) by (destruct r; try discriminate; reflexivity). rewrite Hs.
    pose proof (expand_scalar sh r false Hl) as He. rewrite He.
    destruct (words sh r) as [l|] eqn:W.
    + destruct (words_scalar_single _ _ _ Hl W) as [w ->]. cbn [join_with] in *.
      specialize (Hfit _ He). specialize (Hasc w eq_refl eq_refl).
      assert (Hna : with_shell_name sh r (of_string w) = of_string w) by (destruct r; try discriminate; reflexivity).
      rewrite Hna in *.
      assert (Hlen' : polymorphic_len (of_string w) = length w) by reflexivity. rewrite Hlen' in *.
      assert (Hlen : polymorphic_len_old (of_string w) = length w).
      { unfold polymorphic_len_old, of_string; cbn [from_array fields]. rewrite fold_len_single. apply byte_len_ascii; assumption. }
      rewrite Hlen.
      pose proof (cur_bounds_rel KScalar (Z.of_nat (length w)) off olen ltac:(lia) Hpos) as Hb.
      destruct (substring_bounds_old _ off olen) as [a b]. destruct Hb as (H0 & Hab & Hbn & Hb).
      unfold polymorphic_subslice. rewrite !as_usize_small by lia.
      destruct (Z.ltb_spec b a); [lia|]. cbn [from_array of_string obs]. 
      unfold dq_args; cbn [concatenate with_fields of_string fields]. rewrite sub_fields_single by lia.
      fold (slice w a b).
      destruct (bash_bounds KScalar _ off olen) as [|a' b'|]; try contradiction.
      * subst b. rewrite slice_empty. reflexivity.
      * destruct Hb as [[-> ->]|[-> ->]]; [reflexivity|]. rewrite !slice_empty. reflexivity.
    + unfold undefined_expansion. cbn [orb]. destruct (nounset sh); cbn [negb]; [reflexivity|].
      assert (Hna : with_shell_name sh r undefined_exp = undefined_exp) by (destruct r; try discriminate; reflexivity).
      rewrite Hna. change (polymorphic_len_old undefined_exp) with 0%nat. cbn [Z.of_nat].
      pose proof (cur_bounds_rel KScalar 0 off olen ltac:(lia) Hpos) as Hb.
      destruct (substring_bounds_old 0 off olen) as [a b]. destruct Hb as (H0 & Hab & Hbn & _).
      assert (a = 0) by lia. assert (b = 0) by lia. subst. reflexivity.
Qed.

(** On the unchanged tree [${x:2:-5}] with x=abcd panics ([end - index] on [usize]). *)
Definition abcd : str := [97; 98; 99; 100]%N.
Theorem substring_refuted : exists sh r off olen, substring_old sh r off olen = Panic.
Proof. exists (sh_scalar abcd), RNamed, 2, (Some (-5)). vm_compute. reflexivity. Qed.

(** … and a negative length that does not panic selects the wrong end: [${x:2:-3}] of
    abcdefgh is cde; the unchanged arm yields cdefg. *)
Definition abcdefgh : str := [97; 98; 99; 100; 101; 102; 103; 104]%N.
Theorem substring_negative_length_refuted :
  obs (substring_old (sh_scalar abcdefgh) RNamed 2 (Some (-3))) <> substring_spec (sh_scalar abcdefgh) RNamed 2 (Some (-3)).
Proof. vm_compute. discriminate. Qed.

(** * Removal through [transform_expansion] *)
Lemma remove_with_nil b m o : remove_with b m o [] = [].
Proof. destruct o, b; cbn; try reflexivity; destruct (m []); reflexivity. Qed.

Definition oracle_fn (o : rop) (m : str -> bool) : str -> str :=
  match o with
  | RmSmallestPrefix => spec_remove_prefix true m
  | RmLargestPrefix => spec_remove_prefix false m
  | RmSmallestSuffix => spec_remove_suffix true m
  | RmLargestSuffix => spec_remove_suffix false m
  end.

Lemma removal_generic b sh r o m :
  (forall s, remove_with b m o s = oracle_fn o m s) ->
  obs (removal b sh r o (Some m)) = removal_oracle sh r o (Some m).
Proof.
  intros Hf. unfold removal, removal_oracle. fold (oracle_fn o m).
  destruct (is_list r) eqn:Hl.
  - pose proof (expand_list sh r false Hl) as He. rewrite He.
    cbn [obs]. unfold with_fields; cbn [fields concatenate from_array undefined].
    rewrite dq_list by assumption.
    assert (Hs : shape_of r <> Scalar) by (destruct r as [| |c| |c]; try discriminate; destruct c; discriminate).
    destruct (words sh r) as [l|] eqn:W.
    + rewrite (map_ext _ _ Hf). destruct (shape_of r); [congruence|reflexivity|reflexivity].
    + cbn [map]. destruct (shape_of r); [congruence|reflexivity|reflexivity].
  - rewrite expand_scalar by assumption.
    assert (Hs : shape_of r = Scalar) by (destruct r; try discriminate; reflexivity). rewrite Hs.
    destruct (words sh r) as [l|] eqn:W.
    + destruct (words_scalar_single _ _ _ Hl W) as [w ->]. cbn. rewrite Hf. reflexivity.
    + unfold undefined_expansion. cbn [orb]. destruct (nounset sh); cbn; [reflexivity|].
      rewrite remove_with_nil. reflexivity.
Qed.

(** after the repair: all four operators, every matcher, every parameter *)
Theorem removal_repaired_eq_oracle : forall sh r o m,
  obs (removal true sh r o (Some m)) = removal_oracle sh r o (Some m).
Proof.
  intros. apply removal_generic. intros s. destruct o; cbn.
  - apply remove_smallest_prefix_repaired_eq.
  - apply remove_largest_prefix_eq.
  - apply remove_smallest_suffix_repaired_eq.
  - apply remove_largest_suffix_eq.
Qed.

(** unchanged tree: outside the class "the pattern matches the empty string and the operator is # or %" *)
Theorem removal_outside_known : forall sh r o m,
  (match o with RmSmallestPrefix | RmSmallestSuffix => m [] = false | _ => True end) ->
  obs (removal false sh r o (Some m)) = removal_oracle sh r o (Some m).
Proof.
  intros sh r o m H. apply removal_generic. intros s. destruct o; cbn.
  - apply remove_smallest_prefix_eq_outside_known; exact H.
  - apply remove_largest_prefix_eq.
  - apply remove_smallest_suffix_eq_outside_known; exact H.
  - apply remove_largest_suffix_eq.
Qed.

(** * Keys *)
Theorem member_keys_eq_spec : forall sh c, dq_args (member_keys sh c) = keys_spec sh c.
Proof. intros sh c. unfold member_keys, keys_spec, dq_args. destruct (var sh), c; reflexivity. Qed.

(** * Regression examples on the model of the code as it is now (after 0a1f494, ce50a75, 68104b7, 1f6bbbf). *)
Definition e_acute : str := [233%N].
Theorem regression_examples :
  remove_smallest_prefix m_star abc = abc /\ remove_smallest_suffix m_star abc = abc /\
  parameter_length (sh_scalar e_acute) RNamed = Ok 1%nat /\
  substring (sh_scalar abcd) RNamed 2 (Some (-5)) = Fail /\
  obs (substring (sh_scalar abcdefgh) RNamed 2 (Some (-3))) = Ok ([[99; 100; 101]%N], None) /\
  substring_ev (sh_scalar abc) RNamed {| oval := 5; oerr := false; oinc := 0 |} (Some {| oval := 0; oerr := true; oinc := 1 |})
    = (Ok {| fields := []; concatenate := true; from_array := false; undefined := false |}, 0).
Proof. vm_compute. repeat split; reflexivity. Qed.

(** * Non-vacuity: the hypotheses of the theorems above hold of ordinary states. *)
Definition sh_array : shell :=
  {| var := VIdx [(0, abcd); (1, []); (2, [233%N])]; args := [abcd; []]; nounset := true; shell_name := abcd |}.

Theorem hypotheses_satisfiable :
  fits (sh_scalar abcd) RNamed /\ fits sh_array (RAll false) /\ fits sh_array (RArgs true) /\
  known_cond sh_array (RAll false) OpAlt true = false /\ known_cond (sh_scalar []) RNamed OpAssign true = false /\
  known_len sh_array (RAll true) = false /\
  (exists m : str -> bool, m [] = false /\ m abcd = true).
Proof.
  repeat split; try reflexivity.
  - intros e0 H. vm_compute in H. inversion H; subst. vm_compute. reflexivity.
  - intros e0 H. vm_compute in H. inversion H; subst. vm_compute. reflexivity.
  - intros e0 H. vm_compute in H. inversion H; subst. vm_compute. reflexivity.
  - exists (fun s => negb (is_nil s)). split; reflexivity.
Qed.
