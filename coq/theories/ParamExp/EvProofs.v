(** C06 — order of evaluation of the substring operands: the model of the arm against bash's rule
    (offset only for a parameter that has words, length only for an offset inside the value). *)
From BV Require Import Base.Prelude ParamExp.Remove ParamExp.Param ParamExp.ParamSpec ParamExp.ParamProofs.

Definition obs_ev (r : res expansion * Z) : res (list str * option str) * Z := (obs (fst r), snd r).

Lemma oor_bash k k' n v : kind_rel k k' ->
  bash_bounds k' n v None = if offset_out_of_range k n v then Empty else Range (if v <? 0 then v + n else v) n.
Proof.
  intros Hk. unfold bash_bounds, offset_out_of_range. destruct k, k'; try contradiction; reflexivity.
Qed.

Theorem substring_ev_eq_spec : forall sh r off olen, fits sh r ->
  obs_ev (substring_ev sh r off olen) = substring_spec_ev sh r off olen.
Proof.
  intros sh r off olen Hfit.
  assert (Hval : forall o l, obs (substring sh r o l) = substring_spec sh r o l)
    by (intros; apply substring_repaired_eq_spec; exact Hfit).
  unfold substring_ev, substring_spec_ev, obs_ev.
  destruct (is_list r) eqn:Hl.
  - pose proof (expand_list sh r false Hl) as He.
    assert (Hsub0 : forall o l, substring sh r o l = substring sh r o l) by reflexivity.
    rewrite He, with_name_list by assumption. cbn [undefined fields orb from_array].
    assert (Hsp : shape_of r <> Scalar) by (destruct r as [| |c| |c]; try discriminate; destruct c; discriminate).
    assert (Hws : match shape_of r with
                  | Scalar => match words sh r with Some l => [join_with SP l] | None => [] end
                  | _ => match r with RArgs _ => shell_name sh :: args sh | _ => elems (var sh) end
                  end = list_words sh r) by (destruct (shape_of r); [congruence|reflexivity|reflexivity]).
    rewrite Hws. set (ws := list_words sh r) in *.
    assert (Hlen : match shape_of r, ws with Scalar, [w] => Z.of_nat (length w) | _, _ => Z.of_nat (length ws) end
                   = Z.of_nat (length ws)) by (destruct (shape_of r); [congruence|reflexivity|reflexivity]).
    rewrite Hlen.
    set (k := if is_args r then PArgs else PArray).
    set (k' := match shape_of r, r with Scalar, _ => KScalar | _, RArgs _ => KArgs | _, _ => KArray end).
    assert (Hk : kind_rel k k') by (unfold k, k'; destruct r as [| |c| |c]; try discriminate; destruct c; exact I).
    destruct (is_nil ws) eqn:Hnil.
    + cbn [fst snd obs]. rewrite <- Hval. unfold substring. rewrite He, with_name_list by assumption.
      cbn [undefined fields orb]. fold ws. rewrite Hnil. reflexivity.
    + destruct (oerr off); [reflexivity|].
      unfold polymorphic_len; cbn [from_array fields].
      rewrite (oor_bash k k' _ _ Hk).
      destruct (offset_out_of_range k (Z.of_nat (length ws)) (oval off)); cbn [fst snd]; [rewrite Hval; reflexivity|].
      destruct olen as [l|]; [|cbn [fst snd]; rewrite Hval; reflexivity].
      destruct (oerr l); cbn [fst snd obs]; [reflexivity|]. rewrite Hval. reflexivity.
  - assert (Hs : shape_of r = Scalar) by (destruct r; try discriminate; reflexivity). rewrite Hs.
    pose proof (expand_scalar sh r false Hl) as He. rewrite He.
    destruct (words sh r) as [l|] eqn:W.
    + destruct (words_scalar_single _ _ _ Hl W) as [w ->]. cbn [join_with is_nil].
      assert (Hna : with_shell_name sh r (of_string w) = of_string w) by (destruct r; try discriminate; reflexivity).
      rewrite Hna. cbn [undefined of_string fields is_nil orb from_array].
      destruct (oerr off); [reflexivity|].
      assert (Hia : is_args r = false) by (destruct r; try discriminate; reflexivity). rewrite Hia.
      change (polymorphic_len (of_string w)) with (length w).
      rewrite (oor_bash PScalar KScalar _ _ I).
      destruct (offset_out_of_range PScalar (Z.of_nat (length w)) (oval off)); cbn [fst snd]; [rewrite Hval; reflexivity|].
      destruct olen as [l|]; [|cbn [fst snd]; rewrite Hval; reflexivity].
      destruct (oerr l); cbn [fst snd obs]; [reflexivity|]. rewrite Hval. reflexivity.
    + cbn [is_nil fst snd]. rewrite <- Hval. unfold substring. rewrite He.
      unfold undefined_expansion. cbn [orb]. destruct (nounset sh); cbn [negb]; [reflexivity|].
      assert (Hna : with_shell_name sh r undefined_exp = undefined_exp) by (destruct r; try discriminate; reflexivity).
      rewrite Hna. reflexivity.
Qed.
