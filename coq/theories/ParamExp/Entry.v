(** C06 correspondence entries. Every case starts with the shell state and the parameter
    reference:
      nounset(0/1)  kind: N, U, S v, I n idx v .., A n key v ..;  nargs arg ..;  ref: n, i idx, a c, p num, g c
    followed by the operator-specific fields.  Every result is self-delimiting:
      OK n arg .. assigned(0, or 1 v)  /  FAIL  /  PANIC
    and an entry prints the result of the model of the unchanged code followed by the result
    of the repaired model / specification. *)
From Coq Require Import String.
From BV Require Import Base.Prelude Base.Codec ParamExp.Remove ParamExp.Param ParamExp.ParamSpec ParamExp.MiniGlob.

Fixpoint take_n {A} (n : nat) (l : list A) : list A * list A :=
  match n, l with
  | O, _ => ([], l)
  | S n', x :: l' => let '(a, b) := take_n n' l' in (x :: a, b)
  | S _, [] => ([], [])
  end.

Fixpoint pairs_Z (l : list str) : list (Z * str) :=
  match l with k :: v :: l' => (dec_Z k, v) :: pairs_Z l' | _ => [] end.
Fixpoint pairs_S (l : list str) : list (str * str) :=
  match l with k :: v :: l' => (k, v) :: pairs_S l' | _ => [] end.

Definition is1 (s : str) (c : N) : bool := match s with [d] => N.eqb c d | _ => false end.

Definition dec_value (a : list str) : value * list str :=
  match a with
  | k :: r =>
      if is1 k 78 then (VNone, r)
      else if is1 k 85 then (VUnset, r)
      else if is1 k 83 then match r with v :: r' => (VStr v, r') | [] => (VNone, []) end
      else if is1 k 73 then match r with n :: r' => let '(ps, r'') := take_n (2 * dec_nat n) r' in (VIdx (pairs_Z ps), r'') | [] => (VNone, []) end
      else if is1 k 65 then match r with n :: r' => let '(ps, r'') := take_n (2 * dec_nat n) r' in (VAssoc (pairs_S ps), r'') | [] => (VNone, []) end
      else (VNone, r)
  | [] => (VNone, [])
  end.

Definition dec_ref (a : list str) : pref * list str :=
  match a with
  | k :: r =>
      if is1 k 110 then (RNamed, r)
      else if is1 k 105 then match r with i :: r' => (RIndex i, r') | [] => (RNamed, []) end
      else if is1 k 97 then match r with c :: r' => (RAll (dec_bool c), r') | [] => (RNamed, []) end
      else if is1 k 112 then match r with n :: r' => (RPos (dec_nat n), r') | [] => (RNamed, []) end
      else if is1 k 103 then match r with c :: r' => (RArgs (dec_bool c), r') | [] => (RNamed, []) end
      else (RNamed, r)
  | [] => (RNamed, [])
  end.

Definition brush_name : str := lit "brush".

Definition dec_shell (a : list str) : shell * pref * list str :=
  match a with
  | nu :: r =>
      let '(v, r1) := dec_value r in
      match r1 with
      | n :: r2 =>
          let '(ar, r3) := take_n (dec_nat n) r2 in
          let '(rf, r4) := dec_ref r3 in
          ({| var := v; args := ar; nounset := dec_bool nu; shell_name := brush_name |}, rf, r4)
      | [] => ({| var := v; args := []; nounset := dec_bool nu; shell_name := brush_name |}, RNamed, [])
      end
  | [] => ({| var := VNone; args := []; nounset := false; shell_name := brush_name |}, RNamed, [])
  end.

Definition show_args (l : list str) (asg : option str) : list str :=
  (lit "OK" :: enc_nat (length l) :: l) ++ match asg with Some v => [lit "1"; v] | None => [lit "0"] end.

Definition show_res (r : res expansion) : list str :=
  match r with
  | Ok e => show_args (dq_args e) None
  | Fail => [lit "FAIL"]
  | Panic => [lit "PANIC"]
  end.

(** for [=] the script also prints the parameter afterwards *)
Definition after_of (op : cop) (l : list str) (asg : option str) : option str :=
  match op with
  | OpAssign => Some (match asg with Some v => v | None => join_with SP l end)
  | _ => None
  end.

Definition show_res_asg (op : cop) (r : res (expansion * option str)) : list str :=
  match r with
  | Ok (e, a) => show_args (dq_args e) (after_of op (dq_args e) a)
  | Fail => [lit "FAIL"]
  | Panic => [lit "PANIC"]
  end.

Definition show_spec_op (op : cop) (r : res (list str * option str)) : list str :=
  match r with
  | Ok (l, a) => show_args l (after_of op l a)
  | Fail => [lit "FAIL"]
  | Panic => [lit "PANIC"]
  end.

Definition show_spec (r : res (list str * option str)) : list str :=
  match r with
  | Ok (l, a) => show_args l a
  | Fail => [lit "FAIL"]
  | Panic => [lit "PANIC"]
  end.

Definition dec_cop (s : str) : cop :=
  if is1 s 45 then OpDefault else if is1 s 61 then OpAssign else if is1 s 63 then OpError else OpAlt.

(** c06cond: … op colon word  ->  model ; spec (POSIX table over bash's notion of unset/null) *)
Definition entry_cond (a : list str) : list str :=
  let '(sh, rf, r) := dec_shell a in
  match r with
  | op :: colon :: w :: _ =>
      show_res_asg (dec_cop op) (conditional sh rf (dec_cop op) (dec_bool colon) (of_string w)) ++
      show_spec_op (dec_cop op) (conditional_spec sh rf (dec_cop op) (dec_bool colon) w)
  | _ => [lit "?bad-case"]
  end.

Definition show_len (r : res nat) : list str :=
  match r with
  | Ok n => show_args [enc_nat n] None
  | Fail => [lit "FAIL"]
  | Panic => [lit "PANIC"]
  end.

(** c06len: …  ->  model (bytes) ; repaired model ; spec *)
Definition entry_len (a : list str) : list str :=
  let '(sh, rf, _) := dec_shell a in
  show_len (parameter_length sh rf) ++ show_len (length_spec sh rf).

(** c06sub: … off haslen len  ->  model ; repaired model ; spec *)
Definition entry_sub (a : list str) : list str :=
  let '(sh, rf, r) := dec_shell a in
  match r with
  | off :: hl :: l :: _ =>
      let olen := if dec_bool hl then Some (dec_Z l) else None in
      show_res (substring sh rf (dec_Z off) olen) ++ show_spec (substring_spec sh rf (dec_Z off) olen)
  | _ => [lit "?bad-case"]
  end.

Definition dec_rop (s : str) : rop :=
  match s with
  | [35%N] => RmSmallestPrefix
  | [35%N; 35%N] => RmLargestPrefix
  | [37%N] => RmSmallestSuffix
  | _ => RmLargestSuffix
  end.

(** matcher given as a table of (string, bit) pairs: the bits come from the code's own
    [Pattern::exactly_matches]; strings not listed do not match. *)
Fixpoint table_match (t : list (str * str)) (s : str) : bool :=
  match t with
  | [] => false
  | (k, b) :: t' => if str_eqb k s then dec_bool b else table_match t' s
  end.

(** c06rm: … op mode: n, or t n str bit .., or g pattern  ->  model ; repaired model ; spec *)
Definition entry_rm (a : list str) : list str :=
  let '(sh, rf, r) := dec_shell a in
  match r with
  | op :: mode :: r' =>
      let m : option (str -> bool) :=
        if is1 mode 110 then None
        else if is1 mode 116 then
          match r' with
          | n :: r'' => let '(ps, _) := take_n (2 * dec_nat n) r'' in Some (table_match (pairs_S ps))
          | [] => None
          end
        else match r' with p :: _ => Some (mini_glob p) | [] => None end in
      show_res (removal true sh rf (dec_rop op) m) ++ show_spec (removal_oracle sh rf (dec_rop op) m)
  | _ => [lit "?bad-case"]
  end.

(** c06keys: … (reference a c)  ->  model ; spec *)
Definition entry_keys (a : list str) : list str :=
  let '(sh, rf, _) := dec_shell a in
  let c := match rf with RAll c => c | _ => false end in
  show_args (dq_args (member_keys sh c)) None ++ show_args (keys_spec sh c) None.

(** c06subev: … off_val off_err off_inc haslen len_val len_err len_inc  ->  model ; spec, each with the
    counter after the expansion in the "assigned" slot *)
Definition dec_operand (v e i : str) : operand := {| oval := dec_Z v; oerr := dec_bool e; oinc := dec_Z i |}.
Definition show_ev (r : res (list str * option str) * Z) : list str :=
  match fst r with
  | Ok (l, _) => show_args l (Some (show_Z (snd r)))
  | Fail => [lit "FAIL"]
  | Panic => [lit "PANIC"]
  end.
Definition entry_subev (a : list str) : list str :=
  let '(sh, rf, r) := dec_shell a in
  match r with
  | ov :: oe :: oi :: hl :: lv :: le :: li :: _ =>
      let off := dec_operand ov oe oi in
      let olen := if dec_bool hl then Some (dec_operand lv le li) else None in
      let m := substring_ev sh rf off olen in
      show_ev (match fst m with Ok e => Ok (dq_args e, None) | Fail => Fail | Panic => Panic end, snd m) ++
      show_ev (substring_spec_ev sh rf off olen)
  | _ => [lit "?bad-case"]
  end.
