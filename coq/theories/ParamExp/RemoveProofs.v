(** C06 — the removal loops against the bash-independent clause of the property. *)
From BV Require Import Base.Prelude ParamExp.Remove.

(** * Linear searches *)
Fixpoint find_up (P : nat -> bool) (iters idx : nat) : option nat :=
  match iters with
  | O => None
  | S i => if P idx then Some idx else find_up P i (S idx)
  end.
(** searches k-1, k-2, …, 0 *)
Fixpoint find_down (P : nat -> bool) (k : nat) : option nat :=
  match k with
  | O => None
  | S j => if P j then Some j else find_down P j
  end.

Lemma find_up_some P iters : forall idx j, find_up P iters idx = Some j ->
  (idx <= j < idx + iters)%nat /\ P j = true /\ forall i, (idx <= i < j)%nat -> P i = false.
Proof.
  induction iters as [|it IH]; intros idx j H; cbn in H; [discriminate|].
  destruct (P idx) eqn:E.
  - inversion H; subst. split; [lia|split; [assumption|intros i Hi; lia]].
  - apply IH in H as (Hr & Hp & Hlt). split; [lia|split; [assumption|]].
    intros i Hi. destruct (Nat.eq_dec i idx) as [->|Hne]; [assumption|]. apply Hlt; lia.
Qed.

Lemma find_up_none P iters : forall idx, find_up P iters idx = None ->
  forall i, (idx <= i < idx + iters)%nat -> P i = false.
Proof.
  induction iters as [|it IH]; intros idx H i Hi; [lia|]. cbn in H.
  destruct (P idx) eqn:E; [discriminate|].
  destruct (Nat.eq_dec i idx) as [->|Hne]; [assumption|]. apply (IH (S idx) H); lia.
Qed.

Lemma find_down_some P k : forall j, find_down P k = Some j ->
  (j < k)%nat /\ P j = true /\ forall i, (j < i < k)%nat -> P i = false.
Proof.
  induction k as [|k IH]; intros j H; cbn in H; [discriminate|].
  destruct (P k) eqn:E.
  - inversion H; subst. split; [lia|split; [assumption|intros i Hi; lia]].
  - apply IH in H as (Hr & Hp & Hgt). split; [lia|split; [assumption|]].
    intros i Hi. destruct (Nat.eq_dec i k) as [->|Hne]; [assumption|]. apply Hgt; lia.
Qed.

Lemma find_down_none P k : find_down P k = None -> forall i, (i < k)%nat -> P i = false.
Proof.
  induction k as [|k IH]; intros H i Hi; [lia|]. cbn in H.
  destruct (P k) eqn:E; [discriminate|].
  destruct (Nat.eq_dec i k) as [->|Hne]; [assumption|]. apply IH; [assumption|lia].
Qed.

(** * The loops are these searches *)
Section Loops.
Variable m : str -> bool.
Let Pp (s : str) := fun k => m (firstn k s).
Let Ps (s : str) := fun k => m (skipn k s).

Lemma largest_prefix_go_find s k :
  largest_prefix_go m s k =
  match find_down (fun j => Pp s (S j)) k with Some j => skipn (S j) s | None => s end.
Proof.
  induction k as [|k IH]; [reflexivity|]. cbn [largest_prefix_go find_down]. unfold Pp at 1.
  destruct (m (firstn (S k) s)); [reflexivity|exact IH].
Qed.

Lemma smallest_prefix_go_old_find s iters : forall c,
  smallest_prefix_go_old m s iters c =
  match find_up (Pp s) iters (S c) with Some j => skipn j s | None => s end.
Proof.
  induction iters as [|it IH]; intros c; [reflexivity|]. cbn [smallest_prefix_go_old find_up]. unfold Pp at 1.
  destruct (m (firstn (S c) s)); [reflexivity|apply IH].
Qed.

Lemma smallest_prefix_go_find s iters : forall idx,
  smallest_prefix_go m s iters idx =
  match find_up (Pp s) iters idx with Some j => skipn j s | None => s end.
Proof.
  induction iters as [|it IH]; intros idx; [reflexivity|]. cbn [smallest_prefix_go find_up]. unfold Pp at 1.
  destruct (m (firstn idx s)); [reflexivity|apply IH].
Qed.

Lemma largest_suffix_go_find s iters : forall idx,
  largest_suffix_go m s iters idx =
  match find_up (Ps s) iters idx with Some j => firstn j s | None => s end.
Proof.
  induction iters as [|it IH]; intros idx; [reflexivity|]. cbn [largest_suffix_go find_up]. unfold Ps at 1.
  destruct (m (skipn idx s)); [reflexivity|apply IH].
Qed.

Lemma smallest_suffix_go_old_find s k :
  smallest_suffix_go_old m s k =
  match find_down (Ps s) k with Some j => firstn j s | None => s end.
Proof.
  induction k as [|k IH]; [reflexivity|]. cbn [smallest_suffix_go_old find_down]. unfold Ps at 1.
  destruct (m (skipn k s)); [reflexivity|exact IH].
Qed.

Lemma smallest_suffix_go_find s k :
  smallest_suffix_go m s k =
  match find_down (Ps s) k with Some j => firstn j s | None => s end.
Proof.
  induction k as [|k IH]; [reflexivity|]. cbn [smallest_suffix_go find_down]. unfold Ps at 1.
  destruct (m (skipn k s)); [reflexivity|exact IH].
Qed.

(** * Theorems: loops against the specification *)

(** [##]: correct at full strength (not testing the empty prefix is harmless: deleting it is
    the identity, which is also the no-match result). *)
Theorem remove_largest_prefix_spec s : largest_prefix_spec m s (remove_largest_prefix m s).
Proof.
  unfold remove_largest_prefix, largest_prefix_spec. rewrite largest_prefix_go_find.
  destruct (find_down _ (length s)) as [j|] eqn:E.
  - apply find_down_some in E as (Hr & Hp & Hgt).
    apply (removal_at _ _ (fun k => skipn k s) s (S j)); [split; [lia|exact Hp]|].
    intros j' [Hj' Hm]. destruct (le_lt_dec j' (S j)) as [|Hlt]; [assumption|].
    destruct j' as [|i]; [lia|]. pose proof (Hgt i ltac:(lia)) as Hf; cbv beta delta [Pp Ps] in Hf; congruence.
  - pose proof (find_down_none _ _ E) as Hn.
    destruct (m []) eqn:E0.
    + change s with (skipn 0 s) at 2.
      apply (removal_at _ _ (fun k => skipn k s) s 0%nat); [split; [lia|exact E0]|].
      intros j' [Hj' Hm]. destruct j' as [|i]; [lia|]. pose proof (Hn i ltac:(lia)) as Hf; cbv beta delta [Pp Ps] in Hf; congruence.
    + apply removal_none. intros k [Hk Hm]. destruct k as [|i]; [cbn in Hm; congruence|].
      pose proof (Hn i ltac:(lia)) as Hf; cbv beta delta [Pp Ps] in Hf; congruence.
Qed.

(** [%%]: correct at full strength. *)
Theorem remove_largest_suffix_spec s : largest_suffix_spec m s (remove_largest_suffix m s).
Proof.
  unfold remove_largest_suffix, largest_suffix_spec. rewrite largest_suffix_go_find.
  destruct (find_up _ (length s) 0) as [j|] eqn:E.
  - apply find_up_some in E as (Hr & Hp & Hlt).
    apply (removal_at _ _ (fun k => firstn k s) s j); [split; [lia|exact Hp]|].
    intros j' [Hj' Hm]. destruct (le_lt_dec j j') as [|Hl]; [assumption|].
    pose proof (Hlt j' ltac:(lia)) as Hf; cbv beta delta [Pp Ps] in Hf; congruence.
  - pose proof (find_up_none _ _ _ E) as Hn.
    destruct (m []) eqn:E0.
    + pose proof (removal_at (suffix_ok m s) true (fun k => firstn k s) s (length s)) as R.
      cbv beta in R. rewrite firstn_all in R. apply R.
      * split; [lia|]. rewrite skipn_all. exact E0.
      * intros j' [Hj' Hm]. destruct (le_lt_dec (length s) j') as [|Hl]; [assumption|].
        pose proof (Hn j' ltac:(lia)) as Hf; cbv beta delta [Pp Ps] in Hf; congruence.
    + apply removal_none. intros k [Hk Hm].
      destruct (Nat.eq_dec k (length s)) as [->|Hne]; [rewrite skipn_all in Hm; congruence|].
      pose proof (Hn k ltac:(lia)) as Hf; cbv beta delta [Pp Ps] in Hf; congruence.
Qed.

(** [#] after the repair: correct at full strength. *)
Theorem remove_smallest_prefix_repaired_spec s : smallest_prefix_spec m s (remove_smallest_prefix m s).
Proof.
  unfold remove_smallest_prefix, smallest_prefix_spec. rewrite smallest_prefix_go_find.
  destruct (find_up _ (S (length s)) 0) as [j|] eqn:E.
  - apply find_up_some in E as (Hr & Hp & Hlt).
    apply (removal_at _ _ (fun k => skipn k s) s j); [split; [lia|exact Hp]|].
    intros j' [Hj' Hm]. destruct (le_lt_dec j j') as [|Hl]; [assumption|].
    pose proof (Hlt j' ltac:(lia)) as Hf; cbv beta delta [Pp Ps] in Hf; congruence.
  - pose proof (find_up_none _ _ _ E) as Hn. apply removal_none. intros k [Hk Hm].
    pose proof (Hn k ltac:(lia)) as Hf; cbv beta delta [Pp Ps] in Hf; congruence.
Qed.

(** [%] after the repair: correct at full strength. *)
Theorem remove_smallest_suffix_repaired_spec s : smallest_suffix_spec m s (remove_smallest_suffix m s).
Proof.
  unfold remove_smallest_suffix, smallest_suffix_spec. rewrite smallest_suffix_go_find.
  destruct (find_down _ (S (length s))) as [j|] eqn:E.
  - apply find_down_some in E as (Hr & Hp & Hgt).
    apply (removal_at _ _ (fun k => firstn k s) s j); [split; [lia|exact Hp]|].
    intros j' [Hj' Hm]. destruct (le_lt_dec j' j) as [|Hl]; [assumption|].
    pose proof (Hgt j' ltac:(lia)) as Hf; cbv beta delta [Pp Ps] in Hf; congruence.
  - pose proof (find_down_none _ _ E) as Hn. apply removal_none. intros k [Hk Hm].
    pose proof (Hn k ltac:(lia)) as Hf; cbv beta delta [Pp Ps] in Hf; congruence.
Qed.

(** [#] and [%] on the unchanged tree: correct whenever the pattern does not match the empty
    string (the class of the open finding is exactly [m [] = true]). *)
Theorem remove_smallest_prefix_outside_known s : m [] = false ->
  smallest_prefix_spec m s (remove_smallest_prefix_old m s).
Proof.
  intros E0. unfold remove_smallest_prefix_old, smallest_prefix_spec. rewrite smallest_prefix_go_old_find.
  destruct (find_up _ (length s) 1) as [j|] eqn:E.
  - apply find_up_some in E as (Hr & Hp & Hlt).
    apply (removal_at _ _ (fun k => skipn k s) s j); [split; [lia|exact Hp]|].
    intros j' [Hj' Hm]. destruct (le_lt_dec j j') as [|Hl]; [assumption|].
    destruct j' as [|i]; [cbn in Hm; congruence|]. pose proof (Hlt (S i) ltac:(lia)) as Hf; cbv beta delta [Pp Ps] in Hf; congruence.
  - pose proof (find_up_none _ _ _ E) as Hn. apply removal_none. intros k [Hk Hm].
    destruct k as [|i]; [cbn in Hm; congruence|]. pose proof (Hn (S i) ltac:(lia)) as Hf; cbv beta delta [Pp Ps] in Hf; congruence.
Qed.

Theorem remove_smallest_suffix_outside_known s : m [] = false ->
  smallest_suffix_spec m s (remove_smallest_suffix_old m s).
Proof.
  intros E0. unfold remove_smallest_suffix_old, smallest_suffix_spec. rewrite smallest_suffix_go_old_find.
  destruct (find_down _ (length s)) as [j|] eqn:E.
  - apply find_down_some in E as (Hr & Hp & Hgt).
    apply (removal_at _ _ (fun k => firstn k s) s j); [split; [lia|exact Hp]|].
    intros j' [Hj' Hm]. destruct (le_lt_dec j' j) as [|Hl]; [assumption|].
    destruct (Nat.eq_dec j' (length s)) as [->|Hne]; [rewrite skipn_all in Hm; congruence|].
    pose proof (Hgt j' ltac:(lia)) as Hf; cbv beta delta [Pp Ps] in Hf; congruence.
  - pose proof (find_down_none _ _ E) as Hn. apply removal_none. intros k [Hk Hm].
    destruct (Nat.eq_dec k (length s)) as [->|Hne]; [rewrite skipn_all in Hm; congruence|].
    pose proof (Hn k ltac:(lia)) as Hf; cbv beta delta [Pp Ps] in Hf; congruence.
Qed.

End Loops.

(** * The specification determines the result; the executable oracle computes it *)
Lemma removal_spec_functional ok b cut s r1 r2 :
  removal_spec ok b cut s r1 -> removal_spec ok b cut s r2 -> r1 = r2.
Proof.
  intros [Hn1|k1 Hk1 Hm1] [Hn2|k2 Hk2 Hm2]; try reflexivity.
  - exfalso; exact (Hn1 _ Hk2).
  - exfalso; exact (Hn2 _ Hk1).
  - f_equal. specialize (Hm1 _ Hk2). specialize (Hm2 _ Hk1). destruct b; lia.
Qed.

Lemma find_seq_up P n : find P (seq 0 n) = find_up P n 0.
Proof.
  generalize 0%nat. induction n as [|n IH]; intros a; [reflexivity|]. cbn.
  destruct (P a); [reflexivity|apply IH].
Qed.

Lemma find_app {A} (P : A -> bool) l1 l2 :
  find P (l1 ++ l2) = match find P l1 with Some x => Some x | None => find P l2 end.
Proof. induction l1 as [|x l1 IH]; cbn; [reflexivity|]. destruct (P x); [reflexivity|exact IH]. Qed.

Lemma find_rev_seq_down P n : find P (rev (seq 0 n)) = find_down P n.
Proof.
  induction n as [|n IH]; [reflexivity|].
  rewrite seq_S, rev_app_distr. cbn [rev app find find_down Nat.add]. destruct (P n); [reflexivity|exact IH].
Qed.

Theorem spec_remove_prefix_sound shortest m s :
  removal_spec (prefix_ok m s) shortest (fun k => skipn k s) s (spec_remove_prefix shortest m s).
Proof.
  unfold spec_remove_prefix, cuts. destruct shortest.
  - rewrite find_seq_up. destruct (find_up _ _ _) as [j|] eqn:E.
    + apply find_up_some in E as (Hr & Hp & Hlt). apply (removal_at _ _ (fun k => skipn k s) s j); [split; [lia|exact Hp]|].
      intros j' [Hj' Hm]. destruct (le_lt_dec j j') as [|Hl]; [assumption|]. pose proof (Hlt j' ltac:(lia)) as Hf; cbv beta in Hf; congruence.
    + pose proof (find_up_none _ _ _ E) as Hn. apply removal_none. intros k [Hk Hm]. pose proof (Hn k ltac:(lia)) as Hf; cbv beta in Hf; congruence.
  - rewrite find_rev_seq_down. destruct (find_down _ _) as [j|] eqn:E.
    + apply find_down_some in E as (Hr & Hp & Hgt). apply (removal_at _ _ (fun k => skipn k s) s j); [split; [lia|exact Hp]|].
      intros j' [Hj' Hm]. destruct (le_lt_dec j' j) as [|Hl]; [assumption|]. pose proof (Hgt j' ltac:(lia)) as Hf; cbv beta in Hf; congruence.
    + pose proof (find_down_none _ _ E) as Hn. apply removal_none. intros k [Hk Hm]. pose proof (Hn k ltac:(lia)) as Hf; cbv beta in Hf; congruence.
Qed.

Theorem spec_remove_suffix_sound shortest m s :
  removal_spec (suffix_ok m s) (negb shortest) (fun k => firstn k s) s (spec_remove_suffix shortest m s).
Proof.
  unfold spec_remove_suffix, cuts. destruct shortest; cbn [negb].
  - rewrite find_rev_seq_down. destruct (find_down _ _) as [j|] eqn:E.
    + apply find_down_some in E as (Hr & Hp & Hgt). apply (removal_at _ _ (fun k => firstn k s) s j); [split; [lia|exact Hp]|].
      intros j' [Hj' Hm]. destruct (le_lt_dec j' j) as [|Hl]; [assumption|]. pose proof (Hgt j' ltac:(lia)) as Hf; cbv beta in Hf; congruence.
    + pose proof (find_down_none _ _ E) as Hn. apply removal_none. intros k [Hk Hm]. pose proof (Hn k ltac:(lia)) as Hf; cbv beta in Hf; congruence.
  - rewrite find_seq_up. destruct (find_up _ _ _) as [j|] eqn:E.
    + apply find_up_some in E as (Hr & Hp & Hlt). apply (removal_at _ _ (fun k => firstn k s) s j); [split; [lia|exact Hp]|].
      intros j' [Hj' Hm]. destruct (le_lt_dec j j') as [|Hl]; [assumption|]. pose proof (Hlt j' ltac:(lia)) as Hf; cbv beta in Hf; congruence.
    + pose proof (find_up_none _ _ _ E) as Hn. apply removal_none. intros k [Hk Hm]. pose proof (Hn k ltac:(lia)) as Hf; cbv beta in Hf; congruence.
Qed.

(** Equational forms: loop = oracle. *)
Theorem remove_largest_prefix_eq m s : remove_largest_prefix m s = spec_remove_prefix false m s.
Proof. eapply removal_spec_functional; [apply remove_largest_prefix_spec|apply spec_remove_prefix_sound]. Qed.
Theorem remove_largest_suffix_eq m s : remove_largest_suffix m s = spec_remove_suffix false m s.
Proof. eapply removal_spec_functional; [apply remove_largest_suffix_spec|apply (spec_remove_suffix_sound false)]. Qed.
Theorem remove_smallest_prefix_repaired_eq m s : remove_smallest_prefix m s = spec_remove_prefix true m s.
Proof. eapply removal_spec_functional; [apply remove_smallest_prefix_repaired_spec|apply spec_remove_prefix_sound]. Qed.
Theorem remove_smallest_suffix_repaired_eq m s : remove_smallest_suffix m s = spec_remove_suffix true m s.
Proof. eapply removal_spec_functional; [apply remove_smallest_suffix_repaired_spec|apply (spec_remove_suffix_sound true)]. Qed.
Theorem remove_smallest_prefix_eq_outside_known m s : m [] = false ->
  remove_smallest_prefix_old m s = spec_remove_prefix true m s.
Proof. intros H. eapply removal_spec_functional; [apply remove_smallest_prefix_outside_known; exact H|apply spec_remove_prefix_sound]. Qed.
Theorem remove_smallest_suffix_eq_outside_known m s : m [] = false ->
  remove_smallest_suffix_old m s = spec_remove_suffix true m s.
Proof. intros H. eapply removal_spec_functional; [apply remove_smallest_suffix_outside_known; exact H|apply (spec_remove_suffix_sound true)]. Qed.

(** * The unchanged loops are refuted inside the class: the matcher of the pattern [*]
    (everything matches) on "abc".  [${x#*}] must be "abc"; the loop returns "bc". *)
Definition m_star : str -> bool := fun _ => true.
Definition abc : str := [97; 98; 99]%N.

Theorem remove_smallest_prefix_refuted :
  exists m s, ~ smallest_prefix_spec m s (remove_smallest_prefix_old m s).
Proof.
  exists m_star, abc. intros H.
  assert (E : remove_smallest_prefix_old m_star abc = spec_remove_prefix true m_star abc).
  { eapply removal_spec_functional; [exact H|apply spec_remove_prefix_sound]. }
  vm_compute in E. discriminate.
Qed.

Theorem remove_smallest_suffix_refuted :
  exists m s, ~ smallest_suffix_spec m s (remove_smallest_suffix_old m s).
Proof.
  exists m_star, abc. intros H.
  assert (E : remove_smallest_suffix_old m_star abc = spec_remove_suffix true m_star abc).
  { eapply removal_spec_functional; [exact H|apply (spec_remove_suffix_sound true)]. }
  vm_compute in E. discriminate.
Qed.
