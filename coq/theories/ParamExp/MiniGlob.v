(** A deliberately tiny glob matcher (literal characters, [?], [*], backslash escapes), used
    only to run the removal model without consulting the code's matcher.  The real matcher is
    C08's subject; the removal theorems are parametric in it. *)
From BV Require Import Base.Prelude.

Inductive gtok := GLit (c : char) | GAny | GStar.

Fixpoint gparse (p : str) : list gtok :=
  match p with
  | [] => []
  | c :: p' =>
      if N.eqb c 92 then match p' with
                         | d :: p'' => GLit d :: gparse p''
                         | [] => [GLit c]
                         end
      else if N.eqb c 42 then GStar :: gparse p'
      else if N.eqb c 63 then GAny :: gparse p'
      else GLit c :: gparse p'
  end.

Fixpoint gmatch (p : list gtok) (s : str) : bool :=
  match p with
  | [] => match s with [] => true | _ => false end
  | GLit c :: p' => match s with d :: s' => N.eqb c d && gmatch p' s' | [] => false end
  | GAny :: p' => match s with _ :: s' => gmatch p' s' | [] => false end
  | GStar :: p' =>
      (fix star (s : str) : bool :=
         gmatch p' s || match s with _ :: s' => star s' | [] => false end) s
  end.

Definition mini_glob (p : str) : str -> bool := gmatch (gparse p).
